#!/bin/bash
# Build pvmodel: extract (monolithic) from the compiled Coq development, then compile with the driver.
set -e
cd "$(dirname "$0")"
mkdir -p extracted _build
( cd extracted && rm -f pvextracted.ml pvextracted.mli && coqc -Q ../../coq PV ../../coq/Extract/Extract.v >/dev/null )
cp extracted/pvextracted.ml extracted/pvextracted.mli driver.ml _build/
cd _build
ocamlfind ocamlopt -w -a -o ../pvmodel pvextracted.mli pvextracted.ml driver.ml
