#!/bin/bash
# Build an extracted model binary.  Usage: build.sh [NAME]   (default NAME=main)
#   NAME=main : coq/Extract/Extract.v        -> Extraction "pvextracted.ml" handle   -> ocaml/pvmodel
#   NAME=xyz  : coq/Extract/Extract_xyz.v    -> Extraction "pv_xyz.ml" handle        -> ocaml/pv_xyz
# The Coq development must already be compiled (make). Monolithic extraction; driver = read-line loop.
set -e
cd "$(dirname "$0")"
name="${1:-main}"
if [ "$name" = main ]; then src=Extract.v; mod=pvextracted; out=pvmodel; else src="Extract_$name.v"; mod="pv_$name"; out="pv_$name"; fi
work="_build/$name"
rm -rf "$work" && mkdir -p "$work"
( cd "$work" && coqc -Q ../../../coq PV "../../../coq/Extract/$src" >/dev/null )
M="$(echo "${mod:0:1}" | tr 'a-z' 'A-Z')${mod:1}"
sed "s/Pvextracted\.handle/$M.handle/" driver.ml > "$work/driver.ml"
( cd "$work" && ocamlfind ocamlopt -w -a -o "../../$out" "$mod.mli" "$mod.ml" driver.ml )
