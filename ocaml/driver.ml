(* pvmodel driver: one request per line on stdin, one response per line on stdout.
   All parsing, evaluation and printing is done by the extracted Coq function Pvextracted.handle. *)
let () =
  try
    while true do
      let line = input_line stdin in
      (try print_string (Pvextracted.handle line)
       with Stack_overflow -> print_string "(error \"stack overflow\")"
          | e -> print_string ("(error \"exception " ^ String.escaped (Printexc.to_string e) ^ "\")"));
      print_newline ()
    done
  with End_of_file -> ()
