(* Src/DenoteCall.v — the source semantics WITH subroutine calls (property C02):
   arguments are evaluated left to right, the body runs on an operand stack of its own with its
   parameters bound to the argument values (a by-reference parameter is bound to the slot number of the
   caller's variable), the caller gets exactly the returned value on top of what it already held, and
   every activation has its own copy of the routine's local variables (the contents of a routine's
   local slots are saved on entry and restored on exit).  Approve/Reject inside a subroutine end the
   program.  Everything else is as in Src/Denote.v (same helper combinators). *)
From Coq Require Import List Arith NArith Ascii String Bool.
From PV Require Import Base.Bytes AVM.Syntax AVM.Ops AVM.Machine AVM.Parse Src.Expr Src.Denote Comp.WideRatio.
Import ListNotations.

Record cenv : Type := mkCEnv {
  ce_env : denv;                         (* context, slot assignment, selectors *)
  ce_locals : N -> list N                (* routine id -> scratch numbers of its routine-local variables *)
}.

Definition restore_slots (old : mstate) (slots : list N) (st : mstate) : mstate :=
  fold_left (fun s n => set_scratch s n (scratch_get (s_scratch old) n)) slots st.

Definition find_routine (subs : list routine) (i : N) : option routine :=
  find (fun r => N.eqb (r_id r) i) subs.

(* the body as compileSubroutine sees it: an implicit Return is appended when the body has none *)
Definition body_with_return (r : routine) : expr :=
  if has_return (r_body r) then r_body r
  else match type_of (r_body r) with
       | TNone => ESeq [r_body r; EReturn None]
       | _ => EReturn (Some (r_body r))
       end.

Section DenoteC.
  Variable ce : cenv.
  Let env := ce_env ce.

  (* [cur]: the routine being evaluated (None = main), [args]: its argument values *)
  Fixpoint denote_c (fuel : nat) (cur : option routine) (args : list value) (e : expr)
           (stk : list value) (st : mstate) {struct fuel} : dout :=
    match fuel with
    | O => DFuel
    | S f =>
        let den := denote_c f cur args in
        let in_sub := match cur with Some _ => true | None => false end in
        match e with
        | EOp o imms _ a =>
            bind (den_list den a stk st) (fun s1 st1 => do_op env o imms s1 st1)
        | ENary o _ a =>
            match a with
            | [] => DNorm stk st
            | a1 :: rest => bind (den a1 stk st) (fun s1 st1 => den_nary_rest env den o rest s1 st1)
            end
        | ESeq es => den_list den es stk st
        | EIf c th el =>
            branch (den c stk st)
                   (fun s1 st1 => den th s1 st1)
                   (fun s1 st1 => match el with Some x => den x s1 st1 | None => DNorm s1 st1 end)
        | ECond arms => den_cond den arms stk st
        | EWhile c body => den_while den f c body stk st
        | EFor ini c stp body =>
            hdr (den ini stk st) (fun s0 st0 => den_for den f c stp body s0 st0)
        | EBreak => DBrk stk st
        | EContinue => DCont stk st
        | EAssert conds _ => den_asserts den conds stk st
        | EReturn v =>
            match v with
            | None => if in_sub then DRet stk st else match stk with r :: _ => DExit r st | [] => DFail end
            | Some x =>
                bind (den x stk st) (fun s1 st1 =>
                  if in_sub then DRet s1 st1
                  else match s1 with r :: _ => DExit r st1 | [] => DFail end)
            end
        | EExit v =>
            bind (den v stk st) (fun s1 st1 => match s1 with r :: _ => DExit r st1 | [] => DFail end)
        | EMulti o imms a outs =>
            bind (den_list den a stk st) (fun s1 st1 =>
            bind (do_op env o imms s1 st1) (fun s2 st2 => den_stores env (rev outs) s2 st2))
        | EWide ns ds =>
            bind (den_factors env den ns stk st) (fun s1 st1 =>
            bind (den_factors env den ds s1 st1) (fun s2 st2 => den_ops env combine_ops s2 st2))
        | EParam i =>
            match nth_N args i with
            | Some v => DNorm (v :: stk) st
            | None => DFail
            end
        | ECall sub _ a =>
            bind (den_list den a stk st) (fun s1 st1 =>
              match find_routine (e_subs env) sub with
              | None => DUnsup O_callsub
              | Some r =>
                  let n := List.length (r_params r) in
                  if Nat.ltb (List.length s1) n then DFail
                  else
                    let argv := rev (firstn n s1) in
                    let rest := skipn n s1 in
                    let locals := ce_locals ce (r_id r) in
                    match denote_c f (Some r) argv (body_with_return r) [] st1 with
                    | DRet s' st' =>
                        let st'' := restore_slots st1 locals st' in
                        match r_ret r with
                        | TNone => DNorm rest st''
                        | _ => match s' with v :: _ => DNorm (v :: rest) st'' | [] => DFail end
                        end
                    | DExit v st' => DExit v st'
                    | DNorm _ _ | DBrk _ _ | DCont _ _ | DEnd _ _ => DFail
                    | DFail => DFail
                    | DFuel => DFuel
                    | DUnsup o => DUnsup o
                    end
              end)
        end
    end.
End DenoteC.

Definition run_main_c (ce : cenv) (fuel : nat) (main : expr) (st : mstate) : dverdict * mstate :=
  match denote_c ce fuel None [] (with_implicit_return main) [] st with
  | DExit (VI n) st' => (if N.eqb n 0 then DVReject else DVApprove, st')
  | DExit (VB _) _ => (DVFail, st)
  | DNorm _ st' => (DVFail, st')
  | DBrk _ st' | DCont _ st' | DRet _ st' | DEnd _ st' => (DVFail, st')
  | DFail => (DVFail, st)
  | DFuel => (DVFuel, st)
  | DUnsup o => (DVUnsup o, st)
  end.
