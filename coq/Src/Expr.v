(* Src/Expr.v — the recipe language: a deep embedding of PyTeal's public constructor surface.
   One constructor per *lowering shape*; which PyTeal constructor a recipe node stands for is decided
   by the harness builder (harness/build.py) from (opcode, immediates, arity). *)
From Coq Require Import List NArith String Bool.
From PV Require Import Base.Bytes AVM.Syntax.
Import ListNotations.

Inductive ty : Type := TUint | TBytes | TAny | TNone.

Definition ty_eqb (a b : ty) : bool :=
  match a, b with
  | TUint, TUint | TBytes, TBytes | TAny, TAny | TNone, TNone => true
  | _, _ => false
  end.

(* pyteal.types.types_match *)
Definition types_match (a b : ty) : bool :=
  match a, b with
  | TNone, TNone => true
  | TNone, _ | _, TNone => false
  | TAny, _ | _, TAny => true
  | _, _ => ty_eqb a b
  end.

Inductive expr : Type :=
(* TealBlock.FromOp(op imms, args...): leaves (Int, Bytes, Txn.x, Global.x, Arg, Addr, load, ...),
   unary/binary/ternary expressions, stores, Pop, Log, App.*, InnerTxn*, ...; [t] = declared type_of *)
| EOp (o : opc) (imms : list arg) (t : ty) (args : list expr)
(* NaryExpr: a1 a2 op a3 op ... *)
| ENary (o : opc) (t : ty) (args : list expr)
| ESeq (es : list expr)
| EIf (c : expr) (th : expr) (el : option expr)
| ECond (arms : list (expr * expr))
| EWhile (c body : expr)
| EFor (ini c step body : expr)
| EBreak
| EContinue
| EAssert (conds : list expr) (comment : option (list string))   (* comment already split into lines *)
| EReturn (v : option expr)
| EExit (v : expr)                                               (* ExitProgram / Approve / Reject *)
(* MultiValue / MaybeValue: op with args, then one stack-store per output slot, in REVERSE order *)
| EMulti (o : opc) (imms : list arg) (args : list expr) (outs : list N)
(* SubroutineCall: arguments already converted to expressions (ScratchVar -> index, ABI -> load) *)
| ECall (sub : N) (t : ty) (args : list expr)
| EWide (ns ds : list expr)
(* the i-th parameter of the enclosing subroutine (by value: the argument's value; by reference: the
   slot number that was passed) *)
| EParam (i : N).

(* A subroutine as the compiler sees it after SubroutineEval: its declaration body per calling
   convention is supplied by the harness (read back from the evaluated declaration), since the body
   is the result of running user Python code. *)
Record routine : Type := mkRoutine {
  r_id : N;
  r_name : string;
  r_ret : ty;                       (* SubroutineDefinition.return_type *)
  r_params : list (bool * N);       (* per parameter: by-reference (ScratchVar)?, uid of its argument slot
                                       (scratch convention, and by-reference parameters in both conventions) *)
  r_body : expr;                    (* the user's body; parameters occur as EParam i *)
  r_deferred : option expr          (* deferred_expr inserted before every retsub (ABI output only) *)
}.

Definition r_nargs (r : routine) : N := N.of_nat (List.length (r_params r)).
Definition r_byref (r : routine) : bool := existsb fst (r_params r).

Record prog : Type := mkProgram {
  p_main : expr;
  p_subs : list routine;
  (* slot objects: uid -> (id, isReservedSlot). Automatic slots have uid = id >= 256. *)
  p_slots : list (N * (N * bool))
}.

(* ---- type_of / has_return exactly as the Python classes compute them ---- *)
Fixpoint type_of (e : expr) : ty :=
  match e with
  | EOp _ _ t _ => t
  | ENary _ t _ => t
  | ESeq es => (fix last (l : list expr) : ty :=
                  match l with [] => TNone | [x] => type_of x | _ :: t => last t end) es
  | EIf _ th None => type_of th
  | EIf _ th (Some el) =>
      (* If.type_of (since the repair "If compares the types of arms attached through ElseIf" and its follow-up): both arms have
         the same type, or one of them is anytype and then the expression is anytype *)
      let a := type_of th in let b := type_of el in
      if ty_eqb a b then a else TAny
  | ECond arms => match arms with (_, v) :: _ => type_of v | [] => TNone end
  | EWhile _ _ | EFor _ _ _ _ | EBreak | EContinue | EAssert _ _ | EReturn _ | EExit _ => TNone
  | EMulti _ _ _ _ => TNone
  | ECall _ t _ => t
  | EWide _ _ => TUint
  | EParam _ => TAny
  end.

Fixpoint has_return (e : expr) : bool :=
  match e with
  | EReturn _ | EExit _ => true
  | ESeq es => (fix last (l : list expr) : bool :=
                  match l with [] => false | [x] => has_return x | _ :: t => last t end) es
  | EIf _ th (Some el) => has_return th && has_return el
  | EIf _ _ None => false
  | ECond arms => forallb (fun a => has_return (snd a)) arms
  | _ => false
  end.
