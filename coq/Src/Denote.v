(* Src/Denote.v — what a PyTeal expression tree MEANS: a fuelled big-step evaluator over recipes.
   Non-control operations use the same [exec_op] as the AVM (so compiler-correctness statements are
   parametric in the op semantics); control constructs have their source-level meaning:
   operands left to right exactly once, only the selected branch/iterations run, Break/Continue
   leave the loop body, Return/Exit leave the routine/program. *)
From Coq Require Import List Arith NArith Ascii String Bool.
From PV Require Import Base.Bytes AVM.Syntax AVM.Ops AVM.Machine AVM.Parse Src.Expr Comp.WideRatio.
Import ListNotations.

Inductive dout : Type :=
| DNorm (stk : list value) (st : mstate)      (* evaluation finished; result (if any) pushed on stk *)
| DBrk (st : mstate)
| DCont (st : mstate)
| DRet (v : option value) (st : mstate)       (* Return inside a subroutine *)
| DExit (v : value) (st : mstate)             (* return op of the main routine / ExitProgram *)
| DFail
| DFuel
| DUnsup (o : opc).

(* environment: slot uid -> assigned scratch number; method selectors; routines *)
Record denv : Type := mkEnv {
  e_ctx : ctx;
  e_asg : N -> N;
  e_msel : list (string * bytes);
  e_subs : list routine;
  e_in_sub : bool
}.

Definition arg_to_imm (env : denv) (o : opc) (a : arg) : option imm :=
  match a with
  | AInt n => Some (IInt n)
  | ASlot u => Some (IInt (e_asg env u))
  | ALbl l => Some (IName l)
  | ASub _ => None
  | AStr s =>
      match o with
      | O_byte | O_pushbytes =>
          match parse_bytes_arg (tokens_of_line s) with Some (b, []) => Some (IBytes b) | _ => None end
      | O_int | O_pushint => option_map IInt (parse_int_arg s)
      | O_addr => match decode_base32 s with Some b => Some (IBytes (firstn 32 b)) | None => None end
      | O_method_signature =>
          match parse_string_literal s with
          | Some sig => option_map IBytes (alookup String.eqb (string_of_bytes sig) (e_msel env))
          | None => None
          end
      | _ => Some (IName s)
      end
  end.

Fixpoint args_to_imms (env : denv) (o : opc) (l : list arg) : option (list imm) :=
  match l with
  | [] => Some []
  | a :: t => match arg_to_imm env o a, args_to_imms env o t with Some x, Some r => Some (x :: r) | _, _ => None end
  end.

Definition do_op (env : denv) (o : opc) (imms : list arg) (stk : list value) (st : mstate) : dout :=
  match o, imms, stk with
  (* a variable is a cell of its own: no range check on the (model-assigned) number *)
  | O_load, [ASlot u], _ => DNorm (scratch_get (s_scratch st) (e_asg env u) :: stk) st
  | O_store, [ASlot u], v :: r => DNorm r (set_scratch st (e_asg env u) v)
  | O_store, [ASlot u], [] => DFail
  | _, _, _ =>
  match args_to_imms env o imms with
  | None => DUnsup o
  | Some im =>
      match exec_op (e_ctx env) o im stk st with
      | OOk s st' => DNorm s st'
      | OFail => DFail
      | ONot => match o with O_err => DFail | _ => DUnsup o end
      | OUnsup => DUnsup o
      end
  end
  end.

Definition truthy (v : value) : option bool :=
  match v with VI n => Some (negb (N.eqb n 0)) | VB _ => None end.

Section Denote.
  Variable env : denv.

  Fixpoint denote (fuel : nat) (e : expr) (stk : list value) (st : mstate) {struct fuel} : dout :=
    match fuel with
    | O => DFuel
    | S f =>
        let den := denote f in
        (* evaluate a list left to right, threading stack and state *)
        let den_list :=
          (fix go (l : list expr) (stk : list value) (st : mstate) : dout :=
             match l with
             | [] => DNorm stk st
             | x :: t => match den x stk st with DNorm s1 st1 => go t s1 st1 | other => other end
             end) in
        match e with
        | EOp o imms _ args =>
            match den_list args stk st with
            | DNorm s1 st1 => do_op env o imms s1 st1
            | other => other
            end
        | ENary o _ args =>
            match args with
            | [] => DNorm stk st
            | a1 :: rest =>
                match den a1 stk st with
                | DNorm s1 st1 =>
                    (fix go (l : list expr) (stk : list value) (st : mstate) : dout :=
                       match l with
                       | [] => DNorm stk st
                       | x :: t =>
                           match den x stk st with
                           | DNorm s2 st2 =>
                               match do_op env o [] s2 st2 with
                               | DNorm s3 st3 => go t s3 st3
                               | other => other
                               end
                           | other => other
                           end
                       end) rest s1 st1
                | other => other
                end
            end
        | ESeq es => den_list es stk st
        | EIf c th el =>
            match den c stk st with
            | DNorm (v :: s1) st1 =>
                match truthy v with
                | Some true => den th s1 st1
                | Some false => match el with Some x => den x s1 st1 | None => DNorm s1 st1 end
                | None => DFail
                end
            | DNorm [] _ => DFail
            | other => other
            end
        | ECond arms =>
            (fix go (l : list (expr * expr)) (st : mstate) : dout :=
               match l with
               | [] => DFail                           (* no arm selected: err *)
               | (c, v) :: t =>
                   match den c stk st with
                   | DNorm (x :: s1) st1 =>
                       match truthy x with
                       | Some true => den v s1 st1
                       | Some false => go t st1
                       | None => DFail
                       end
                   | DNorm [] _ => DFail
                   | other => other
                   end
               end) arms st
        | EWhile c body =>
            match den c stk st with
            | DNorm (x :: s1) st1 =>
                match truthy x with
                | Some false => DNorm s1 st1
                | Some true =>
                    match den body s1 st1 with
                    | DNorm s2 st2 => den (EWhile c body) s2 st2
                    | DCont st2 => den (EWhile c body) stk st2
                    | DBrk st2 => DNorm stk st2
                    | other => other
                    end
                | None => DFail
                end
            | DNorm [] _ => DFail
            | other => other
            end
        | EFor ini c stp body =>
            (* For(i, c, s).Do(b) = i; while c: b; s  (Continue jumps to s) *)
            let loop :=
              (fix go (n : nat) (stk : list value) (st : mstate) : dout :=
                 match n with
                 | O => DFuel
                 | S k =>
                     match den c stk st with
                     | DNorm (x :: s1) st1 =>
                         match truthy x with
                         | Some false => DNorm s1 st1
                         | Some true =>
                             let after_body (s2 : list value) (st2 : mstate) :=
                               match den stp s2 st2 with
                               | DNorm s3 st3 => go k s3 st3
                               | DBrk st3 => DNorm stk st3
                               | other => other
                               end in
                             match den body s1 st1 with
                             | DNorm s2 st2 => after_body s2 st2
                             | DCont st2 => after_body stk st2
                             | DBrk st2 => DNorm stk st2
                             | other => other
                             end
                         | None => DFail
                         end
                     | DNorm [] _ => DFail
                     | DBrk st1 => DNorm stk st1
                     | other => other
                     end
                 end) in
            match den ini stk st with
            | DNorm s0 st0 => loop f s0 st0
            | DBrk st0 => DNorm stk st0
            | other => other
            end
        | EBreak => DBrk st
        | EContinue => DCont st
        | EAssert conds _ =>
            (fix go (l : list expr) (stk : list value) (st : mstate) : dout :=
               match l with
               | [] => DNorm stk st
               | c :: t =>
                   match den c stk st with
                   | DNorm (x :: s1) st1 =>
                       match truthy x with
                       | Some true => go t s1 st1
                       | Some false => DFail
                       | None => DFail
                       end
                   | DNorm [] _ => DFail
                   | other => other
                   end
               end) conds stk st
        | EReturn v =>
            match v with
            | None => if e_in_sub env then DRet None st else DFail
            | Some x =>
                match den x stk st with
                | DNorm (r :: _) st1 => if e_in_sub env then DRet (Some r) st1 else DExit r st1
                | DNorm [] _ => DFail
                | other => other
                end
            end
        | EExit v =>
            match den v stk st with
            | DNorm (r :: _) st1 => DExit r st1
            | DNorm [] _ => DFail
            | other => other
            end
        | EMulti o imms args outs =>
            match den_list args stk st with
            | DNorm s1 st1 =>
                match do_op env o imms s1 st1 with
                | DNorm s2 st2 =>
                    (* results are on the stack, last output on top: store them into their slots *)
                    (fix go (l : list N) (stk : list value) (st : mstate) : dout :=
                       match l with
                       | [] => DNorm stk st
                       | s :: t =>
                           match do_op env O_store [ASlot s] stk st with
                           | DNorm s' st' => go t s' st'
                           | other => other
                           end
                       end) (rev outs) s2 st2
                | other => other
                end
            | other => other
            end
        | ECall _ _ _ => DUnsup O_callsub        (* subroutine calls: Src/DenoteCall.v *)
        | EWide ns ds =>
            (* exact quotient of the two products, or failure (property C16 is the lowering's proof) *)
            match den_list ns stk st with
            | DNorm s1 st1 =>
                match den_list ds s1 st1 with
                | DNorm s2 st2 =>
                    let nn := List.length ns in
                    let nd := List.length ds in
                    let dvals := rev (firstn nd s2) in
                    let nvals := rev (firstn nn (skipn nd s2)) in
                    let rest := skipn (nn + nd) s2 in
                    let as_n := fun v => match v with VI n => Some n | VB _ => None end in
                    match (fix all (l : list value) : option (list N) :=
                             match l with [] => Some [] | v :: t => match as_n v, all t with Some n, Some r => Some (n :: r) | _, _ => None end end) nvals,
                          (fix all (l : list value) : option (list N) :=
                             match l with [] => Some [] | v :: t => match as_n v, all t with Some n, Some r => Some (n :: r) | _, _ => None end end) dvals with
                    | Some nsv, Some dsv =>
                        match wide_ratio_spec nsv dsv with
                        | Some q => DNorm (VI q :: rest) st2
                        | None => DFail
                        end
                    | _, _ => DFail
                    end
                | other => other
                end
            | other => other
            end
        end
    end.
End Denote.

(* program-level verdict *)
Inductive dverdict : Type :=
| DVApprove | DVReject | DVFail | DVFuel | DVUnsup (o : opc).

Definition run_main (env : denv) (fuel : nat) (main : expr) (st : mstate) : dverdict * mstate :=
  (* compileSubroutine's implicit Return *)
  let ast := if has_return main then main
             else match type_of main with
                  | TNone => ESeq [main; EReturn None]
                  | _ => EReturn (Some main)
                  end in
  match denote env fuel ast [] st with
  | DExit (VI n) st' => (if N.eqb n 0 then DVReject else DVApprove, st')
  | DExit (VB _) _ => (DVFail, st)
  | DNorm _ st' => (DVFail, st')          (* fell off the end: cannot happen for routines with a Return *)
  | DBrk st' | DCont st' | DRet _ st' => (DVFail, st')
  | DFail => (DVFail, st)
  | DFuel => (DVFuel, st)
  | DUnsup o => (DVUnsup o, st)
  end.
