(* Src/Denote.v — what a PyTeal expression tree MEANS: a fuelled big-step evaluator over recipes.
   Non-control operations use the same [exec_op] as the AVM (so compiler-correctness statements are
   parametric in the op semantics); control constructs have their source-level meaning:
   operands left to right exactly once, only the selected branch/iterations run, Break/Continue
   leave the loop body, Return/Exit leave the routine/program.
   The evaluator threads the operand stack explicitly and control outcomes carry the stack at the
   point of the transfer: for programs that keep statement discipline (Proofs/Discipline.v) that stack
   is the one the enclosing loop / routine started with. *)
From Coq Require Import List Arith NArith Ascii String Bool.
From PV Require Import Base.Bytes AVM.Syntax AVM.Ops AVM.Machine AVM.Parse Src.Expr Comp.WideRatio.
Import ListNotations.

Inductive dout : Type :=
| DNorm (stk : list value) (st : mstate)      (* evaluation finished; result (if any) pushed on stk *)
| DBrk (stk : list value) (st : mstate)
| DCont (stk : list value) (st : mstate)
| DRet (stk : list value) (st : mstate)       (* retsub: the whole operand stack goes back to the caller *)
| DExit (v : value) (st : mstate)             (* return op of the main routine / ExitProgram *)
| DEnd (stk : list value) (st : mstate)       (* control fell off the end of the routine (only via a Continue in a loop header) *)
| DFail
| DFuel
| DUnsup (o : opc).

(* environment: slot uid -> assigned scratch number; method selectors; routines *)
Record denv : Type := mkEnv {
  e_ctx : ctx;
  e_asg : N -> N;
  e_msel : list (string * bytes);
  e_subs : list routine;
  e_in_sub : bool;
  e_param : N -> instr              (* how parameter i is loaded in the current routine *)
}.

Definition arg_to_imm (env : denv) (o : opc) (a : arg) : option imm :=
  match a with
  | AInt n => Some (IInt n)
  | ASlot u => Some (IInt (e_asg env u))
  | ALbl l => Some (IName l)
  | ASub _ => None
  | AStr s =>
      match o with
      | O_byte | O_pushbytes =>
          match parse_bytes_arg (tokens_of_line s) with Some (b, []) => Some (IBytes b) | _ => None end
      | O_int | O_pushint => option_map IInt (parse_int_arg s)
      | O_addr => match decode_base32 s with Some b => Some (IBytes (firstn 32 b)) | None => None end
      | O_method_signature =>
          match parse_string_literal s with
          | Some sig => option_map IBytes (alookup String.eqb (string_of_bytes sig) (e_msel env))
          | None => None
          end
      | _ => Some (IName s)
      end
  end.

Fixpoint args_to_imms (env : denv) (o : opc) (l : list arg) : option (list imm) :=
  match l with
  | [] => Some []
  | a :: t => match arg_to_imm env o a, args_to_imms env o t with Some x, Some r => Some (x :: r) | _, _ => None end
  end.

Definition is_load (o : opc) : bool := match o with O_load => true | _ => false end.
Definition is_store (o : opc) : bool := match o with O_store => true | _ => false end.
Definition is_err (o : opc) : bool := match o with O_err => true | _ => false end.
Definition is_return (o : opc) : bool := match o with O_return_ => true | _ => false end.
Definition is_retsub (o : opc) : bool := match o with O_retsub => true | _ => false end.

(* direct access to a variable (a slot object): Some (true, u) = load, Some (false, u) = store *)
Definition slot_access (o : opc) (imms : list arg) : option (bool * N) :=
  match imms with
  | [ASlot u] => if is_load o then Some (true, u) else if is_store o then Some (false, u) else None
  | _ => None
  end.

(* one non-control operation; shared by the source semantics and the graph/linear semantics *)
Definition do_op (env : denv) (o : opc) (imms : list arg) (stk : list value) (st : mstate) : dout :=
  match slot_access o imms with
  (* a variable is a cell of its own: no range check on the (model-assigned) number *)
  | Some (true, u) => DNorm (scratch_get (s_scratch st) (e_asg env u) :: stk) st
  | Some (false, u) =>
      match stk with
      | v :: r => DNorm r (set_scratch st (e_asg env u) v)
      | [] => DFail
      end
  | None =>
      match args_to_imms env o imms with
      | None => DUnsup o
      | Some im =>
          match exec_op (e_ctx env) o im stk st with
          | OOk s st' => DNorm s st'
          | OFail => DFail
          | ONot => if is_err o then DFail else DUnsup o
          | OUnsup => DUnsup o
          end
      end
  end.

Definition truthy (v : value) : option bool :=
  match v with VI n => Some (negb (N.eqb n 0)) | VB _ => None end.

(* pop a condition value and select *)
Definition branch (r : dout) (yes no : list value -> mstate -> dout) : dout :=
  match r with
  | DNorm (v :: s1) st1 =>
      match truthy v with
      | Some true => yes s1 st1
      | Some false => no s1 st1
      | None => DFail
      end
  | DNorm [] _ => DFail
  | other => other
  end.

(* sequencing: continue with f when the first part finished normally *)
Definition bind (r : dout) (f : list value -> mstate -> dout) : dout :=
  match r with DNorm s st => f s st | other => other end.

Section Helpers.
  Variable env : denv.
  Variable den : expr -> list value -> mstate -> dout.

  (* a list left to right, threading stack and state *)
  Fixpoint den_list (l : list expr) (stk : list value) (st : mstate) : dout :=
    match l with
    | [] => DNorm stk st
    | x :: t => bind (den x stk st) (fun s1 st1 => den_list t s1 st1)
    end.

  Fixpoint den_nary_rest (o : opc) (l : list expr) (stk : list value) (st : mstate) : dout :=
    match l with
    | [] => DNorm stk st
    | x :: t =>
        bind (den x stk st) (fun s2 st2 =>
        bind (do_op env o [] s2 st2) (fun s3 st3 => den_nary_rest o t s3 st3))
    end.

  Fixpoint den_cond (l : list (expr * expr)) (stk : list value) (st : mstate) : dout :=
    match l with
    | [] => DFail                           (* no arm selected: err *)
    | (c, v) :: t => branch (den c stk st) (fun s1 st1 => den v s1 st1) (fun s1 st1 => den_cond t s1 st1)
    end.

  Fixpoint den_asserts (l : list expr) (stk : list value) (st : mstate) : dout :=
    match l with
    | [] => DNorm stk st
    | c :: t => branch (den c stk st) (fun s1 st1 => den_asserts t s1 st1) (fun _ _ => DFail)
    end.

  Fixpoint den_stores (l : list N) (stk : list value) (st : mstate) : dout :=
    match l with
    | [] => DNorm stk st
    | s :: t => bind (do_op env O_store [ASlot s] stk st) (fun s' st' => den_stores t s' st')
    end.

  (* a fixed list of plain operations *)
  Fixpoint den_ops (ops : list instr) (stk : list value) (st : mstate) : dout :=
    match ops with
    | [] => DNorm stk st
    | i :: t => bind (do_op env (i_op i) (i_args i) stk st) (fun s' st' => den_ops t s' st')
    end.

  (* WideRatio: factors are evaluated left to right, the 128-bit running product being updated after
     each one by the op sequence of widemath.py (what that sequence computes is theorem C16) *)
  Fixpoint den_wide_rest (l : list expr) (stk : list value) (st : mstate) : dout :=
    match l with
    | [] => DNorm stk st
    | f :: t =>
        bind (den f stk st) (fun s1 st1 =>
        bind (den_ops mul_step_ops s1 st1) (fun s2 st2 => den_wide_rest t s2 st2))
    end.

  Definition den_factors (fs : list expr) (stk : list value) (st : mstate) : dout :=
    match fs with
    | [] => DNorm stk st
    | [f0] => bind (den_ops [I1 O_int 0] stk st) (fun s1 st1 => den f0 s1 st1)
    | f0 :: f1 :: rest =>
        bind (den f0 stk st) (fun s1 st1 =>
        bind (den f1 s1 st1) (fun s2 st2 =>
        bind (den_ops [I0 O_mulw] s2 st2) (fun s3 st3 => den_wide_rest rest s3 st3)))
    end.

  (* what the loop does with the outcome of its body (While) or of body-then-step (For) *)
  Definition after_body (r : dout) (again : list value -> mstate -> dout) : dout :=
    match r with
    | DNorm s2 st2 => again s2 st2
    | DCont s2 st2 => again s2 st2
    | DBrk s2 st2 => DNorm s2 st2
    | other => other
    end.

  (* For's init and step expressions sit in the loop header: Break leaves the loop; Continue has no target
     in the model (PyTeal wires it to the header under construction; such programs are reported Unsupported) *)
  Definition hdr (r : dout) (again : list value -> mstate -> dout) : dout :=
    match r with
    | DNorm s st => again s st
    | DBrk s st => DNorm s st
    | DCont s st => DEnd s st
    | other => other
    end.

  (* While(c).Do(b): n bounds the number of iterations *)
  Fixpoint den_while (n : nat) (c body : expr) (stk : list value) (st : mstate) : dout :=
    match n with
    | O => DFuel
    | S k =>
        match den c stk st with
        | DBrk s st' => DNorm s st'
        | DCont s st' => DEnd s st'
        | r =>
            branch r
                   (fun s1 st1 => after_body (den body s1 st1) (fun s2 st2 => den_while k c body s2 st2))
                   (fun s1 st1 => DNorm s1 st1)
        end
    end.

  (* the loop of For(i, c, s).Do(b) after i: Continue goes to s *)
  Fixpoint den_for (n : nat) (c stp body : expr) (stk : list value) (st : mstate) : dout :=
    match n with
    | O => DFuel
    | S k =>
        match den c stk st with
        | DBrk s st' => DNorm s st'
        | DCont s st' => DEnd s st'
        | r =>
            branch r
                   (fun s1 st1 =>
                      after_body (den body s1 st1)
                                 (fun s2 st2 => hdr (den stp s2 st2) (fun s3 st3 => den_for k c stp body s3 st3)))
                   (fun s1 st1 => DNorm s1 st1)
        end
    end.
End Helpers.

Section Denote.
  Variable env : denv.

  Fixpoint denote (fuel : nat) (e : expr) (stk : list value) (st : mstate) {struct fuel} : dout :=
    match fuel with
    | O => DFuel
    | S f =>
        let den := denote f in
        match e with
        | EOp o imms _ args =>
            bind (den_list den args stk st) (fun s1 st1 => do_op env o imms s1 st1)
        | ENary o _ args =>
            match args with
            | [] => DNorm stk st
            | a1 :: rest => bind (den a1 stk st) (fun s1 st1 => den_nary_rest env den o rest s1 st1)
            end
        | ESeq es => den_list den es stk st
        | EIf c th el =>
            branch (den c stk st)
                   (fun s1 st1 => den th s1 st1)
                   (fun s1 st1 => match el with Some x => den x s1 st1 | None => DNorm s1 st1 end)
        | ECond arms => den_cond den arms stk st
        | EWhile c body => den_while den f c body stk st
        | EFor ini c stp body =>
            hdr (den ini stk st) (fun s0 st0 => den_for den f c stp body s0 st0)
        | EBreak => DBrk stk st
        | EContinue => DCont stk st
        | EAssert conds _ => den_asserts den conds stk st
        | EReturn v =>
            match v with
            | None =>
                (* Return() without a value is rejected in the main routine (check_expr); kept total *)
                if e_in_sub env then DRet stk st else match stk with r :: _ => DExit r st | [] => DFail end
            | Some x =>
                bind (den x stk st) (fun s1 st1 =>
                  if e_in_sub env then DRet s1 st1
                  else match s1 with r :: _ => DExit r st1 | [] => DFail end)
            end
        | EExit v =>
            bind (den v stk st) (fun s1 st1 => match s1 with r :: _ => DExit r st1 | [] => DFail end)
        | EMulti o imms args outs =>
            bind (den_list den args stk st) (fun s1 st1 =>
            bind (do_op env o imms s1 st1) (fun s2 st2 => den_stores env (rev outs) s2 st2))
        | ECall _ _ _ => DUnsup O_callsub        (* subroutine calls: handled by the call-aware evaluator *)
        | EWide ns ds =>
            bind (den_factors env den ns stk st) (fun s1 st1 =>
            bind (den_factors env den ds s1 st1) (fun s2 st2 => den_ops env combine_ops s2 st2))
        | EParam i => do_op env (i_op (e_param env i)) (i_args (e_param env i)) stk st
        end
    end.
End Denote.

(* program-level verdict *)
Inductive dverdict : Type :=
| DVApprove | DVReject | DVFail | DVFuel | DVUnsup (o : opc).

Definition with_implicit_return (main : expr) : expr :=
  (* compileSubroutine's implicit Return *)
  if has_return main then main
  else match type_of main with
       | TNone => ESeq [main; EReturn None]
       | _ => EReturn (Some main)
       end.

Definition run_main (env : denv) (fuel : nat) (main : expr) (st : mstate) : dverdict * mstate :=
  match denote env fuel (with_implicit_return main) [] st with
  | DExit (VI n) st' => (if N.eqb n 0 then DVReject else DVApprove, st')
  | DExit (VB _) _ => (DVFail, st)
  | DNorm _ st' => (DVFail, st')          (* fell off the end: cannot happen for routines with a Return *)
  | DBrk _ st' | DCont _ st' | DRet _ st' | DEnd _ st' => (DVFail, st')
  | DFail => (DVFail, st)
  | DFuel => (DVFuel, st)
  | DUnsup o => (DVUnsup o, st)
  end.
