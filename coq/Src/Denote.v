(* Src/Denote.v — what a PyTeal expression tree MEANS: a fuelled big-step evaluator over recipes.
   Non-control operations use the same [exec_op] as the AVM (so compiler-correctness statements are
   parametric in the op semantics); control constructs have their source-level meaning:
   operands left to right exactly once, only the selected branch/iterations run, Break/Continue
   leave the loop body, Return/Exit leave the routine/program.
   The evaluator threads the operand stack explicitly and control outcomes carry the stack at the
   point of the transfer: for programs that keep statement discipline (Proofs/Discipline.v) that stack
   is the one the enclosing loop / routine started with. *)
From Coq Require Import List Arith NArith Ascii String Bool.
From PV Require Import Base.Bytes AVM.Syntax AVM.Ops AVM.Machine AVM.Parse Src.Expr Comp.WideRatio.
Import ListNotations.

Inductive dout : Type :=
| DNorm (stk : list value) (st : mstate)      (* evaluation finished; result (if any) pushed on stk *)
| DBrk (stk : list value) (st : mstate)
| DCont (stk : list value) (st : mstate)
| DRet (stk : list value) (st : mstate)       (* retsub: the whole operand stack goes back to the caller *)
| DExit (v : value) (st : mstate)             (* return op of the main routine / ExitProgram *)
| DFail
| DFuel
| DUnsup (o : opc).

(* environment: slot uid -> assigned scratch number; method selectors; routines *)
Record denv : Type := mkEnv {
  e_ctx : ctx;
  e_asg : N -> N;
  e_msel : list (string * bytes);
  e_subs : list routine;
  e_in_sub : bool
}.

Definition arg_to_imm (env : denv) (o : opc) (a : arg) : option imm :=
  match a with
  | AInt n => Some (IInt n)
  | ASlot u => Some (IInt (e_asg env u))
  | ALbl l => Some (IName l)
  | ASub _ => None
  | AStr s =>
      match o with
      | O_byte | O_pushbytes =>
          match parse_bytes_arg (tokens_of_line s) with Some (b, []) => Some (IBytes b) | _ => None end
      | O_int | O_pushint => option_map IInt (parse_int_arg s)
      | O_addr => match decode_base32 s with Some b => Some (IBytes (firstn 32 b)) | None => None end
      | O_method_signature =>
          match parse_string_literal s with
          | Some sig => option_map IBytes (alookup String.eqb (string_of_bytes sig) (e_msel env))
          | None => None
          end
      | _ => Some (IName s)
      end
  end.

Fixpoint args_to_imms (env : denv) (o : opc) (l : list arg) : option (list imm) :=
  match l with
  | [] => Some []
  | a :: t => match arg_to_imm env o a, args_to_imms env o t with Some x, Some r => Some (x :: r) | _, _ => None end
  end.

(* one non-control operation; shared by the source semantics and the graph/linear semantics *)
Definition do_op (env : denv) (o : opc) (imms : list arg) (stk : list value) (st : mstate) : dout :=
  match o, imms, stk with
  (* a variable is a cell of its own: no range check on the (model-assigned) number *)
  | O_load, [ASlot u], _ => DNorm (scratch_get (s_scratch st) (e_asg env u) :: stk) st
  | O_store, [ASlot u], v :: r => DNorm r (set_scratch st (e_asg env u) v)
  | O_store, [ASlot u], [] => DFail
  | _, _, _ =>
      match args_to_imms env o imms with
      | None => DUnsup o
      | Some im =>
          match exec_op (e_ctx env) o im stk st with
          | OOk s st' => DNorm s st'
          | OFail => DFail
          | ONot => match o with O_err => DFail | _ => DUnsup o end
          | OUnsup => DUnsup o
          end
      end
  end.

Definition truthy (v : value) : option bool :=
  match v with VI n => Some (negb (N.eqb n 0)) | VB _ => None end.

(* pop a condition value and select *)
Definition branch (r : dout) (yes no : list value -> mstate -> dout) : dout :=
  match r with
  | DNorm (v :: s1) st1 =>
      match truthy v with
      | Some true => yes s1 st1
      | Some false => no s1 st1
      | None => DFail
      end
  | DNorm [] _ => DFail
  | other => other
  end.

(* a Break evaluated inside a loop header leaves the loop *)
Definition loop_head (r : dout) : dout :=
  match r with DBrk s st => DNorm s st | other => other end.

Definition as_uints (l : list value) : option (list N) :=
  fold_right (fun v acc => match v, acc with VI n, Some r => Some (n :: r) | _, _ => None end) (Some []) l.

Section Helpers.
  Variable env : denv.
  Variable den : expr -> list value -> mstate -> dout.

  (* a list left to right, threading stack and state *)
  Fixpoint den_list (l : list expr) (stk : list value) (st : mstate) : dout :=
    match l with
    | [] => DNorm stk st
    | x :: t => match den x stk st with DNorm s1 st1 => den_list t s1 st1 | other => other end
    end.

  Fixpoint den_nary_rest (o : opc) (l : list expr) (stk : list value) (st : mstate) : dout :=
    match l with
    | [] => DNorm stk st
    | x :: t =>
        match den x stk st with
        | DNorm s2 st2 =>
            match do_op env o [] s2 st2 with
            | DNorm s3 st3 => den_nary_rest o t s3 st3
            | other => other
            end
        | other => other
        end
    end.

  Fixpoint den_cond (l : list (expr * expr)) (stk : list value) (st : mstate) : dout :=
    match l with
    | [] => DFail                           (* no arm selected: err *)
    | (c, v) :: t => branch (den c stk st) (fun s1 st1 => den v s1 st1) (fun s1 st1 => den_cond t s1 st1)
    end.

  Fixpoint den_asserts (l : list expr) (stk : list value) (st : mstate) : dout :=
    match l with
    | [] => DNorm stk st
    | c :: t => branch (den c stk st) (fun s1 st1 => den_asserts t s1 st1) (fun _ _ => DFail)
    end.

  Fixpoint den_stores (l : list N) (stk : list value) (st : mstate) : dout :=
    match l with
    | [] => DNorm stk st
    | s :: t =>
        match do_op env O_store [ASlot s] stk st with
        | DNorm s' st' => den_stores t s' st'
        | other => other
        end
    end.

  (* While(c).Do(b): n bounds the number of iterations *)
  Fixpoint den_while (n : nat) (c body : expr) (stk : list value) (st : mstate) : dout :=
    match n with
    | O => DFuel
    | S k =>
        match den c stk st with
        | DBrk s st' => DNorm s st'
        | r =>
            branch r
                   (fun s1 st1 =>
                      match den body s1 st1 with
                      | DNorm s2 st2 => den_while k c body s2 st2
                      | DCont s2 st2 => den_while k c body s2 st2
                      | DBrk s2 st2 => DNorm s2 st2
                      | other => other
                      end)
                   (fun s1 st1 => DNorm s1 st1)
        end
    end.

  (* the loop of For(i, c, s).Do(b) after i: Continue goes to s *)
  Fixpoint den_for (n : nat) (c stp body : expr) (stk : list value) (st : mstate) : dout :=
    match n with
    | O => DFuel
    | S k =>
        match den c stk st with
        | DBrk s st' => DNorm s st'
        | r =>
            branch r
                   (fun s1 st1 =>
                      let after (s2 : list value) (st2 : mstate) :=
                        match den stp s2 st2 with
                        | DNorm s3 st3 => den_for k c stp body s3 st3
                        | DBrk s3 st3 => DNorm s3 st3
                        | other => other
                        end in
                      match den body s1 st1 with
                      | DNorm s2 st2 => after s2 st2
                      | DCont s2 st2 => after s2 st2
                      | DBrk s2 st2 => DNorm s2 st2
                      | other => other
                      end)
                   (fun s1 st1 => DNorm s1 st1)
        end
    end.
End Helpers.

Section Denote.
  Variable env : denv.

  Fixpoint denote (fuel : nat) (e : expr) (stk : list value) (st : mstate) {struct fuel} : dout :=
    match fuel with
    | O => DFuel
    | S f =>
        let den := denote f in
        match e with
        | EOp o imms _ args =>
            match den_list den args stk st with
            | DNorm s1 st1 => do_op env o imms s1 st1
            | other => other
            end
        | ENary o _ args =>
            match args with
            | [] => DNorm stk st
            | a1 :: rest =>
                match den a1 stk st with
                | DNorm s1 st1 => den_nary_rest env den o rest s1 st1
                | other => other
                end
            end
        | ESeq es => den_list den es stk st
        | EIf c th el =>
            branch (den c stk st)
                   (fun s1 st1 => den th s1 st1)
                   (fun s1 st1 => match el with Some x => den x s1 st1 | None => DNorm s1 st1 end)
        | ECond arms => den_cond den arms stk st
        | EWhile c body => den_while den f c body stk st
        | EFor ini c stp body =>
            match den ini stk st with
            | DNorm s0 st0 => den_for den f c stp body s0 st0
            | DBrk s0 st0 => DNorm s0 st0
            | other => other
            end
        | EBreak => DBrk stk st
        | EContinue => DCont stk st
        | EAssert conds _ => den_asserts den conds stk st
        | EReturn v =>
            match v with
            | None => if e_in_sub env then DRet stk st else DFail
            | Some x =>
                match den x stk st with
                | DNorm s1 st1 =>
                    if e_in_sub env then DRet s1 st1
                    else match s1 with r :: _ => DExit r st1 | [] => DFail end
                | other => other
                end
            end
        | EExit v =>
            match den v stk st with
            | DNorm (r :: _) st1 => DExit r st1
            | DNorm [] _ => DFail
            | other => other
            end
        | EMulti o imms args outs =>
            match den_list den args stk st with
            | DNorm s1 st1 =>
                match do_op env o imms s1 st1 with
                | DNorm s2 st2 => den_stores env (rev outs) s2 st2
                | other => other
                end
            | other => other
            end
        | ECall _ _ _ => DUnsup O_callsub        (* subroutine calls: handled by the call-aware evaluator *)
        | EWide ns ds =>
            (* exact quotient of the two products, or failure *)
            match den_list den ns stk st with
            | DNorm s1 st1 =>
                match den_list den ds s1 st1 with
                | DNorm s2 st2 =>
                    let nn := List.length ns in
                    let nd := List.length ds in
                    match as_uints (rev (firstn nn (skipn nd s2))), as_uints (rev (firstn nd s2)) with
                    | Some nsv, Some dsv =>
                        match wide_ratio_spec nsv dsv with
                        | Some q => DNorm (VI q :: skipn (nn + nd) s2) st2
                        | None => DFail
                        end
                    | _, _ => DFail
                    end
                | other => other
                end
            | other => other
            end
        end
    end.
End Denote.

(* program-level verdict *)
Inductive dverdict : Type :=
| DVApprove | DVReject | DVFail | DVFuel | DVUnsup (o : opc).

Definition with_implicit_return (main : expr) : expr :=
  (* compileSubroutine's implicit Return *)
  if has_return main then main
  else match type_of main with
       | TNone => ESeq [main; EReturn None]
       | _ => EReturn (Some main)
       end.

Definition run_main (env : denv) (fuel : nat) (main : expr) (st : mstate) : dverdict * mstate :=
  match denote env fuel (with_implicit_return main) [] st with
  | DExit (VI n) st' => (if N.eqb n 0 then DVReject else DVApprove, st')
  | DExit (VB _) _ => (DVFail, st)
  | DNorm _ st' => (DVFail, st')          (* fell off the end: cannot happen for routines with a Return *)
  | DBrk _ st' | DCont _ st' | DRet _ st' => (DVFail, st')
  | DFail => (DVFail, st)
  | DFuel => (DVFuel, st)
  | DUnsup o => (DVUnsup o, st)
  end.
