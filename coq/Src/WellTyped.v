(* Src/WellTyped.v — what "well-typed" means for a recipe (property C20's quantifier: "all well-typed
   programs"): the checks PyTeal's public constructors perform when an expression is assembled
   (require_type on operands, Seq's "all but the last are none", If/Cond branch agreement, loop
   parts, Assert/Return/Exit operands), plus the two well-formedness conditions PyTeal defers to
   compile time (Break/Continue only inside a loop; the main routine returns uint64).
   This is a SPECIFICATION, deliberately conservative: an operator that is not in the signature table
   below is "not well-typed" (the predicate is only ever used as a hypothesis or in existential
   witnesses).  It is tied to the implementation by harness/c20.py: a recipe the predicate accepts
   must be constructible through the public constructors without any exception. *)
From Coq Require Import List NArith String Bool.
From PV Require Import Base.Bytes AVM.Syntax Src.Expr.
Import ListNotations.
Local Open Scope string_scope.

Section WellTyped.
  (* the type of a transaction / global field per PyTeal's own tables (family, field name) *)
  Variable field_ty : string -> string -> option ty.

  Definition is_value_ty (t : ty) : bool := match t with TNone => false | _ => true end.

  (* operand types and result type of an operator node; the result TAny for [load] means
     "whatever the node declares" *)
  Definition op_sig (o : opc) (imms : list arg) (declared : ty) : option (list ty * ty) :=
    let uu_u := Some ([TUint; TUint], TUint) in
    let bb_b := Some ([TBytes; TBytes], TBytes) in
    let bb_u := Some ([TBytes; TBytes], TUint) in
    let bu_u := Some ([TBytes; TUint], TUint) in
    match o with
    | O_int => match imms with [_] => Some ([], TUint) | _ => None end
    | O_byte => match imms with [AStr _] => Some ([], TBytes) | _ => None end
    | O_txn => match imms with [AStr f] => option_map (fun t => ([], t)) (field_ty "txn" f) | _ => None end
    | O_txna => match imms with [AStr f; AInt _] => option_map (fun t => ([], t)) (field_ty "txn" f) | _ => None end
    | O_global_ => match imms with [AStr f] => option_map (fun t => ([], t)) (field_ty "global" f) | _ => None end
    | O_arg => match imms with [AInt _] => Some ([], TBytes) | _ => None end
    | O_err | O_comment => Some ([], TNone)
    | O_load => match imms with [ASlot _] => if is_value_ty declared then Some ([], declared) else None | _ => None end
    | O_store => match imms with [ASlot _] => Some ([TAny], TNone) | _ => None end
    | O_pop => Some ([TAny], TNone)
    | O_log => Some ([TBytes], TNone)
    | O_app_global_put => Some ([TBytes; TAny], TNone)
    | O_app_global_del => Some ([TBytes], TNone)
    | O_app_global_get => Some ([TBytes], TAny)
    | O_minus | O_div | O_mod | O_lt | O_gt | O_le | O_ge
    | O_bitwise_and | O_bitwise_or | O_bitwise_xor | O_exp | O_shl | O_shr => uu_u
    | O_logic_not | O_bitwise_not | O_sqrt => Some ([TUint], TUint)
    | O_len | O_btoi => Some ([TBytes], TUint)
    | O_itob | O_bzero => Some ([TUint], TBytes)
    | O_sha256 | O_keccak256 | O_sha512_256 | O_b_not | O_bsqrt => Some ([TBytes], TBytes)
    | O_bitlen => Some ([TAny], TUint)
    | O_getbit => Some ([TAny; TUint], TUint)
    | O_getbyte | O_extract_uint16 | O_extract_uint32 | O_extract_uint64 => bu_u
    | O_b_add | O_b_minus | O_b_mul | O_b_div | O_b_mod | O_b_and | O_b_or | O_b_xor => bb_b
    | O_b_lt | O_b_gt | O_b_le | O_b_ge | O_b_eq | O_b_neq => bb_u
    | O_setbyte => Some ([TBytes; TUint; TUint], TBytes)
    | O_divw => Some ([TUint; TUint; TUint], TUint)
    | _ => None
    end.

  Fixpoint all_none_but_last (l : list ty) : bool :=
    match l with
    | [] | [_] => true
    | t :: rest => match t with TNone => all_none_but_last rest | _ => false end
    end.

  Fixpoint args_match (args : list ty) (want : list ty) : bool :=
    match args, want with
    | [], [] => true
    | a :: ar, w :: wr => types_match a w && args_match ar wr
    | _, _ => false
    end.

  (* [in_loop]: inside a While/For; the routine is the main routine (Return needs uint64) *)
  Fixpoint well_typed (in_loop : bool) (e : expr) {struct e} : bool :=
    match e with
    | EOp o imms t args =>
        forallb (well_typed in_loop) args &&
        match o with
        | O_eq | O_neq =>
            (* Eq/Neq: the right operand must have the left operand's type *)
            ty_eqb t TUint &&
            match args with
            | [a; b] => is_value_ty (type_of a) && types_match (type_of b) (type_of a)
            | _ => false
            end
        | O_setbit =>
            match args with
            | [a; b; c] => is_value_ty (type_of a) && types_match (type_of b) TUint &&
                           types_match (type_of c) TUint && ty_eqb t (type_of a)
            | _ => false
            end
        | _ =>
            match op_sig o imms t with
            | Some (want, res) => ty_eqb t res && args_match (map type_of args) want
            | None => false
            end
        end
    | ENary o t args =>
        forallb (well_typed in_loop) args &&
        match args with [] => false | _ => true end &&
        match o with
        | O_add | O_mul | O_logic_and | O_logic_or => ty_eqb t TUint
        | O_concat => ty_eqb t TBytes
        | _ => false
        end &&
        forallb (fun a => types_match (type_of a) t) args
    | ESeq es => forallb (well_typed in_loop) es && all_none_but_last (map type_of es)
    | EIf c th el =>
        well_typed in_loop c && types_match (type_of c) TUint && well_typed in_loop th &&
        match el with
        | None => ty_eqb (type_of th) TNone
        | Some x => well_typed in_loop x && types_match (type_of th) (type_of x)
        end
    | ECond arms =>
        match arms with
        | [] => false
        | (_, v0) :: _ =>
            forallb (fun a => well_typed in_loop (fst a) && types_match (type_of (fst a)) TUint &&
                              well_typed in_loop (snd a) && types_match (type_of (snd a)) (type_of v0)) arms
        end
    | EWhile c b =>
        well_typed true c && types_match (type_of c) TUint && well_typed true b && ty_eqb (type_of b) TNone
    | EFor i c s b =>
        well_typed true i && ty_eqb (type_of i) TNone &&
        well_typed true c && types_match (type_of c) TUint &&
        well_typed true s && ty_eqb (type_of s) TNone &&
        well_typed true b && ty_eqb (type_of b) TNone
    | EBreak | EContinue => in_loop
    | EAssert conds _ =>
        match conds with [] => false | _ => true end &&
        forallb (fun a => well_typed in_loop a && types_match (type_of a) TUint) conds
    | EReturn (Some v) => well_typed in_loop v && types_match (type_of v) TUint
    | EReturn None => false
    | EExit v => well_typed in_loop v && types_match (type_of v) TUint
    | EWide ns ds =>
        match ns, ds with
        | _ :: _, _ :: _ =>
            forallb (fun a => well_typed in_loop a && types_match (type_of a) TUint) ns &&
            forallb (fun a => well_typed in_loop a && types_match (type_of a) TUint) ds
        | _, _ => false
        end
    | EMulti _ _ _ _ | ECall _ _ _ | EParam _ => false      (* outside this predicate *)
    end.
End WellTyped.
