(* Comp/Annotate.v — C18: the annotation constructors of PyTeal as recipe transformers, the
   "differs only by annotations" relation, and the observation functions of the property
   (comment stripping, label alpha-renaming) on components and on TEAL text.

   Modelled code:
     pyteal/ast/comment.py   Comment(text, e) = Seq of CommentExpr(l) for l in text.splitlines(), then e
                             Comment(text)    = Seq of CommentExpr(l) for l in text.splitlines()
     pyteal/ast/assert_.py   Assert(c..., comment=text): the comment is Comment(text) (lines = text.splitlines())
     pyteal/ast/nonce.py     Nonce(base, nonce, e) = Seq([Pop(Bytes(base, nonce)), e])
     pyteal/ast/pragma.py    Pragma(e, compiler_version=...) lowers exactly as e (satisfied constraint)
     pyteal/compiler/subroutines.py:279-283 + flatten.py:137-153 + ir/teallabel.py:21-23
                             label = name with every character outside A-Za-z0-9 removed, then _ and the index; header = newline, one `// line` + newline per line of name.splitlines() (or one empty line), label:  (since /repo 3627216)

   ASSUMPTION (alphabet): strings are sequences of code points below 256 (latin-1), as everywhere in
   this development.  Python's str.splitlines() additionally breaks at U+2028 and U+2029; those code
   points are outside the model's alphabet and are exercised on the real code only (harness/c18.py). *)
From Coq Require Import List Arith NArith Ascii String Bool.
From PV Require Export Comp.SplitLines.
From PV Require Import Base.Bytes Base.Sexp AVM.Syntax AVM.Parse Src.Expr Comp.Assemble Comp.Compile.
Import ListNotations.
Local Open Scope string_scope.

(* ---- the annotation constructors ---- *)
Definition comment_expr (line : string) : expr := EOp O_comment [AStr line] TNone [].

Definition annot_comment (text : string) (e : expr) : expr :=
  ESeq (map comment_expr (splitlines text) ++ [e]).

Definition annot_comment0 (text : string) : expr :=
  ESeq (map comment_expr (splitlines text)).

Definition annot_assert (conds : list expr) (text : string) : expr :=
  EAssert conds (Some (splitlines text)).

(* [lit] is the byte-constant spelling Bytes(base, nonce) assembles to *)
Definition annot_nonce (lit : string) (e : expr) : expr :=
  ESeq [EOp O_pop [] TNone [EOp O_byte [AStr lit] TBytes []]; e].

Definition annot_pragma (e : expr) : expr := e.

(* the nonce spelling is a byte constant the assembler can read (Bytes' constructor checks this) *)
Definition nonce_ok (lit : string) : Prop :=
  exists b, parse_bytes_arg (tokens_of_line lit) = Some (b, []).

(* ---- subroutine label and header ---- *)
Definition sub_label (name : string) (index : N) : string :=
  sanitize name ++ "_" ++ N_to_dec index.

Definition sub_header (name : string) (index : N) : comp :=
  CLabel (sub_label name index) (Some name).

(* ---- "e' differs from e only by annotations" ----
   Congruence closure of: wrap/unwrap Comment(text, .), Nonce(lit, .), Pragma(.) (identity), change or
   add/remove an Assert comment, insert/remove a stand-alone Comment(text) between the statements of a Seq. *)
Inductive arel : expr -> expr -> Prop :=
| ar_op o imms t a a' : arel_list a a' -> arel (EOp o imms t a) (EOp o imms t a')
| ar_nary o t a a' : arel_list a a' -> arel (ENary o t a) (ENary o t a')
| ar_seq a a' : arel_seq a a' -> arel (ESeq a) (ESeq a')
| ar_if c c' t t' : arel c c' -> arel t t' -> arel (EIf c t None) (EIf c' t' None)
| ar_ifelse c c' t t' x x' : arel c c' -> arel t t' -> arel x x' -> arel (EIf c t (Some x)) (EIf c' t' (Some x'))
| ar_cond a a' : arel_arms a a' -> arel (ECond a) (ECond a')
| ar_while c c' b b' : arel c c' -> arel b b' -> arel (EWhile c b) (EWhile c' b')
| ar_for i i' c c' s s' b b' : arel i i' -> arel c c' -> arel s s' -> arel b b' -> arel (EFor i c s b) (EFor i' c' s' b')
| ar_break : arel EBreak EBreak
| ar_continue : arel EContinue EContinue
| ar_assert a a' cm cm' : arel_list a a' -> arel (EAssert a cm) (EAssert a' cm')     (* any comment on either side *)
| ar_return0 : arel (EReturn None) (EReturn None)
| ar_return v v' : arel v v' -> arel (EReturn (Some v)) (EReturn (Some v'))
| ar_exit v v' : arel v v' -> arel (EExit v) (EExit v')
| ar_multi o imms a a' outs : arel_list a a' -> arel (EMulti o imms a outs) (EMulti o imms a' outs)
| ar_call s t a a' : arel_list a a' -> arel (ECall s t a) (ECall s t a')
| ar_wide n n' d d' : arel_list n n' -> arel_list d d' -> arel (EWide n d) (EWide n' d')
| ar_param i : arel (EParam i) (EParam i)
| ar_comment_l text e e' : arel e e' -> arel (annot_comment text e) e'
| ar_comment_r text e e' : arel e e' -> arel e (annot_comment text e')
| ar_nonce_l lit e e' : nonce_ok lit -> arel e e' -> arel (annot_nonce lit e) e'
| ar_nonce_r lit e e' : nonce_ok lit -> arel e e' -> arel e (annot_nonce lit e')
with arel_list : list expr -> list expr -> Prop :=
| arl_nil : arel_list [] []
| arl_cons x y l l' : arel x y -> arel_list l l' -> arel_list (x :: l) (y :: l')
with arel_seq : list expr -> list expr -> Prop :=
| ars_nil : arel_seq [] []
| ars_cons x y l l' : arel x y -> arel_seq l l' -> arel_seq (x :: l) (y :: l')
| ars_ins_l text l l' : arel_seq l l' -> arel_seq (annot_comment0 text :: l) l'
| ars_ins_r text l l' : arel_seq l l' -> arel_seq l (annot_comment0 text :: l')
with arel_arms : list (expr * expr) -> list (expr * expr) -> Prop :=
| ara_nil : arel_arms [] []
| ara_cons c c' v v' l l' : arel c c' -> arel v v' -> arel_arms l l' -> arel_arms ((c, v) :: l) ((c', v') :: l').

Scheme arel_mind := Minimality for arel Sort Prop
  with arel_list_mind := Minimality for arel_list Sort Prop
  with arel_seq_mind := Minimality for arel_seq Sort Prop
  with arel_arms_mind := Minimality for arel_arms Sort Prop.
Combined Scheme arel_mutind from arel_mind, arel_list_mind, arel_seq_mind, arel_arms_mind.

(* programs: main routine and every subroutine body related; names free *)
Inductive arel_subs : list routine -> list routine -> Prop :=
| arsub_nil : arel_subs [] []
| arsub_cons r r' l l' :
    r_id r = r_id r' -> r_ret r = r_ret r' -> r_params r = r_params r' ->
    arel (r_body r) (r_body r') -> r_deferred r = r_deferred r' ->
    arel_subs l l' -> arel_subs (r :: l) (r' :: l').

Definition arel_prog (p p' : prog) : Prop :=
  arel (p_main p) (p_main p') /\ arel_subs (p_subs p) (p_subs p') /\ p_slots p = p_slots p'.

(* ---- observation: the executable instruction stream of a component list ---- *)
Definition is_comment_op (i : instr) : bool := opc_eqb (i_op i) O_comment.

Definition strip_comp (c : comp) : list comp :=
  match c with
  | COp i => if is_comment_op i then [] else [c]
  | CLabel l _ => [CLabel l None]
  | CPragma _ => [c]
  end.

Definition strip_comps (l : list comp) : list comp := flat_map strip_comp l.

Definition is_branch_op (o : opc) : bool :=
  match o with O_b | O_bz | O_bnz | O_callsub | O_switch | O_match_ => true | _ => false end.

Fixpoint pos_of (x : string) (l : list string) (n : nat) : option nat :=
  match l with [] => None | y :: t => if String.eqb x y then Some n else pos_of x t (S n) end.

Definition note_label (seen : list string) (l : string) : list string :=
  match pos_of l seen 0 with Some _ => seen | None => seen ++ [l] end.

Definition arg_label (a : arg) : list string :=
  match a with ALbl l => [l] | AStr l => [l] | _ => [] end.

Definition comp_labels (c : comp) : list string :=
  match c with
  | CLabel l _ => [l]
  | COp i => if is_branch_op (i_op i) then flat_map arg_label (i_args i) else []
  | CPragma _ => []
  end.

(* labels in order of first occurrence (definition or reference) *)
Definition label_order (l : list comp) : list string :=
  fold_left (fun seen c => fold_left note_label (comp_labels c) seen) l [].

Definition canon_name (order : list string) (l : string) : string :=
  match pos_of l order 0 with Some n => "L" ++ N_to_dec (N.of_nat n) | None => l end.

Definition canon_comp (order : list string) (c : comp) : comp :=
  match c with
  | CLabel l cm => CLabel (canon_name order l) cm
  | COp i =>
      if is_branch_op (i_op i)
      then COp (mkI (i_op i) (map (fun a => match a with
                                            | ALbl l => ALbl (canon_name order l)
                                            | AStr l => ALbl (canon_name order l)
                                            | other => other end) (i_args i)))
      else c
  | CPragma _ => c
  end.

Definition canon_comps (l : list comp) : list comp := map (canon_comp (label_order l)) l.

Definition comp_eqb (a b : comp) : bool :=
  match a, b with
  | COp i, COp j => instr_eqb i j
  | CLabel l None, CLabel m None => String.eqb l m
  | CLabel l (Some c), CLabel m (Some d) => String.eqb l m && String.eqb c d
  | CPragma v, CPragma w => N.eqb v w
  | _, _ => false
  end.

Fixpoint comps_eqb (a b : list comp) : bool :=
  match a, b with
  | [], [] => true
  | x :: a', y :: b' => comp_eqb x y && comps_eqb a' b'
  | _, _ => false
  end.

(* the property's observation: comments stripped, labels alpha-renamed *)
Definition stream_of (l : list comp) : list comp := canon_comps (strip_comps l).
Definition alpha_eqb (a b : list comp) : bool := comps_eqb (stream_of a) (stream_of b).

(* ---- the same observation on TEAL text, through the assembler's tokeniser ---- *)
Definition text_statements (text : string) : list (list string) :=
  filter (fun ts => match ts with [] => false | _ => true end)
         (flat_map (fun ln => split_semis (tokens_of_line ln) [])
                   (split_lines (list_ascii_of_string text) [])).

Definition is_branch_word (w : string) : bool :=
  String.eqb w "b" || String.eqb w "bz" || String.eqb w "bnz" || String.eqb w "callsub" ||
  String.eqb w "switch" || String.eqb w "match".

Definition stmt_labels (ts : list string) : list string :=
  match ts with
  | [w] => match ends_with_colon w with Some l => [l] | None => [] end
  | w :: args => if is_branch_word w then args else []
  | [] => []
  end.

Definition text_label_order (ss : list (list string)) : list string :=
  fold_left (fun seen ts => fold_left note_label (stmt_labels ts) seen) ss [].

Definition canon_stmt (order : list string) (ts : list string) : list string :=
  match ts with
  | [w] => match ends_with_colon w with Some l => [canon_name order l ++ ":"] | None => ts end
  | w :: args => if is_branch_word w then w :: map (canon_name order) args else ts
  | [] => []
  end.

Definition text_stream (text : string) : list (list string) :=
  let ss := text_statements text in
  map (canon_stmt (text_label_order ss)) ss.

(* ---- wire markers: the harness sends annotated recipes with marker nodes which [expand] replaces by
   the constructors above (so the model computes splitlines and the wrapping itself) ----
     (op "//" ("@comment" TEXT) n (E))  -> annot_comment TEXT E      (op "//" ("@comment" TEXT) n ()) -> annot_comment0 TEXT
     (op "//" ("@nonce" LIT) n (E))     -> annot_nonce LIT E         (op "//" ("@pragma") n (E))      -> annot_pragma E
     (assert (C...) (comment "@raw" TEXT)) -> annot_assert (C...) TEXT *)
Fixpoint expand (e : expr) : expr :=
  match e with
  | EOp o imms t args =>
      match o, imms, args with
      | O_comment, [AStr "@comment"; AStr text], [x] => annot_comment text (expand x)
      | O_comment, [AStr "@comment"; AStr text], [] => annot_comment0 text
      | O_comment, [AStr "@nonce"; AStr lit], [x] => annot_nonce lit (expand x)
      | O_comment, [AStr "@pragma"], [x] => annot_pragma (expand x)
      | _, _, _ => EOp o imms t (map expand args)
      end
  | ENary o t args => ENary o t (map expand args)
  | ESeq es => ESeq (map expand es)
  | EIf c th el => EIf (expand c) (expand th) (option_map expand el)
  | ECond arms => ECond (map (fun a => (expand (fst a), expand (snd a))) arms)
  | EWhile c b => EWhile (expand c) (expand b)
  | EFor i c s b => EFor (expand i) (expand c) (expand s) (expand b)
  | EBreak => EBreak
  | EContinue => EContinue
  | EAssert conds cm =>
      match cm with
      | Some ["@raw"; text] => annot_assert (map expand conds) text
      | _ => EAssert (map expand conds) cm
      end
  | EReturn v => EReturn (option_map expand v)
  | EExit v => EExit (expand v)
  | EMulti o imms args outs => EMulti o imms (map expand args) outs
  | ECall s t args => ECall s t (map expand args)
  | EWide ns ds => EWide (map expand ns) (map expand ds)
  | EParam i => EParam i
  end.

Definition expand_routine (r : routine) : routine :=
  mkRoutine (r_id r) (r_name r) (r_ret r) (r_params r) (expand (r_body r)) (r_deferred r).

Definition expand_prog (p : prog) : prog :=
  mkProgram (expand (p_main p)) (map expand_routine (p_subs p)) (p_slots p).
