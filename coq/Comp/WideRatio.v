(* Comp/WideRatio.v — model of pyteal/ast/widemath.py: the op list WideRatio lowers to.
   Factors are arbitrary code fragments (lists of instructions); all blocks are simple and
   chained, so the lowering is a plain concatenation. *)
From Coq Require Import List NArith String Bool.
From PV Require Import Base.Bytes Base.U64 AVM.Syntax AVM.Ops.
Import ListNotations.
Local Open Scope N_scope.

Definition I0 (o : opc) : instr := mkI o [].
Definition I1 (o : opc) (n : N) : instr := mkI o [AInt n].

Definition mul_step_ops : list instr :=
  [I1 O_uncover 2; I1 O_dig 1; I0 O_mul; I1 O_cover 2; I0 O_mulw; I1 O_cover 2; I0 O_add; I0 O_swap].

(* multiplyFactors: Python raises TealInternalError on an empty list (modelled as []; the
   WideRatio constructor rejects empty lists before lowering). *)
Definition multiply_factors (fs : list (list instr)) : list instr :=
  match fs with
  | [] => []
  | [f0] => I1 O_int 0 :: f0
  | f0 :: f1 :: rest => f0 ++ f1 ++ [I0 O_mulw] ++ flat_map (fun f => f ++ mul_step_ops) rest
  end.

Definition combine_ops : list instr :=
  [I0 O_divmodw; I0 O_pop; I0 O_pop; I0 O_swap; I0 O_logic_not; I0 O_assert_].

Definition wide_ratio_ops (nums dens : list (list instr)) : list instr :=
  multiply_factors nums ++ multiply_factors dens ++ combine_ops.

(* constructor-time acceptance (WideRatio.__init__) and the version requirement of __teal__ *)
Definition wide_ratio_accepts (nn nd : nat) : bool :=
  negb (Nat.eqb nn 0) && negb (Nat.eqb nd 0) && negb (Nat.eqb nn 1 && Nat.eqb nd 1).
Definition wide_ratio_min_version : N := 5.

(* straight-line execution of pure ops *)
Fixpoint run_pure (is : list instr) (s : list value) : option (list value) :=
  match is with
  | [] => Some s
  | i :: t =>
      match exec_pure (i_op i) (i_args i) s with
      | POk s' => run_pure t s'
      | _ => None
      end
  end.

(* ---- the specification: exact quotient or failure ---- *)
Fixpoint running_ok (acc : N) (l : list N) : bool :=
  match l with
  | [] => true
  | x :: t => (acc * x <? U128) && running_ok (acc * x) t
  end.
Definition prod (l : list N) : N := fold_left N.mul l 1.

Definition wide_ratio_spec (ns ds : list N) : option N :=
  if running_ok 1 ns && running_ok 1 ds && negb (prod ds =? 0) && (prod ns / prod ds <? U64)
  then Some (prod ns / prod ds) else None.

Definition const_code (n : N) : list instr := [I1 O_int n].
