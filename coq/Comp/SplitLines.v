(* Comp/SplitLines.v — Python's str.splitlines() on code points < 256 (used by Comment, Assert comments and,
   since /repo 3627216, by TealLabel.assemble).  Line boundaries: \n \r \r\n \v \f \x1c \x1d \x1e \x85; no empty
   last line.  ASSUMPTION (alphabet): strings are sequences of code points below 256 (latin-1); str.splitlines()
   also breaks at U+2028 and U+2029, which are outside the model's alphabet (exercised on the real code only). *)
From Coq Require Import List NArith Ascii String Bool.
Import ListNotations.

Definition is_linebreak (c : ascii) : bool :=
  match N_of_ascii c with
  | 10%N | 11%N | 12%N | 13%N | 28%N | 29%N | 30%N | 133%N => true
  | _ => false
  end.

Definition line_of (cur : list ascii) : string := string_of_list_ascii (rev cur).

Fixpoint splitlines_l (s cur : list ascii) : list string :=
  match s with
  | [] => match cur with [] => [] | _ => [line_of cur] end
  | c :: t =>
      if is_linebreak c then
        line_of cur ::
        match t with
        | c2 :: t2 => if Ascii.eqb c (ascii_of_N 13) && Ascii.eqb c2 (ascii_of_N 10) then splitlines_l t2 [] else splitlines_l t []
        | [] => splitlines_l t []
        end
      else splitlines_l t (c :: cur)
  end.

Definition splitlines (s : string) : list string := splitlines_l (list_ascii_of_string s) [].
