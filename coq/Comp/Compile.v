(* Comp/Compile.v — model of compileSubroutine, slot assignment, recursion spilling, subroutine
   resolution, flattenSubroutines, the version/mode sweep and final assembly: recipe -> TEAL lines. *)
From Coq Require Import List Arith NArith Ascii String Bool.
From PV Require Import Base.Bytes Base.Sexp AVM.Syntax Src.Expr Comp.Blocks Comp.Lower Comp.Passes Comp.Assemble.
Import ListNotations.
Local Open Scope string_scope.
Local Open Scope list_scope.

Inductive cres (A : Type) : Type :=
| COk (a : A)
| CErr (e : cerr).
Arguments COk {A} a.
Arguments CErr {A} e.

(* one compiled routine *)
Record croutine : Type := mkCR {
  cr_sub : option routine;          (* None = main *)
  cr_graph : graph;
  cr_start : id;
  cr_end : id
}.

Definition cr_key (c : croutine) : option N := option_map r_id (cr_sub c).

Definition find_sub (p : prog) (i : N) : option routine :=
  find (fun r => N.eqb (r_id r) i) (p_subs p).

Definition instr_subs (i : instr) : list N :=
  flat_map (fun a => match a with ASub s => [s] | _ => [] end) (i_args i).

Definition graph_subs (g : graph) (start : id) : list N :=
  flat_map (fun b => flat_map instr_subs (get_ops g b)) (iterate g start).

Fixpoint insert_sorted (x : N) (l : list N) : list N :=
  match l with
  | [] => [x]
  | y :: t => if N.eqb x y then l else if N.ltb x y then x :: l else y :: insert_sorted x t
  end.
Definition sort_dedup (l : list N) : list N := fold_right insert_sorted [] l.

(* ---- SubroutineEval: the declaration body of a plain subroutine, per calling convention ---- *)
Definition neg_index (n i : N) : string := ("-" ++ N_to_dec (n - i))%string.

Definition param_instr (o : copts) (r : routine) (i : N) : instr :=
  match nth_error (r_params r) (N.to_nat i) with
  | Some (byref, slot) =>
      if o_use_fp o && negb byref then mkI O_frame_dig [AStr (neg_index (r_nargs r) i)]
      else mkI O_load [ASlot slot]
  | None => mkI O_err []
  end.

Definition main_param (i : N) : instr := mkI O_err [].

Fixpoint index_params (l : list (bool * N)) (i : N) : list (N * (bool * N)) :=
  match l with [] => [] | x :: t => (i, x) :: index_params t (i + 1)%N end.

Definition decl_body (o : copts) (r : routine) : expr :=
  if o_use_fp o then
    ESeq ([EOp O_proto [AInt (r_nargs r); AInt (match r_ret r with TNone => 0 | _ => 1 end)%N] TNone []; ESeq []]
          ++ map (fun '(i, (_, slot)) =>
                    EOp O_store [ASlot slot] TNone [EOp O_frame_dig [AStr (neg_index (r_nargs r) i)] TAny []])
                 (rev (filter (fun x => fst (snd x)) (index_params (r_params r) 0%N)))
          ++ [r_body r])
  else
    ESeq (map (fun '(_, slot) => EOp O_store [ASlot slot] TNone []) (rev (r_params r)) ++ [r_body r]).

(* compileSubroutine for ONE routine (without the recursive descent into callees) *)
Definition compile_one (o : copts) (sub : option routine) (ast0 : expr) : cres croutine :=
  let ast :=
    if has_return ast0 then ast0
    else match type_of ast0 with
         | TNone => ESeq [ast0; EReturn None]
         | _ => EReturn (Some ast0)
         end in
  let subret := option_map r_ret sub in
  match check_expr o subret false ast with
  | Some e => CErr e
  | None =>
      if has_bad_continue false ast then CErr (Unsupported "Continue inside a loop header")
      else
        let pm := match sub with Some r => param_instr o r | None => main_param end in
        let '((start, end_), g0) := lower o (mkL subret None None pm) ast None empty_graph in
        let '(g1, _) := add_incoming g0 start in
        if negb (validate_tree g1 start) then CErr CrashAssertion
        else
          (* deferred expression before every retsub *)
          let deferred := match sub with Some r => r_deferred r | None => None end in
          let res :=
            match deferred with
            | None => COk (g1, start)
            | Some d =>
                fold_left (fun acc b =>
                  match acc with
                  | CErr e => CErr e
                  | COk (g, st) =>
                      if existsb (fun i => is_op i O_retsub) (get_ops g b) then
                        if negb (Nat.eqb (List.length (get_ops g b)) 1) then CErr ErrInternal
                        else
                          match check_expr o subret false d with
                          | Some e => CErr e
                          | None =>
                              (* deferred_end.nextBlock = block *)
                              let '((ds, de), ga) := lower o (mkL subret None None pm) d (Some b) g in
                              (* deferred_start.addIncoming() on the fragment alone: edges inside the fragment.
                                 The traversal follows de -> b as well, which appends de to b.incoming; PyTeal
                                 overwrites b.incoming just after, so only the fragment's own lists matter. *)
                              let binc := g_inc ga b in
                              let '(gb, _) := add_incoming ga ds in
                              let gc := set_inc (set_inc gb ds binc) b [de] in
                              let gd := fold_left (fun g p => match g_blk g p with
                                                              | Some pb => set_blk g p (replace_outgoing pb b ds)
                                                              | None => g end) binc gc in
                              COk (gd, if Nat.eqb b st then ds else st)
                          end
                      else COk (g, st)
                  end) (iterate g1 start) (COk (g1, start))
            end in
          match res with
          | CErr e => CErr e
          | COk (g2, start2) =>
              if negb (validate_tree g2 start2) then CErr CrashAssertion
              else
                let '(g3, start3) := normalize g2 start2 in
                if negb (validate_tree g3 start3) then CErr CrashAssertion
                else COk (mkCR sub g3 start3 end_)
          end
  end.

(* compileSubroutine's recursive descent: new callees in sorted id order, depth first *)
Fixpoint compile_rec (fuel : nat) (o : copts) (p : prog) (sub : option routine) (ast : expr)
         (acc : list croutine) : cres (list croutine) :=
  match fuel with
  | O => CErr (Unsupported "compile_rec fuel")
  | S f =>
      match compile_one o sub ast with
      | CErr e => CErr e
      | COk cr =>
          let acc1 := acc ++ [cr] in
          let refs := sort_dedup (graph_subs (cr_graph cr) (cr_start cr)) in
          (* newSubroutines is computed once, before descending *)
          let news := filter (fun s => negb (existsb (fun c => match cr_key c with Some k => N.eqb k s | None => false end) acc1)) refs in
          fold_left (fun racc s =>
                       match racc with
                       | CErr e => CErr e
                       | COk a =>
                           (* Python compiles such a routine again and overwrites the dictionary entry with an
                              identical result; the model keeps the first one *)
                           if existsb (fun c => match cr_key c with Some k => N.eqb k s | None => false end) a then COk a
                           else
                           match find_sub p s with
                           | None => CErr (Unsupported "unknown subroutine id")
                           | Some r => compile_rec f o p (Some r) (decl_body o r) a
                           end
                       end) news (COk acc1)
      end
  end.

(* ---- scratch slots ---- *)
Definition routine_slots (c : croutine) : list N :=
  sort_dedup (flat_map (fun b => flat_map instr_slots (get_ops (cr_graph c) b)) (iterate (cr_graph c) (cr_start c))).

Definition slot_info (p : prog) (uid : N) : N * bool :=
  match find (fun x => N.eqb (fst x) uid) (p_slots p) with
  | Some (_, inf) => inf
  | None => (uid, N.ltb uid 256)
  end.

Definition count_in (x : N) (ls : list (list N)) : nat :=
  List.length (filter (fun l => mem_N x l) ls).

(* validateSlots: is there a load of a slot not stored on some explored path? *)
Fixpoint vs_ops (ops : list instr) (cur : list N) (err : bool) : list N * bool :=
  match ops with
  | [] => (cur, err)
  | i :: t =>
      if is_op i O_store then vs_ops t (fold_right insert_sorted cur (instr_slots i)) err
      else if is_op i O_load then vs_ops t cur (err || negb (subset_N (instr_slots i) cur))
      else vs_ops t cur err
  end.

Fixpoint listN_eqb (a b : list N) : bool :=
  match a, b with
  | [], [] => true
  | x :: a', y :: b' => N.eqb x y && listN_eqb a' b'
  | _, _ => false
  end.

(* explicit work-list version of the recursive walk; visited keys = (block, sorted slots) *)
Fixpoint vs_loop (fuel : nat) (g : graph) (work : list (id * list N)) (visited : list (id * list N)) (err : bool) : option bool :=
  match fuel with
  | O => None
  | S f =>
      match work with
      | [] => Some err
      | (b, inuse) :: rest =>
          match g_blk g b with
          | None => vs_loop f g rest visited err
          | Some bb =>
              let '(cur, err1) := vs_ops (b_ops bb) inuse err in
              if is_terminal bb then vs_loop f g rest visited err1
              else
                let '(w2, v2) :=
                  fold_left (fun '(w, v) nb =>
                               if existsb (fun k => Nat.eqb (fst k) nb && listN_eqb (snd k) cur) v then (w, v)
                               else (w ++ [(nb, cur)], (nb, cur) :: v))
                            (outgoing bb) ([], visited) in
                vs_loop f g (w2 ++ rest) v2 err1
          end
      end
  end.

Definition validate_slots_err (c : croutine) (globals : list N) : option bool :=
  vs_loop (N.to_nat 200000) (cr_graph c) [(cr_start c, sort_dedup globals)] [] false.

Definition rewrite_instr (f : arg -> arg) (i : instr) : instr := mkI (i_op i) (map f (i_args i)).

Definition map_graph_ops (f : instr -> instr) (c : croutine) : croutine :=
  let g := cr_graph c in
  let g' := fold_left (fun g b => match g_blk g b with
                                  | Some bb => set_blk g b (set_ops bb (map f (b_ops bb)))
                                  | None => g end) (iterate g (cr_start c)) g in
  mkCR (cr_sub c) g' (cr_start c) (cr_end c).

Fixpoint assign_loop (p : prog) (slots : list N) (next : N) (used : list N) (acc : list (N * N)) : list (N * N) :=
  match slots with
  | [] => acc
  | s :: t =>
      (* while nextSlotIndex in slotIds: nextSlotIndex += 1 *)
      let next' := (fix bump (fuel : nat) (n : N) : N :=
                      match fuel with O => n | S f => if mem_N n used then bump f (n + 1)%N else n end) 600%nat next in
      let '(sid, reserved) := slot_info p s in
      if reserved then assign_loop p t next' used ((s, sid) :: acc)
      else assign_loop p t next' (next' :: used) ((s, next') :: acc)
  end.

(* sort uids by slot.id *)
Fixpoint insert_by_id (p : prog) (x : N) (l : list N) : list N :=
  match l with
  | [] => [x]
  | y :: t => if N.ltb (fst (slot_info p x)) (fst (slot_info p y)) then x :: l else y :: insert_by_id p x t
  end.

Definition assign_slots (p : prog) (crs : list croutine) : cres (list croutine * list (option N * list N) * list (N * N)) :=
  let per := map routine_slots crs in
  let all := sort_dedup (List.concat per) in
  let globals := filter (fun s => Nat.ltb 1 (count_in s per)) all in
  let reserved_ids := map (fun s => fst (slot_info p s)) (filter (fun s => snd (slot_info p s)) all) in
  if negb (Nat.eqb (List.length (sort_dedup reserved_ids)) (List.length reserved_ids)) then CErr ErrInternal
  else if Nat.ltb 256 (List.length all) then CErr ErrInternal
  else
    match fold_left (fun acc c => match acc with
                                  | Some false => validate_slots_err c globals
                                  | other => other end) crs (Some false) with
    | None => CErr (Unsupported "validateSlots fuel")
    | Some true => CErr ErrInternal
    | Some false =>
        let sorted := fold_right (insert_by_id p) [] all in
        let asg := assign_loop p sorted 0%N (sort_dedup reserved_ids) [] in
        let look (s : N) : N := match find (fun x => N.eqb (fst x) s) asg with Some (_, n) => n | None => s end in
        let crs' := map (map_graph_ops (rewrite_instr (fun a => match a with ASlot s => AInt (look s) | _ => a end))) crs in
        let locals := map (fun '(c, sl) => (cr_key c, sort_dedup (map look (filter (fun s => negb (mem_N s globals)) sl))))
                          (combine crs per) in
        COk (crs', locals, asg)
    end.

(* collect_unoptimized_slots *)
Definition skip_slots (p : prog) (crs : list croutine) : list N :=
  let per := map routine_slots crs in
  let all := sort_dedup (List.concat per) in
  let globals := filter (fun s => Nat.ltb 1 (count_in s per)) all in
  let dyn := flat_map (fun c => flat_map (fun b => flat_map (fun i =>
                 filter (fun s => is_op i O_int || snd (slot_info p s)) (instr_slots i))
                 (get_ops (cr_graph c) b)) (iterate (cr_graph c) (cr_start c))) crs in
  sort_dedup (dyn ++ globals).

(* ---- spillLocalSlotsDuringRecursion ---- *)
Definition comp_subs (c : comp) : list N := match c with COp i => instr_subs i | _ => [] end.

Fixpoint graph_search (fuel : nat) (gr : list (N * list N)) (stack : list N) (visited : list N) (target : N) : bool :=
  match fuel with
  | O => false
  | S f =>
      match rev stack with
      | [] => false
      | cur :: rest_rev =>
          let rest := rev rest_rev in
          if mem_N cur visited then graph_search f gr rest visited target
          else if N.eqb cur target then true
          else graph_search f gr (rest ++ match find (fun x => N.eqb (fst x) cur) gr with Some (_, l) => l | None => [] end)
                            (cur :: visited) target
      end
  end.

Definition OpI (o : opc) (n : N) : comp := COp (mkI o [AInt n]).
Definition Op0 (o : opc) : comp := COp (mkI o []).

Definition spill_one (version : N) (caller_returns : bool) (slots : list N) (numArgs : nat) (stmt : comp) : list comp :=
  let nslots := List.length slots in
  let coverAvailable := N.leb 5 version in
  let digArgs := negb coverAvailable in
  let coverSpilled := coverAvailable && Nat.ltb nslots numArgs in
  let uncoverArgs := coverAvailable && negb (Nat.ltb nslots numArgs) in
  let before1 := flat_map (fun s => OpI O_load s :: (if coverSpilled then [OpI O_cover (N.of_nat numArgs)] else [])) slots in
  let dist := (nslots + numArgs - 1)%nat in
  let before2 := flat_map (fun _ =>
                   (if uncoverArgs then (if Nat.eqb dist 1 then [Op0 O_swap] else [OpI O_uncover (N.of_nat dist)]) else [])
                   ++ (if digArgs then [OpI O_dig (N.of_nat dist)] else [])) (seq 0 numArgs) in
  let hide := caller_returns && negb (Nat.eqb nslots 1) && negb coverAvailable in
  let after1 := if caller_returns then
                  if Nat.eqb nslots 1 then [Op0 O_swap]
                  else if coverAvailable then [OpI O_cover (N.of_nat nslots)]
                  else [OpI O_store (hd 0%N slots)]
                else [] in
  let after2 := flat_map (fun s =>
                   (if hide && N.eqb s (hd 0%N slots) then [OpI O_load s; Op0 O_swap] else [])
                   ++ [OpI O_store s]) (rev slots) in
  let after3 := if digArgs then flat_map (fun _ => (if caller_returns then [Op0 O_swap] else []) ++ [Op0 O_pop]) (seq 0 numArgs) else [] in
  before1 ++ before2 ++ [stmt] ++ after1 ++ after2 ++ after3.

Record flat_routine : Type := mkFR { fr_sub : option routine; fr_ops : list comp }.

Definition spill (version : N) (p : prog) (frs : list flat_routine) (locals : list (option N * list N)) : cres (list flat_routine) :=
  (* subroutineGraph: every compiled subroutine (not main) -> subroutines its ops reference *)
  let gr := flat_map (fun fr => match fr_sub fr with
                                | Some r => [(r_id r, sort_dedup (flat_map comp_subs (fr_ops fr)))]
                                | None => [] end) frs in
  let n := S (List.length gr) in
  let reentry (s : N) : list N :=
    match find (fun x => N.eqb (fst x) s) gr with
    | Some (_, callees) =>
        filter (fun c => graph_search (n * n + n) gr
                           (match find (fun x => N.eqb (fst x) c) gr with Some (_, l) => l | None => [] end) [] s) callees
    | None => []
    end in
  if existsb (fun fr => match fr_sub fr with
                        | Some r => r_byref r && negb (match reentry (r_id r) with [] => true | _ => false end)
                        | None => false end) frs
  then CErr ErrInput
  else
    COk (map (fun fr =>
           match fr_sub fr with
           | None => fr
           | Some r =>
               let re := reentry (r_id r) in
               let slots := match find (fun x => match fst x with Some k => N.eqb k (r_id r) | None => false end) locals with
                            | Some (_, l) => l | None => [] end in
               match re, slots with
               | [], _ | _, [] => fr
               | _, _ =>
                   mkFR (fr_sub fr)
                        (flat_map (fun stmt =>
                           match filter (fun c => mem_N c re) (comp_subs stmt) with
                           | callee :: _ =>
                               let numArgs := match find_sub p callee with Some cr => N.to_nat (r_nargs cr) | None => O end in
                               (* whether a value is left on the stack is decided by the CALLED subroutine *)
                               let callee_returns := match find_sub p callee with
                                                     | Some cr => negb (ty_eqb (r_ret cr) TNone)
                                                     | None => false end in
                               spill_one version callee_returns slots numArgs stmt
                           | [] => [stmt]
                           end) (fr_ops fr))
               end
           end) frs).

(* ---- resolveSubroutines + flattenSubroutines ---- *)
Definition is_alnum (c : ascii) : bool :=
  let n := N_of_ascii c in
  ((48 <=? n) && (n <=? 57) || (65 <=? n) && (n <=? 90) || (97 <=? n) && (n <=? 122))%N.

Definition sanitize (s : string) : string :=
  string_of_list_ascii (filter is_alnum (list_ascii_of_string s)).

Definition prefix_labels (pre : string) (c : comp) : comp :=
  match c with
  | CLabel l cm => CLabel (pre ++ l)%string cm
  | COp i => COp (rewrite_instr (fun a => match a with ALbl l => ALbl (pre ++ l)%string | _ => a end) i)
  | other => other
  end.

Fixpoint index_N (x : N) (l : list N) (n : nat) : nat :=
  match l with [] => n | y :: t => if N.eqb x y then n else index_N x t (S n) end.

Definition flatten_subroutines (frs : list flat_routine) : list comp :=
  let ids := sort_dedup (flat_map (fun fr => match fr_sub fr with Some r => [r_id r] | None => [] end) frs) in
  let label_of_sub (r : routine) : string :=
    (sanitize (r_name r) ++ "_" ++ N_to_dec (N.of_nat (index_N (r_id r) ids 0)))%string in
  let sub_of (i : N) : option routine :=
    match find (fun fr => match fr_sub fr with Some r => N.eqb (r_id r) i | None => false end) frs with
    | Some fr => fr_sub fr | None => None end in
  let resolve (c : comp) : comp :=
    match c with
    | COp i => COp (rewrite_instr (fun a => match a with
                                            | ASub s => match sub_of s with Some r => AStr (label_of_sub r) | None => a end
                                            | _ => a end) i)
    | other => other
    end in
  let main := flat_map (fun fr => match fr_sub fr with None => map (prefix_labels "main_") (map resolve (fr_ops fr)) | Some _ => [] end) frs in
  let subs := flat_map (fun i =>
                match find (fun fr => match fr_sub fr with Some r => N.eqb (r_id r) i | None => false end) frs with
                | Some fr =>
                    match fr_sub fr with
                    | Some r =>
                        let lbl := label_of_sub r in
                        CLabel lbl (Some (r_name r)) :: map (prefix_labels (lbl ++ "_")%string) (map resolve (fr_ops fr))
                    | None => []
                    end
                | None => []
                end) ids in
  main ++ subs.

(* ---- whole pipeline ---- *)
Definition verify_ops (o : copts) (modes : opc -> bool * bool) (cs : list comp) : option cerr :=
  if existsb (fun c => match c with COp i => N.ltb (o_version o) (o_minv o (i_op i)) | _ => false end) cs then Some ErrInput
  else if existsb (fun c => match c with
                            | COp i => negb (if o_app_mode o then snd (modes (i_op i)) else fst (modes (i_op i)))
                            | _ => false end) cs then Some ErrInput
  else None.

Definition compile_components (o : copts) (modes : opc -> bool * bool) (p : prog) : cres (list comp) :=
  if negb ((2 <=? o_version o) && (o_version o <=? 10))%N then CErr ErrInput else
  match compile_rec (S (List.length (p_subs p))) o p None (p_main p) [] with
  | CErr e => CErr e
  | COk crs =>
      let ocrs :=
        if o_opt_slots o then
          let skip := skip_slots p crs in
          fold_right (fun c acc =>
                        match acc, optimize_routine (cr_graph c) (cr_start c) skip with
                        | COk l, Some g => COk (mkCR (cr_sub c) g (cr_start c) (cr_end c) :: l)
                        | COk _, None => CErr CrashRecursion
                        | CErr e, _ => CErr e
                        end) (COk []) crs
        else COk crs in
      match ocrs with
      | CErr e => CErr e
      | COk crs1 =>
          match assign_slots p crs1 with
          | CErr e => CErr e
          | COk (crs2, locals, _) =>
              let flat := fold_right (fun c acc =>
                            match acc with
                            | CErr e => CErr e
                            | COk l =>
                                match sort_blocks (cr_graph c) (cr_start c) (cr_end c) with
                                | None => CErr ErrInternal
                                | Some order =>
                                    match flatten_blocks (cr_graph c) order with
                                    | Some ops => COk (mkFR (cr_sub c) ops :: l)
                                    | None => CErr CrashAssertion
                                    end
                                end
                            end) (COk []) crs2 in
              match flat with
              | CErr e => CErr e
              | COk frs =>
                  match spill (o_version o) p frs locals with
                  | CErr e => CErr e
                  | COk frs2 =>
                      let comps := flatten_subroutines frs2 in
                      match verify_ops o modes comps with
                      | Some e => CErr e
                      | None => COk (CPragma (o_version o) :: comps)
                      end
                  end
              end
          end
      end
  end.

(* the slot assignment the pipeline computes (uid -> scratch number) and the routine-local slot numbers,
   for the source semantics *)
Definition model_assignment_locals (o : copts) (p : prog) : cres (list (N * N) * list (option N * list N)) :=
  match compile_rec (S (List.length (p_subs p))) o p None (p_main p) [] with
  | CErr e => CErr e
  | COk crs =>
      let ocrs :=
        if o_opt_slots o then
          let skip := skip_slots p crs in
          fold_right (fun c acc =>
                        match acc, optimize_routine (cr_graph c) (cr_start c) skip with
                        | COk l, Some g => COk (mkCR (cr_sub c) g (cr_start c) (cr_end c) :: l)
                        | COk _, None => CErr CrashRecursion
                        | CErr e, _ => CErr e
                        end) (COk []) crs
        else COk crs in
      match ocrs with
      | CErr e => CErr e
      | COk crs1 =>
          match assign_slots p crs1 with
          | CErr e => CErr e
          | COk (_, locals, asg) => COk (asg, locals)
          end
      end
  end.

Definition model_assignment (o : copts) (p : prog) : cres (list (N * N)) :=
  match compile_rec (S (List.length (p_subs p))) o p None (p_main p) [] with
  | CErr e => CErr e
  | COk crs =>
      let ocrs :=
        if o_opt_slots o then
          let skip := skip_slots p crs in
          fold_right (fun c acc =>
                        match acc, optimize_routine (cr_graph c) (cr_start c) skip with
                        | COk l, Some g => COk (mkCR (cr_sub c) g (cr_start c) (cr_end c) :: l)
                        | COk _, None => CErr CrashRecursion
                        | CErr e, _ => CErr e
                        end) (COk []) crs
        else COk crs in
      match ocrs with
      | CErr e => CErr e
      | COk crs1 =>
          match assign_slots p crs1 with
          | CErr e => CErr e
          | COk (_, _, asg) => COk asg
          end
      end
  end.

(* class predicate of the known finding "optimizer orphan store": slots of which the optimiser deleted more
   stores than loads (every deleted store that has no cancelling load leaves its value on the stack) *)
Definition count_slot_ops (c : croutine) (op : opc) (s : N) : nat :=
  List.length (filter (fun i => is_op i op && mem_N s (instr_slots i))
                      (flat_map (fun b => get_ops (cr_graph c) b) (iterate (cr_graph c) (cr_start c)))).

Definition opt_orphans (o : copts) (p : prog) : list N :=
  match compile_rec (S (List.length (p_subs p))) o p None (p_main p) [] with
  | CErr _ => []
  | COk crs =>
      let skip := skip_slots p crs in
      flat_map (fun c =>
                  match optimize_routine (cr_graph c) (cr_start c) skip with
                  | None => []
                  | Some g =>
                      let c' := mkCR (cr_sub c) g (cr_start c) (cr_end c) in
                      filter (fun s =>
                                Nat.ltb (count_slot_ops c O_load s - count_slot_ops c' O_load s)
                                        (count_slot_ops c O_store s - count_slot_ops c' O_store s))
                             (routine_slots c)
                  end) crs
  end.

Definition compile_model (o : copts) (modes : opc -> bool * bool) (p : prog) : cres (list string) :=
  match compile_components o modes p with
  | CErr e => CErr e
  | COk comps =>
      match assemble_all comps with
      | Some lines => COk lines
      | None => CErr ErrInternal
      end
  end.
