(* Comp/Assemble.v — model of TealOp.assemble / TealLabel.assemble / TealPragma.assemble. *)
From Coq Require Import List NArith Ascii String Bool.
From PV Require Import Base.Bytes Base.Sexp AVM.Syntax Comp.SplitLines.
Import ListNotations.
Local Open Scope string_scope.

(* Result of assembling one argument; unassigned slots / unresolved subroutines are errors. *)
Definition assemble_arg (a : arg) : option string :=
  match a with
  | AInt n => Some (N_to_dec n)
  | AStr s => Some s
  | ALbl l => Some l
  | ASlot _ => None
  | ASub _ => None
  end.

Fixpoint assemble_args (l : list arg) : option (list string) :=
  match l with
  | [] => Some []
  | a :: t =>
      match assemble_arg a, assemble_args t with
      | Some x, Some r => Some (x :: r)
      | _, _ => None
      end
  end.

Definition assemble_instr (i : instr) : option string :=
  match assemble_args (i_args i) with
  | Some parts => Some (concat_sep " " (opc_name (i_op i) :: parts))
  | None => None
  end.

Definition nl : string := String (ascii_of_N 10) EmptyString.

(* TealLabel.assemble (since /repo 3627216): one comment line per line of the comment text,
   lines = comment.splitlines() or [""] *)
Definition label_comment (cm : string) : string :=
  String.concat "" (map (fun ln => "// " ++ ln ++ nl)
                        (match splitlines cm with [] => [""] | ls => ls end)).

Definition assemble_comp (c : comp) : option string :=
  match c with
  | COp i => assemble_instr i
  | CLabel l None => Some (l ++ ":")
  | CLabel l (Some cm) => Some (nl ++ label_comment cm ++ l ++ ":")
  | CPragma v => Some ("#pragma version " ++ N_to_dec v)
  end.

Fixpoint assemble_all (l : list comp) : option (list string) :=
  match l with
  | [] => Some []
  | c :: t =>
      match assemble_comp c, assemble_all t with
      | Some x, Some r => Some (x :: r)
      | _, _ => None
      end
  end.
