(* Comp/Blocks.v — the block graph: PyTeal's mutable pointer graph as a finite map id -> block,
   with the [incoming] lists PyTeal maintains beside it.  Object identity = id. *)
From Coq Require Import List Arith NArith String Bool.
From PV Require Import Base.Bytes AVM.Syntax.
Import ListNotations.

Definition id := nat.

Inductive block : Type :=
| BSimple (ops : list instr) (next : option id)
| BCond (ops : list instr) (tru fls : option id).

Definition b_ops (b : block) : list instr :=
  match b with BSimple o _ => o | BCond o _ _ => o end.

Definition set_ops (b : block) (o : list instr) : block :=
  match b with BSimple _ n => BSimple o n | BCond _ t f => BCond o t f end.

(* getOutgoing *)
Definition outgoing (b : block) : list id :=
  match b with
  | BSimple _ None => []
  | BSimple _ (Some n) => [n]
  | BCond _ t f => (match t with Some x => [x] | None => [] end) ++ (match f with Some x => [x] | None => [] end)
  end.

Definition opt_id_is (o : option id) (x : id) : bool :=
  match o with Some y => Nat.eqb x y | None => false end.

(* replaceOutgoing(old, new): both edges of a conditional block are re-pointed (since the fix in /repo:
   "NormalizeBlocks lost the start block and half-replaced conditional edges") *)
Definition replace_outgoing (b : block) (old new : id) : block :=
  match b with
  | BSimple o n => if opt_id_is n old then BSimple o (Some new) else b
  | BCond o t f =>
      BCond o (if opt_id_is t old then Some new else t) (if opt_id_is f old then Some new else f)
  end.

Definition is_term_op (i : instr) : bool :=
  match i_op i with O_return_ | O_retsub | O_err => true | _ => false end.

(* isTerminal *)
Definition is_terminal (b : block) : bool :=
  existsb is_term_op (b_ops b) || match outgoing b with [] => true | _ => false end.

Record graph : Type := mkG {
  g_blk : id -> option block;
  g_inc : id -> list id;
  g_next : id                           (* fresh-id counter: every defined id is below it *)
}.

Definition empty_graph : graph := mkG (fun _ => None) (fun _ => []) 0.

Definition upd {A} (f : id -> A) (k : id) (v : A) : id -> A :=
  fun x => if Nat.eqb x k then v else f x.

Definition add_block (g : graph) (b : block) : id * graph :=
  (g_next g, mkG (upd (g_blk g) (g_next g) (Some b)) (g_inc g) (S (g_next g))).

(* reserve an id whose block is defined later (loop branch blocks) *)
Definition reserve (g : graph) : id * graph :=
  (g_next g, mkG (g_blk g) (g_inc g) (S (g_next g))).

Definition define (g : graph) (i : id) (b : block) : graph :=
  mkG (upd (g_blk g) i (Some b)) (g_inc g) (g_next g).

Definition set_blk (g : graph) (i : id) (b : block) : graph := define g i b.

Definition set_inc (g : graph) (i : id) (l : list id) : graph :=
  mkG (g_blk g) (upd (g_inc g) i l) (g_next g).

Definition get_ops (g : graph) (i : id) : list instr :=
  match g_blk g i with Some b => b_ops b | None => [] end.

Definition out_of (g : graph) (i : id) : list id :=
  match g_blk g i with Some b => outgoing b | None => [] end.

Fixpoint mem_id (x : id) (l : list id) : bool :=
  match l with [] => false | y :: t => Nat.eqb x y || mem_id x t end.

(* TealBlock.Iterate: breadth-first order from [start], each block once.  The graph is NOT
   mutated during this traversal here; passes that mutate while iterating re-implement the loop. *)
Fixpoint bfs (fuel : nat) (g : graph) (queue visited : list id) (acc : list id) : list id :=
  match fuel with
  | O => rev acc
  | S f =>
      match queue with
      | [] => rev acc
      | w :: q =>
          let nexts := out_of g w in
          let '(q', v') :=
            fold_left (fun '(q, v) n => if mem_id n v then (q, v) else (q ++ [n], v ++ [n])) nexts (q, visited) in
          bfs f g q' v' (w :: acc)
      end
  end.

Definition iterate (g : graph) (start : id) : list id :=
  bfs (S (g_next g)) g [start] [start] [].
