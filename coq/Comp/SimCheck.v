(* Comp/SimCheck.v — vocabulary for the NormalizeBlocks stage (C01) and the parent-pointer
   invariants (C20): observational equivalence of two rooted block graphs, reachability, the
   decidable side conditions under which [normalize] is proved correct for ALL graphs, and the
   pass bodies of Comp/Passes.v with the edge-replacement function and the two pass-2 switches as
   parameters ([gbody1]/[gbody2]): [gnormalize_faithful] shows by [reflexivity] that the instance
   (replace_outgoing, fixstart, skipself) IS the current [normalize]; the other instances are the
   code as it was before the repair 39fa261 of /repo ([normalize_pinned]) and the two partial
   repairs, kept for the historical refutations. *)
From Coq Require Import List Arith NArith String Bool Lia.
From PV Require Import Base.Bytes AVM.Syntax AVM.Machine Src.Expr Src.Denote
  Comp.Blocks Comp.Lower Comp.Passes Comp.GraphSem.
Import ListNotations.

(* ---- observations: a run is observed when it leaves the graph ---- *)
Definition halting (c : gconf) : Prop := match c with GAt _ _ _ => False | _ => True end.

(* rooted graphs (G, s) and (G', s') reach the same halting configurations from every stack/state *)
Definition equiv_from (env : denv) (G : bgraph) (s : id) (G' : bgraph) (s' : id) : Prop :=
  forall stk st c, halting c ->
    (star env G (GAt s stk st) c <-> star env G' (GAt s' stk st) c).

(* ---- reachability along outgoing edges ---- *)
Inductive reach (g : graph) (s : id) : id -> Prop :=
| reach_refl : reach g s s
| reach_step p x : reach g s p -> In x (out_of g p) -> reach g s x.

(* ---- side conditions ---- *)
(* a conditional block has both branches (flattenBlocks asserts it) *)
Definition full_b (b : block) : Prop :=
  match b with BCond _ t f => t <> None /\ f <> None | BSimple _ _ => True end.
Definition cond_full (g : graph) : Prop := forall i b, g_blk g i = Some b -> full_b b.

(* the two branches of a conditional block are different blocks *)
Definition dist_b (b : block) : Prop :=
  match b with BCond _ (Some t) (Some f) => t <> f | _ => True end.

Definition cond_ok (b : block) : bool :=
  match b with
  | BCond _ (Some t) (Some f) => negb (Nat.eqb t f)
  | BCond _ _ _ => false
  | BSimple _ _ => true
  end.

Definition norm_pre_check (g : graph) : bool :=
  forallb (fun i => match g_blk g i with Some b => cond_ok b | None => true end) (seq 0 (g_next g)).

Lemma cond_ok_sound b : cond_ok b = true -> full_b b /\ dist_b b.
Proof.
  destruct b as [o n|o [t|] [f|]]; cbn; intros H; try discriminate; try (split; exact Logic.I).
  split; [split; discriminate|].
  intros E. subst. rewrite Nat.eqb_refl in H. discriminate.
Qed.

Lemma norm_pre_check_sound g :
  (forall i, g_next g <= i -> g_blk g i = None) -> norm_pre_check g = true ->
  forall i b, g_blk g i = Some b -> full_b b /\ dist_b b.
Proof.
  intros W H i b E. unfold norm_pre_check in H. rewrite forallb_forall in H.
  destruct (Nat.lt_ge_cases i (g_next g)) as [L|L].
  - specialize (H i). rewrite E in H. apply cond_ok_sound. apply H. apply in_seq. lia.
  - rewrite W in E by exact L. discriminate.
Qed.

(* a conditional block has both branches: decidable on the allocated ids *)
Definition full_ok (b : block) : bool :=
  match b with
  | BCond _ (Some _) (Some _) => true
  | BCond _ _ _ => false
  | BSimple _ _ => true
  end.

Definition cond_full_check (g : graph) : bool :=
  forallb (fun i => match g_blk g i with Some b => full_ok b | None => true end) (seq 0 (g_next g)).

Lemma full_ok_sound b : full_ok b = true -> full_b b.
Proof.
  destruct b as [o n|o [t|] [f|]]; cbn; intros H; try discriminate; try exact Logic.I.
  split; discriminate.
Qed.

Lemma cond_full_check_sound g :
  (forall i, g_next g <= i -> g_blk g i = None) -> cond_full_check g = true -> cond_full g.
Proof.
  intros W H i b E. unfold cond_full_check in H. rewrite forallb_forall in H.
  destruct (Nat.lt_ge_cases i (g_next g)) as [L|L].
  - specialize (H i). rewrite E in H. apply full_ok_sound. apply H. apply in_seq. lia.
  - rewrite W in E by exact L. discriminate.
Qed.

(* ---- the pass bodies with the edge replacement as a parameter ---- *)
(* TealConditionalBlock.replaceOutgoing as it was before the repair: [if ... elif], a conditional
   block replaces the true edge, ELSE the false edge *)
Definition replace_outgoing_elif (b : block) (old new : id) : block :=
  match b with
  | BSimple o n => if opt_id_is n old then BSimple o (Some new) else b
  | BCond o t f =>
      if opt_id_is t old then BCond o (Some new) f
      else if opt_id_is f old then BCond o t (Some new)
      else b
  end.

Section Generic.
  Variable ro : block -> id -> id -> block.

  Definition gbody1 (g : graph) (start block : id) : graph * id :=
    match g_inc g block with
    | [prev] =>
        match out_of g prev with
        | [x] =>
            if Nat.eqb x block then
              match g_blk g block with
              | Some bb =>
                  let g1 := set_blk g block (set_ops bb (get_ops g prev ++ b_ops bb)) in
                  let pinc := g_inc g prev in
                  let g2 := set_inc g1 block pinc in
                  let g3 := fold_left (fun g i =>
                                         match g_blk g i with
                                         | Some ib => set_blk g i (ro ib prev block)
                                         | None => g
                                         end) pinc g2 in
                  (g3, if Nat.eqb prev start then block else start)
              | None => (g, start)
              end
            else (g, start)
        | _ => (g, start)
        end
    | _ => (g, start)
    end.

  (* fixstart: [start = outgoing[0]] instead of the no-op [start = block];
     skipself: leave an empty block alone when its single successor is the block itself *)
  Definition gbody2 (fixstart skipself : bool) (g : graph) (start block : id) : graph * id :=
    match get_ops g block with
    | [] =>
        match out_of g block with
        | [ob] =>
            if skipself && Nat.eqb ob block then (g, start)
            else
              let g1 := set_inc g ob (remove_first block (g_inc g ob)) in
              let g2 := fold_left (fun g prev =>
                                     let g' := match g_blk g prev with
                                               | Some pb => set_blk g prev (ro pb block ob)
                                               | None => g
                                               end in
                                     if mem_id prev (g_inc g' ob) then g' else set_inc g' ob (g_inc g' ob ++ [prev]))
                                  (g_inc g1 block) g1 in
              (g2, if fixstart && Nat.eqb block start then ob else start)
        | _ => (g, start)
        end
    | _ :: _ => (g, start)
    end.

  Definition gnormalize (fixstart skipself : bool) (g : graph) (start : id) : graph * id :=
    let fuel := S (g_next g) in
    let '(g1, s1) := norm_iter gbody1 fuel g start [start] [start] in
    norm_iter (gbody2 fixstart skipself) fuel g1 s1 [s1] [s1].
End Generic.

(* the current code = both-branch replacement, start moved, empty self-loop left alone *)
Lemma gbody1_faithful g s b : gbody1 replace_outgoing g s b = norm_body1 g s b.
Proof. reflexivity. Qed.
Lemma gbody2_faithful g s b : gbody2 replace_outgoing true true g s b = norm_body2 g s b.
Proof. reflexivity. Qed.
Lemma gnormalize_faithful g s : gnormalize replace_outgoing true true g s = normalize g s.
Proof. reflexivity. Qed.

(* HISTORICAL variants (the code before the repair 39fa261 of /repo, and the partial repairs) *)
(* the pinned code: [elif] replacement, [if block is start: start = block] (a no-op) *)
Definition normalize_pinned : graph -> id -> graph * id := gnormalize replace_outgoing_elif false false.
(* hunk A only: pass 2 moves [start] to the successor of a by-passed start block *)
Definition normalize_startfix : graph -> id -> graph * id := gnormalize replace_outgoing_elif true false.
(* hunks A+B: + replaceOutgoing re-points BOTH branches; an empty self-loop is still by-passed *)
Definition normalize_noskip : graph -> id -> graph * id := gnormalize replace_outgoing true false.

(* ---- incoming lists ---- *)
(* what validateTree asserts: every edge out of a block reachable from [s] finds its source exactly
   once in the target's incoming list *)
Definition tree_valid (g : graph) (s : id) : Prop :=
  forall p b, reach g s p -> In b (out_of g p) -> count_id p (g_inc g b) = 1.

(* the over-approximation that the merge of pass 1 relies on *)
Definition inc_covers (g : graph) (s : id) : Prop :=
  forall p b, reach g s p -> In b (out_of g p) -> In p (g_inc g b).

(* exact predecessor lists on the reachable part *)
Definition inc_exact (g : graph) (s : id) : Prop :=
  forall b, reach g s b ->
    NoDup (g_inc g b) /\ (forall p, In p (g_inc g b) <-> (reach g s p /\ In b (out_of g p))).

(* ---- a decidable certificate for one routine ---- *)
(* the side conditions of [normalize_correct] (Proofs/NormalizeCorrect.v), all computable on the graph
   the compiler holds right before NormalizeBlocks: conditional blocks have both branches,
   validateTree's assertion (the very check the compiler runs at that point; a failure there is an
   AssertionError, C20), no edge registered into the start block.
   [norm_cert_sound : wf g -> norm_cert g s = true -> normalize g s = (g', s') -> equivalence]. *)
Definition norm_cert (g : graph) (s : id) : bool :=
  cond_full_check g && validate_tree g s && match g_inc g s with [] => true | _ :: _ => false end.

(* the stronger certificate the pinned code needed (two DIFFERENT branches) *)
Definition norm_cert_pinned (g : graph) (s : id) : bool :=
  norm_pre_check g && validate_tree g s && match g_inc g s with [] => true | _ :: _ => false end.
