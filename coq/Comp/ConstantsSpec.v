(* Comp/ConstantsSpec.v — what a constant-loading line *denotes*, defined through the assembler's own
   reading (AVM/Parse.v [parse_stmt]) and the machine's block look-up (AVM/Machine.v), so that the
   C12 theorems can say "the value loaded is the value the pseudo-op denotes".
   Idealisation (stated, not hidden): an op is read at token level — one token per TealOp argument,
   the arguments after a "//" argument are a comment.  The line tokeniser itself (spaces, quotes, ';')
   is exercised on the real text by the harness oracle, not here.
   Template placeholders: [sigma] is the text that instantiates each TMPL_ name (the same text in the
   program compiled with and without the option). *)
From Coq Require Import List Arith NArith Ascii String Bool.
From PV Require Import Base.Bytes Base.Sexp AVM.Syntax AVM.Machine AVM.Parse Comp.Constants.
Import ListNotations.
Local Open Scope string_scope.

Inductive sval : Type :=
| SVInt (n : N)
| SVBytes (b : bytes).

Definition sval_value (v : sval) : value :=
  match v with SVInt n => VI n | SVBytes b => VB b end.

Section Spec.
Variable sigma : string -> string.
Variable msel : list (string * bytes).

Definition subst_tok (s : string) : string := if is_tmpl_name s then sigma s else s.

Definition arg_token (a : arg) : option string :=
  match a with
  | AInt n => Some (N_to_dec n)
  | AStr s => Some (subst_tok s)
  | ALbl l => Some l
  | ASlot _ | ASub _ => None
  end.

Definition is_comment_arg (a : arg) : bool :=
  match a with AStr s => String.eqb s "//" | _ => false end.

Fixpoint arg_tokens (l : list arg) : option (list string) :=
  match l with
  | [] => Some []
  | a :: t =>
      if is_comment_arg a then Some []
      else match arg_token a, arg_tokens t with
           | Some x, Some r => Some (x :: r)
           | _, _ => None
           end
  end.

(* the instruction the assembler reads from an op *)
Definition parsed_of (i : instr) : option pinstr :=
  match arg_tokens (i_args i) with
  | Some ts =>
      match parse_stmt msel (opc_name (i_op i) :: ts) with
      | Some (Some (SInstr p)) => Some p
      | _ => None
      end
  | None => None
  end.

(* ops that push their own immediate *)
Definition push_value (p : pinstr) : option sval :=
  match p_op p, p_imms p with
  | (O_int | O_pushint), [IInt n] => Some (SVInt n)
  | (O_byte | O_pushbytes | O_addr | O_method_signature), [IBytes b] => Some (SVBytes b)
  | _, _ => None
  end.

(* value denoted by a constant pseudo-op (int / byte / addr / method) *)
Definition denote (i : instr) : option sval :=
  match parsed_of i with Some p => push_value p | None => None end.

(* value loaded by an instruction when the constant blocks are [ib] / [bb] — mirrors [step] *)
Definition load_value (ib : list N) (bb : list bytes) (p : pinstr) : option sval :=
  match p_op p, p_imms p with
  | O_intc, [IInt k] => option_map SVInt (nth_error ib (N.to_nat k))
  | O_intc_0, _ => option_map SVInt (nth_error ib 0)
  | O_intc_1, _ => option_map SVInt (nth_error ib 1)
  | O_intc_2, _ => option_map SVInt (nth_error ib 2)
  | O_intc_3, _ => option_map SVInt (nth_error ib 3)
  | O_bytec, [IInt k] => option_map SVBytes (nth_error bb (N.to_nat k))
  | O_bytec_0, _ => option_map SVBytes (nth_error bb 0)
  | O_bytec_1, _ => option_map SVBytes (nth_error bb 1)
  | O_bytec_2, _ => option_map SVBytes (nth_error bb 2)
  | O_bytec_3, _ => option_map SVBytes (nth_error bb 3)
  | _, _ => push_value p
  end.

(* the blocks in force after the emitted block lines have executed (None: a line does not assemble) *)
Fixpoint blocks_after (pro : list comp) (ib : list N) (bb : list bytes) : option (list N * list bytes) :=
  match pro with
  | [] => Some (ib, bb)
  | COp i :: t =>
      match parsed_of i with
      | Some p =>
          match p_op p with
          | O_intcblock => match imm_ints (p_imms p) with Some ns => blocks_after t ns bb | None => None end
          | O_bytecblock => match imm_bytes (p_imms p) with Some bs => blocks_after t ib bs | None => None end
          | _ => None
          end
      | None => None
      end
  | _ :: _ => None
  end.

(* integer immediates the assembler accepted are below 2^64 (the machine checks it again) *)
Definition imm_fits (p : pinstr) : Prop :=
  match p_op p, p_imms p with
  | (O_int | O_pushint), [IInt n] => (n < 18446744073709551616)%N
  | _, _ => True
  end.

Definition is_const_instr (i : instr) : bool :=
  match const_kind (i_op i) with CKNone => false | _ => true end.

(* index immediates of the long forms *)
Definition long_index (i : instr) : option N :=
  match i_op i, i_args i with
  | (O_intc | O_bytec), AInt k :: _ => Some k
  | _, _ => None
  end.

(* one site of the input against the component at the same position of the output body *)
Definition site_ok (ib : list N) (bb : list bytes) (c c' : comp) : Prop :=
  match c with
  | COp i =>
      if is_const_instr i then
        exists i' p', c' = COp i' /\ parsed_of i' = Some p' /\ imm_fits p' /\
                      forall v, denote i = Some v -> load_value ib bb p' = Some v
      else c' = c
  | _ => c' = c
  end.

(* hypotheses of the main theorem, as predicates on the input list *)
Definition well_formed_site (c : comp) : Prop :=
  match c with
  | COp i => is_const_instr i = true -> denote i <> None
  | _ => True
  end.

Definition no_addr_template_site (c : comp) : Prop :=
  match c with
  | COp i => match i_op i, i_args i with
             | O_addr, [AStr s] => is_tmpl_name s = false
             | _, _ => True
             end
  | _ => True
  end.

Definition has_backslash (s : string) : bool :=
  existsb (fun c => Ascii.eqb c "\"%char) (list_ascii_of_string s).

Definition plain_method_site (c : comp) : Prop :=
  match c with
  | COp i => match i_op i, i_args i with
             | O_method_signature, [AStr s] => has_backslash s = false
             | _, _ => True
             end
  | _ => True
  end.

End Spec.

(* the selector table the assembler uses agrees with the hash oracle constants.py uses *)
Definition msel_consistent (sig_hash : string -> bytes) (msel : list (string * bytes)) : Prop :=
  forall sig sel, alookup String.eqb sig msel = Some sel -> sel = firstn 4 (sig_hash sig).
