(* Comp/ValidateSlots.v — executable model of TealBlock.validateSlots (pyteal/ir/tealblock.py:91-131)
   as invoked per routine by assignScratchSlotsToSubroutines (pyteal/compiler/scratchslots.py:137-146),
   and the specification "there is a control-flow path to a load of slot s with no earlier store to s".

   No proofs here (Proofs/ValidateSlotsProof.v), so a broken proof never stops the model from running.

   The Python code, line by line:

     def validateSlots(self, slotsInUse=None, visited=None):
         if visited is None: visited = set()
         if slotsInUse is None: slotsInUse = set()
         currentSlotsInUse = set(slotsInUse)                     # a COPY
         errors = []
         for op in self.ops:                                     # ALL ops, also those after a return/retsub/err
             if op.getOp() == Op.store:
                 for slot in op.getSlots(): currentSlotsInUse.add(slot)
             if op.getOp() == Op.load:
                 for slot in op.getSlots():
                     if slot not in currentSlotsInUse:
                         errors.append(TealCompileError("Scratch slot load occurs before store", op.expr))
         if not self.isTerminal():                               # any return/retsub/err op, or no successor
             sortedSlots = sorted(slot.id for slot in currentSlotsInUse)
             for block in self.getOutgoing():                    # [next] / [true, false] (None entries dropped)
                 visitedKey = (id(block), *sortedSlots)
                 if visitedKey in visited: continue
                 visited.add(visitedKey)                         # ONE set shared by the whole recursion
                 for error in block.validateSlots(currentSlotsInUse, visited):
                     if error not in errors: errors.append(error)   # TealCompileError.__eq__: same msg and
         return errors                                           #   sourceExpr IS the same object

   Abstractions (each is re-established by the harness when it exports a real graph):
   * a block is identified by its index in the exported graph (Python: object identity, id(block));
   * a slot is identified by its id (Python: the ScratchSlot object for membership, slot.id in the memo
     key; two distinct objects share an id only if both were reserved with the same requested id, and
     then assignScratchSlotsToSubroutines has already raised before validateSlots is called);
   * an error is identified by the tag of the load's source expression (Python: op.expr identity; all
     errors carry the same message, so TealCompileError.__eq__ is exactly tag equality);
   * an op is  Store s | Load s t | Term (return / retsub / err) | Other.  An op whose getSlots() has k
     entries is exported as k consecutive single-slot ops (the two inner for-loops make that an
     identity), k = 0 gives Other;
   * the set of slots is a strictly increasing list of ids (= the sorted tuple of the memo key);
   * the call stack of Python is replaced by fuel; OutOfFuel = None.  Python's own recursion limit is
     not modelled (C20). *)
From Coq Require Import List NArith Arith Bool.
Import ListNotations.

Inductive op : Type :=
| Store (s : N)
| Load (s : N) (t : N)      (* t: tag of the source expression the error would name *)
| Term                      (* Op.return_, Op.retsub, Op.err *)
| Other.

Inductive block : Type :=
| Simple (ops : list op) (next : option nat)
| Cond (ops : list op) (tru fls : option nat).

Definition graph := list block.

Definition ops_of (b : block) : list op :=
  match b with Simple o _ => o | Cond o _ _ => o end.

Definition opt_list (o : option nat) : list nat :=
  match o with Some x => [x] | None => [] end.

(* getOutgoing() *)
Definition outgoing (b : block) : list nat :=
  match b with
  | Simple _ n => opt_list n
  | Cond _ t f => opt_list t ++ opt_list f
  end.

Definition is_term (o : op) : bool := match o with Term => true | _ => false end.

(* isTerminal() *)
Definition is_terminal (b : block) : bool :=
  existsb is_term (ops_of b) || match outgoing b with [] => true | _ => false end.

(* a dangling id (impossible in Python) reads as an empty block without successors *)
Definition getb (g : graph) (b : nat) : block := nth b g (Simple [] None).

(* ---- the slot set: strictly increasing list of ids ---- *)
Fixpoint ins (x : N) (l : list N) : list N :=
  match l with
  | [] => [x]
  | y :: r => if N.ltb x y then x :: l else if N.eqb x y then l else y :: ins x r
  end.

Definition mem (x : N) (l : list N) : bool := existsb (N.eqb x) l.

(* set(slotsInUse) *)
Definition canon (l : list N) : list N := fold_right ins [] l.

(* ---- the scan of one block ---- *)
Fixpoint scan_cur (ops : list op) (cur : list N) : list N :=
  match ops with
  | [] => cur
  | Store s :: r => scan_cur r (ins s cur)
  | _ :: r => scan_cur r cur
  end.

Fixpoint scan_errs (ops : list op) (cur : list N) : list N :=
  match ops with
  | [] => []
  | Store s :: r => scan_errs r (ins s cur)
  | Load s t :: r => (if mem s cur then [] else [t]) ++ scan_errs r cur
  | _ :: r => scan_errs r cur
  end.

(* for error in child: if error not in errors: errors.append(error) *)
Definition merge (errs es : list N) : list N :=
  fold_left (fun acc e => if mem e acc then acc else acc ++ [e]) es errs.

(* ---- the memo ---- *)
Definition key := (nat * list N)%type.

Definition key_dec : forall a b : key, {a = b} + {a <> b}.
Proof. decide equality; [apply (list_eq_dec N.eq_dec) | apply Nat.eq_dec]. Defined.

Definition seen (k : key) (vis : list key) : bool :=
  if in_dec key_dec k vis then true else false.

(* the loop over getOutgoing(); [rec] is validateSlots of the successor *)
Definition visit_succs (rec : nat -> list N -> list key -> option (list N * list key)) (cur : list N) :=
  fix go (outs : list nat) (errs : list N) (vis : list key) : option (list N * list key) :=
    match outs with
    | [] => Some (errs, vis)
    | c :: rest =>
        if seen (c, cur) vis then go rest errs vis
        else match rec c cur ((c, cur) :: vis) with
             | None => None
             | Some (es, vis') => go rest (merge errs es) vis'
             end
    end.

Fixpoint validate (fuel : nat) (g : graph) (b : nat) (inuse : list N) (vis : list key)
  : option (list N * list key) :=
  match fuel with
  | O => None
  | S f =>
      let blk := getb g b in
      let cur := scan_cur (ops_of blk) inuse in
      let errs := scan_errs (ops_of blk) inuse in
      if is_terminal blk then Some (errs, vis)
      else visit_succs (validate f g) cur (outgoing blk) errs vis
  end.

(* ---- fuel that always suffices: one more than the number of possible memo keys ---- *)
Definition stores_of (ops : list op) : list N :=
  flat_map (fun o => match o with Store s => [s] | _ => [] end) ops.

Definition slots_univ (g : graph) (init : list N) : list N :=
  canon (init ++ flat_map (fun b => stores_of (ops_of b)) g).

Definition all_succs (g : graph) : list nat := flat_map outgoing g.

Definition fuel_bound (g : graph) (init : list N) : nat :=
  S (length (all_succs g) * 2 ^ length (slots_univ g init)).

(* start.validateSlots(slotsInUse=init): the list of error tags, in Python's order *)
Definition validate_slots_fuel (fuel : nat) (g : graph) (start : nat) (init : list N)
  : option (list N * list key) :=
  validate fuel g start (canon init) [].

Definition validate_slots (g : graph) (start : nat) (init : list N) : option (list N) :=
  option_map fst (validate_slots_fuel (fuel_bound g init) g start init).

(* ================================ specification ================================ *)

(* [bpath g a p b]: control can flow from the beginning of block a to the beginning of block b, having
   executed completely the blocks p (in order); every block left behind is non-terminal. *)
Inductive bpath (g : graph) (a : nat) : list nat -> nat -> Prop :=
| bp_nil : bpath g a [] a
| bp_step : forall p b c,
    bpath g a p b ->
    is_terminal (getb g b) = false ->
    In c (outgoing (getb g b)) ->
    bpath g a (p ++ [b]) c.

Definition path_ops (g : graph) (p : list nat) : list op :=
  flat_map (fun b => ops_of (getb g b)) p.

(* The op at index i of block b is a load of s (tag t); some block path from the routine's start reaches b
   and neither the initial set, nor the blocks on the path, nor the ops of b in front of index i store s.
   This is what validateSlots looks at: it does not stop at a return/retsub/err INSIDE block b. *)
Definition scan_path (g : graph) (start : nat) (init : list N) (s : N) (b i : nat) (t : N) : Prop :=
  exists p,
    bpath g start p b /\
    nth_error (ops_of (getb g b)) i = Some (Load s t) /\
    ~ In s init /\
    ~ In (Store s) (path_ops g p ++ firstn i (ops_of (getb g b))).

(* The property's hypothesis: a genuine control-flow path — additionally no return/retsub/err in front of
   the load inside its own block. *)
Definition unstored_path (g : graph) (start : nat) (init : list N) (s : N) (b i : nat) (t : N) : Prop :=
  scan_path g start init s b i t /\ ~ In Term (firstn i (ops_of (getb g b))).

(* Abstract execution of the block graph: [runs_to g start b k tr] = some execution from the beginning of
   block start is about to execute op k of block b, having executed the ops tr (oldest first).  Branches
   are non-deterministic, Term ends the execution, every other op falls through. *)
Inductive runs_to (g : graph) (start : nat) : nat -> nat -> list op -> Prop :=
| run_start : runs_to g start start 0 []
| run_op : forall b k tr o,
    runs_to g start b k tr ->
    nth_error (ops_of (getb g b)) k = Some o ->
    o <> Term ->
    runs_to g start b (S k) (tr ++ [o])
| run_jump : forall b tr c,
    runs_to g start b (length (ops_of (getb g b))) tr ->
    In c (outgoing (getb g b)) ->
    runs_to g start c 0 tr.
