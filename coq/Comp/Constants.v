(* Comp/Constants.v — executable model of pyteal/compiler/constants.py (createConstantBlocks and the
   four extract*Value functions), faithful to the pinned source, quirks included:
     - int keys: the integer itself, the value of a named enum constant, or the template name;
     - byte keys: bytes of a quoted / 0x / base32(..) / base64(..) spelling, of an address (checksum
       checked), of a method selector, or the template name; an empty address string is returned as
       the (empty) string by algosdk and so behaves like a template name;
     - frequencies in first-occurrence order (OrderedDict), stable sort by descending frequency;
     - int block: frequency > 1 and (position in the sorted list < 4, or template, or value >= 128);
       byte block: frequency > 1; byte indices are looked up in the *sorted key list*, int indices in
       the block;
     - intc_0..3 / bytec_0..3 for indices 0..3, otherwise intc i / bytec i with NO upper bound on i;
     - pushint / pushbytes otherwise; every rewritten op carries "//" and the original arguments.
   Hash functions are parameters (oracles): [addr_hash] = SHA-512/256 of a 32-byte key (address
   checksum = its last 4 bytes), [sig_hash] = SHA-512/256 of the UTF-8 encoded method signature. *)
From Coq Require Import List Arith NArith Ascii String Bool.
From PV Require Import Base.Bytes Base.Sexp AVM.Syntax AVM.Parse Comp.ConstantsLit.
Import ListNotations.
Local Open Scope string_scope.

Inductive ckey : Type :=
| KInt (n : N)
| KBytes (b : bytes)
| KTmpl (s : string).

Definition ckey_eqb (a b : ckey) : bool :=
  match a, b with
  | KInt x, KInt y => N.eqb x y
  | KBytes x, KBytes y => bytes_eqb x y
  | KTmpl x, KTmpl y => String.eqb x y
  | _, _ => false
  end.

Definition is_tmpl_name (s : string) : bool := String.prefix "TMPL_" s.

(* intEnumValues of constants.py *)
Definition int_enum_values : list (string * N) :=
  [("NoOp", 0%N); ("OptIn", 1%N); ("CloseOut", 2%N); ("ClearState", 3%N);
   ("UpdateApplication", 4%N); ("DeleteApplication", 5%N);
   ("unknown", 0%N); ("pay", 1%N); ("keyreg", 2%N); ("acfg", 3%N); ("axfer", 4%N); ("afrz", 5%N); ("appl", 6%N)].

Fixpoint assoc_str {A} (k : string) (l : list (string * A)) : option A :=
  match l with
  | [] => None
  | (k', v) :: t => if String.eqb k k' then Some v else assoc_str k t
  end.

Definition last_is (c : ascii) (l : list ascii) : bool :=
  match rev l with x :: _ => Ascii.eqb x c | [] => false end.

(* value[n:-1] *)
Definition slice_inner (n : nat) (l : list ascii) : list ascii := removelast (skipn n l).

Section Oracles.
Variable addr_hash : bytes -> bytes.
Variable sig_hash : string -> bytes.

Definition extract_int (args : list arg) : option ckey :=
  match args with
  | [AInt n] => Some (KInt n)
  | [AStr s] => if is_tmpl_name s then Some (KTmpl s) else option_map KInt (assoc_str s int_enum_values)
  | _ => None
  end.

Definition extract_bytes (args : list arg) : option ckey :=
  match args with
  | [AStr s] =>
      let l := list_ascii_of_string s in
      if is_tmpl_name s then Some (KTmpl s)
      else if String.prefix """" s && last_is """" l then option_map KBytes (py_unescape_bytes l)
      else if String.prefix "0x" s then option_map KBytes (py_fromhex (skipn 2 l))
      else if String.prefix "base32(" s && last_is ")" l then
        match correct_b32_padding (slice_inner 7 l) with
        | Some p => option_map KBytes (py_b32decode p)
        | None => None
        end
      else if String.prefix "base64(" s && last_is ")" l then option_map KBytes (py_b64decode (slice_inner 7 l))
      else None
  | _ => None
  end.

(* algosdk.encoding.decode_address *)
Definition decode_address (l : list ascii) : option bytes :=
  if negb (List.length l =? 58)%nat then None else
  match py_b32decode ((l ++ repeat "="%char 6)%list) with
  | Some d =>
      let n := (List.length d - 4)%nat in
      let key := firstn n d in
      let expected := skipn n d in
      let h := addr_hash key in
      if bytes_eqb (skipn (List.length h - 4) h) expected then Some key else None
  | None => None
  end.

Definition extract_addr (args : list arg) : option ckey :=
  match args with
  | [AStr s] =>
      if is_tmpl_name s then Some (KTmpl s)
      else match s with
           | EmptyString => Some (KTmpl s)            (* decode_address("") returns "" *)
           | _ => option_map KBytes (decode_address (list_ascii_of_string s))
           end
  | _ => None
  end.

Definition extract_method (args : list arg) : option ckey :=
  match args with
  | [AStr s] =>
      let l := list_ascii_of_string s in
      match l with
      | q :: _ =>
          if Ascii.eqb q """" && last_is """" l
          then Some (KBytes (firstn 4 (sig_hash (string_of_list_ascii (slice_inner 1 l)))))
          else None
      | [] => None                                     (* IndexError *)
      end
  | _ => None
  end.

(* which dictionary an op feeds *)
Inductive ckind := CKInt | CKBytes | CKNone.
Definition const_kind (o : opc) : ckind :=
  match o with
  | O_int => CKInt
  | O_byte | O_addr | O_method_signature => CKBytes
  | _ => CKNone
  end.

Definition extract_key (i : instr) : option ckey :=
  match i_op i with
  | O_int => extract_int (i_args i)
  | O_byte => extract_bytes (i_args i)
  | O_addr => extract_addr (i_args i)
  | O_method_signature => extract_method (i_args i)
  | _ => None
  end.

(* OrderedDict counting *)
Definition freqs := list (ckey * nat).

Fixpoint bump (k : ckey) (l : freqs) : freqs :=
  match l with
  | [] => [(k, 1%nat)]
  | (k', n) :: t => if ckey_eqb k k' then (k', S n) :: t else (k', n) :: bump k t
  end.

Fixpoint freq_of (k : ckey) (l : freqs) : nat :=
  match l with
  | [] => 0%nat
  | (k', n) :: t => if ckey_eqb k k' then n else freq_of k t
  end.

(* first loop: None = some extract*Value raised *)
Fixpoint count_consts (ops : list comp) (fi fb : freqs) : option (freqs * freqs) :=
  match ops with
  | [] => Some (fi, fb)
  | COp i :: t =>
      match const_kind (i_op i) with
      | CKInt => match extract_key i with Some k => count_consts t (bump k fi) fb | None => None end
      | CKBytes => match extract_key i with Some k => count_consts t fi (bump k fb) | None => None end
      | CKNone => count_consts t fi fb
      end
  | _ :: t => count_consts t fi fb
  end.

(* sorted(d, key=d.get, reverse=True): stable, descending *)
Fixpoint insert_desc (x : ckey * nat) (l : freqs) : freqs :=
  match l with
  | [] => [x]
  | y :: t => if (snd y <? snd x)%nat then x :: l else y :: insert_desc x t
  end.
Definition sort_desc (l : freqs) : freqs := fold_left (fun acc x => insert_desc x acc) l [].

Definition int_block_keep (i : nat) (kn : ckey * nat) : bool :=
  (1 <? snd kn)%nat &&
  ((i <? 4)%nat || match fst kn with KTmpl _ => true | KInt v => (128 <=? v)%N | KBytes _ => false end).

Fixpoint int_block_from (i : nat) (l : freqs) : list ckey :=
  match l with
  | [] => []
  | kn :: t => if int_block_keep i kn then fst kn :: int_block_from (S i) t else int_block_from (S i) t
  end.

Definition byte_block_of (sorted : freqs) : list ckey :=
  map fst (filter (fun kn => (1 <? snd kn)%nat) sorted).

Fixpoint index_of (k : ckey) (l : list ckey) : option nat :=
  match l with
  | [] => None
  | x :: t => if ckey_eqb k x then Some 0%nat else option_map S (index_of k t)
  end.

Definition int_key_arg (k : ckey) : arg :=
  match k with KInt n => AInt n | KTmpl s => AStr s | KBytes b => AStr ("0x" ++ bytes_to_hex b) end.
Definition bytes_key_arg (k : ckey) : arg :=
  match k with KBytes b => AStr ("0x" ++ bytes_to_hex b) | KTmpl s => AStr s | KInt n => AInt n end.

Definition cmt (args : list arg) : list arg := AStr "//" :: args.

Definition load_op (short0 short1 short2 short3 long : opc) (idx : nat) (orig : list arg) : instr :=
  match idx with
  | 0%nat => mkI short0 (cmt orig)
  | 1%nat => mkI short1 (cmt orig)
  | 2%nat => mkI short2 (cmt orig)
  | 3%nat => mkI short3 (cmt orig)
  | _ => mkI long (AInt (N.of_nat idx) :: cmt orig)
  end.

(* second loop, one component; the extraction cannot fail here when the first loop passed, a
   failure is propagated all the same *)
Definition rewrite_comp (int_block : list ckey) (fb sorted_bytes_keys : freqs) (c : comp) : option comp :=
  match c with
  | COp i =>
      match const_kind (i_op i) with
      | CKInt =>
          match extract_key i with
          | Some k =>
              match index_of k int_block with
              | None => Some (COp (mkI O_pushint (int_key_arg k :: cmt (i_args i))))
              | Some idx => Some (COp (load_op O_intc_0 O_intc_1 O_intc_2 O_intc_3 O_intc idx (i_args i)))
              end
          | None => None
          end
      | CKBytes =>
          match extract_key i with
          | Some k =>
              if (freq_of k fb =? 1)%nat
              then Some (COp (mkI O_pushbytes (bytes_key_arg k :: cmt (i_args i))))
              else match index_of k (map fst sorted_bytes_keys) with
                   | Some idx => Some (COp (load_op O_bytec_0 O_bytec_1 O_bytec_2 O_bytec_3 O_bytec idx (i_args i)))
                   | None => None                        (* ValueError: cannot happen *)
                   end
          | None => None
          end
      | CKNone => Some c
      end
  | _ => Some c
  end.

Fixpoint rewrite_all (int_block : list ckey) (fb sorted_bytes : freqs) (ops : list comp) : option (list comp) :=
  match ops with
  | [] => Some []
  | c :: t =>
      match rewrite_comp int_block fb sorted_bytes c, rewrite_all int_block fb sorted_bytes t with
      | Some c', Some r => Some (c' :: r)
      | _, _ => None
      end
  end.

Definition block_prologue (int_block byte_block : list ckey) : list comp :=
  ((match int_block with [] => [] | _ => [COp (mkI O_intcblock (map int_key_arg int_block))] end) ++
   (match byte_block with [] => [] | _ => [COp (mkI O_bytecblock (map bytes_key_arg byte_block))] end))%list.

Record cplan : Type := mkPlan {
  pl_fi : freqs; pl_fb : freqs;
  pl_sorted_ints : freqs; pl_sorted_bytes : freqs;
  pl_int_block : list ckey; pl_byte_block : list ckey
}.

Definition make_plan (ops : list comp) : option cplan :=
  match count_consts ops [] [] with
  | Some (fi, fb) =>
      let si := sort_desc fi in
      let sb := sort_desc fb in
      Some (mkPlan fi fb si sb (int_block_from 0 si) (byte_block_of sb))
  | None => None
  end.

Definition create_constant_blocks (ops : list comp) : option (list comp) :=
  match make_plan ops with
  | Some p =>
      match rewrite_all (pl_int_block p) (pl_fb p) (pl_sorted_bytes p) ops with
      | Some body => Some ((block_prologue (pl_int_block p) (pl_byte_block p) ++ body)%list)
      | None => None
      end
  | None => None
  end.

End Oracles.

(* compiler.py: assembleConstants requires version >= 3 *)
Definition assemble_constants_min_version : N := 3%N.
