(* Comp/SpillSem.v — C02: a straight-line semantics for a [list comp] that contains calls to ONE
   abstract callee.  It is the semantics in which the spill/restore code that
   [spillLocalSlotsDuringRecursion] (model: [Comp.Compile.spill_one]) puts around a re-entrant
   [callsub] is verified.

   State = (operand stack, top at head ; scratch space [N -> value]).
   - [load n]  pushes scratch n, [store n] pops into scratch n (n must be < 256 as on the machine,
     [AVM.Machine.exec_op]);
   - [callsub _] applies the ABSTRACT callee to the top [numArgs] values (argument list in push order,
     i.e. [rev (firstn numArgs stk)]), pops them, pushes the callee's results (in push order) and
     installs the scratch space the callee returns: the callee may rewrite ALL 256 slots arbitrarily
     (this is what a re-entrant invocation of the caller does to the caller's local slots);
   - every other opcode goes through [AVM.Ops.exec_pure] (the same function [AVM.Machine.step] uses);
     failure or a non-pure opcode => [None];
   - labels and pragmas are skipped. *)
From Coq Require Import List Arith NArith Bool.
From PV Require Import Base.Bytes AVM.Syntax AVM.Ops.
Import ListNotations.

Definition scratch : Type := N -> value.

Definition supd (m : scratch) (n : N) (v : value) : scratch :=
  fun k => if N.eqb k n then v else m k.

(* arguments (push order) -> scratch -> results (push order) * scratch *)
Definition callee_t : Type := list value -> scratch -> list value * scratch.

Definition sstep (callee : callee_t) (numArgs : nat) (c : comp) (stk : list value) (m : scratch)
  : option (list value * scratch) :=
  match c with
  | COp i =>
      match i_op i with
      | O_load =>
          match i_args i with
          | [AInt n] => if N.ltb n 256 then Some (m n :: stk, m) else None
          | _ => None
          end
      | O_store =>
          match i_args i, stk with
          | [AInt n], v :: r => if N.ltb n 256 then Some (r, supd m n v) else None
          | _, _ => None
          end
      | O_callsub =>
          if Nat.leb numArgs (List.length stk) then
            let '(res, m') := callee (rev (firstn numArgs stk)) m in
            Some (rev res ++ skipn numArgs stk, m')
          else None
      | o =>
          match exec_pure o (i_args i) stk with
          | POk s => Some (s, m)
          | _ => None
          end
      end
  | CLabel _ _ => Some (stk, m)
  | CPragma _ => Some (stk, m)
  end.

Fixpoint srun (callee : callee_t) (numArgs : nat) (cs : list comp) (stk : list value) (m : scratch)
  : option (list value * scratch) :=
  match cs with
  | [] => Some (stk, m)
  | c :: t =>
      match sstep callee numArgs c stk m with
      | Some (stk', m') => srun callee numArgs t stk' m'
      | None => None
      end
  end.

Lemma srun_app callee a cs1 cs2 stk m :
  srun callee a (cs1 ++ cs2) stk m =
  match srun callee a cs1 stk m with
  | Some (stk', m') => srun callee a cs2 stk' m'
  | None => None
  end.
Proof.
  revert stk m; induction cs1 as [|c cs1 IH]; intros stk m; cbn [app srun]; [reflexivity|].
  destruct (sstep callee a c stk m) as [[stk' m']|]; auto.
Qed.
