(* Comp/Slots.v — model of pyteal/compiler/scratchslots.py (collectScratchSlots,
   assignScratchSlotsToSubroutines), of TealOp.getSlots/assignSlot (pyteal/ir/tealop.py), of the
   ScratchSlot constructor (pyteal/ast/scratch.py) and of alloc_abstract_var (pyteal/ast/abstractvar.py).

   INPUT ABSTRACTION (documented here, built by harness/c10.py):
   * a ScratchSlot OBJECT is a record (uid, id, reserved).  [uid] is the object's identity (Python
     compares ScratchSlots with [is]: the class defines neither __eq__ nor __hash__); [id] is the
     field slot.id; [reserved] is slot.isReservedSlot.  Two slots are THE SAME OBJECT iff the three
     components agree (the harness gives every object its own uid), so two reserved slots
     requesting one id are DIFFERENT slots with equal [sl_id] — exactly the error case.
   * an op is (kind, args); an arg is a slot placeholder, an integer (also: an already assigned slot)
     or a string.  kind = load / store / int / other records Op.load, Op.store, Op.int (the
     ScratchIndex placeholder) — the assignment itself never looks at it.
   * a routine is the list of the ops of all blocks reachable from its start block (the order
     TealBlock.Iterate visits them is irrelevant to every output: slots are collected into sets);
     the input is the list of routines in the order of the dict [subroutineBlocks] (main = key None
     first, then the subroutines).
   * [validate_ok : bool] stands for "start.validateSlots(global_slots) reported no error for every
     routine" — that step belongs to property C17 and is a parameter here.

   PYTHON SETS.  A set of ScratchSlot iterates in hash (= address) order.  The model represents a set
   as a duplicate-free list and makes the iteration order of [allSlots] an explicit parameter
   ([order]) of [assign_in_order]; every theorem is proved for EVERY order that is a permutation of
   the slot set.  Only two outputs depend on it: (1) which id the "assigned multiple times" message
   names when several ids are requested twice, (2) the relative numbering of two distinct slots
   with the same [id] (sorted(...) is stable) — impossible for slots created by the ScratchSlot
   constructor unless ScratchSlot.reset_slot_numbering re-issues ids. *)
From Coq Require Import List NArith ZArith Bool Arith String Permutation.
From PV Require Import Gen.SlotConfig.
Import ListNotations.
Local Open Scope N_scope.

(* ---------------------------------------------------------------------------------------- *)
(* ScratchSlot objects and the constructor                                                   *)
(* ---------------------------------------------------------------------------------------- *)
Record slot : Type := mkSlot { sl_uid : N; sl_id : N; sl_res : bool }.

Definition slot_eq_dec (a b : slot) : {a = b} + {a <> b}.
Proof. decide equality; try apply bool_dec; apply N.eq_dec. Defined.

Definition slot_eqb (a b : slot) : bool := if slot_eq_dec a b then true else false.

(* ScratchSlot.__init__(requestedSlotId): [counter] is the class attribute nextSlotId *)
Inductive new_slot_result : Type :=
| NewSlot (s : slot) (counter' : N)
| InvalidSlotId.                      (* TealInputError "Invalid slot ID" *)

Definition new_slot (uid : N) (requested : option Z) (counter : N) : new_slot_result :=
  match requested with
  | None => NewSlot (mkSlot uid counter false) (counter + 1)
  | Some z =>
      if (z <? 0)%Z || (Z.of_N NUM_SLOTS <=? z)%Z then InvalidSlotId
      else NewSlot (mkSlot uid (Z.to_N z) true) counter
  end.

(* ---------------------------------------------------------------------------------------- *)
(* ops                                                                                       *)
(* ---------------------------------------------------------------------------------------- *)
Inductive okind : Type := KLoad | KStore | KInt | KOther.

Inductive oarg : Type :=
| ASlot (s : slot)          (* a ScratchSlot object still to be assigned *)
| ANum (n : N)              (* a Python int (literal, or a slot already assigned) *)
| AText (s : string).       (* anything else *)

Record op : Type := mkOp { o_kind : okind; o_args : list oarg }.

Definition routine : Type := list op.
Definition input : Type := list routine.

(* TealOp.getSlots *)
Definition arg_slots (a : oarg) : list slot := match a with ASlot s => [s] | _ => [] end.
Definition op_slots (o : op) : list slot := flat_map arg_slots (o_args o).
Definition routine_refs (r : routine) : list slot := flat_map op_slots r.
Definition all_refs (inp : input) : list slot := flat_map routine_refs inp.

(* ---------------------------------------------------------------------------------------- *)
(* sets of slots as duplicate-free lists                                                     *)
(* ---------------------------------------------------------------------------------------- *)
Definition mem (s : slot) (l : list slot) : bool := existsb (slot_eqb s) l.
Definition set_of (l : list slot) : list slot := nodup slot_eq_dec l.
Definition set_union (a b : list slot) : list slot := nodup slot_eq_dec (a ++ b).
Definition set_inter (a b : list slot) : list slot := filter (fun s => mem s b) a.
Definition set_diff (a b : list slot) : list slot := filter (fun s => negb (mem s b)) a.

(* ---------------------------------------------------------------------------------------- *)
(* collectScratchSlots                                                                       *)
(* ---------------------------------------------------------------------------------------- *)
Definition routine_slots (r : routine) : list slot := set_of (routine_refs r).

(* union of the slot sets of all routines other than number i *)
Fixpoint others_from (i j : nat) (sets : list (list slot)) : list slot :=
  match sets with
  | [] => []
  | s :: t => (if Nat.eqb i j then [] else s) ++ others_from i (S j) t
  end.
Definition others_of (i : nat) (sets : list (list slot)) : list slot := set_of (others_from i 0 sets).

(* the second loop of collectScratchSlots: global_slots grows while local_slots is filled *)
Fixpoint collect_loop (i : nat) (todo all : list (list slot)) (glob : list slot)
  : list slot * list (list slot) :=
  match todo with
  | [] => (glob, [])
  | s :: t =>
      let glob' := set_union glob (set_inter s (others_of i all)) in
      let loc := set_diff s glob' in
      let '(g, ls) := collect_loop (S i) t all glob' in
      (g, loc :: ls)
  end.

Definition collect (inp : input) : list slot * list (list slot) :=
  let sets := map routine_slots inp in
  collect_loop 0 sets sets [].

(* allSlots = global_slots | set().union( *local_slots.values()) *)
Definition all_slots (inp : input) : list slot :=
  let '(g, ls) := collect inp in set_union g (set_of (List.concat ls)).

(* ---------------------------------------------------------------------------------------- *)
(* assignScratchSlotsToSubroutines                                                           *)
(* ---------------------------------------------------------------------------------------- *)
Inductive error : Type :=
| SlotIdAssignedTwice (id : N)       (* "Slot ID {} has been assigned multiple times" *)
| TooManySlots (n : N)               (* "Too many slots in use: {}, maximum is {}" *)
| ValidateFailed.                    (* validateSlots reported errors (C17; parameter) *)

Definition memN (n : N) (l : list N) : bool := existsb (N.eqb n) l.

(* first loop: reserved slots put their id into slotIds; a second slot with that id is an error *)
Fixpoint dup_check (l : list slot) (ids : list N) : N + list N :=
  match l with
  | [] => inr ids
  | s :: t =>
      if sl_res s then
        if memN (sl_id s) ids then inl (sl_id s) else dup_check t (sl_id s :: ids)
      else dup_check t ids
  end.

(* sorted(allSlots, key=lambda slot: slot.id) — stable *)
Fixpoint insert_slot (x : slot) (l : list slot) : list slot :=
  match l with
  | [] => [x]
  | y :: t => if sl_id x <=? sl_id y then x :: l else y :: insert_slot x t
  end.
Definition sort_slots (l : list slot) : list slot := fold_right insert_slot [] l.

(* while nextSlotIndex in slotIds: nextSlotIndex += 1   (fuel: one more than |slotIds| suffices) *)
Fixpoint next_free (fuel : nat) (used : list N) (n : N) : N :=
  match fuel with
  | O => n
  | S f => if memN n used then next_free f used (n + 1) else n
  end.

(* the numbering loop *)
Fixpoint assign_loop (l : list slot) (next : N) (used : list N) : list (slot * N) :=
  match l with
  | [] => []
  | s :: t =>
      let next' := next_free (S (List.length used)) used next in
      if sl_res s then (s, sl_id s) :: assign_loop t next' used
      else (s, next') :: assign_loop t next' (next' :: used)
  end.

Fixpoint lookup (m : list (slot * N)) (s : slot) : option N :=
  match m with
  | [] => None
  | (k, v) :: t => if slot_eqb s k then Some v else lookup t s
  end.

(* TealOp.assignSlot applied for every slot of the op: each placeholder becomes its number.
   A placeholder missing from the map would be a KeyError in Python; the model leaves it in place
   (theorem [rewrite_complete]: it cannot happen). *)
Definition rewrite_arg (m : list (slot * N)) (a : oarg) : oarg :=
  match a with
  | ASlot s => match lookup m s with Some n => ANum n | None => ASlot s end
  | _ => a
  end.
Definition rewrite_op (m : list (slot * N)) (o : op) : op := mkOp (o_kind o) (map (rewrite_arg m) (o_args o)).

Definition assigned_locals (m : list (slot * N)) (loc : list slot) : list N :=
  flat_map (fun s => match lookup m s with Some n => [n] | None => [] end) loc.

Record assignment : Type := mkAssignment {
  r_map : list (slot * N);             (* slotAssignments, in numbering order *)
  r_ops : list routine;                (* every routine with its ops rewritten *)
  r_locals : list (list N)             (* assignedLocalSlots, one set per routine *)
}.

Inductive result : Type :=
| Ok (a : assignment)
| Err (e : error).

(* [order] = the order in which Python iterates the set allSlots *)
Definition assign_in_order (order : list slot) (inp : input) (validate_ok : bool) : result :=
  match dup_check order [] with
  | inl i => Err (SlotIdAssignedTwice i)
  | inr ids =>
      if NUM_SLOTS <? N.of_nat (List.length order) then Err (TooManySlots (N.of_nat (List.length order)))
      else if negb validate_ok then Err ValidateFailed
      else
        let m := assign_loop (sort_slots order) 0 ids in
        Ok (mkAssignment m (map (map (rewrite_op m)) inp) (map (assigned_locals m) (snd (collect inp))))
  end.

Definition assign (inp : input) (validate_ok : bool) : result :=
  assign_in_order (all_slots inp) inp validate_ok.

(* every id requested by two different reserved slots (for the harness: the real message may name
   any of them, depending on the set order) *)
Definition conflict_ids (l : list slot) : list N :=
  nodup N.eq_dec
    (flat_map (fun s => if sl_res s && existsb (fun s' => sl_res s' && (sl_id s' =? sl_id s) && negb (slot_eqb s s')) l
                        then [sl_id s] else []) l).

(* ---------------------------------------------------------------------------------------- *)
(* alloc_abstract_var (pyteal/ast/abstractvar.py)                                            *)
(* ---------------------------------------------------------------------------------------- *)
(* state: None = no Proto in context (SubroutineEval._current_proto), Some n = the current proto's
   mem_layout.local_stack_types has n entries *)
Inductive avar : Type :=
| FrameVarAt (index : N)     (* FrameVar(proto, index) *)
| ScratchVarNew.             (* ScratchVar(stack_type): a fresh automatically numbered slot *)

Definition alloc_abstract_var (st : option N) : avar * option N :=
  match st with
  | Some n => if n + 1 <=? MAX_FRAME_LOCAL_VARS then (FrameVarAt n, Some (n + 1)) else (ScratchVarNew, Some n)
  | None => (ScratchVarNew, None)
  end.

Fixpoint alloc_many (k : nat) (st : option N) : list avar * option N :=
  match k with
  | O => ([], st)
  | S k' =>
      let '(v, st') := alloc_abstract_var st in
      let '(vs, st'') := alloc_many k' st' in
      (v :: vs, st'')
  end.

(* ---------------------------------------------------------------------------------------- *)
(* specification vocabulary used by the theorems (Proofs/SlotsProof.v, Props/C10.v)          *)
(* ---------------------------------------------------------------------------------------- *)
(* the slot object s occurs in some op of some routine *)
Definition referenced (inp : input) (s : slot) : Prop := In s (all_refs inp).

(* [order] is one of the orders in which Python may iterate the set allSlots *)
Definition set_order (inp : input) (order : list slot) : Prop := Permutation order (all_slots inp).

(* two different slot objects, both with a requested id, request the id i *)
Definition conflict_on (inp : input) (i : N) : Prop :=
  exists s1 s2, referenced inp s1 /\ referenced inp s2 /\ s1 <> s2 /\
                sl_res s1 = true /\ sl_res s2 = true /\ sl_id s1 = i /\ sl_id s2 = i.
Definition has_conflict (inp : input) : Prop := exists i, conflict_on inp i.

(* what the ScratchSlot constructor guarantees for requested ids *)
Definition requested_ids_valid (inp : input) : Prop :=
  forall s, referenced inp s -> sl_res s = true -> sl_id s < NUM_SLOTS.

(* number of distinct slot objects referenced by the program *)
Definition slot_count (inp : input) : N := N.of_nat (List.length (all_slots inp)).

(* replacing every placeholder by f(slot), whatever the op is *)
Definition subst_arg (f : slot -> N) (a : oarg) : oarg :=
  match a with ASlot s => ANum (f s) | _ => a end.
Definition subst_op (f : slot -> N) (o : op) : op := mkOp (o_kind o) (map (subst_arg f) (o_args o)).

(* a run of ScratchSlot constructor calls: object number uid+k is created with request reqs[k] *)
Fixpoint make_slots (reqs : list (option Z)) (uid counter : N) : option (list slot * N) :=
  match reqs with
  | [] => Some ([], counter)
  | r :: t =>
      match new_slot uid r counter with
      | InvalidSlotId => None
      | NewSlot s c' =>
          match make_slots t (uid + 1) c' with
          | Some (l, c'') => Some (s :: l, c'')
          | None => None
          end
      end
  end.

(* no two referenced slot objects carry the same id (true of slots made by one run of constructor
   calls that starts at a counter >= NUM_SLOTS, unless two of them request the same id) *)
Definition ids_distinct (inp : input) : Prop :=
  forall s1 s2, referenced inp s1 -> referenced inp s2 -> sl_id s1 = sl_id s2 -> s1 = s2.
