(* Comp/ConstantsLit.v — models of the Python *library* functions that pyteal/compiler/constants.py
   and pyteal/util.py call while extracting the value of a constant:
     str.replace('\\"','"'), bytes.decode("unicode-escape"), latin-1 / utf-8 round trip (unescapeStr),
     bytes.fromhex, base64.b32decode, base64.b64decode (non-validating), correctBase32Padding.
   Strings are lists of code points below 256 ([ascii]); a result [None] means "Python raises".
   The acceptance rules (which characters are data, what is skipped, when decoding stops, which
   inputs raise) follow CPython 3.12; the *value* of an accepted base-32/64 digit sequence is the
   RFC 4648 value [decode_bits] (shared with AVM/Parse.v; validated against the real library by the
   correspondence check on every run).
   Not modelled: the escape \N{NAME} (needs the Unicode name table) — the model raises there. *)
From Coq Require Import List Arith NArith Ascii String Bool.
From PV Require Import Base.Bytes Base.Sexp AVM.Syntax AVM.Parse.
Import ListNotations.
Local Open Scope char_scope.

Definition an (c : ascii) : N := N_of_ascii c.
Definition na (n : N) : ascii := ascii_of_N n.

(* ---- str.replace('\\"', '"') : left-to-right, non-overlapping ---- *)
Fixpoint py_replace_bsq (s : list ascii) : list ascii :=
  match s with
  | [] => []
  | c :: t =>
      match t with
      | q :: t' => if Ascii.eqb c "\" && Ascii.eqb q """" then q :: py_replace_bsq t'
                   else c :: py_replace_bsq t
      | [] => [c]
      end
  end.

Definition octval (c : ascii) : option N :=
  let n := an c in if (48 <=? n)%N && (n <=? 55)%N then Some (n - 48)%N else None.

(* a code point must fit latin-1 for the subsequent .encode("latin-1") *)
Definition cp_byte (n : N) : option ascii := if (n <? 256)%N then Some (na n) else None.

Definition ocons {A} (x : option A) (r : option (list A)) : option (list A) :=
  match x, r with Some a, Some l => Some (a :: l) | _, _ => None end.

(* ---- bytes.decode("unicode-escape").encode("latin-1") ---- *)
Fixpoint py_unicode_unescape (s : list ascii) : option bytes :=
  match s with
  | [] => Some []
  | c :: t =>
      if negb (Ascii.eqb c "\") then option_map (cons c) (py_unicode_unescape t) else
      match t with
      | [] => None                                   (* backslash at end of string *)
      | e :: t1 =>
          let simple (n : N) := option_map (cons (na n)) (py_unicode_unescape t1) in
          if Ascii.eqb e (na 10) then py_unicode_unescape t1          (* backslash-newline is dropped *)
          else if Ascii.eqb e "\" then simple 92%N
          else if Ascii.eqb e "'" then simple 39%N
          else if Ascii.eqb e """" then simple 34%N
          else if Ascii.eqb e "b" then simple 8%N
          else if Ascii.eqb e "f" then simple 12%N
          else if Ascii.eqb e "t" then simple 9%N
          else if Ascii.eqb e "n" then simple 10%N
          else if Ascii.eqb e "r" then simple 13%N
          else if Ascii.eqb e "v" then simple 11%N
          else if Ascii.eqb e "a" then simple 7%N
          else if Ascii.eqb e "N" then None           (* \N{...}: outside the model *)
          else match octval e with
          | Some d1 =>
              match t1 with
              | c2 :: t2 =>
                  match octval c2 with
                  | Some d2 =>
                      match t2 with
                      | c3 :: t3 =>
                          match octval c3 with
                          | Some d3 => ocons (cp_byte (d1 * 64 + d2 * 8 + d3)) (py_unicode_unescape t3)
                          | None => ocons (cp_byte (d1 * 8 + d2)) (py_unicode_unescape t2)
                          end
                      | [] => ocons (cp_byte (d1 * 8 + d2)) (py_unicode_unescape t2)
                      end
                  | None => ocons (cp_byte d1) (py_unicode_unescape t1)
                  end
              | [] => ocons (cp_byte d1) (py_unicode_unescape t1)
              end
          | None =>
              if Ascii.eqb e "x" then
                match t1 with
                | h1 :: h2 :: t2 =>
                    match hexval h1, hexval h2 with
                    | Some a, Some b => ocons (cp_byte (a * 16 + b)) (py_unicode_unescape t2)
                    | _, _ => None
                    end
                | _ => None
                end
              else if Ascii.eqb e "u" then
                match t1 with
                | h1 :: h2 :: h3 :: h4 :: t2 =>
                    match hexval h1, hexval h2, hexval h3, hexval h4 with
                    | Some a, Some b, Some c', Some d =>
                        ocons (cp_byte (((a * 16 + b) * 16 + c') * 16 + d)) (py_unicode_unescape t2)
                    | _, _, _, _ => None
                    end
                | _ => None
                end
              else if Ascii.eqb e "U" then
                match t1 with
                | h1 :: h2 :: h3 :: h4 :: h5 :: h6 :: h7 :: h8 :: t2 =>
                    match hexval h1, hexval h2, hexval h3, hexval h4, hexval h5, hexval h6, hexval h7, hexval h8 with
                    | Some a, Some b, Some c', Some d, Some e', Some f, Some g, Some h =>
                        ocons (cp_byte (((((((a * 16 + b) * 16 + c') * 16 + d) * 16 + e') * 16 + f) * 16 + g) * 16 + h))
                              (py_unicode_unescape t2)
                    | _, _, _, _, _, _, _, _ => None
                    end
                | _ => None
                end
              else (* unknown escape: backslash and character are both kept *)
                option_map (fun r => c :: e :: r) (py_unicode_unescape t1)
          end
      end
  end.

(* ---- strict UTF-8 validity (bytes.decode("utf-8")) ---- *)
Definition in_rng (lo hi : N) (c : ascii) : bool := (lo <=? an c)%N && (an c <=? hi)%N.
Definition is_cont := in_rng 128 191.

Fixpoint utf8_valid (b : bytes) : bool :=
  match b with
  | [] => true
  | c :: t =>
      if (an c <? 128)%N then utf8_valid t
      else if in_rng 194 223 c then
        match t with c1 :: t1 => is_cont c1 && utf8_valid t1 | _ => false end
      else if in_rng 224 239 c then
        match t with
        | c1 :: c2 :: t2 =>
            (if (an c =? 224)%N then in_rng 160 191 c1
             else if (an c =? 237)%N then in_rng 128 159 c1
             else is_cont c1) && is_cont c2 && utf8_valid t2
        | _ => false
        end
      else if in_rng 240 244 c then
        match t with
        | c1 :: c2 :: c3 :: t3 =>
            (if (an c =? 240)%N then in_rng 144 191 c1
             else if (an c =? 244)%N then in_rng 128 143 c1
             else is_cont c1) && is_cont c2 && is_cont c3 && utf8_valid t3
        | _ => false
        end
      else false
  end.

(* unescapeStr(s).encode("utf-8") for a spelling s (quotes included) *)
Definition py_unescape_bytes (s : list ascii) : option bytes :=
  match s with
  | q :: rest =>
      match rev rest with
      | q' :: rinner =>
          if Ascii.eqb q """" && Ascii.eqb q' """" then
            match py_unicode_unescape (py_replace_bsq (rev rinner)) with
            | Some b => if utf8_valid b then Some b else None
            | None => None
            end
          else None
      | [] => None                                    (* len < 2 *)
      end
  | [] => None
  end.

(* ---- bytes.fromhex ---- *)
Definition py_isspace (c : ascii) : bool :=
  match an c with 32%N | 9%N | 10%N | 11%N | 12%N | 13%N => true | _ => false end.

Fixpoint py_fromhex (s : list ascii) : option bytes :=
  match s with
  | [] => Some []
  | c :: t =>
      if py_isspace c then py_fromhex t
      else match t with
           | d :: t' =>
               match hexval c, hexval d with
               | Some a, Some b => option_map (cons (na (a * 16 + b))) (py_fromhex t')
               | _, _ => None
               end
           | [] => None
           end
  end.

(* ---- correctBase32Padding (pyteal/util.py) ---- *)
Fixpoint take_to_eq (s : list ascii) : list ascii :=          (* s.split("=")[0] *)
  match s with
  | [] => []
  | c :: t => if Ascii.eqb c "=" then [] else c :: take_to_eq t
  end.

Definition correct_b32_padding (s : list ascii) : option (list ascii) :=
  let content := take_to_eq s in
  match (List.length content mod 8)%nat with
  | 0%nat => Some content
  | 2%nat => Some (content ++ repeat "=" 6)
  | 4%nat => Some (content ++ repeat "=" 4)
  | 5%nat => Some (content ++ repeat "=" 3)
  | 7%nat => Some (content ++ repeat "=" 1)
  | _ => None
  end.

(* ---- base64.b32decode(s) (casefold False) ---- *)
Definition py_b32decode (s : list ascii) : option bytes :=
  if negb (List.length s mod 8 =? 0)%nat then None else
  let body := rev (strip_pad (rev s)) in
  let pad := (List.length s - List.length body)%nat in
  match digit_vals b32val body with
  | None => None
  | Some vals =>
      match pad with
      | 0%nat | 1%nat | 3%nat | 4%nat | 6%nat => Some (decode_bits 5 vals)
      | _ => None
      end
  end.

(* ---- base64.b64decode(s) with validate=False: binascii.a2b_base64 non-strict ----
   state: quad position, consecutive pads seen, data digits so far (reversed).
   Characters outside the alphabet are skipped, a complete pad sequence stops the scan, a pad
   that does not complete one is skipped, a dangling quad at the end raises. *)
Fixpoint b64_scan (s : list ascii) (quad pads : nat) (acc : list N) : option (list N) :=
  match s with
  | [] => if (quad =? 0)%nat then Some (rev acc) else None
  | c :: t =>
      if Ascii.eqb c "=" then
        if (2 <=? quad)%nat then
          if (4 <=? quad + S pads)%nat then Some (rev acc) else b64_scan t quad (S pads) acc
        else b64_scan t quad pads acc
      else match b64val c with
           | Some v => b64_scan t (match quad with 3%nat => 0%nat | _ => S quad end) 0 (v :: acc)
           | None => b64_scan t quad pads acc
           end
  end.

Definition all_ascii7 (s : list ascii) : bool := forallb (fun c => (an c <? 128)%N) s.

Definition py_b64decode (s : list ascii) : option bytes :=
  if all_ascii7 s then option_map (decode_bits 6) (b64_scan s 0 0 []) else None.
