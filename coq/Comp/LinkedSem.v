(* Comp/LinkedSem.v — execution of a LINKED program: the component list [flatten_subroutines] produces
   (the main routine's code followed by every subroutine's code behind its entry label), run with a
   CALL STACK of return addresses.  It is Comp/LinearSem.v plus two rules:
     callsub <label>   pushes pc+1 on the call stack and jumps to the label,
     retsub            pops the call stack and continues at the popped address (fails when it is empty);
   every other instruction is as in Comp/LinearSem.v (same [do_op], same branch rules, [return] ends
   the program).  There is no oracle here: this is the semantics the theorems of property C02
   (Props/C02_compose.v) conclude about.  The call/return rules are those of the reference machine
   [AVM/Machine.v step] for frames without [proto] (Proofs/CallComposeMachine.v).
   Not modelled (as in Comp/LinearSem.v): the 1000-cell stack limit, the call-stack depth limit, cost. *)
From Coq Require Import List Arith NArith String Bool.
From PV Require Import Base.Bytes AVM.Syntax AVM.Machine Src.Expr Src.Denote Comp.Blocks Comp.GraphSem Comp.LinearSem.
Import ListNotations.

Inductive pconf : Type :=
| PAt (fr : list nat) (pc : nat) (stk : list value) (st : mstate)   (* fr: return addresses, innermost first *)
| PEnd (stk : list value) (st : mstate)      (* the pc ran off the end of the program *)
| PExit (v : value) (st : mstate)            (* return *)
| PFail
| PUnsup (o : opc).

(* the call instruction after resolveSubroutines: [callsub] carrying exactly one label text *)
Definition call_label (i : instr) : option string :=
  match i_op i, i_args i with
  | O_callsub, [AStr l] => Some l
  | _, _ => None
  end.

Definition pgoto (code : list comp) (fr : list nat) (l : string) (stk : list value) (st : mstate) : pconf :=
  match find_label l code with Some p => PAt fr p stk st | None => PFail end.

Definition pstep_op (env : denv) (code : list comp) (fr : list nat) (pc : nat) (i : instr)
           (stk : list value) (st : mstate) : pconf :=
  if is_return (i_op i) then match stk with v :: _ => PExit v st | [] => PFail end
  else if is_retsub (i_op i) then match fr with ret :: fr' => PAt fr' ret stk st | [] => PFail end
  else
    match call_label i with
    | Some l => match find_label l code with Some p => PAt (S pc :: fr) p stk st | None => PFail end
    | None =>
        match jump_of i with
        | Some (JB, l) => pgoto code fr l stk st
        | Some (JBz, l) =>
            match stk with
            | v :: s' =>
                match truthy v with
                | Some true => PAt fr (S pc) s' st
                | Some false => pgoto code fr l s' st
                | None => PFail
                end
            | [] => PFail
            end
        | Some (JBnz, l) =>
            match stk with
            | v :: s' =>
                match truthy v with
                | Some true => pgoto code fr l s' st
                | Some false => PAt fr (S pc) s' st
                | None => PFail
                end
            | [] => PFail
            end
        | None =>
            match do_op env (i_op i) (i_args i) stk st with
            | DNorm s' st' => PAt fr (S pc) s' st'
            | DUnsup o => PUnsup o
            | _ => PFail
            end
        end
    end.

Definition pstep (env : denv) (code : list comp) (c : pconf) : option pconf :=
  match c with
  | PAt fr pc stk st =>
      match nth_error code pc with
      | None => Some (PEnd stk st)
      | Some (COp i) => Some (pstep_op env code fr pc i stk st)
      | Some (CLabel _ _) => Some (PAt fr (S pc) stk st)
      | Some (CPragma _) => Some (PAt fr (S pc) stk st)
      end
  | _ => None
  end.

Inductive pstar (env : denv) (code : list comp) : pconf -> pconf -> Prop :=
| pstar_refl c : pstar env code c c
| pstar_step c c' c'' : pstep env code c = Some c' -> pstar env code c' c'' -> pstar env code c c''.

Lemma pstar_trans env code a b c : pstar env code a b -> pstar env code b c -> pstar env code a c.
Proof. induction 1 as [|x y z S1 _ IH]; intros H; [exact H|]. eapply pstar_step; [exact S1|]. apply IH; exact H. Qed.

Lemma pstar_one env code a b : pstep env code a = Some b -> pstar env code a b.
Proof. intros H. eapply pstar_step; [exact H|]. apply pstar_refl. Qed.

Fixpoint prun (fuel : nat) (env : denv) (code : list comp) (c : pconf) : pconf :=
  match fuel with
  | O => c
  | S f => match pstep env code c with Some c' => prun f env code c' | None => c end
  end.

Lemma prun_pstar env code : forall fuel c, pstar env code c (prun fuel env code c).
Proof.
  induction fuel as [|f IH]; intros c; cbn [prun]; [apply pstar_refl|].
  destruct (pstep env code c) as [c'|] eqn:E; [|apply pstar_refl].
  eapply pstar_step; [exact E|]. apply IH.
Qed.

Definition pfinal (c : pconf) : bool := match c with PAt _ _ _ _ => false | _ => true end.

Lemma pfinal_stuck env code c : pfinal c = true -> pstep env code c = None.
Proof. destruct c; cbn; intros H; try reflexivity; discriminate H. Qed.

(* the step function is deterministic, so a halting outcome reached is THE outcome *)
Lemma pstar_final_unique env code : forall c c1 c2,
  pstar env code c c1 -> pfinal c1 = true -> pstar env code c c2 -> pfinal c2 = true -> c1 = c2.
Proof.
  intros c c1 c2 H1. revert c2. induction H1 as [c|c c' c1 S1 _ IH]; intros c2 F1 H2 F2.
  - destruct H2 as [|c c' c2 S2 _]; [reflexivity|]. rewrite (pfinal_stuck env code c F1) in S2. discriminate S2.
  - destruct H2 as [c|c d c2 S2 H2'].
    + rewrite (pfinal_stuck env code c F2) in S1. discriminate S1.
    + rewrite S1 in S2. inversion S2; subst d. apply IH; assumption.
Qed.

Lemma pstar_prun env code c c' : pstar env code c c' -> pfinal c' = true ->
  exists n, prun n env code c = c'.
Proof.
  induction 1 as [c|c c1 c2 S1 _ IH]; intros F.
  - exists 0. reflexivity.
  - destruct (IH F) as (n & E). exists (S n). cbn [prun]. rewrite S1. exact E.
Qed.
