(* Comp/Lower.v — model of every __teal__ method: recipe -> block graph.
   Backward, continuation-passing construction (DESIGN Appendix A): [lower e k] receives the id of the
   block that follows e (None at the end of a routine) and returns (start, end) where [end] is the
   block PyTeal returns as the fragment's end.  Errors PyTeal raises while lowering are computed by a
   separate pass [check_expr] that follows PyTeal's traversal order, so the first error matches.
   List-shaped constructs are lowered by named helpers parameterised by the single-expression
   lowering function, so that they can be specified once (Proofs/LowerCorrect.v). *)
From Coq Require Import List Arith NArith String Bool.
From PV Require Import Base.Bytes AVM.Syntax Src.Expr Comp.Blocks Comp.WideRatio.
Import ListNotations.
Local Open Scope string_scope.

Inductive cerr : Type :=
| ErrInput            (* TealInputError *)
| ErrCompile          (* TealCompileError *)
| ErrType             (* TealTypeError *)
| ErrInternal         (* TealInternalError *)
| CrashAssertion      (* bare assert *)
| CrashRecursion      (* RecursionError *)
| CrashOther (what : string)
| Unsupported (what : string).   (* outside the modelled fragment *)

Record copts : Type := mkOpts {
  o_version : N;
  o_app_mode : bool;
  o_opt_slots : bool;               (* OptimizeOptions.optimize_scratch_slots(version), resolved *)
  o_use_fp : bool;                  (* use_frame_pointers(version), resolved *)
  o_minv : opc -> N;                (* PyTeal's own op table (regenerated): min_version *)
  o_field_minv : string -> string -> N   (* (op name, field name) -> min version per PyTeal's tables; 0 if unknown *)
}.

(* context while lowering one routine *)
Record lctx : Type := mkL {
  l_sub_ret : option ty;            (* Some return_type inside a subroutine *)
  l_brk : option id;                (* loop exit target *)
  l_cont : option id;               (* continue target *)
  l_param : N -> instr              (* the instruction that loads parameter i in this routine *)
}.

Definition field_arg (imms : list arg) : option string :=
  match imms with
  | [AStr f] => Some f
  | [AStr f; _] => Some f
  | [_; AStr f] => Some f
  | [_; AStr f; _] => Some f
  | _ => None
  end.

Definition op_version_ok (o : copts) (op : opc) (imms : list arg) : bool :=
  N.leb (o_minv o op) (o_version o) &&
  match field_arg imms with
  | Some f => N.leb (o_field_minv o (opc_name op) f) (o_version o)
  | None => true
  end.

(* ---- errors raised by __teal__, in PyTeal's traversal order ---- *)
Definition first_err (l : list (option cerr)) : option cerr :=
  fold_left (fun acc x => match acc with Some _ => acc | None => x end) l None.

Fixpoint check_expr (o : copts) (sub : option ty) (in_loop : bool) (e : expr) {struct e} : option cerr :=
  let chk := check_expr o sub in
  match e with
  | EOp op imms _ args =>
      if op_version_ok o op imms
      then first_err (map (chk in_loop) args)
      else Some ErrInput
  | ENary _ _ args => first_err (map (chk in_loop) args)
  | ESeq es => first_err (map (chk in_loop) es)
  | EIf c th el =>
      first_err [chk in_loop c; chk in_loop th; match el with Some x => chk in_loop x | None => None end]
  | ECond arms =>
      first_err (flat_map (fun a => [chk in_loop (fst a); chk in_loop (snd a)]) arms)
  | EWhile c b => first_err [chk true c; chk true b]
  | EFor i c s b => first_err [chk true i; chk true c; chk true b; chk true s]
  | EBreak | EContinue => if in_loop then None else Some ErrCompile
  | EAssert conds _ => first_err (map (chk in_loop) conds)
  | EReturn v =>
      match sub with
      | Some rt =>
          if N.ltb (o_version o) 4 then Some ErrInput
          else match rt, v with
               | TNone, Some _ => Some ErrCompile
               | TNone, None => None
               | _, None => Some ErrCompile
               | _, Some x => if types_match (type_of x) rt then chk in_loop x else Some ErrCompile
               end
      | None =>
          match v with
          | None => Some ErrCompile
          | Some x => if types_match (type_of x) TUint then chk in_loop x else Some ErrCompile
          end
      end
  | EExit v => chk in_loop v
  | EMulti op imms args _ =>
      if op_version_ok o op imms then first_err (map (chk in_loop) args) else Some ErrInput
  | ECall _ _ args =>
      if N.ltb (o_version o) 4 then Some ErrInput else first_err (map (chk in_loop) args)
  | EWide ns ds =>
      if N.ltb (o_version o) 5 then Some ErrCompile
      else first_err (map (chk in_loop) ns ++ map (chk in_loop) ds)
  | EParam _ => None
  end.

(* Continue in a position where its target is the fragment under construction (a loop header):
   PyTeal points it at the start of the very fragment being built; not modelled *)
Fixpoint has_bad_continue (pos_bad : bool) (e : expr) {struct e} : bool :=
  match e with
  | EContinue => pos_bad
  | EOp _ _ _ args | ENary _ _ args | ESeq args | EMulti _ _ args _ | ECall _ _ args => existsb (has_bad_continue pos_bad) args
  | EIf c th el => has_bad_continue pos_bad c || has_bad_continue pos_bad th ||
                   match el with Some x => has_bad_continue pos_bad x | None => false end
  | ECond arms => existsb (fun a => has_bad_continue pos_bad (fst a) || has_bad_continue pos_bad (snd a)) arms
  | EWhile c b => has_bad_continue true c || has_bad_continue false b
  | EFor i c s b => has_bad_continue true i || has_bad_continue true c || has_bad_continue true s || has_bad_continue false b
  | EAssert conds _ => existsb (has_bad_continue pos_bad) conds
  | EReturn (Some v) | EExit v => has_bad_continue pos_bad v
  | EReturn None | EBreak => false
  | EWide ns ds => existsb (has_bad_continue pos_bad) ns || existsb (has_bad_continue pos_bad) ds
  | EParam _ => false
  end.

(* ---- lowering ---- *)
Definition I (o : opc) (imms : list arg) : instr := mkI o imms.

Definition or_else (a : option id) (b : id) : id := match a with Some x => x | None => b end.
Definition or_some (a : option id) (b : id) : option id := match a with Some x => Some x | None => Some b end.

Section Helpers.
  (* the single-expression lowering: expr -> continuation -> graph -> (start, end), graph *)
  Variable lw : expr -> option id -> graph -> (id * id) * graph.

  (* fragments in sequence, built right-to-left: returns (start of the chain or k when empty,
     end of the LAST element if any) *)
  Fixpoint lower_chain (es : list expr) (k : option id) (g : graph) : (option id * option id) * graph :=
    match es with
    | [] => ((k, None), g)
    | e :: t =>
        let '((kt, endt), g1) := lower_chain t k g in
        let '((s, en), g2) := lw e kt g1 in
        ((Some s, or_some endt en), g2)
    end.

  (* NaryExpr tail: each argument followed by its own op block *)
  Fixpoint lower_nary_rest (op : opc) (l : list expr) (k : option id) (g : graph) : (option id * option id) * graph :=
    match l with
    | [] => ((k, None), g)
    | a :: t =>
        let '((kt, endt), g1) := lower_nary_rest op t k g in
        let '(opb, g2) := add_block g1 (BSimple [I op []] kt) in
        let '((s, _), g3) := lw a (Some opb) g2 in
        ((Some s, or_some endt opb), g3)
    end.

  (* Cond arms: each condition's false edge goes to the next arm's condition, the last to [errb] *)
  Fixpoint lower_cond_arms (l : list (expr * expr)) (en errb : id) (g : graph) : id * graph :=
    match l with
    | [] => (errb, g)
    | (cnd, pred) :: t =>
        let '(fls, g1) := lower_cond_arms t en errb g in
        let '((ps, _), g2) := lw pred (Some en) g1 in
        let '(br, g3) := add_block g2 (BCond [] (Some ps) (Some fls)) in
        let '((cs, _), g4) := lw cnd (Some br) g3 in
        (cs, g4)
    end.

  (* WideRatio factors 3..n: factor then the 8-op multiply block *)
  Fixpoint lower_wide_rest (l : list expr) (k : option id) (g : graph) : (option id * option id) * graph :=
    match l with
    | [] => ((k, None), g)
    | f :: t =>
        let '((kt, endt), g1) := lower_wide_rest t k g in
        let '(mb, g2) := add_block g1 (BSimple mul_step_ops kt) in
        let '((s, _), g3) := lw f (Some mb) g2 in
        ((Some s, or_some endt mb), g3)
    end.

  (* multiplyFactors *)
  Definition lower_factors (fs : list expr) (k : option id) (g : graph) : (id * id) * graph :=
    match fs with
    | [] => let '(b, g1) := add_block g (BSimple [] k) in ((b, b), g1)
    | [f0] =>
        let '((s0, e0), g1) := lw f0 k g in
        let '(hw, g2) := add_block g1 (BSimple [I1 O_int 0] (Some s0)) in
        let '(st, g3) := add_block g2 (BSimple [] (Some hw)) in
        ((st, e0), g3)
    | f0 :: f1 :: rest =>
        let '((krest, endrest), g1) := lower_wide_rest rest k g in
        let '(m2, g2) := add_block g1 (BSimple [I0 O_mulw] krest) in
        let '((s1, _), g3) := lw f1 (Some m2) g2 in
        let '((s0, _), g4) := lw f0 (Some s1) g3 in
        let '(st, g5) := add_block g4 (BSimple [] (Some s0)) in
        ((st, or_else endrest m2), g5)
    end.
End Helpers.

(* Comment(text) without a child = Seq(CommentExpr line ...): one block per line *)
Fixpoint lower_comment_lines (lines : list string) (k : option id) (g : graph) : option id * graph :=
  match lines with
  | [] => (k, g)
  | l :: t =>
      let '(kt, g1) := lower_comment_lines t k g in
      let '(b, g2) := add_block g1 (BSimple [mkI O_comment [AStr l]] kt) in
      (Some b, g2)
  end.

(* MultiValue's stack stores: emitted for reversed(outs); built from outs[0] (last in the chain) backwards *)
Fixpoint lower_stores (outs : list N) (kk : option id) (first : option id) (g : graph) : option id * option id * graph :=
  match outs with
  | [] => (kk, first, g)
  | s :: t =>
      let '(b, g1) := add_block g (BSimple [I O_store [ASlot s]] kk) in
      lower_stores t (Some b) (or_some first b) g1
  end.

Section AssertHelpers.
  Variable lw : expr -> option id -> graph -> (id * id) * graph.
  Variable version : N.
  Variable comment : option (list string).

  (* a single-condition Assert *)
  Definition lower_assert1 (cnd : expr) (k : option id) (g : graph) : (id * id) * graph :=
    if N.leb 3 version then
      let '(opb, g1) := add_block g (BSimple [I O_assert_ []] k) in
      let '(kc, g2) :=
        match comment with
        | Some lines =>
            let '(ks, g') := lower_comment_lines lines (Some opb) g1 in
            let '(st, g'') := add_block g' (BSimple [] ks) in (Some st, g'')
        | None => (Some opb, g1)
        end in
      let '((cs, _), g3) := lw cnd kc g2 in
      ((cs, opb), g3)
    else
      let '(en, g1) := add_block g (BSimple [] k) in
      let '(errb, g2) := add_block g1 (BSimple [I O_err []] None) in
      let '(br, g3) := add_block g2 (BCond [] (Some en) (Some errb)) in
      let '((cs, _), g4) := lw cnd (Some br) g3 in
      ((cs, en), g4).

  (* several conditions: a Seq of single-condition Asserts *)
  Fixpoint lower_asserts (l : list expr) (k : option id) (g : graph) : (option id * option id) * graph :=
    match l with
    | [] => ((k, None), g)
    | cnd :: t =>
        let '((kt, endt), g1) := lower_asserts t k g in
        let '((s, en), g2) := lower_assert1 cnd kt g1 in
        ((Some s, or_some endt en), g2)
    end.
End AssertHelpers.

Fixpoint lower (o : copts) (c : lctx) (e : expr) (k : option id) (g : graph) {struct e} : (id * id) * graph :=
  let lw := lower o c in
  match e with
  | EOp op imms _ args =>
      let '(opb, g1) := add_block g (BSimple [I op imms] k) in
      let '((s, _), g2) := lower_chain lw args (Some opb) g1 in
      ((or_else s opb, opb), g2)
  | ENary op _ args =>
      match args with
      | [] => let '(b, g1) := add_block g (BSimple [] k) in ((b, b), g1)   (* constructor rejects *)
      | a1 :: rest =>
          let '((krest, endrest), g1) := lower_nary_rest lw op rest k g in
          let '((s1, e1), g2) := lw a1 krest g1 in
          ((s1, or_else endrest e1), g2)
      end
  | ESeq es =>
      let '((ks, en), g1) := lower_chain lw es k g in
      let '(st, g2) := add_block g1 (BSimple [] ks) in
      ((st, or_else en st), g2)
  | EIf cnd th el =>
      let '(en, g1) := add_block g (BSimple [] k) in
      let '((ths, _), g2) := lw th (Some en) g1 in
      let '(els, g3) := match el with
                        | Some x => let '((s, _), g') := lw x (Some en) g2 in (s, g')
                        | None => (en, g2)
                        end in
      let '(br, g4) := add_block g3 (BCond [] (Some ths) (Some els)) in
      let '((cs, _), g5) := lw cnd (Some br) g4 in
      ((cs, en), g5)
  | ECond arms =>
      let '(en, g1) := add_block g (BSimple [] k) in
      let '(errb, g2) := add_block g1 (BSimple [I O_err []] None) in
      let '(st, g3) := lower_cond_arms lw arms en errb g2 in
      ((st, en), g3)
  | EWhile cnd body =>
      let '(en, g1) := add_block g (BSimple [] k) in
      let '(br, g2) := reserve g1 in
      let '((cs, _), g3) := lower o (mkL (l_sub_ret c) (Some en) None (l_param c)) cnd (Some br) g2 in
      let '((ds, _), g4) := lower o (mkL (l_sub_ret c) (Some en) (Some cs) (l_param c)) body (Some cs) g3 in
      ((cs, en), define g4 br (BCond [] (Some ds) (Some en)))
  | EFor ini cnd stp body =>
      let '(en, g1) := add_block g (BSimple [] k) in
      let '(br, g2) := reserve g1 in
      let inner := mkL (l_sub_ret c) (Some en) None (l_param c) in
      let '((cs, _), g3) := lower o inner cnd (Some br) g2 in
      let '((ss, _), g4) := lower o inner stp (Some cs) g3 in
      let '((ds, _), g5) := lower o (mkL (l_sub_ret c) (Some en) (Some ss) (l_param c)) body (Some ss) g4 in
      let '((is_, _), g6) := lower o inner ini (Some cs) g5 in
      ((is_, en), define g6 br (BCond [] (Some ds) (Some en)))
  | EBreak =>
      let '(b, g1) := add_block g (BSimple [] (l_brk c)) in ((b, b), g1)
  | EContinue =>
      let '(b, g1) := add_block g (BSimple [] (l_cont c)) in ((b, b), g1)
  | EAssert conds comment =>
      match conds with
      | [cnd] => lower_assert1 lw (o_version o) comment cnd k g
      | _ =>
          let '((ks, en), g1) := lower_asserts lw (o_version o) comment conds k g in
          let '(st, g2) := add_block g1 (BSimple [] ks) in
          ((st, or_else en st), g2)
      end
  | EReturn v =>
      let op := match l_sub_ret c with Some _ => O_retsub | None => O_return_ end in
      let '(opb, g1) := add_block g (BSimple [I op []] k) in
      match v with
      | Some x => let '((s, _), g2) := lw x (Some opb) g1 in ((s, opb), g2)
      | None => ((opb, opb), g1)
      end
  | EExit v =>
      let '(opb, g1) := add_block g (BSimple [I O_return_ []] k) in
      let '((s, _), g2) := lw v (Some opb) g1 in ((s, opb), g2)
  | EMulti op imms args outs =>
      let '(kst, lastst, g1) := lower_stores outs k None g in
      let '(opb, g2) := add_block g1 (BSimple [I op imms] kst) in
      let '((s, _), g3) := lower_chain lw args (Some opb) g2 in
      ((or_else s opb, or_else lastst opb), g3)
  | ECall sub _ args =>
      let '(opb, g1) := add_block g (BSimple [I O_callsub [ASub sub]] k) in
      let '((s, _), g2) := lower_chain lw args (Some opb) g1 in
      ((or_else s opb, opb), g2)
  | EWide ns ds =>
      let '(cb, g1) := add_block g (BSimple combine_ops k) in
      let '((dstart, _), g2) := lower_factors lw ds (Some cb) g1 in
      let '((nstart, _), g3) := lower_factors lw ns (Some dstart) g2 in
      ((nstart, cb), g3)
  | EParam i =>
      let '(b, g1) := add_block g (BSimple [l_param c i] k) in ((b, b), g1)
  end.
