(* Comp/Passes.v — models of the graph passes of pyteal/ir/tealblock.py and pyteal/compiler/*.py:
   addIncoming, validateTree, NormalizeBlocks, the scratch-slot optimiser, sortBlocks, flattenBlocks.
   Each function keeps the Python function's observable quirks (see DESIGN §3). *)
From Coq Require Import List Arith NArith String Bool.
From PV Require Import Base.Bytes Base.Sexp AVM.Syntax Src.Expr Comp.Blocks Comp.Lower.
Import ListNotations.
Local Open Scope string_scope.
Local Open Scope list_scope.

(* ---- addIncoming: recursive DFS, modelled with an explicit stack of (block, parent, depth) ---- *)
Fixpoint add_incoming_loop (fuel : nat) (g : graph) (stack : list (id * option id * nat))
         (visited : list id) (maxd : nat) : graph * nat :=
  match fuel with
  | O => (g, maxd)
  | S f =>
      match stack with
      | [] => (g, maxd)
      | (b, parent, d) :: rest =>
          let g1 := match parent with
                    | Some p => if mem_id p (g_inc g b) then g else set_inc g b (g_inc g b ++ [p])
                    | None => g
                    end in
          if mem_id b visited then add_incoming_loop f g1 rest visited (Nat.max maxd d)
          else add_incoming_loop f g1 (map (fun c => (c, Some b, S d)) (out_of g1 b) ++ rest)
                                 (b :: visited) (Nat.max maxd d)
      end
  end.

Definition add_incoming (g : graph) (start : id) : graph * nat :=
  add_incoming_loop (3 * S (g_next g)) g [(start, None, 0)] [] 0.

(* ---- validateTree: every traversed edge (p -> b) must see p exactly once in b.incoming ---- *)
Fixpoint count_id (x : id) (l : list id) : nat :=
  match l with [] => 0 | y :: t => (if Nat.eqb x y then 1 else 0) + count_id x t end.

Fixpoint validate_tree_loop (fuel : nat) (g : graph) (stack : list (id * option id)) (visited : list id) : bool :=
  match fuel with
  | O => true
  | S f =>
      match stack with
      | [] => true
      | (b, parent) :: rest =>
          let ok := match parent with Some p => Nat.eqb (count_id p (g_inc g b)) 1 | None => true end in
          if negb ok then false
          else if mem_id b visited then validate_tree_loop f g rest visited
          else validate_tree_loop f g (map (fun c => (c, Some b)) (out_of g b) ++ rest) (b :: visited)
      end
  end.

Definition validate_tree (g : graph) (start : id) : bool :=
  validate_tree_loop (3 * S (g_next g)) g [(start, None)] [].

(* ---- NormalizeBlocks ---- *)
Definition enqueue (nexts : list id) (q v : list id) : list id * list id :=
  fold_left (fun '(q, v) n => if mem_id n v then (q, v) else (q ++ [n], v ++ [n])) nexts (q, v).

(* pass 1 body: merge [block] with its unique predecessor when that predecessor's only successor is [block] *)
Definition norm_body1 (g : graph) (start block : id) : graph * id :=
  match g_inc g block with
  | [prev] =>
      match out_of g prev with
      | [x] =>
          if Nat.eqb x block then
            match g_blk g block with
            | Some bb =>
                let g1 := set_blk g block (set_ops bb (get_ops g prev ++ b_ops bb)) in
                let pinc := g_inc g prev in
                let g2 := set_inc g1 block pinc in
                let g3 := fold_left (fun g i =>
                                       match g_blk g i with
                                       | Some ib => set_blk g i (replace_outgoing ib prev block)
                                       | None => g
                                       end) pinc g2 in
                (g3, if Nat.eqb prev start then block else start)
            | None => (g, start)
            end
          else (g, start)
      | _ => (g, start)
      end
  | _ => (g, start)
  end.

Fixpoint remove_first (x : id) (l : list id) : list id :=
  match l with [] => [] | y :: t => if Nat.eqb x y then t else y :: remove_first x t end.

(* pass 2 body: an empty block with a single successor other than itself is by-passed; when it was the
   start block, the successor becomes the start *)
Definition norm_body2 (g : graph) (start block : id) : graph * id :=
  match get_ops g block with
  | [] =>
      match out_of g block with
      | [ob] =>
          if Nat.eqb ob block then (g, start) else
          let g1 := set_inc g ob (remove_first block (g_inc g ob)) in
          let g2 := fold_left (fun g prev =>
                                 let g' := match g_blk g prev with
                                           | Some pb => set_blk g prev (replace_outgoing pb block ob)
                                           | None => g
                                           end in
                                 if mem_id prev (g_inc g' ob) then g' else set_inc g' ob (g_inc g' ob ++ [prev]))
                              (g_inc g1 block) g1 in
          (g2, if Nat.eqb block start then ob else start)
      | _ => (g, start)
      end
  | _ :: _ => (g, start)
  end.

Fixpoint norm_iter (body : graph -> id -> id -> graph * id) (fuel : nat) (g : graph) (start : id)
         (queue visited : list id) : graph * id :=
  match fuel with
  | O => (g, start)
  | S f =>
      match queue with
      | [] => (g, start)
      | w :: q =>
          let nexts := out_of g w in                      (* read BEFORE the body runs, as the generator does *)
          let '(g1, start1) := body g start w in
          let '(q1, v1) := enqueue nexts q visited in
          norm_iter body f g1 start1 q1 v1
      end
  end.

Definition normalize (g : graph) (start : id) : graph * id :=
  let fuel := S (g_next g) in
  let '(g1, s1) := norm_iter norm_body1 fuel g start [start] [start] in
  norm_iter norm_body2 fuel g1 s1 [s1] [s1].

(* ---- the scratch-slot optimiser ---- *)
Definition instr_slots (i : instr) : list N :=
  flat_map (fun a => match a with ASlot s => [s] | _ => [] end) (i_args i).

Fixpoint mem_N (x : N) (l : list N) : bool :=
  match l with [] => false | y :: t => N.eqb x y || mem_N x t end.

Definition subset_N (a b : list N) : bool := forallb (fun x => mem_N x b) a.

Definition is_op (i : instr) (o : opc) : bool := opc_eqb (i_op i) o.

(* _remove_extraneous_slot_access *)
Definition keep_op (remove : list N) (i : instr) : bool :=
  if is_op i O_store || is_op i O_load then negb (subset_N (instr_slots i) remove) else true.

Definition remove_slot_access (g : graph) (start : id) (remove : list N) : graph :=
  fold_left (fun g b => match g_blk g b with
                        | Some bb => set_blk g b (set_ops bb (filter (keep_op remove) (b_ops bb)))
                        | None => g
                        end) (iterate g start) g.

(* _has_load_dependencies scans the blocks in BFS order and returns at the first other load of [slot];
   reaching [cur] itself triggers the structural comparison cur == cur, which may not terminate. *)
Inductive dep : Type := DepYes | DepNo | DepCrash.

Definition block_has_load (g : graph) (b : id) (slot : N) (skip_pos : option nat) : bool :=
  existsb (fun '(i, op) =>
             match skip_pos with
             | Some p => if Nat.eqb i p then false else is_op op O_load && mem_N slot (instr_slots op)
             | None => is_op op O_load && mem_N slot (instr_slots op)
             end)
          (combine (seq 0 (List.length (get_ops g b))) (get_ops g b)).

Fixpoint deps_scan (g : graph) (blocks : list id) (cur : id) (diverges : bool) (slot : N) (pos : nat) : dep :=
  match blocks with
  | [] => DepNo
  | b :: t =>
      if Nat.eqb b cur then
        if diverges then DepCrash
        else if block_has_load g b slot (Some pos) then DepYes else deps_scan g t cur diverges slot pos
      else if block_has_load g b slot None then DepYes else deps_scan g t cur diverges slot pos
  end.

(* Does the structural comparison cur == cur diverge?  TealSimpleBlock.__eq__ cuts cycles with its
   [visited] flag, TealConditionalBlock.__eq__ does not: the recursion is infinite exactly when a cycle
   consisting only of conditional blocks is reachable from [cur]. *)
Definition is_cond (g : graph) (b : id) : bool :=
  match g_blk g b with Some (BCond _ _ _) => true | _ => false end.

Definition cond_succs (g : graph) (b : id) : list id := filter (is_cond g) (out_of g b).

Fixpoint reach_loop (fuel : nat) (succ : id -> list id) (work seen : list id) : list id :=
  match fuel with
  | O => seen
  | S f =>
      match work with
      | [] => seen
      | w :: rest =>
          let news := filter (fun x => negb (mem_id x seen)) (succ w) in
          let news' := fold_left (fun acc x => if mem_id x acc then acc else acc ++ [x]) news [] in
          reach_loop f succ (rest ++ news') (seen ++ news')
      end
  end.

Definition eq_diverges (g : graph) (cur : id) : bool :=
  let n := S (g_next g) in
  let reachable := reach_loop (n * 2) (out_of g) [cur] [cur] in
  existsb (fun c => is_cond g c &&
                    mem_id c (reach_loop (n * 2) (cond_succs g) (cond_succs g c) (cond_succs g c)))
          reachable.

(* _apply_slot_to_stack on block [cur]; returns None when the structural comparison would not terminate *)
Definition apply_slot_to_stack (g : graph) (start cur : id) (skip : list N) : option graph :=
  let ops := get_ops g cur in
  let n := List.length ops in
  let cands :=
    flat_map (fun i =>
      match nth_error ops i, nth_error ops (S i) with
      | Some op, Some nx =>
          if is_op op O_store && negb (subset_N (instr_slots op) skip) && is_op nx O_load then
            match instr_slots op, instr_slots nx with
            | [s1], [s2] => if N.eqb s1 s2 then [(s1, S i)] else []
            | _, _ => []
            end
          else []
      | _, _ => []
      end) (seq 0 (n - 1)) in
  match cands with
  | [] => Some g
  | _ =>
      (* since the fix in /repo ("optimiser must locate the current block by identity") the comparison is
         `block is cur_block`: it cannot diverge any more; [eq_diverges] describes the pinned behaviour *)
      let div := false in
      let order := iterate g start in
      let res := map (fun '(s, pos) => (s, deps_scan g order cur div s pos)) cands in
      if existsb (fun '(_, d) => match d with DepCrash => true | _ => false end) res then None
      else Some (remove_slot_access g start
                   (flat_map (fun '(s, d) => match d with DepNo => [s] | _ => [] end) res))
  end.

Fixpoint instrs_eqb (a b : list instr) : bool :=
  match a, b with
  | [], [] => true
  | x :: a', y :: b' => instr_eqb x y && instrs_eqb a' b'
  | _, _ => false
  end.

Fixpoint opt_block_loop (n : nat) (g : graph) (start cur : id) (skip : list N) : option graph :=
  match n with
  | O => Some g
  | S k =>
      let prev := get_ops g cur in
      match apply_slot_to_stack g start cur skip with
      | None => None
      | Some g1 => if instrs_eqb prev (get_ops g1 cur) then Some g1 else opt_block_loop k g1 start cur skip
      end
  end.

(* apply_global_optimizations *)
Definition optimize_routine (g : graph) (start : id) (skip : list N) : option graph :=
  fold_left (fun og b => match og with
                         | Some g => opt_block_loop (List.length (get_ops g b)) g start b skip
                         | None => None
                         end) (iterate g start) (Some g).

(* ---- sortBlocks ---- *)
Fixpoint sort_loop (fuel : nat) (g : graph) (stack : list id) (visited : list id) (order : list id) : list id :=
  match fuel with
  | O => rev order
  | S f =>
      match rev stack with           (* S.pop() takes the LAST element *)
      | [] => rev order
      | n :: rest_rev =>
          let rest := rev rest_rev in
          if mem_id n visited then sort_loop f g rest visited order
          else sort_loop f g (rest ++ out_of g n) (n :: visited) (n :: order)
      end
  end.

Definition sort_blocks (g : graph) (start end_ : id) : option (list id) :=
  let order := sort_loop (3 * S (g_next g)) g [start] [] [] in
  if mem_id end_ order then Some (remove_first end_ order ++ [end_]) else None.

(* ---- flattenBlocks ---- *)
Fixpoint index_of (x : id) (l : list id) (n : nat) : option nat :=
  match l with [] => None | y :: t => if Nat.eqb x y then Some n else index_of x t (S n) end.

Definition label_of (i : nat) : string := ("l" ++ N_to_dec (N.of_nat i))%string.

(* per block: its code and the indices it references *)
Definition flatten_one (g : graph) (blocks : list id) (i : nat) (b : id) : option (list instr * list nat) :=
  match g_blk g b with
  | None => None
  | Some bb =>
      let code := b_ops bb in
      if is_terminal bb then Some (code, [])
      else
        match bb with
        | BSimple _ (Some nx) =>
            match index_of nx blocks 0 with
            | Some ni => if Nat.eqb ni (S i) then Some (code, [])
                         else Some (code ++ [mkI O_b [ALbl (label_of ni)]], [ni])
            | None => None
            end
        | BSimple _ None => Some (code, [])
        | BCond _ (Some t) (Some fl) =>
            match index_of t blocks 0, index_of fl blocks 0 with
            | Some ti, Some fi =>
                if Nat.eqb fi (S i) then Some (code ++ [mkI O_bnz [ALbl (label_of ti)]], [ti])
                else if Nat.eqb ti (S i) then Some (code ++ [mkI O_bz [ALbl (label_of fi)]], [fi])
                else Some (code ++ [mkI O_bnz [ALbl (label_of ti)]; mkI O_b [ALbl (label_of fi)]], [ti; fi])
            | _, _ => None
            end
        | BCond _ _ _ => None       (* assert trueBlock/falseBlock is not None *)
        end
  end.

Fixpoint flatten_collect (g : graph) (blocks : list id) (i : nat) (rest : list id)
  : option (list (list instr) * list nat) :=
  match rest with
  | [] => Some ([], [])
  | b :: t =>
      match flatten_one g blocks i b, flatten_collect g blocks (S i) t with
      | Some (code, refs), Some (codes, refs') => Some (code :: codes, refs ++ refs')
      | _, _ => None
      end
  end.

Fixpoint mem_nat (x : nat) (l : list nat) : bool :=
  match l with [] => false | y :: t => Nat.eqb x y || mem_nat x t end.

Fixpoint flatten_emit (codes : list (list instr)) (refs : list nat) (i : nat) : list comp :=
  match codes with
  | [] => []
  | code :: t =>
      (if mem_nat i refs then [CLabel (label_of i) None] else []) ++ map COp code ++ flatten_emit t refs (S i)
  end.

Definition flatten_blocks (g : graph) (blocks : list id) : option (list comp) :=
  match flatten_collect g blocks 0 blocks with
  | Some (codes, refs) => Some (flatten_emit codes refs 0)
  | None => None
  end.
