(* AVM/StackCheck.v — C05: an abstract interpreter for stack height and type discipline over parsed
   TEAL programs ([Machine.program]), structured as COMPUTE, THEN VERIFY.

   Abstract state at a pc: the routine the pc belongs to, whether its [proto] has been executed, and the
   stack of abstract types of the cells the routine OWNS: its arguments (transferred by the call) and
   everything it pushed.  Cells below belong to the callers and are never described, hence never touched.

   Routine signatures ([rsig]: entry pc, argument types, result types) are an INPUT: the harness passes
   the signature PyTeal declared for each subroutine label; labels without a declaration get the signature
   of their [proto A R] (all [any]) or make the program "not covered".
     scratch convention: a routine is entered with exactly its A arguments and must execute [retsub] with
       exactly its R results (i.e. entry height - A + R in the caller's terms);
     [proto A R] convention: at [retsub] at least A + R cells, the R cells at the frame pointer are returned.
   [return] needs a uint64-compatible top; without a frame it must be the routine's only cell.

   Only [annot_inductive] appears in the soundness theorem (Proofs/StackCheckSound.v): the work-list pass
   [compute_annot] merely proposes an annotation; running out of fuel can only reject. *)
From Coq Require Import List Arith NArith Ascii String Bool.
From PV Require Import Base.Bytes AVM.Syntax AVM.Ops AVM.Machine AVM.StackSig.
Import ListNotations.
Local Open Scope list_scope.

Record rsig : Type := mkR { r_entry : nat; r_args : list ty; r_rets : list ty }.     (* types: TOP FIRST *)
(* [a_sl]: types of scratch slots known at this pc (an association list; a slot that is absent is [any]).
   Flow-sensitive inside a routine: [store k] records the type of the stored cell, [load k] pushes the recorded
   type, [stores] and every [callsub] forget everything (the callee may write any slot) - the values a routine
   spills around a call travel on the stack, where they keep their types. *)
Record astate : Type := mkA { a_rid : nat; a_fp : bool; a_stk : list ty; a_sl : list (N * ty) }.

Definition slot_ty (sl : list (N * ty)) (k : N) : ty :=
  match alookup N.eqb k sl with Some t => t | None => TA end.
Definition set_slot (sl : list (N * ty)) (k : N) (t : ty) : list (N * ty) := (k, t) :: aremove N.eqb k sl.
Definition sl_le (a b : list (N * ty)) : bool := forallb (fun kt => ty_le (slot_ty a (fst kt)) (snd kt)) b.
Definition join_sl (a b : list (N * ty)) : list (N * ty) :=
  filter (fun kt => negb (ty_eqb (snd kt) TA)) (map (fun kt => (fst kt, ty_join (snd kt) (slot_ty b (fst kt)))) a).
Definition annot : Type := list (option astate).

Fixpoint stk_le (a b : list ty) : bool :=
  match a, b with
  | [], [] => true
  | x :: a', y :: b' => ty_le x y && stk_le a' b'
  | _, _ => false
  end.
Definition astate_le (a b : astate) : bool :=
  Nat.eqb (a_rid a) (a_rid b) && Bool.eqb (a_fp a) (a_fp b) && stk_le (a_stk a) (a_stk b) && sl_le (a_sl a) (a_sl b).

Fixpoint find_rid_from (rt : list rsig) (k : nat) (pc : nat) : option nat :=
  match rt with
  | [] => None
  | r :: t => if Nat.eqb (r_entry r) pc then Some k else find_rid_from t (S k) pc
  end.
(* routine 0 is the main routine and is never a call target *)
Definition find_rid (rt : list rsig) (pc : nat) : option nat :=
  match rt with [] => None | _ :: t => find_rid_from t 1 pc end.

Definition is_proto (o : opc) : bool := match o with O_proto => true | _ => false end.
Definition is_retsub (o : opc) : bool := match o with O_retsub => true | _ => false end.

Inductive tres : Type :=
| TErr (msg : string)
| TUnk (msg : string)
| TSucc (succs : list (nat * astate)) (entry : option (nat * astate)).

(* position from the top of the cell with index [idx] from the bottom *)
Definition pos_from_bottom (n idx : nat) : option nat :=
  if (idx <? n)%nat then Some (n - 1 - idx)%nat else None.

(* the R cells at the frame pointer, TOP FIRST *)
Definition frame_rets (nargs nrets : nat) (s : list ty) : list ty :=
  rev (firstn nrets (skipn nargs (rev s))).

Definition with_stk (a : astate) (s : list ty) : astate := mkA (a_rid a) (a_fp a) s (a_sl a).

(* the effect of an ordinary opcode on the slot types (and the refinement of what [load] pushes), given the
   stack [s'] its signature produces *)
Definition slot_effect (i : pinstr) (a : astate) (s' : list ty) : astate :=
  match p_op i, p_imms i with
  | O_load, [IInt k] =>
      match s' with
      | _ :: r => mkA (a_rid a) (a_fp a) (slot_ty (a_sl a) k :: r) (a_sl a)
      | [] => with_stk a s'
      end
  | O_store, [IInt k] =>
      match a_stk a with
      | t :: _ => mkA (a_rid a) (a_fp a) s' (set_slot (a_sl a) k t)
      | [] => mkA (a_rid a) (a_fp a) s' []
      end
  | (O_store | O_stores), _ => mkA (a_rid a) (a_fp a) s' []
  | _, _ => with_stk a s'
  end.

Local Open Scope string_scope.

Definition transfer_ctl (strict lax_ret : bool) (p : program) (rt : list rsig) (pc : nat) (i : pinstr) (a : astate) : tres :=
  let s := a_stk a in
  let next := S pc in
  match p_op i, p_imms i with
  | O_err, _ => TSucc [] None
  | O_return_, _ =>
      match s with
      | t :: r =>
          if accepts strict t TU then
            if a_fp a then TSucc [] None
            else match r with
                 | [] => TSucc [] None
                 | _ => TErr "return with extra values on the routine's stack"
                 end
          else TErr "return applied to a bytes value"
      | [] => TErr "return on an empty stack"
      end
  | O_b, [IName l] =>
      match label_pc p l with Some t => TSucc [(t, a)] None | None => TErr "branch to an unknown label" end
  | (O_bnz | O_bz), [IName l] =>
      match label_pc p l, s with
      | Some t, c :: r =>
          if accepts strict c TU then TSucc [(t, with_stk a r); (next, with_stk a r)] None
          else TErr "conditional branch on a bytes value"
      | Some _, [] => TErr "conditional branch on an empty stack"
      | None, _ => TErr "branch to an unknown label"
      end
  | O_callsub, [IName l] =>
      match label_pc p l with
      | None => TErr "callsub to an unknown label"
      | Some t =>
          match find_rid rt t with
          | None => TUnk "callsub to a label without a signature"
          | Some k =>
              match nth_error rt k with
              | None => TUnk "callsub: bad routine table"
              | Some r =>
                  match take_ops strict (r_args r) s with
                  | Some rest =>
                      TSucc [(next, mkA (a_rid a) (a_fp a) (r_rets r ++ rest) [])]
                            (Some (t, mkA k false (map (fun _ => TA) (r_args r)) []))
                  | None => TErr "callsub: arguments missing on the routine's stack or of the wrong type"
                  end
              end
          end
      end
  | O_proto, [IInt na; IInt nr] =>
      match nth_error rt (a_rid a) with
      | Some r =>
          if negb (a_fp a) && negb (Nat.eqb (a_rid a) 0) && Nat.eqb (r_entry r) pc
             && Nat.eqb (N.to_nat na) (List.length (r_args r)) && Nat.eqb (N.to_nat nr) (List.length (r_rets r))
             && Nat.eqb (List.length s) (List.length (r_args r))
          then TSucc [(next, mkA (a_rid a) true s (a_sl a))] None
          else TErr "proto not at a routine entry or not matching the routine's signature"
      | None => TErr "proto: bad routine table"
      end
  | O_retsub, _ =>
      match nth_error rt (a_rid a) with
      | Some r =>
          if Nat.eqb (a_rid a) 0 then TErr "retsub in the main routine" else
          let actual := if a_fp a then frame_rets (List.length (r_args r)) (List.length (r_rets r)) s else s in
          if a_fp a && negb (List.length (r_args r) + List.length (r_rets r) <=? List.length s)%nat
          then TErr "retsub: fewer than args+results cells in the frame"
          else if negb (Nat.eqb (List.length actual) (List.length (r_rets r)))
          then TErr "retsub: the routine does not return with exactly its declared results"
          else if lax_ret then
            match take_ops false (r_rets r) actual with
            | Some _ => TSucc [] None
            | None => TErr "retsub: a result has the wrong type"
            end
          else if stk_le actual (r_rets r) then TSucc [] None
          else TErr "retsub: a result has the wrong type"
      | None => TErr "retsub: bad routine table"
      end
  | O_frame_dig, [IInt k] =>
      match nth_error rt (a_rid a) with
      | Some r =>
          if a_fp a then
            let na := List.length (r_args r) in
            match frame_index na na k with
            | Some idx =>
                match pos_from_bottom (List.length s) idx with
                | Some pos => match nth_error s pos with
                              | Some t => TSucc [(next, with_stk a (t :: s))] None
                              | None => TErr "frame_dig: index outside the frame"
                              end
                | None => TErr "frame_dig: index outside the frame"
                end
            | None => TErr "frame_dig: index below the arguments"
            end
          else TErr "frame_dig without proto"
      | None => TErr "frame_dig: bad routine table"
      end
  | O_frame_bury, [IInt k] =>
      match nth_error rt (a_rid a), s with
      | Some r, v :: s' =>
          if a_fp a then
            let na := List.length (r_args r) in
            match frame_index na na k with
            | Some idx =>
                match pos_from_bottom (List.length s') idx with
                | Some pos => TSucc [(next, with_stk a (list_update s' pos v))] None
                | None => TErr "frame_bury: index outside the frame"
                end
            | None => TErr "frame_bury: index below the arguments"
            end
          else TErr "frame_bury without proto"
      | Some _, [] => TErr "frame_bury on an empty stack"
      | None, _ => TErr "frame_bury: bad routine table"
      end
  | (O_intcblock | O_bytecblock), _ => TSucc [(next, a)] None
  | O_intc, [IInt _] => TSucc [(next, with_stk a (TU :: s))] None
  | (O_intc_0 | O_intc_1 | O_intc_2 | O_intc_3), _ => TSucc [(next, with_stk a (TU :: s))] None
  | O_bytec, [IInt _] => TSucc [(next, with_stk a (TB :: s))] None
  | (O_bytec_0 | O_bytec_1 | O_bytec_2 | O_bytec_3), _ => TSucc [(next, with_stk a (TB :: s))] None
  | _, _ => TUnk "control opcode with unexpected immediates"
  end.

Definition transfer (strict lax_ret : bool) (p : program) (rt : list rsig) (pc : nat) (i : pinstr) (a : astate) : tres :=
  match sig_of (p_op i) (p_imms i) with
  | SUnknown => TUnk (opc_name (p_op i))
  | SCtl => transfer_ctl strict lax_ret p rt pc i a
  | sd =>
      match sig_apply strict sd (a_stk a) with
      | Some s' => TSucc [(S pc, slot_effect i a s')] None
      | None => TErr "operand missing on the routine's stack or of the wrong type"
      end
  end.

Local Close Scope string_scope.

(* ---- verify ---- *)
Definition le_at (ann : annot) (t : nat) (a : astate) : bool :=
  match nth_error ann t with Some (Some b) => astate_le a b | _ => false end.
Definition not_proto_at (p : program) (t : nat) : bool :=
  match nth_error (pr_code p) t with Some i => negb (is_proto (p_op i)) | None => false end.
Definition in_code (p : program) (t : nat) : bool :=
  match nth_error (pr_code p) t with Some _ => true | None => false end.

Definition check_succs (p : program) (ann : annot) (r : tres) : bool :=
  match r with
  | TSucc l e =>
      forallb (fun ta => le_at ann (fst ta) (snd ta) && not_proto_at p (fst ta)) l &&
      match e with None => true | Some (t, a') => le_at ann t a' && in_code p t end
  | _ => false
  end.

Definition check_pc (strict : bool) (p : program) (rt : list rsig) (ann : annot) (pc : nat) : bool :=
  match nth_error ann pc with
  | Some (Some a) =>
      match nth_error (pr_code p) pc with
      | Some i => check_succs p ann (transfer strict false p rt pc i a)
      | None => false
      end
  | _ => true
  end.

Definition rt_ok (rt : list rsig) : bool :=
  match rt with
  | r :: _ => Nat.eqb (r_entry r) 0 && Nat.eqb (List.length (r_args r)) 0 && Nat.eqb (List.length (r_rets r)) 0
  | [] => false
  end.

Definition annot_inductive (p : program) (rt : list rsig) (ann : annot) : bool :=
  rt_ok rt && le_at ann 0 (mkA 0 false [] []) && not_proto_at p 0 &&
  forallb (check_pc false p rt ann) (seq 0 (List.length ann)).

(* additionally: no operand that needs a definite type is an [any] cell *)
Definition annot_strict (p : program) (rt : list rsig) (ann : annot) : bool :=
  forallb (check_pc true p rt ann) (seq 0 (List.length ann)).

(* ---- compute: a fuelled work-list pass ---- *)
Inductive cres : Type :=
| CErr (pc : nat) (msg : string)
| CUnk (pc : nat) (msg : string)
| CFuel
| COk (ann : annot).

Fixpoint join_stk (a b : list ty) : option (list ty) :=
  match a, b with
  | [], [] => Some []
  | x :: a', y :: b' => match join_stk a' b' with Some r => Some (ty_join x y :: r) | None => None end
  | _, _ => None
  end.

Fixpoint stk_eqb (a b : list ty) : bool :=
  match a, b with
  | [], [] => true
  | x :: a', y :: b' => ty_eqb x y && stk_eqb a' b'
  | _, _ => false
  end.

Fixpoint set_nth {A} (l : list A) (n : nat) (x : A) : list A :=
  match l, n with
  | [], _ => []
  | _ :: t, O => x :: t
  | h :: t, S k => h :: set_nth t k x
  end.

Local Open Scope string_scope.

Fixpoint work_loop (fuel : nat) (lax_ret : bool) (p : program) (rt : list rsig) (ann : annot) (work : list (nat * astate)) : cres :=
  match fuel with
  | O => CFuel
  | S f =>
      match work with
      | [] => COk ann
      | (pc, a) :: rest =>
          match nth_error ann pc with
          | None => CErr pc "control reaches the end of the program"
          | Some old =>
              let merged :=
                match old with
                | None => Some (a, true)
                | Some b =>
                    if Nat.eqb (a_rid a) (a_rid b) && Bool.eqb (a_fp a) (a_fp b) then
                      match join_stk (a_stk a) (a_stk b) with
                      | Some j =>
                          let jl := join_sl (a_sl b) (a_sl a) in
                          Some (mkA (a_rid b) (a_fp b) j jl, negb (stk_eqb j (a_stk b) && sl_le jl (a_sl b)))
                      | None => None
                      end
                    else None
                end in
              match merged with
              | None => CErr pc "paths join with different stack heights (or from different routines)"
              | Some (_, false) => work_loop f lax_ret p rt ann rest
              | Some (a', true) =>
                  match nth_error (pr_code p) pc with
                  | None => CErr pc "control reaches the end of the program"
                  | Some i =>
                      match transfer false lax_ret p rt pc i a' with
                      | TErr m => CErr pc m
                      | TUnk m => CUnk pc m
                      | TSucc l e =>
                          work_loop f lax_ret p rt (set_nth ann pc (Some a'))
                                    (match e with Some x => [x] | None => [] end ++ l ++ rest)
                      end
                  end
              end
          end
      end
  end.

Local Close Scope string_scope.

Definition compute_once (lax_ret : bool) (p : program) (rt : list rsig) : cres :=
  let n := List.length (pr_code p) in
  work_loop (256 * (n + 16)) lax_ret p rt (repeat None n) [(0%nat, mkA 0 false [] [])].

(* results whose actual type is not below the declared one (an anytype expression returned from a
   typed subroutine) are weakened to [any] for the callers *)
Definition weaken_one (p : program) (ann : annot) (k : nat) (r : rsig) : rsig :=
  let rets :=
    fold_left (fun (cur : list ty) (pc : nat) =>
      match nth_error ann pc, nth_error (pr_code p) pc with
      | Some (Some a), Some i =>
          if Nat.eqb (a_rid a) k && is_retsub (p_op i) then
            let actual := if a_fp a then frame_rets (List.length (r_args r)) (List.length cur) (a_stk a) else a_stk a in
            if Nat.eqb (List.length actual) (List.length cur)
            then map (fun ad => if ty_le (fst ad) (snd ad) then snd ad else TA) (combine actual cur)
            else cur
          else cur
      | _, _ => cur
      end) (seq 0 (List.length ann)) (r_rets r) in
  mkR (r_entry r) (r_args r) rets.

Fixpoint mapi_from {A B} (f : nat -> A -> B) (k : nat) (l : list A) : list B :=
  match l with [] => [] | x :: t => f k x :: mapi_from f (S k) t end.

Definition rsig_eqb (a b : rsig) : bool :=
  Nat.eqb (r_entry a) (r_entry b) && stk_eqb (r_args a) (r_args b) && stk_eqb (r_rets a) (r_rets b).
Fixpoint rt_eqb (a b : list rsig) : bool :=
  match a, b with
  | [], [] => true
  | x :: a', y :: b' => rsig_eqb x y && rt_eqb a' b'
  | _, _ => false
  end.

Fixpoint settle (fuel : nat) (p : program) (rt : list rsig) : cres * list rsig :=
  match fuel with
  | O => (CFuel, rt)
  | S f =>
      match compute_once true p rt with
      | COk ann =>
          let rt' := mapi_from (weaken_one p ann) 0 rt in
          if rt_eqb rt rt' then (COk ann, rt) else settle f p rt'
      | other => (other, rt)
      end
  end.

Inductive verdict5 : Type :=
| V5Accept (rt : list rsig) (ann : annot) (strict : bool)
| V5Reject (pc : nat) (msg : string)
| V5NotCovered (pc : nat) (msg : string)
| V5Fuel.

Local Open Scope string_scope.

(* declared signatures: (label, argument types, result types); the main routine is added here *)
Fixpoint build_rt (p : program) (decl : list (string * list ty * list ty)) : option (list rsig) :=
  match decl with
  | [] => Some []
  | (l, args, rets) :: t =>
      match label_pc p l, build_rt p t with
      | Some pc, Some r => Some (mkR pc args rets :: r)
      | _, _ => None
      end
  end.

(* call targets without a declaration: use their [proto A R] when there is one *)
Definition proto_sig (p : program) (pc : nat) : option rsig :=
  match nth_error (pr_code p) pc with
  | Some i =>
      match p_op i, p_imms i with
      | O_proto, [IInt a; IInt r] =>
          if (a <=? 255)%N && (r <=? 255)%N then Some (mkR pc (repeat TA (N.to_nat a)) (repeat TA (N.to_nat r))) else None
      | _, _ => None
      end
  | None => None
  end.

Definition add_proto_sigs (p : program) (rt : list rsig) : list rsig :=
  fold_left (fun (acc : list rsig) (i : pinstr) =>
    match p_op i, p_imms i with
    | O_callsub, [IName l] =>
        match label_pc p l with
        | Some t =>
            match find_rid acc t with
            | Some _ => acc
            | None => match proto_sig p t with Some r => (acc ++ [r])%list | None => acc end
            end
        | None => acc
        end
    | _, _ => acc
    end) (pr_code p) rt.

Definition stack_check (p : program) (decl : list (string * list ty * list ty)) : verdict5 :=
  match build_rt p decl with
  | None => V5NotCovered 0 "a declared subroutine label does not occur in the program"
  | Some rts =>
      let rt0 := add_proto_sigs p (mkR 0 [] [] :: rts) in
      match settle (S (S (List.length rt0 + List.length rt0))) p rt0 with
      | (COk ann, rt) =>
          if annot_inductive p rt ann then V5Accept rt ann (annot_strict p rt ann)
          else V5Reject 0 "internal: the computed annotation is not inductive"
      | (CErr pc m, _) => V5Reject pc m
      | (CUnk pc m, _) => V5NotCovered pc m
      | (CFuel, _) => V5Fuel
      end
  end.
