(* AVM/Parse.v — the TEAL assembler's reading of source text, as far as the model needs it:
   line tokeniser (string literals, base64(...) groups, // comments, ; separators), literal
   decoders (string escapes, hex, base32, base64, decimal/hex integers, named constants) and
   the translation of a whole program text into [program].  Hand-written from the documented
   behaviour of the go-algorand assembler (trusted base; no assembler exists offline). *)
From Coq Require Import List Arith NArith Ascii String Bool.
From PV Require Import Base.Bytes Base.Sexp AVM.Syntax AVM.Machine.
Import ListNotations.
Local Open Scope string_scope.

Definition chr (n : N) : ascii := ascii_of_N n.
Definition is_space (c : ascii) : bool :=
  match N_of_ascii c with 32%N | 9%N | 13%N | 11%N | 12%N => true | _ => false end.

Definition str_of (l : list ascii) : string := string_of_list_ascii (rev l).

(* ---- tokeniser ----
   state: cur = current token (reversed), in_str, esc (previous char was an unescaped backslash
   inside a string), in_b64 (inside base64( ... ) or after a base64/b64 token).
   Output: tokens of the line; a semicolon token separates statements (total function). *)
Fixpoint tok_line (s : list ascii) (cur : list ascii) (in_str esc in_b64 : bool) (acc : list string)
  : list string :=
  let flush (cur : list ascii) (acc : list string) :=
      match cur with [] => acc | _ => str_of cur :: acc end in
  match s with
  | [] => rev (flush cur acc)
  | c :: t =>
      if in_str then
        if esc then tok_line t (c :: cur) true false in_b64 acc
        else if Ascii.eqb c "\" then tok_line t (c :: cur) true true in_b64 acc
        else if Ascii.eqb c """" then tok_line t (c :: cur) false false in_b64 acc
        else tok_line t (c :: cur) true false in_b64 acc
      else if is_space c then
        match cur with
        | [] => tok_line t [] false false in_b64 acc
        | _ =>
            let tk := str_of cur in
            let b64' := if in_b64 then false else (String.eqb tk "base64" || String.eqb tk "b64") in
            tok_line t [] false false b64' (tk :: acc)
        end
      else if Ascii.eqb c """" then
        match cur with
        | [] => tok_line t [c] true false in_b64 acc
        | _ => tok_line t (c :: cur) false false in_b64 acc
        end
      else if Ascii.eqb c "/" then
        match t with
        | c2 :: _ =>
            if Ascii.eqb c2 "/" && negb in_b64 then rev (flush cur acc)
            else tok_line t (c :: cur) false false in_b64 acc
        | [] => tok_line t (c :: cur) false false in_b64 acc
        end
      else if Ascii.eqb c "(" then
        let pre := str_of cur in
        let b64' := in_b64 || String.eqb pre "base64" || String.eqb pre "b64" in
        tok_line t (c :: cur) false false b64' acc
      else if Ascii.eqb c ")" then tok_line t (c :: cur) false false false acc
      else if Ascii.eqb c ";" then
        if in_b64 then tok_line t (c :: cur) false false in_b64 acc
        else tok_line t [] false false false (";" :: flush cur acc)
      else tok_line t (c :: cur) false false in_b64 acc
  end.

Definition tokens_of_line (s : string) : list string :=
  tok_line (list_ascii_of_string s) [] false false false [].

(* ---- quoted string literal with escapes: n r t backslash quote xHH ---- *)
Fixpoint parse_str_body (s : list ascii) : option bytes :=
  match s with
  | [] => None                         (* no closing quote *)
  | [c] => if Ascii.eqb c """" then Some [] else None
  | c :: t =>
      if Ascii.eqb c "\" then
        match t with
        | e :: t' =>
            if Ascii.eqb e "n" then option_map (cons (chr 10)) (parse_str_body t')
            else if Ascii.eqb e "r" then option_map (cons (chr 13)) (parse_str_body t')
            else if Ascii.eqb e "t" then option_map (cons (chr 9)) (parse_str_body t')
            else if Ascii.eqb e "\" then option_map (cons e) (parse_str_body t')
            else if Ascii.eqb e """" then
              match t' with [] => None | _ => option_map (cons e) (parse_str_body t') end
            else if Ascii.eqb e "x" then
              match t' with
              | h1 :: h2 :: t'' =>
                  match hexval h1, hexval h2, t'' with
                  | Some a, Some b, _ :: _ => option_map (cons (chr (a * 16 + b))) (parse_str_body t'')
                  | _, _, _ => None
                  end
              | _ => None
              end
            else None
        | [] => None
        end
      else if Ascii.eqb c """" then None   (* unescaped quote before the end *)
      else option_map (cons c) (parse_str_body t)
  end.

Definition parse_string_literal (tk : string) : option bytes :=
  match list_ascii_of_string tk with
  | q :: body => if Ascii.eqb q """" then parse_str_body body else None
  | [] => None
  end.

(* ---- base-N decoding ---- *)
Definition b64val (c : ascii) : option N :=
  let n := N_of_ascii c in
  if (65 <=? n)%N && (n <=? 90)%N then Some (n - 65)%N
  else if (97 <=? n)%N && (n <=? 122)%N then Some (n - 71)%N
  else if (48 <=? n)%N && (n <=? 57)%N then Some (n + 4)%N
  else if (n =? 43)%N then Some 62%N
  else if (n =? 47)%N then Some 63%N
  else None.
Definition b32val (c : ascii) : option N :=
  let n := N_of_ascii c in
  if (65 <=? n)%N && (n <=? 90)%N then Some (n - 65)%N
  else if (50 <=? n)%N && (n <=? 55)%N then Some (n - 24)%N
  else None.

Fixpoint strip_pad (s : list ascii) : list ascii :=   (* applied to the reversed string *)
  match s with
  | c :: t => if Ascii.eqb c "=" then strip_pad t else s
  | [] => []
  end.

Fixpoint digit_vals (f : ascii -> option N) (s : list ascii) : option (list N) :=
  match s with
  | [] => Some []
  | c :: t => match f c, digit_vals f t with Some v, Some r => Some (v :: r) | _, _ => None end
  end.

Definition decode_bits (w : N) (vals : list N) : bytes :=
  let n := fold_left (fun acc v => (acc * 2 ^ w + v)%N) vals 0%N in
  let total := (w * N.of_nat (List.length vals))%N in
  be_encode (N.to_nat (total / 8)) (N.shiftr n (total mod 8)).

Definition decode_baseN (f : ascii -> option N) (w : N) (s : string) : option bytes :=
  let body := rev (strip_pad (rev (list_ascii_of_string s))) in
  match digit_vals f body with
  | Some vals => Some (decode_bits w vals)
  | None => None
  end.

Definition decode_base64 := decode_baseN b64val 6.
Definition decode_base32 := decode_baseN b32val 5.

Definition decode_hex0x (s : string) : option bytes :=
  match list_ascii_of_string s with
  | z :: x :: t => if Ascii.eqb z "0" && (Ascii.eqb x "x" || Ascii.eqb x "X") then bytes_of_hex_l t else None
  | _ => None
  end.

Definition starts_with (p s : string) : bool := String.prefix p s.

(* base64(XXXX) -> XXXX *)
Definition paren_body (p tk : string) : option string :=
  let lp := String.length p in
  let lt := String.length tk in
  if starts_with (p ++ "(") tk && (lp + 2 <=? lt)%nat
  then if String.eqb (substring (lt - 1) 1 tk) ")" then Some (substring (lp + 1) (lt - lp - 2) tk) else None
  else None.

(* one byte-constant from the head of a token list; returns the rest *)
Definition parse_bytes_arg (ts : list string) : option (bytes * list string) :=
  match ts with
  | [] => None
  | tk :: rest =>
      if String.eqb tk "base64" || String.eqb tk "b64" then
        match rest with a :: r => option_map (fun b => (b, r)) (decode_base64 a) | [] => None end
      else if String.eqb tk "base32" || String.eqb tk "b32" then
        match rest with a :: r => option_map (fun b => (b, r)) (decode_base32 a) | [] => None end
      else match paren_body "base64" tk with Some a => option_map (fun b => (b, rest)) (decode_base64 a) | None =>
      match paren_body "b64" tk with Some a => option_map (fun b => (b, rest)) (decode_base64 a) | None =>
      match paren_body "base32" tk with Some a => option_map (fun b => (b, rest)) (decode_base32 a) | None =>
      match paren_body "b32" tk with Some a => option_map (fun b => (b, rest)) (decode_base32 a) | None =>
      match decode_hex0x tk with Some b => Some (b, rest) | None =>
      option_map (fun b => (b, rest)) (parse_string_literal tk)
      end end end end end
  end.

Fixpoint parse_bytes_args (fuel : nat) (ts : list string) : option (list bytes) :=
  match fuel with
  | O => None
  | S f =>
      match ts with
      | [] => Some []
      | _ => match parse_bytes_arg ts with
             | Some (b, rest) => option_map (cons b) (parse_bytes_args f rest)
             | None => None
             end
      end
  end.

(* ---- integers ---- *)
Fixpoint hex_acc (s : list ascii) (acc : N) : option N :=
  match s with
  | [] => Some acc
  | c :: t => match hexval c with Some v => hex_acc t (acc * 16 + v)%N | None => None end
  end.

Definition named_int (s : string) : option N :=
  if String.eqb s "NoOp" then Some 0%N else if String.eqb s "OptIn" then Some 1%N
  else if String.eqb s "CloseOut" then Some 2%N else if String.eqb s "ClearState" then Some 3%N
  else if String.eqb s "UpdateApplication" then Some 4%N else if String.eqb s "DeleteApplication" then Some 5%N
  else if String.eqb s "unknown" then Some 0%N else if String.eqb s "pay" then Some 1%N
  else if String.eqb s "keyreg" then Some 2%N else if String.eqb s "acfg" then Some 3%N
  else if String.eqb s "axfer" then Some 4%N else if String.eqb s "afrz" then Some 5%N
  else if String.eqb s "appl" then Some 6%N
  else None.

Definition parse_uint (s : string) : option N :=
  match list_ascii_of_string s with
  | z :: x :: t =>
      if Ascii.eqb z "0" && (Ascii.eqb x "x" || Ascii.eqb x "X")
      then match t with [] => None | _ => hex_acc t 0%N end
      else N_of_dec s
  | _ => N_of_dec s
  end.

Definition parse_int_arg (s : string) : option N :=
  match parse_uint s with
  | Some n => if (n <? 18446744073709551616)%N then Some n else None
  | None => named_int s
  end.

Fixpoint parse_int_args (ts : list string) : option (list N) :=
  match ts with
  | [] => Some []
  | t :: r => match parse_int_arg t, parse_int_args r with Some n, Some l => Some (n :: l) | _, _ => None end
  end.

(* ---- statements ---- *)
Inductive stmt : Type :=
| SInstr (i : pinstr)
| SLabel (l : string)
| SPragma (v : N).

Definition generic_imm (t : string) : imm :=
  match parse_uint t with Some n => IInt n | None => IName t end.

Definition ends_with_colon (s : string) : option string :=
  let n := String.length s in
  if (1 <? n)%nat && String.eqb (substring (n - 1) 1 s) ":" then Some (substring 0 (n - 1) s) else None.

(* method selectors are supplied by the harness (SHA-512/256 is an oracle) *)
Definition parse_stmt (msel : list (string * bytes)) (ts : list string) : option (option stmt) :=
  match ts with
  | [] => Some None
  | hd :: args =>
      if String.eqb hd "#pragma" then
        match args with
        | [k; v] => if String.eqb k "version" then option_map (fun n => Some (SPragma n)) (N_of_dec v)
                    else if String.eqb k "typetrack" then Some None else None
        | _ => None
        end
      else match ends_with_colon hd, args with
      | Some l, [] => Some (Some (SLabel l))
      | Some _, _ :: _ => None
      | None, _ =>
        match parse_opc hd with
        | None => None
        | Some o =>
          let mk imms := Some (Some (SInstr (mkP o imms))) in
          match o with
          | O_int | O_pushint =>
              match args with [a] => match parse_int_arg a with Some n => mk [IInt n] | None => None end | _ => None end
          | O_byte | O_pushbytes =>
              match parse_bytes_arg args with Some (b, []) => mk [IBytes b] | _ => None end
          | O_addr =>
              match args with
              | [a] => if (String.length a =? 58)%nat
                       then match decode_base32 a with Some b => mk [IBytes (firstn 32 b)] | None => None end
                       else None
              | _ => None
              end
          | O_method_signature =>
              match args with
              | [a] => match parse_string_literal a with
                       | Some sig => match alookup String.eqb (string_of_bytes sig) msel with
                                     | Some sel => mk [IBytes sel] | None => None end
                       | None => None end
              | _ => None
              end
          | O_intcblock | O_pushints =>
              match parse_int_args args with Some ns => mk (map IInt ns) | None => None end
          | O_bytecblock | O_pushbytess =>
              match parse_bytes_args (S (List.length args)) args with Some bs => mk (map IBytes bs) | None => None end
          | O_b | O_bz | O_bnz | O_callsub =>
              match args with [l] => mk [IName l] | _ => None end
          | O_switch | O_match_ => mk (map IName args)
          | O_frame_dig | O_frame_bury =>
              (* signed int8 immediate, kept in two's complement (0..255) as Machine.frame_index expects *)
              match args with
              | [a] =>
                  match list_ascii_of_string a with
                  | m :: rest =>
                      if Ascii.eqb m "-" then
                        match N_of_dec (string_of_list_ascii rest) with
                        | Some k => if (1 <=? k)%N && (k <=? 128)%N then mk [IInt (256 - k)%N] else None
                        | None => None
                        end
                      else match N_of_dec a with
                           | Some k => if (k <=? 127)%N then mk [IInt k] else None
                           | None => None
                           end
                  | [] => None
                  end
              | _ => None
              end
          | _ => mk (map generic_imm args)
          end
        end
      end
  end.

(* split a token list on semicolon tokens *)
Fixpoint split_semis (ts : list string) (cur : list string) : list (list string) :=
  match ts with
  | [] => [rev cur]
  | t :: r => if String.eqb t ";" then rev cur :: split_semis r [] else split_semis r (t :: cur)
  end.

Fixpoint split_lines (s : list ascii) (cur : list ascii) : list string :=
  match s with
  | [] => [str_of cur]
  | c :: t => if Ascii.eqb c (chr 10) then str_of cur :: split_lines t [] else split_lines t (c :: cur)
  end.

Fixpoint parse_stmts (msel : list (string * bytes)) (l : list (list string)) : option (list stmt) :=
  match l with
  | [] => Some []
  | ts :: r =>
      match parse_stmt msel ts, parse_stmts msel r with
      | Some (Some s), Some rest => Some (s :: rest)
      | Some None, Some rest => Some rest
      | _, _ => None
      end
  end.

Fixpoint build_prog (ss : list stmt) (pc : nat) (ver : N) (code : list pinstr) (labels : list (string * nat))
  : option program :=
  match ss with
  | [] => Some (mkProg ver (rev code) labels)
  | SInstr i :: r => build_prog r (S pc) ver (i :: code) labels
  | SLabel l :: r =>
      match alookup String.eqb l labels with
      | Some _ => None                              (* duplicate label *)
      | None => build_prog r pc ver code ((l, pc) :: labels)
      end
  | SPragma v :: r => build_prog r pc v code labels
  end.

Definition statements_of_text (msel : list (string * bytes)) (text : string) : option (list stmt) :=
  let lines := split_lines (list_ascii_of_string text) [] in
  parse_stmts msel (flat_map (fun ln => split_semis (tokens_of_line ln) []) lines).

Definition parse_program (msel : list (string * bytes)) (text : string) : option program :=
  match statements_of_text msel text with
  | Some ss => build_prog ss 0 1%N [] []
  | None => None
  end.
