(* AVM/LegalCheck.v — C04: is a TEAL text a complete, target-legal program for (version, mode)?

   [legal_check version app msel text] reads the text as the assembler does (AVM/Parse.v: tokeniser,
   [parse_stmt], [build_prog]) and decides, in this order:
     1. every line parses;                                                    ("parse")
     2. the first statement is [#pragma version v] with v = version, and no second one follows
                                                                              ("pragma-missing/-version/-repeated")
     3. every label is defined once (this is [build_prog]'s own rule)         ("label-duplicate")
     4. every instruction is in the langspec at (version, mode), has the right number and kind of
        immediates, each within its encodable range, field names valid at the version and in the mode,
        constant-block indices inside the block                              ("op-*", "imm-*", "field-*", "itxn-field-*", "const-*")
     5. every branch / callsub target is defined; before version 4 every branch goes forward
                                                                              ("label-undefined", "back-branch")
     6. routine regions: subroutine entries are the targets of callsub; the main routine is the code
        before the first entry; from pc 0 and from every entry, every path stays inside its region and
        ends in return / retsub / err: no instruction reachable in a region falls off the end of the
        program, falls through into the next region, or branches into another region or to the end of the
        program; retsub does not occur (reachably) in the main region; callsub is the only transfer
        between regions                                                       ("falls-off-end", "falls-into-routine",
                                                                               "branch-crosses-routine", "branch-to-end",
                                                                               "retsub-in-main", "routine-at-entry", "empty-program")
   The answer is [LOk], [LBad kind pc detail] (first failure, in the order above; pc = instruction index)
   or [LUncovered kind pc detail] when the decision would need a langspec row marked Unknown.

   Step 6 is "compute, then verify": [reach_set] proposes the set of reachable instructions with a
   fuelled work-list; [closed_check] verifies that the proposal contains pc 0, is closed under
   successors and that every member satisfies the local conditions.  Only [closed_check] is used
   by the soundness theorem (Proofs/LegalCheckSound.v), so a wrong or fuel-starved proposal can only
   make the checker reject ("reach-not-closed"), never accept. *)
From Coq Require Import List Arith NArith Ascii String Bool.
From PV Require Import Base.Bytes Base.Sexp AVM.Syntax AVM.Machine AVM.Parse AVM.Langspec.
Import ListNotations.
Local Open Scope string_scope.

Inductive legal_result : Type :=
| LOk
| LBad (kind : string) (pc : nat) (detail : string)
| LUncovered (kind : string) (pc : nat) (detail : string).

(* verdict on one instruction *)
Inductive iverdict : Type :=
| VOk
| VBad (kind detail : string)
| VUnc (kind detail : string).

Definition vand (a b : iverdict) : iverdict := match a with VOk => b | e => e end.

Fixpoint vall {A} (f : A -> iverdict) (l : list A) : iverdict :=
  match l with
  | [] => VOk
  | x :: t => vand (f x) (vall f t)
  end.

(* ------------------------------------------------------------------ immediates *)
Definition check_gfield (version : N) (app : bool) (g : fgroup) (name : string) : iverdict :=
  match find_gfield (ls_group_fields g) name with
  | None => VBad "field-unknown" name
  | Some f =>
      if (version <? gf_minv f)%N then VBad "field-version" name
      else if gf_app_only f && negb app then VBad "field-mode" name
      else VOk
  end.

Definition check_tfield (version : N) (app : bool) (s : tshape) (name : string) : iverdict :=
  match find_tfield ls_txn_fields name with
  | None => VBad "field-unknown" name
  | Some f =>
      if (version <? tf_minv f)%N then VBad "field-version" name
      else
        let mode := if tf_app_only f && negb app then VBad "field-mode" name else VOk in
        match s with
        | T_scalar => if tf_array f then VBad "field-shape" name else mode
        | T_array => if tf_array f then mode else VBad "field-shape" name
        | T_settable =>
            match tf_itxn f with
            | Unknown => VUnc "itxn-field-unknown" name
            | Known None => VBad "itxn-field-not-settable" name
            | Known (Some v) => if (version <? v)%N then VBad "itxn-field-version" name else VOk
            end
        end
  end.

Definition bytes_const_ok (b : bytes) : bool := (blen b <=? MAX_BYTES_CONST)%N.

Definition imm1 (version : N) (app : bool) (k : immkind) (i : imm) : iverdict :=
  match k, i with
  | K_uint8, IInt n => if (n <? 256)%N then VOk else VBad "imm-range" (N_to_dec n)
  (* AVM/Parse.v reads frame_dig / frame_bury immediates -128..127 into two's complement 0..255 and
     refuses anything else (reported as "parse") *)
  | K_int8, IInt n => if (n <? 256)%N then VOk else VBad "imm-range" (N_to_dec n)
  | K_label, IName _ => VOk
  | K_txnfield s _, IName f => check_tfield version app s f
  | K_field g, IName f => check_gfield version app g f
  | K_bytes, IBytes b => if bytes_const_ok b then VOk else VBad "imm-range" "byte constant longer than 4096"
  | K_int, IInt n => if (n <? 18446744073709551616)%N then VOk else VBad "imm-range" (N_to_dec n)
  | _, IInt n => VBad "imm-kind" (N_to_dec n)
  | _, IName s => VBad "imm-kind" s
  | _, IBytes _ => VBad "imm-kind" "byte constant"
  end.

Definition is_iint (i : imm) : bool := match i with IInt n => (n <? 18446744073709551616)%N | _ => false end.
Definition is_ibytes (i : imm) : bool := match i with IBytes b => bytes_const_ok b | _ => false end.
Definition is_iname (i : imm) : bool := match i with IName _ => true | _ => false end.

Fixpoint imms_ok (version : N) (app : bool) (ks : list immkind) (is : list imm) : iverdict :=
  match ks, is with
  | [K_ints], l => if forallb is_iint l then VOk else VBad "imm-kind" "integer list"
  | [K_bytess], l => if forallb is_ibytes l then VOk else VBad "imm-kind" "byte constant list"
  | [K_labels], l => if forallb is_iname l then VOk else VBad "imm-kind" "label list"
  | [], [] => VOk
  | k :: ks', i :: is' => vand (imm1 version app k i) (imms_ok version app ks' is')
  | _, _ => VBad "imm-count" ""
  end.

(* intc / bytec indices must lie inside the constant block (ni / nb = its length, None = no block) *)
Definition below (k : N) (n : option nat) : bool :=
  match n with Some len => (k <? N.of_nat len)%N | None => false end.

Definition const_index_ok (ni nb : option nat) (i : pinstr) : iverdict :=
  let bad := VBad "const-index" "" in
  match p_op i, p_imms i with
  | O_intc, [IInt k] => if below k ni then VOk else bad
  | O_intc_0, _ => if below 0 ni then VOk else bad
  | O_intc_1, _ => if below 1 ni then VOk else bad
  | O_intc_2, _ => if below 2 ni then VOk else bad
  | O_intc_3, _ => if below 3 ni then VOk else bad
  | O_bytec, [IInt k] => if below k nb then VOk else bad
  | O_bytec_0, _ => if below 0 nb then VOk else bad
  | O_bytec_1, _ => if below 1 nb then VOk else bad
  | O_bytec_2, _ => if below 2 nb then VOk else bad
  | O_bytec_3, _ => if below 3 nb then VOk else bad
  | _, _ => VOk
  end.

Definition with_op (o : opc) (v : iverdict) : iverdict :=
  match v with
  | VOk => VOk
  | VBad k d => VBad k (opc_name o ++ " " ++ d)
  | VUnc k d => VUnc k (opc_name o ++ " " ++ d)
  end.

(* the static verdict on one instruction: langspec membership, mode, immediates *)
Definition static_instr (version : N) (app : bool) (ni nb : option nat) (i : pinstr) : iverdict :=
  with_op (p_op i)
  match ls_op (p_op i) with
  | Unknown => VUnc "op-unknown" ""
  | Known sp =>
      if (version <? os_minv sp)%N then VBad "op-version" (N_to_dec (os_minv sp))
      else if negb (if app then os_app sp else os_sig sp) then VBad "op-mode" ""
      else vand (imms_ok version app (os_imms sp) (p_imms i)) (const_index_ok ni nb i)
  end.

(* ------------------------------------------------------------------ constant blocks *)
Definition is_op (o : opc) (i : pinstr) : bool := opc_eqb (p_op i) o.

Definition block_len (o : opc) (code : list pinstr) : option nat :=
  match find (is_op o) (firstn 2 code) with
  | Some i => Some (List.length (p_imms i))
  | None => None
  end.

(* constant blocks only at the very start (first two instructions), each kind at most once *)
Definition const_blocks_ok (code : list pinstr) : iverdict :=
  let head := firstn 2 code in
  let tail := skipn 2 code in
  if existsb (fun i => is_op O_intcblock i || is_op O_bytecblock i) tail then VBad "const-block-position" ""
  else if (1 <? List.length (filter (is_op O_intcblock) head))%nat then VBad "const-block-repeated" "intcblock"
  else if (1 <? List.length (filter (is_op O_bytecblock) head))%nat then VBad "const-block-repeated" "bytecblock"
  else VOk.

(* ------------------------------------------------------------------ labels and targets *)
Definition is_branch (o : opc) : bool :=
  match o with
  | O_b | O_bz | O_bnz | O_callsub | O_switch | O_match_ => true
  | _ => false
  end.

Fixpoint imm_names (l : list imm) : list string :=
  match l with
  | [] => []
  | IName s :: t => s :: imm_names t
  | _ :: t => imm_names t
  end.

Definition target_defined (version : N) (p : program) (pc : nat) (branchlike : bool) (l : string) : iverdict :=
  match label_pc p l with
  | None => VBad "label-undefined" l
  | Some t =>
      if branchlike && (version <? BACK_BRANCH_VERSION)%N && (t <=? pc)%nat then VBad "back-branch" l else VOk
  end.

Definition targets_instr (version : N) (p : program) (pc : nat) (i : pinstr) : iverdict :=
  if is_branch (p_op i)
  then with_op (p_op i) (vall (target_defined version p pc (negb (opc_eqb (p_op i) O_callsub))) (imm_names (p_imms i)))
  else VOk.

(* ------------------------------------------------------------------ routine regions *)
(* entries = targets of callsub (anywhere in the text) *)
Definition entries_of (p : program) : list nat :=
  flat_map (fun i =>
    match p_op i, p_imms i with
    | O_callsub, [IName l] => match label_pc p l with Some t => [t] | None => [] end
    | _, _ => []
    end) (pr_code p).

(* region of a pc = the greatest entry <= pc, 0 (main routine) if there is none *)
Definition region_of (ents : list nat) (pc : nat) : nat :=
  fold_left (fun acc e => if (acc <? e)%nat && (e <=? pc)%nat then e else acc) ents 0%nat.

Definition same_region (ents : list nat) (a b : nat) : bool := Nat.eqb (region_of ents a) (region_of ents b).

Definition fall_ok (n : nat) (ents : list nat) (R : list bool) (pc : nat) : iverdict :=
  if negb (S pc <? n)%nat then VBad "falls-off-end" ""
  else if negb (same_region ents (S pc) pc) then VBad "falls-into-routine" ""
  else if negb (nth (S pc) R false) then VBad "reach-not-closed" ""
  else VOk.

Definition target_ok (p : program) (ents : list nat) (R : list bool) (pc : nat) (l : string) : iverdict :=
  match label_pc p l with
  | None => VBad "label-undefined" l
  | Some t =>
      if negb (t <? List.length (pr_code p))%nat then VBad "branch-to-end" l
      else if negb (same_region ents t pc) then VBad "branch-crosses-routine" l
      else if negb (nth t R false) then VBad "reach-not-closed" l
      else VOk
  end.

Definition call_ok (p : program) (ents : list nat) (R : list bool) (l : string) : iverdict :=
  match label_pc p l with
  | None => VBad "label-undefined" l
  | Some t =>
      if negb (t <? List.length (pr_code p))%nat then VBad "branch-to-end" l
      else if negb (existsb (Nat.eqb t) ents) then VBad "call-target-not-entry" l
      else if negb (nth t R false) then VBad "reach-not-closed" l
      else VOk
  end.

(* local closure condition of a reachable instruction *)
Definition pc_closed (p : program) (ents : list nat) (R : list bool) (pc : nat) (i : pinstr) : iverdict :=
  let n := List.length (pr_code p) in
  with_op (p_op i)
  match p_op i with
  | O_b =>
      match p_imms i with [IName l] => target_ok p ents R pc l | _ => VBad "imm-count" "" end
  | O_bz | O_bnz =>
      match p_imms i with [IName l] => vand (target_ok p ents R pc l) (fall_ok n ents R pc) | _ => VBad "imm-count" "" end
  | O_callsub =>
      match p_imms i with [IName l] => vand (call_ok p ents R l) (fall_ok n ents R pc) | _ => VBad "imm-count" "" end
  | O_retsub => if Nat.eqb (region_of ents pc) 0 then VBad "retsub-in-main" "" else VOk
  | O_return_ | O_err => VOk
  | O_switch | O_match_ => vand (vall (target_ok p ents R pc) (imm_names (p_imms i))) (fall_ok n ents R pc)
  | _ => fall_ok n ents R pc
  end.

(* ---- proposal of the reachable set (no proof obligations) ---- *)
Definition succs (p : program) (pc : nat) (i : pinstr) : list nat :=
  let tg := flat_map (fun l => match label_pc p l with Some t => [t] | None => [] end) (imm_names (p_imms i)) in
  match p_op i with
  | O_b => tg
  | O_bz | O_bnz | O_switch | O_match_ => S pc :: tg
  | O_return_ | O_err | O_retsub => []
  | _ => [S pc]
  end.

Fixpoint set_true (k : nat) (R : list bool) : list bool :=
  match R, k with
  | [], _ => []
  | _ :: t, O => true :: t
  | b :: t, S k' => b :: set_true k' t
  end.

Fixpoint reach_loop (fuel : nat) (p : program) (work : list nat) (R : list bool) : list bool :=
  match fuel with
  | O => R
  | S f =>
      match work with
      | [] => R
      | pc :: w =>
          if nth pc R true then reach_loop f p w R
          else match nth_error (pr_code p) pc with
               | Some i => reach_loop f p (succs p pc i ++ w) (set_true pc R)
               | None => reach_loop f p w R
               end
      end
  end.

Definition reach_set (p : program) (ents : list nat) : list bool :=
  let n := List.length (pr_code p) in
  let refs := List.length (flat_map (fun i => imm_names (p_imms i)) (pr_code p)) in
  reach_loop (4 * n + 2 * refs + 2 * List.length ents + 8) p (0%nat :: ents) (repeat false n).

(* ---- running a per-instruction verdict over the program, first failure wins ---- *)
Fixpoint first_bad (f : nat -> pinstr -> iverdict) (pc : nat) (code : list pinstr) : legal_result :=
  match code with
  | [] => LOk
  | i :: t =>
      match f pc i with
      | VOk => first_bad f (S pc) t
      | VBad k d => LBad k pc d
      | VUnc k d => LUncovered k pc d
      end
  end.

Definition lift (v : iverdict) (pc : nat) (k : legal_result) : legal_result :=
  match v with
  | VOk => k
  | VBad kd d => LBad kd pc d
  | VUnc kd d => LUncovered kd pc d
  end.

Definition lthen (a b : legal_result) : legal_result := match a with LOk => b | e => e end.

(* verification of a proposed reachable set *)
Definition closed_check (p : program) (ents : list nat) (R : list bool) : legal_result :=
  let code := pr_code p in
  match code with
  | [] => LBad "empty-program" 0 ""
  | _ :: _ =>
      if existsb (Nat.eqb 0) ents then LBad "routine-at-entry" 0 ""
      else if negb (nth 0 R false) then LBad "reach-not-closed" 0 "entry"
      else first_bad (fun pc i => if nth pc R false then pc_closed p ents R pc i else VOk) 0 code
  end.

Definition check_program (version : N) (app : bool) (p : program) : legal_result :=
  let code := pr_code p in
  let ni := block_len O_intcblock code in
  let nb := block_len O_bytecblock code in
  let ents := entries_of p in
  lthen (first_bad (fun _ i => static_instr version app ni nb i) 0 code)
  (lthen (lift (const_blocks_ok code) 0 LOk)
  (lthen (first_bad (targets_instr version p) 0 code)
         (closed_check p ents (reach_set p ents)))).

Definition is_pragma (s : stmt) : bool := match s with SPragma _ => true | _ => false end.

(* first label defined twice, for the report *)
Fixpoint dup_label (ss : list stmt) (seen : list string) : string :=
  match ss with
  | [] => ""
  | SLabel l :: r => if existsb (String.eqb l) seen then l else dup_label r (l :: seen)
  | _ :: r => dup_label r seen
  end.

Definition legal_check (version : N) (app : bool) (msel : list (string * bytes)) (text : string) : legal_result :=
  match statements_of_text msel text with
  | None => LBad "parse" 0 ""
  | Some ss =>
      match ss with
      | SPragma v :: rest =>
          if negb (v =? version)%N then LBad "pragma-version" 0 (N_to_dec v)
          else if existsb is_pragma rest then LBad "pragma-repeated" 0 ""
          else match build_prog rest 0 v [] [] with
               | None => LBad "label-duplicate" 0 (dup_label rest [])
               | Some p => check_program version app p
               end
      | _ => LBad "pragma-missing" 0 ""
      end
  end.

(* which line fails to parse (for the report only): index among the non-empty statements *)
Fixpoint first_unparsed (msel : list (string * bytes)) (l : list (list string)) (k : nat) : option (nat * list string) :=
  match l with
  | [] => None
  | ts :: r => match parse_stmt msel ts with None => Some (k, ts) | Some _ => first_unparsed msel r (S k) end
  end.
Definition unparsed_line (msel : list (string * bytes)) (text : string) : option (nat * list string) :=
  first_unparsed msel (flat_map (fun ln => split_semis (tokens_of_line ln) []) (split_lines (list_ascii_of_string text) [])) 0.
