(* AVM/StackSig.v — the stack signature of every TEAL opcode (C05).
   Hand-written from the AVM specification (trusted base, like AVM/Syntax.v's op table): for each opcode
   the operand types it pops and the result types it pushes, over the lattice {uint64, bytes, any}.
   All lists have the TOP of the stack FIRST (same convention as AVM/Ops.v).
   Polymorphic stack manipulators are stack transformers, not (pops, pushes) pairs.
   Opcodes whose signature is not known with certainty are [SUnknown]: a program using one is reported
   as "not covered", never accepted and never flagged.
   The field-type tables (txn/global) are hand-maintained here and compared with PyTeal's own tables
   (pyteal.TxnField / GlobalField) by harness/c05.py on every run. *)
From Coq Require Import List Arith NArith Ascii String Bool.
From PV Require Import Base.Bytes AVM.Syntax AVM.Ops AVM.Machine.
Import ListNotations.
Local Open Scope string_scope.

(* ---- the type lattice ---- *)
Inductive ty : Type := TU | TB | TA.      (* uint64, bytes, any *)

Definition ty_eqb (a b : ty) : bool :=
  match a, b with TU, TU | TB, TB | TA, TA => true | _, _ => false end.
Definition ty_le (a b : ty) : bool := ty_eqb a b || ty_eqb b TA.
Definition ty_join (a b : ty) : ty := if ty_eqb a b then a else TA.

Definition tag (v : value) : ty := match v with VI _ => TU | VB _ => TB end.
Definition has_ty (v : value) (t : ty) : Prop := ty_le (tag v) t = true.

(* can an operand position requiring [req] consume a cell of (abstract) type [cell]?
   lax: an [any] cell is let through (the run-time check is the program's risk: PyTeal's anytype escape);
   strict: the cell must be known to have the required type. *)
Definition accepts (strict : bool) (cell req : ty) : bool :=
  match req with
  | TA => true
  | _ => ty_eqb cell req || (negb strict && ty_eqb cell TA)
  end.

Fixpoint take_ops (strict : bool) (req : list ty) (s : list ty) : option (list ty) :=
  match req, s with
  | [], _ => Some s
  | r :: req', c :: s' => if accepts strict c r then take_ops strict req' s' else None
  | _ :: _, [] => None
  end.

(* ---- field types (AVM specification) ---- *)
Definition txn_fields_u : list string :=
  ["Fee"; "FirstValid"; "FirstValidTime"; "LastValid"; "Amount"; "VoteFirst"; "VoteLast"; "VoteKeyDilution";
   "TypeEnum"; "XferAsset"; "AssetAmount"; "GroupIndex"; "ApplicationID"; "OnCompletion"; "NumAppArgs";
   "NumAccounts"; "ConfigAsset"; "ConfigAssetTotal"; "ConfigAssetDecimals"; "ConfigAssetDefaultFrozen";
   "FreezeAsset"; "FreezeAssetFrozen"; "Assets"; "NumAssets"; "Applications"; "NumApplications";
   "GlobalNumUint"; "GlobalNumByteSlice"; "LocalNumUint"; "LocalNumByteSlice"; "ExtraProgramPages";
   "Nonparticipation"; "NumLogs"; "CreatedAssetID"; "CreatedApplicationID"; "NumApprovalProgramPages";
   "NumClearStateProgramPages"].
Definition txn_fields_b : list string :=
  ["Sender"; "Note"; "Lease"; "Receiver"; "CloseRemainderTo"; "VotePK"; "SelectionPK"; "Type"; "AssetSender";
   "AssetReceiver"; "AssetCloseTo"; "TxID"; "ApplicationArgs"; "Accounts"; "ApprovalProgram"; "ClearStateProgram";
   "RekeyTo"; "ConfigAssetUnitName"; "ConfigAssetName"; "ConfigAssetURL"; "ConfigAssetMetadataHash";
   "ConfigAssetManager"; "ConfigAssetReserve"; "ConfigAssetFreeze"; "ConfigAssetClawback"; "FreezeAssetAccount";
   "Logs"; "LastLog"; "StateProofPK"; "ApprovalProgramPages"; "ClearStateProgramPages"].
Definition global_fields_u : list string :=
  ["MinTxnFee"; "MinBalance"; "MaxTxnLife"; "GroupSize"; "LogicSigVersion"; "Round"; "LatestTimestamp";
   "CurrentApplicationID"; "OpcodeBudget"; "CallerApplicationID"; "AssetCreateMinBalance"; "AssetOptInMinBalance";
   "PayoutsEnabled"; "PayoutsGoOnlineFee"; "PayoutsPercent"; "PayoutsMinBalance"; "PayoutsMaxBalance"].
Definition global_fields_b : list string :=
  ["ZeroAddress"; "CreatorAddress"; "CurrentApplicationAddress"; "GroupID"; "CallerApplicationAddress"; "GenesisHash"].

Definition mem_str (s : string) (l : list string) : bool := existsb (String.eqb s) l.
Definition txn_field_ty (f : string) : ty :=
  if mem_str f txn_fields_u then TU else if mem_str f txn_fields_b then TB else TA.
Definition global_field_ty (f : string) : ty :=
  if mem_str f global_fields_u then TU else if mem_str f global_fields_b then TB else TA.

(* ---- signatures ---- *)
Inductive sigd : Type :=
| SFix (pops pushes : list ty)      (* fixed operand and result types *)
| SEq                               (* == != : two operands of the same type -> uint64 *)
| SSetbit                           (* value(uint64) index(uint64) target(any) -> same type as target *)
| SSelect                           (* cond(uint64) b a -> a or b *)
| SDup | SDup2 | SSwap
| SDig (n : nat) | SCover (n : nat) | SUncover (n : nat) | SBury (n : nat) | SPopn (n : nat) | SDupn (n : nat)
| SCtl                              (* control flow, frames, constant blocks: the analyser's business *)
| SUnknown.

Definition imm_nat (imms : list imm) (k : nat -> sigd) : sigd :=
  match imms with
  | [IInt n] => if (n <=? 255)%N then k (N.to_nat n) else SUnknown
  | _ => SUnknown
  end.

Definition U1 := [TU].  Definition B1 := [TB].  Definition A1 := [TA].
Definition UU := [TU; TU].  Definition BB := [TB; TB].

Definition sig_of (o : opc) (imms : list imm) : sigd :=
  match o with
  | O_comment => SFix [] []
  (* uint64 arithmetic / logic *)
  | O_add | O_minus | O_div | O_mul | O_mod | O_lt | O_gt | O_le | O_ge | O_logic_and | O_logic_or
  | O_bitwise_or | O_bitwise_and | O_bitwise_xor | O_exp | O_shl | O_shr => SFix UU U1
  | O_eq | O_neq => SEq
  | O_logic_not | O_bitwise_not | O_sqrt => SFix U1 U1
  | O_mulw | O_addw | O_expw => SFix UU UU
  | O_divmodw => SFix [TU; TU; TU; TU] [TU; TU; TU; TU]
  | O_divw => SFix [TU; TU; TU] U1
  | O_bitlen => SFix A1 U1
  (* bytes *)
  | O_len | O_btoi => SFix B1 U1
  | O_itob | O_bzero => SFix U1 B1
  | O_concat => SFix BB B1
  | O_substring | O_extract => SFix B1 B1
  | O_substring3 | O_extract3 => SFix [TU; TU; TB] B1
  | O_extract_uint16 | O_extract_uint32 | O_extract_uint64 => SFix [TU; TB] U1
  | O_getbit => SFix [TU; TA] U1
  | O_setbit => SSetbit
  | O_getbyte => SFix [TU; TB] U1
  | O_setbyte => SFix [TU; TU; TB] B1
  | O_replace2 => SFix BB B1
  | O_replace3 => SFix [TB; TU; TB] B1
  | O_b_add | O_b_minus | O_b_mul | O_b_div | O_b_mod | O_b_or | O_b_and | O_b_xor => SFix BB B1
  | O_b_lt | O_b_gt | O_b_le | O_b_ge | O_b_eq | O_b_neq => SFix BB U1
  | O_b_not | O_bsqrt => SFix B1 B1
  | O_sha256 | O_keccak256 | O_sha512_256 | O_sha3_256 | O_base64_decode => SFix B1 B1
  | O_ed25519verify | O_ed25519verify_bare => SFix [TB; TB; TB] U1
  | O_ecdsa_verify => SFix [TB; TB; TB; TB; TB] U1
  | O_ecdsa_pk_decompress => SFix B1 BB
  | O_ecdsa_pk_recover => SFix [TB; TB; TU; TB] BB
  | O_json_ref => SFix BB A1
  | O_vrf_verify => SFix [TB; TB; TB] [TU; TB]
  | O_block => SFix U1 A1
  (* constants *)
  | O_int | O_pushint => SFix [] U1
  | O_byte | O_pushbytes | O_addr | O_method_signature => SFix [] B1
  | O_pushints => SFix [] (repeat TU (List.length imms))
  | O_pushbytess => SFix [] (repeat TB (List.length imms))
  (* stack manipulation *)
  | O_pop => SFix A1 []
  | O_assert_ => SFix U1 []
  | O_dup => SDup
  | O_dup2 => SDup2
  | O_swap => SSwap
  | O_select => SSelect
  | O_dig => imm_nat imms SDig
  | O_cover => imm_nat imms SCover
  | O_uncover => imm_nat imms SUncover
  | O_bury => imm_nat imms SBury
  | O_popn => imm_nat imms SPopn
  | O_dupn => imm_nat imms SDupn
  (* scratch *)
  | O_load => SFix [] A1
  | O_store => SFix A1 []
  | O_loads => SFix U1 A1
  | O_stores => SFix [TA; TU] []
  | O_gload => SFix [] A1
  | O_gloads => SFix U1 A1
  | O_gloadss => SFix UU A1
  | O_gaid => SFix [] U1
  | O_gaids => SFix U1 U1
  (* transaction / global fields *)
  | O_txn => match imms with [IName f] => SFix [] [txn_field_ty f] | _ => SUnknown end
  | O_txna => match imms with [IName f; IInt _] => SFix [] [txn_field_ty f] | _ => SUnknown end
  | O_txnas => match imms with [IName f] => SFix U1 [txn_field_ty f] | _ => SUnknown end
  | O_gtxn => match imms with [IInt _; IName f] => SFix [] [txn_field_ty f] | _ => SUnknown end
  | O_gtxna => match imms with [IInt _; IName f; IInt _] => SFix [] [txn_field_ty f] | _ => SUnknown end
  | O_gtxns => match imms with [IName f] => SFix U1 [txn_field_ty f] | _ => SUnknown end
  | O_gtxnsa => match imms with [IName f; IInt _] => SFix U1 [txn_field_ty f] | _ => SUnknown end
  | O_gtxnas => match imms with [IInt _; IName f] => SFix U1 [txn_field_ty f] | _ => SUnknown end
  | O_gtxnsas => match imms with [IName f] => SFix UU [txn_field_ty f] | _ => SUnknown end
  | O_global_ => match imms with [IName f] => SFix [] [global_field_ty f] | _ => SUnknown end
  | O_arg | O_arg_0 | O_arg_1 | O_arg_2 | O_arg_3 => SFix [] B1
  | O_args => SFix U1 B1
  (* inner transactions: results are whatever was put in the field, so [any] *)
  | O_itxn_begin | O_itxn_next | O_itxn_submit => SFix [] []
  | O_itxn_field => match imms with [IName f] => SFix [txn_field_ty f] [] | _ => SUnknown end
  | O_itxn | O_itxna | O_gitxn | O_gitxna => SFix [] A1
  | O_itxnas | O_gitxnas => SFix U1 A1
  (* application state, accounts, assets *)
  | O_balance | O_min_balance => SFix A1 U1
  | O_app_opted_in => SFix [TU; TA] U1
  | O_app_global_get => SFix B1 A1
  | O_app_global_get_ex => SFix [TB; TU] [TU; TA]
  | O_app_global_put => SFix [TA; TB] []
  | O_app_global_del => SFix B1 []
  | O_app_local_get => SFix [TB; TA] A1
  | O_app_local_get_ex => SFix [TB; TU; TA] [TU; TA]
  | O_app_local_put => SFix [TA; TB; TA] []
  | O_app_local_del => SFix [TB; TA] []
  | O_asset_holding_get => SFix [TU; TA] [TU; TA]
  | O_asset_params_get | O_app_params_get => SFix U1 [TU; TA]
  | O_acct_params_get => SFix A1 [TU; TA]
  | O_log => SFix B1 []
  (* boxes *)
  | O_box_create => SFix [TU; TB] U1
  | O_box_extract => SFix [TU; TU; TB] B1
  | O_box_replace => SFix [TB; TU; TB] []
  | O_box_del => SFix B1 U1
  | O_box_len => SFix B1 UU
  | O_box_get => SFix B1 [TU; TB]
  | O_box_put => SFix BB []
  | O_box_splice => SFix [TB; TU; TU; TB] []
  | O_box_resize => SFix [TU; TB] []
  (* control flow, frames, constant blocks *)
  | O_err | O_bnz | O_bz | O_b | O_return_ | O_callsub | O_retsub | O_proto | O_frame_dig | O_frame_bury
  | O_intcblock | O_intc | O_intc_0 | O_intc_1 | O_intc_2 | O_intc_3
  | O_bytecblock | O_bytec | O_bytec_0 | O_bytec_1 | O_bytec_2 | O_bytec_3 => SCtl
  (* not sure enough: never guessed *)
  | O_switch | O_match_ | O_mimc | O_voter_params_get | O_online_stake
  | O_ec_add | O_ec_scalar_mul | O_ec_pairing_check | O_ec_multi_scalar_mul | O_ec_subgroup_check | O_ec_map_to => SUnknown
  end.

(* ---- the abstract transformer ---- *)
Local Close Scope string_scope.
Local Open Scope list_scope.
Definition ty_compat2 (strict : bool) (a b : ty) : bool :=
  if strict then ty_eqb a b && negb (ty_eqb a TA)
  else negb ((ty_eqb a TU && ty_eqb b TB) || (ty_eqb a TB && ty_eqb b TU)).

Definition sig_apply (strict : bool) (sd : sigd) (s : list ty) : option (list ty) :=
  match sd with
  | SFix pops pushes =>
      match take_ops strict pops s with Some r => Some (pushes ++ r) | None => None end
  | SEq => match s with a :: b :: r => if ty_compat2 strict a b then Some (TU :: r) else None | _ => None end
  | SSetbit =>
      match s with
      | v :: i :: t :: r => if accepts strict v TU && accepts strict i TU then Some (t :: r) else None
      | _ => None
      end
  | SSelect =>
      match s with
      | c :: b :: a :: r => if accepts strict c TU then Some (ty_join a b :: r) else None
      | _ => None
      end
  | SDup => match s with a :: r => Some (a :: a :: r) | _ => None end
  | SDup2 => match s with b :: a :: r => Some (b :: a :: b :: a :: r) | _ => None end
  | SSwap => match s with b :: a :: r => Some (a :: b :: r) | _ => None end
  | SDig n => match nth_error s n with Some t => Some (t :: s) | None => None end
  | SCover n => match s with a :: r => insert_at n a r | [] => None end
  | SUncover n => match remove_at n s with Some (x, r) => Some (x :: r) | None => None end
  | SBury n =>
      match s with
      | a :: r => match n with
                  | O => None
                  | S k => if (n <=? List.length r)%nat then Some (list_update r k a) else None
                  end
      | [] => None
      end
  | SPopn n => if (n <=? List.length s)%nat then Some (skipn n s) else None
  | SDupn n => match s with a :: r => Some (repeat a n ++ a :: r) | [] => None end
  | SCtl | SUnknown => None
  end.

(* The concrete reading: does a concrete stack offer the operands the opcode needs?
   (tags are never [any], so lax and strict coincide) *)
Definition operands_ok (sd : sigd) (stk : list value) : bool :=
  match sig_apply true sd (map tag stk) with Some _ => true | None => false end.

(* ---- typed contexts: the hypothesis under which field reads have the table's type ---- *)
Definition fields_typed (fty : string -> ty) (l : list (string * value)) : Prop :=
  Forall (fun kv => has_ty (snd kv) (fty (fst kv))) l.
Definition arrays_typed (fty : string -> ty) (l : list (string * list value)) : Prop :=
  Forall (fun kv => Forall (fun v => has_ty v (fty (fst kv))) (snd kv)) l.
Definition txn_typed (t : txn) : Prop :=
  fields_typed txn_field_ty (t_fields t) /\ arrays_typed txn_field_ty (t_arrays t).
Definition ctx_typed (cx : ctx) : Prop :=
  Forall txn_typed (c_group cx) /\ fields_typed global_field_ty (c_globals cx).

(* boolean version, for Examples and the extracted runner *)
Definition has_tyb (v : value) (t : ty) : bool := ty_le (tag v) t.
Definition txn_typedb (t : txn) : bool :=
  forallb (fun kv => has_tyb (snd kv) (txn_field_ty (fst kv))) (t_fields t) &&
  forallb (fun kv => forallb (fun v => has_tyb v (txn_field_ty (fst kv))) (snd kv)) (t_arrays t).
Definition ctx_typedb (cx : ctx) : bool :=
  forallb txn_typedb (c_group cx) &&
  forallb (fun kv => has_tyb (snd kv) (global_field_ty (fst kv))) (c_globals cx).
