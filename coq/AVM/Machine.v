(* AVM/Machine.v — the reference AVM: parsed programs, transaction context, effects, and a
   fuelled small-step interpreter.  Hand-written from the AVM specification (trusted base).
   Two rules were inferred (see DESIGN §2.3): [retsub] under [proto A R] returns the R values located
   AT THE FRAME POINTER; [return] looks only at the top of the stack. *)
From Coq Require Import List Arith NArith Ascii String Bool.
From PV Require Import Base.Bytes Base.U64 AVM.Syntax AVM.Ops.
Import ListNotations.
Local Open Scope N_scope.

(* ---- parsed programs ---- *)
Inductive imm : Type :=
| IInt (n : N)
| IBytes (b : bytes)
| IName (s : string).

Record pinstr : Type := mkP { p_op : opc; p_imms : list imm }.

Record program : Type := mkProg {
  pr_version : N;
  pr_code : list pinstr;
  pr_labels : list (string * nat)
}.

Fixpoint imms_to_args (l : list imm) : list arg :=
  match l with
  | [] => []
  | IInt n :: t => AInt n :: imms_to_args t
  | IBytes b :: t => AStr (string_of_bytes b) :: imms_to_args t
  | IName s :: t => AStr s :: imms_to_args t
  end.

(* ---- transaction context ---- *)
Record txn : Type := mkTxn {
  t_fields : list (string * value);          (* scalar fields *)
  t_arrays : list (string * list value);     (* array fields *)
  t_scratch : list (N * value);              (* final scratch of an earlier app call (gload) *)
  t_created : N                              (* gaid *)
}.

Record ctx : Type := mkCtx {
  c_app_mode : bool;                          (* true = Application, false = Signature *)
  c_group : list txn;
  c_gi : nat;                                 (* index of the current transaction in the group *)
  c_globals : list (string * value);
  c_lsig_args : list bytes;
  c_app_id : N
}.

(* ---- effects ---- *)
Inductive event : Type :=
| ELog (b : bytes)
| EGPut (k : bytes) (v : value)
| EGDel (k : bytes)
| ELPut (acct : value) (k : bytes) (v : value)
| ELDel (acct : value) (k : bytes)
| EBoxPut (k : bytes) (v : bytes)
| EBoxDel (k : bytes)
| ESubmit (grp : list (list (string * value))).

Record mstate : Type := mkSt {
  s_scratch : list (N * value);               (* sparse; missing = uint64 0 *)
  s_global : list (bytes * value);
  s_local : list (value * bytes * value);
  s_boxes : list (bytes * bytes);
  s_itxn : option (list (list (string * value)));   (* inner group being built, newest txn FIRST, fields newest FIRST *)
  s_last_itxn : list (list (string * value));       (* last submitted group, in order *)
  s_trace : list event                        (* newest FIRST *)
}.

Definition init_state (g : list (bytes * value)) (l : list (value * bytes * value)) (b : list (bytes * bytes)) : mstate :=
  mkSt [] g l b None [] [].

Fixpoint alookup {A} (eqb : A -> A -> bool) {B} (k : A) (l : list (A * B)) : option B :=
  match l with
  | [] => None
  | (k', v) :: t => if eqb k k' then Some v else alookup eqb k t
  end.
Fixpoint aremove {A} (eqb : A -> A -> bool) {B} (k : A) (l : list (A * B)) : list (A * B) :=
  match l with
  | [] => []
  | (k', v) :: t => if eqb k k' then aremove eqb k t else (k', v) :: aremove eqb k t
  end.
Definition aset {A} (eqb : A -> A -> bool) {B} (k : A) (v : B) (l : list (A * B)) : list (A * B) :=
  (k, v) :: aremove eqb k l.

Definition scratch_get (s : list (N * value)) (i : N) : value :=
  match alookup N.eqb i s with Some v => v | None => VI 0 end.

Definition set_scratch (st : mstate) (i : N) (v : value) : mstate :=
  mkSt (aset N.eqb i v (s_scratch st)) (s_global st) (s_local st) (s_boxes st) (s_itxn st) (s_last_itxn st) (s_trace st).
Definition set_global (st : mstate) (g : list (bytes * value)) (e : event) : mstate :=
  mkSt (s_scratch st) g (s_local st) (s_boxes st) (s_itxn st) (s_last_itxn st) (e :: s_trace st).
Definition set_local (st : mstate) (l : list (value * bytes * value)) (e : event) : mstate :=
  mkSt (s_scratch st) (s_global st) l (s_boxes st) (s_itxn st) (s_last_itxn st) (e :: s_trace st).
Definition set_boxes (st : mstate) (b : list (bytes * bytes)) (e : event) : mstate :=
  mkSt (s_scratch st) (s_global st) (s_local st) b (s_itxn st) (s_last_itxn st) (e :: s_trace st).
Definition add_event (st : mstate) (e : event) : mstate :=
  mkSt (s_scratch st) (s_global st) (s_local st) (s_boxes st) (s_itxn st) (s_last_itxn st) (e :: s_trace st).
Definition set_itxn (st : mstate) (i : option (list (list (string * value)))) : mstate :=
  mkSt (s_scratch st) (s_global st) (s_local st) (s_boxes st) i (s_last_itxn st) (s_trace st).
Definition submit_itxn (st : mstate) (grp : list (list (string * value))) : mstate :=
  mkSt (s_scratch st) (s_global st) (s_local st) (s_boxes st) None grp (ESubmit grp :: s_trace st).

Definition lkey_eqb (a b : value * bytes) : bool := value_eqb (fst a) (fst b) && bytes_eqb (snd a) (snd b).
Definition local_get (l : list (value * bytes * value)) (a : value) (k : bytes) : option value :=
  alookup lkey_eqb (a, k) l.
Definition local_del (l : list (value * bytes * value)) (a : value) (k : bytes) : list (value * bytes * value) :=
  filter (fun x => negb (lkey_eqb (fst x) (a, k))) l.

Inductive ores : Type :=
| OOk (stk : list value) (st : mstate)
| OFail
| ONot            (* control-flow / constant-block opcode: handled by the machine's [step] *)
| OUnsup.         (* outside the modelled fragment: the run is inconclusive *)

Definition cur_txn (cx : ctx) : option txn := nth_error (c_group cx) (c_gi cx).

Definition fld (t : txn) (f : string) : option value := alookup String.eqb f (t_fields t).

Definition push_field (ot : option txn) (f : string) (stk : list value) (st : mstate) : ores :=
  match ot with
  | Some t => match fld t f with Some v => OOk (v :: stk) st | None => OUnsup end
  | None => OFail
  end.
Definition push_afield (ot : option txn) (f : string) (i : N) (stk : list value) (st : mstate) : ores :=
  match ot with
  | Some t =>
      match alookup String.eqb f (t_arrays t) with
      | Some arr => match nth_N arr i with Some v => OOk (v :: stk) st | None => OFail end
      | None => OUnsup
      end
  | None => OFail
  end.

Definition itxn_txn (st : mstate) (i : nat) : option txn :=
  match nth_error (s_last_itxn st) i with
  | Some flds => Some (mkTxn flds [] [] 0)
  | None => None
  end.
Definition last_itxn (st : mstate) : option txn :=
  match rev (s_last_itxn st) with
  | flds :: _ => Some (mkTxn flds [] [] 0)
  | [] => None
  end.

(* hash functions are oracles: a tagged stub, identical in the source semantics and the machine *)
Definition fake_hash (tag : N) (b : bytes) : bytes :=
  let n := be_decode_acc tag b in
  be_encode 32 (n * 1000003 + blen b).

Definition exec_op (cx : ctx) (o : opc) (imms : list imm) (stk : list value) (st : mstate) : ores :=
  match exec_pure o (imms_to_args imms) stk with
  | POk s => OOk s st
  | PFail => OFail
  | PNot =>
    match o, imms, stk with
    | O_comment, _, _ => OOk stk st
    | O_byte, [IBytes b], _ => OOk (VB b :: stk) st
    | O_pushbytes, [IBytes b], _ => OOk (VB b :: stk) st
    | O_addr, [IBytes b], _ => OOk (VB b :: stk) st
    | O_method_signature, [IBytes b], _ => OOk (VB b :: stk) st
    | O_sha256, _, VB a :: r => OOk (VB (fake_hash 1 a) :: r) st
    | O_keccak256, _, VB a :: r => OOk (VB (fake_hash 2 a) :: r) st
    | O_sha512_256, _, VB a :: r => OOk (VB (fake_hash 3 a) :: r) st
    | O_sha3_256, _, VB a :: r => OOk (VB (fake_hash 4 a) :: r) st
    | (O_sha256 | O_keccak256 | O_sha512_256 | O_sha3_256), _, _ => OFail
    (* scratch *)
    | O_load, [IInt i], _ => if i <? 256 then OOk (scratch_get (s_scratch st) i :: stk) st else OFail
    | O_store, [IInt i], v :: r => if i <? 256 then OOk r (set_scratch st i v) else OFail
    | O_store, _, [] => OFail
    | O_loads, _, VI i :: r => if i <? 256 then OOk (scratch_get (s_scratch st) i :: r) st else OFail
    | O_stores, _, v :: VI i :: r => if i <? 256 then OOk r (set_scratch st i v) else OFail
    | (O_loads | O_stores), _, _ => OFail
    (* transaction fields *)
    | O_txn, [IName f], _ => push_field (cur_txn cx) f stk st
    | O_txna, [IName f; IInt i], _ => push_afield (cur_txn cx) f i stk st
    | O_txnas, [IName f], VI i :: r => push_afield (cur_txn cx) f i r st
    | O_gtxn, [IInt t; IName f], _ => push_field (nth_N (c_group cx) t) f stk st
    | O_gtxna, [IInt t; IName f; IInt i], _ => push_afield (nth_N (c_group cx) t) f i stk st
    | O_gtxns, [IName f], VI t :: r => push_field (nth_N (c_group cx) t) f r st
    | O_gtxnsa, [IName f; IInt i], VI t :: r => push_afield (nth_N (c_group cx) t) f i r st
    | O_gtxnas, [IInt t; IName f], VI i :: r => push_afield (nth_N (c_group cx) t) f i r st
    | O_gtxnsas, [IName f], VI i :: VI t :: r => push_afield (nth_N (c_group cx) t) f i r st
    | (O_txnas | O_gtxns | O_gtxnsa | O_gtxnas | O_gtxnsas), _, _ => OFail
    | O_global_, [IName f], _ =>
        match alookup String.eqb f (c_globals cx) with Some v => OOk (v :: stk) st | None => OUnsup end
    | O_arg, [IInt i], _ =>
        match nth_N (c_lsig_args cx) i with Some b => OOk (VB b :: stk) st | None => OFail end
    | O_args, _, VI i :: r =>
        match nth_N (c_lsig_args cx) i with Some b => OOk (VB b :: r) st | None => OFail end
    | O_args, _, _ => OFail
    | O_gload, [IInt t; IInt i], _ =>
        match nth_N (c_group cx) t with
        | Some tx => if (t <? N.of_nat (c_gi cx)) then OOk (scratch_get (t_scratch tx) i :: stk) st else OFail
        | None => OFail
        end
    | O_gloads, [IInt i], VI t :: r =>
        match nth_N (c_group cx) t with
        | Some tx => if (t <? N.of_nat (c_gi cx)) then OOk (scratch_get (t_scratch tx) i :: r) st else OFail
        | None => OFail
        end
    | O_gaid, [IInt t], _ =>
        match nth_N (c_group cx) t with
        | Some tx => if (t <? N.of_nat (c_gi cx)) then OOk (VI (t_created tx) :: stk) st else OFail
        | None => OFail
        end
    | O_gaids, _, VI t :: r =>
        match nth_N (c_group cx) t with
        | Some tx => if (t <? N.of_nat (c_gi cx)) then OOk (VI (t_created tx) :: r) st else OFail
        | None => OFail
        end
    (* application state *)
    | O_app_global_get, _, VB k :: r =>
        OOk ((match alookup bytes_eqb k (s_global st) with Some v => v | None => VI 0 end) :: r) st
    | O_app_global_get_ex, _, VB k :: VI a :: r =>
        if (a =? 0) || (a =? c_app_id cx) then
          match alookup bytes_eqb k (s_global st) with
          | Some v => OOk (VI 1 :: v :: r) st
          | None => OOk (VI 0 :: VI 0 :: r) st
          end
        else OUnsup
    | O_app_global_put, _, v :: VB k :: r =>
        OOk r (set_global st (aset bytes_eqb k v (s_global st)) (EGPut k v))
    | O_app_global_del, _, VB k :: r =>
        OOk r (set_global st (aremove bytes_eqb k (s_global st)) (EGDel k))
    | O_app_local_get, _, VB k :: a :: r =>
        OOk ((match local_get (s_local st) a k with Some v => v | None => VI 0 end) :: r) st
    | O_app_local_get_ex, _, VB k :: VI ap :: a :: r =>
        if (ap =? 0) || (ap =? c_app_id cx) then
          match local_get (s_local st) a k with
          | Some v => OOk (VI 1 :: v :: r) st
          | None => OOk (VI 0 :: VI 0 :: r) st
          end
        else OUnsup
    | O_app_local_put, _, v :: VB k :: a :: r =>
        OOk r (set_local st ((a, k, v) :: local_del (s_local st) a k) (ELPut a k v))
    | O_app_local_del, _, VB k :: a :: r =>
        OOk r (set_local st (local_del (s_local st) a k) (ELDel a k))
    | (O_app_global_get | O_app_global_get_ex | O_app_global_put | O_app_global_del
      | O_app_local_get | O_app_local_get_ex | O_app_local_put | O_app_local_del), _, _ => OFail
    | O_log, _, VB b :: r =>
        (* at most 32 log calls and 1024 logged bytes per application call *)
        let logs := flat_map (fun e => match e with ELog x => [x] | _ => [] end) (s_trace st) in
        if (Nat.ltb (List.length logs) 32) && (fold_left (fun acc x => acc + blen x) logs 0 + blen b <=? 1024)
        then OOk r (add_event st (ELog b)) else OFail
    | O_log, _, _ => OFail
    (* boxes *)
    | O_box_put, _, VB v :: VB k :: r =>
        match alookup bytes_eqb k (s_boxes st) with
        | Some old => if blen old =? blen v then OOk r (set_boxes st (aset bytes_eqb k v (s_boxes st)) (EBoxPut k v)) else OFail
        | None => OOk r (set_boxes st (aset bytes_eqb k v (s_boxes st)) (EBoxPut k v))
        end
    | O_box_get, _, VB k :: r =>
        match alookup bytes_eqb k (s_boxes st) with
        | Some v => OOk (VI 1 :: VB v :: r) st
        | None => OOk (VI 0 :: VB [] :: r) st
        end
    | O_box_len, _, VB k :: r =>
        match alookup bytes_eqb k (s_boxes st) with
        | Some v => OOk (VI 1 :: VI (blen v) :: r) st
        | None => OOk (VI 0 :: VI 0 :: r) st
        end
    | O_box_del, _, VB k :: r =>
        match alookup bytes_eqb k (s_boxes st) with
        | Some v => OOk (VI 1 :: r) (set_boxes st (aremove bytes_eqb k (s_boxes st)) (EBoxDel k))
        | None => OOk (VI 0 :: r) st
        end
    | O_box_create, _, VI n :: VB k :: r =>
        match alookup bytes_eqb k (s_boxes st) with
        | Some v => if blen v =? n then OOk (VI 0 :: r) st else OFail
        | None => if n <=? 32768 then OOk (VI 1 :: r) (set_boxes st (aset bytes_eqb k (bzero (N.to_nat n)) (s_boxes st)) (EBoxPut k (bzero (N.to_nat n)))) else OFail
        end
    | O_box_extract, _, VI l :: VI s :: VB k :: r =>
        match alookup bytes_eqb k (s_boxes st) with
        | Some v => match bextract v s l with Some x => OOk (VB x :: r) st | None => OFail end
        | None => OFail
        end
    | O_box_replace, _, VB nv :: VI s :: VB k :: r =>
        match alookup bytes_eqb k (s_boxes st) with
        | Some v =>
            match replace_bytes v s nv with
            | Some x => OOk r (set_boxes st (aset bytes_eqb k x (s_boxes st)) (EBoxPut k x))
            | None => OFail
            end
        | None => OFail
        end
    | (O_box_put | O_box_get | O_box_len | O_box_del | O_box_create | O_box_extract | O_box_replace), _, _ => OFail
    (* inner transactions: recorded, not executed *)
    | O_itxn_begin, _, _ =>
        match s_itxn st with None => OOk stk (set_itxn st (Some [[]])) | Some _ => OFail end
    | O_itxn_next, _, _ =>
        match s_itxn st with Some g => OOk stk (set_itxn st (Some ([] :: g))) | None => OFail end
    | O_itxn_field, [IName f], v :: r =>
        match s_itxn st with
        | Some (cur :: g) => OOk r (set_itxn st (Some (((f, v) :: cur) :: g)))
        | _ => OFail
        end
    | O_itxn_field, _, _ => OFail
    | O_itxn_submit, _, _ =>
        match s_itxn st with
        | Some g => OOk stk (submit_itxn st (rev (map (@rev _) g)))
        | None => OFail
        end
    | O_itxn, [IName f], _ =>
        match last_itxn st with
        | Some t => match fld t f with Some v => OOk (v :: stk) st | None => OUnsup end
        | None => OFail
        end
    | O_gitxn, [IInt t; IName f], _ =>
        match (if t <? 16 then itxn_txn st (N.to_nat t) else None) with
        | Some tx => match fld tx f with Some v => OOk (v :: stk) st | None => OUnsup end
        | None => OFail
        end
    (* control flow and constant blocks are the machine's business *)
    | (O_err | O_bnz | O_bz | O_b | O_return_ | O_callsub | O_retsub | O_proto | O_frame_dig | O_frame_bury
      | O_intcblock | O_intc | O_intc_0 | O_intc_1 | O_intc_2 | O_intc_3
      | O_bytecblock | O_bytec | O_bytec_0 | O_bytec_1 | O_bytec_2 | O_bytec_3
      | O_switch | O_match_), _, _ => ONot
    | _, _, _ => OUnsup
    end
  end.

(* ---- the machine ---- *)
Record frame : Type := mkFrame {
  f_ret : nat;
  f_proto : option (nat * nat * nat)     (* (height at proto, args, returns) *)
}.

Record mach : Type := mkM {
  m_pc : nat;
  m_stack : list value;                  (* top at head *)
  m_calls : list frame;                  (* innermost first *)
  m_from_callsub : bool;
  m_intc : list N;
  m_bytec : list bytes;
  m_st : mstate
}.

Inductive verdict : Type :=
| VApprove
| VReject
| VFail
| VOutOfFuel
| VUnsup (o : opc).

Inductive outcome : Type :=
| Running (m : mach)
| Done (v : verdict) (m : mach).

Definition label_pc (p : program) (l : string) : option nat := alookup String.eqb l (pr_labels p).

Definition STACK_MAX : nat := 1000.

Definition height (m : mach) : nat := List.length (m_stack m).

Definition with_pc_stack (m : mach) (pc : nat) (stk : list value) : mach :=
  mkM pc stk (m_calls m) false (m_intc m) (m_bytec m) (m_st m).

Fixpoint imm_ints (l : list imm) : option (list N) :=
  match l with
  | [] => Some []
  | IInt n :: t => option_map (cons n) (imm_ints t)
  | _ => None
  end.
Fixpoint imm_bytes (l : list imm) : option (list bytes) :=
  match l with
  | [] => Some []
  | IBytes n :: t => option_map (cons n) (imm_bytes t)
  | _ => None
  end.

(* index from the bottom of the stack -> position from the top *)
Definition from_bottom (stk : list value) (idx : nat) : option nat :=
  if (idx <? List.length stk)%nat then Some (List.length stk - 1 - idx)%nat else None.

(* frame index: height + i where i is an int8 given as 0..255 (two's complement) *)
Definition frame_index (h a : nat) (i : N) : option nat :=
  if i <? 128 then Some (h + N.to_nat i)%nat
  else let back := N.to_nat (256 - i) in
       if (back <=? a)%nat then Some (h - back)%nat else None.

Definition step (cx : ctx) (p : program) (m : mach) : outcome :=
  match nth_error (pr_code p) (m_pc m) with
  | None =>
      (* ran off the end: the stack must hold exactly one uint64 *)
      match m_stack m with
      | [VI n] => Done (if n =? 0 then VReject else VApprove) m
      | _ => Done VFail m
      end
  | Some i =>
      let pc' := S (m_pc m) in
      if (STACK_MAX <? height m)%nat then Done VFail m else
      match exec_op cx (p_op i) (p_imms i) (m_stack m) (m_st m) with
      | OOk stk st => Running (mkM pc' stk (m_calls m) false (m_intc m) (m_bytec m) st)
      | OFail => Done VFail m
      | OUnsup => Done (VUnsup (p_op i)) m
      | ONot =>
          match p_op i, p_imms i, m_stack m with
          | O_err, _, _ => Done VFail m
          | O_return_, _, VI n :: _ => Done (if n =? 0 then VReject else VApprove) m
          | O_return_, _, _ => Done VFail m
          | O_b, [IName l], _ =>
              match label_pc p l with Some t => Running (with_pc_stack m t (m_stack m)) | None => Done VFail m end
          | O_bnz, [IName l], VI c :: r =>
              match label_pc p l with
              | Some t => Running (with_pc_stack m (if c =? 0 then pc' else t) r)
              | None => Done VFail m
              end
          | O_bz, [IName l], VI c :: r =>
              match label_pc p l with
              | Some t => Running (with_pc_stack m (if c =? 0 then t else pc') r)
              | None => Done VFail m
              end
          | O_callsub, [IName l], _ =>
              match label_pc p l with
              | Some t => Running (mkM t (m_stack m) (mkFrame pc' None :: m_calls m) true (m_intc m) (m_bytec m) (m_st m))
              | None => Done VFail m
              end
          | O_proto, [IInt a; IInt r], _ =>
              match m_from_callsub m, m_calls m with
              | true, f :: fs =>
                  if (N.to_nat a <=? height m)%nat
                  then Running (mkM pc' (m_stack m) (mkFrame (f_ret f) (Some (height m, N.to_nat a, N.to_nat r)) :: fs)
                                    false (m_intc m) (m_bytec m) (m_st m))
                  else Done VFail m
              | _, _ => Done VFail m
              end
          | O_retsub, _, _ =>
              match m_calls m with
              | f :: fs =>
                  match f_proto f with
                  | None => Running (mkM (f_ret f) (m_stack m) fs false (m_intc m) (m_bytec m) (m_st m))
                  | Some (h, a, r) =>
                      if (h + r <=? height m)%nat then
                        (* stack (bottom first) = base ++ args ++ locals...; keep base, then the r values at h *)
                        let bottom_first := rev (m_stack m) in
                        let base := firstn (h - a) bottom_first in
                        let rets := firstn r (skipn h bottom_first) in
                        Running (mkM (f_ret f) (rev (base ++ rets)) fs false (m_intc m) (m_bytec m) (m_st m))
                      else Done VFail m
                  end
              | [] => Done VFail m
              end
          | O_frame_dig, [IInt k], _ =>
              match m_calls m with
              | f :: _ =>
                  match f_proto f with
                  | Some (h, a, _) =>
                      match frame_index h a k with
                      | Some idx =>
                          match from_bottom (m_stack m) idx with
                          | Some pos =>
                              match nth_error (m_stack m) pos with
                              | Some v => Running (with_pc_stack m pc' (v :: m_stack m))
                              | None => Done VFail m
                              end
                          | None => Done VFail m
                          end
                      | None => Done VFail m
                      end
                  | None => Done VFail m
                  end
              | [] => Done VFail m
              end
          | O_frame_bury, [IInt k], v :: r =>
              match m_calls m with
              | f :: _ =>
                  match f_proto f with
                  | Some (h, a, _) =>
                      match frame_index h a k with
                      | Some idx =>
                          match from_bottom r idx with
                          | Some pos => Running (with_pc_stack m pc' (list_update r pos v))
                          | None => Done VFail m
                          end
                      | None => Done VFail m
                      end
                  | None => Done VFail m
                  end
              | [] => Done VFail m
              end
          | O_intcblock, l, _ =>
              match imm_ints l with
              | Some ns => Running (mkM pc' (m_stack m) (m_calls m) false ns (m_bytec m) (m_st m))
              | None => Done VFail m
              end
          | O_bytecblock, l, _ =>
              match imm_bytes l with
              | Some bs => Running (mkM pc' (m_stack m) (m_calls m) false (m_intc m) bs (m_st m))
              | None => Done VFail m
              end
          | O_intc, [IInt k], _ =>
              match nth_N (m_intc m) k with
              | Some n => Running (with_pc_stack m pc' (VI n :: m_stack m)) | None => Done VFail m end
          | O_intc_0, _, _ => match nth_error (m_intc m) 0 with Some n => Running (with_pc_stack m pc' (VI n :: m_stack m)) | None => Done VFail m end
          | O_intc_1, _, _ => match nth_error (m_intc m) 1 with Some n => Running (with_pc_stack m pc' (VI n :: m_stack m)) | None => Done VFail m end
          | O_intc_2, _, _ => match nth_error (m_intc m) 2 with Some n => Running (with_pc_stack m pc' (VI n :: m_stack m)) | None => Done VFail m end
          | O_intc_3, _, _ => match nth_error (m_intc m) 3 with Some n => Running (with_pc_stack m pc' (VI n :: m_stack m)) | None => Done VFail m end
          | O_bytec, [IInt k], _ =>
              match nth_N (m_bytec m) k with
              | Some b => Running (with_pc_stack m pc' (VB b :: m_stack m)) | None => Done VFail m end
          | O_bytec_0, _, _ => match nth_error (m_bytec m) 0 with Some b => Running (with_pc_stack m pc' (VB b :: m_stack m)) | None => Done VFail m end
          | O_bytec_1, _, _ => match nth_error (m_bytec m) 1 with Some b => Running (with_pc_stack m pc' (VB b :: m_stack m)) | None => Done VFail m end
          | O_bytec_2, _, _ => match nth_error (m_bytec m) 2 with Some b => Running (with_pc_stack m pc' (VB b :: m_stack m)) | None => Done VFail m end
          | O_bytec_3, _, _ => match nth_error (m_bytec m) 3 with Some b => Running (with_pc_stack m pc' (VB b :: m_stack m)) | None => Done VFail m end
          | (O_bnz | O_bz | O_frame_bury), _, _ => Done VFail m
          | o, _, _ => Done (VUnsup o) m
          end
      end
  end.

Fixpoint run (fuel : nat) (cx : ctx) (p : program) (m : mach) : verdict * mach :=
  match fuel with
  | O => (VOutOfFuel, m)
  | S f =>
      match step cx p m with
      | Running m' => run f cx p m'
      | Done v m' => (v, m')
      end
  end.

Definition init_mach (st : mstate) : mach := mkM 0 [] [] false [] [] st.
