(* AVM/Langspec.v — an INDEPENDENT description of the TEAL language, versions 1..11, written from the
   AVM specification (opcode tables and field tables of the TEAL reference) and NOT from PyTeal:
   per opcode the first version, the run modes, the number and kind of immediates and, where fixed,
   the stack arity; per field group the fields with their first version, mode restriction and
   (transaction fields) array-ness and inner-transaction settability.

   A row whose content the author could not recall with certainty is [Unknown]: the legality checker
   answers "uncovered" for it instead of guessing, and the check lists it in its evidence.

   Trusted base: this file is a hand-written specification.  It is compared with PyTeal's own
   tables on every run (Proofs/LegalTables.v), never generated from them. *)
From Coq Require Import List NArith Ascii String Bool.
From PV Require Import AVM.Syntax.
Import ListNotations.
Local Open Scope string_scope.
Local Open Scope N_scope.

Inductive known (A : Type) : Type :=
| Known (a : A)
| Unknown.
Arguments Known {A} a.
Arguments Unknown {A}.

(* ---- field groups ---- *)
Inductive fgroup : Type :=
| G_txn | G_global | G_asset_holding | G_asset_params | G_app_params | G_acct_params
| G_block | G_ecdsa | G_ec | G_base64 | G_json | G_vrf | G_voter | G_mimc.

(* how a transaction-field immediate is used *)
Inductive tshape : Type :=
| T_scalar        (* txn gtxn gtxns itxn gitxn : non-array field *)
| T_array         (* txna gtxna gtxnsa txnas gtxnas gtxnsas itxna itxnas gitxna gitxnas : array field *)
| T_settable.     (* itxn_field : field that may be set on an inner transaction *)

Inductive immkind : Type :=
| K_uint8                      (* one byte: 0..255 *)
| K_int8                       (* one signed byte: -128..127 (frame_dig, frame_bury) *)
| K_label                      (* branch target *)
| K_labels                     (* zero or more branch targets (switch, match) *)
| K_txnfield (s : tshape) (inner : bool)    (* inner = the op reads an inner transaction (itxn family) *)
| K_field (g : fgroup)
| K_bytes                      (* one byte constant (any assembler spelling) *)
| K_int                        (* one integer constant < 2^64 *)
| K_ints                       (* zero or more integer constants *)
| K_bytess.                    (* zero or more byte constants *)

Record opspec : Type := mkOp {
  os_minv : N;                   (* first program version that has the opcode *)
  os_sig : bool;                 (* available in LogicSig (Signature) mode *)
  os_app : bool;                 (* available in Application mode *)
  os_imms : list immkind;
  os_pops : option nat;          (* number of stack arguments, None = depends on immediates / not fixed *)
  os_pushes : option nat
}.

Definition both (v : N) (im : list immkind) (a b : nat) : known opspec := Known (mkOp v true true im (Some a) (Some b)).
Definition bothv (v : N) (im : list immkind) : known opspec := Known (mkOp v true true im None None).
Definition appo (v : N) (im : list immkind) (a b : nat) : known opspec := Known (mkOp v false true im (Some a) (Some b)).
Definition sigo (v : N) (im : list immkind) (a b : nat) : known opspec := Known (mkOp v true false im (Some a) (Some b)).

Definition TF (s : tshape) : immkind := K_txnfield s false.
Definition IF (s : tshape) : immkind := K_txnfield s true.

Definition ls_op (o : opc) : known opspec :=
  match o with
  | O_comment => Known (mkOp 0 true true [] (Some 0%nat) (Some 0%nat))   (* not an opcode: a comment line *)
  (* v1 *)
  | O_err => both 1 [] 0 0
  | O_sha256 | O_keccak256 | O_sha512_256 => both 1 [] 1 1
  | O_ed25519verify => both 1 [] 3 1
  | O_add | O_minus | O_div | O_mul | O_lt | O_gt | O_le | O_ge | O_logic_and | O_logic_or
  | O_eq | O_neq | O_mod | O_bitwise_or | O_bitwise_and | O_bitwise_xor => both 1 [] 2 1
  | O_logic_not | O_len | O_itob | O_btoi | O_bitwise_not => both 1 [] 1 1
  | O_mulw => both 1 [] 2 2
  | O_intcblock => both 1 [K_ints] 0 0
  | O_intc => both 1 [K_uint8] 0 1
  | O_intc_0 | O_intc_1 | O_intc_2 | O_intc_3 => both 1 [] 0 1
  | O_bytecblock => both 1 [K_bytess] 0 0
  | O_bytec => both 1 [K_uint8] 0 1
  | O_bytec_0 | O_bytec_1 | O_bytec_2 | O_bytec_3 => both 1 [] 0 1
  (* assembler pseudo-ops: assembled into the constant blocks (any version) *)
  | O_int => both 1 [K_int] 0 1
  | O_byte => both 1 [K_bytes] 0 1
  | O_addr => both 1 [K_bytes] 0 1
  | O_method_signature => both 1 [K_bytes] 0 1
  | O_arg => sigo 1 [K_uint8] 0 1
  | O_arg_0 | O_arg_1 | O_arg_2 | O_arg_3 => sigo 1 [] 0 1
  | O_txn => both 1 [TF T_scalar] 0 1
  | O_global_ => both 1 [K_field G_global] 0 1
  | O_gtxn => both 1 [K_uint8; TF T_scalar] 0 1
  | O_load => both 1 [K_uint8] 0 1
  | O_store => both 1 [K_uint8] 1 0
  | O_bnz => both 1 [K_label] 1 0
  | O_pop => both 1 [] 1 0
  | O_dup => both 1 [] 1 2
  (* v2 *)
  | O_addw => both 2 [] 2 2
  | O_txna => both 2 [TF T_array; K_uint8] 0 1
  | O_gtxna => both 2 [K_uint8; TF T_array; K_uint8] 0 1
  | O_bz => both 2 [K_label] 1 0
  | O_b => both 2 [K_label] 0 0
  | O_return_ => both 2 [] 1 0
  | O_dup2 => both 2 [] 2 4
  | O_concat => both 2 [] 2 1
  | O_substring => both 2 [K_uint8; K_uint8] 1 1
  | O_substring3 => both 2 [] 3 1
  | O_balance => appo 2 [] 1 1
  | O_app_opted_in => appo 2 [] 2 1
  | O_app_local_get => appo 2 [] 2 1
  | O_app_local_get_ex => appo 2 [] 3 2
  | O_app_global_get => appo 2 [] 1 1
  | O_app_global_get_ex => appo 2 [] 2 2
  | O_app_local_put => appo 2 [] 3 0
  | O_app_global_put => appo 2 [] 2 0
  | O_app_local_del => appo 2 [] 2 0
  | O_app_global_del => appo 2 [] 1 0
  | O_asset_holding_get => appo 2 [K_field G_asset_holding] 2 2
  | O_asset_params_get => appo 2 [K_field G_asset_params] 1 2
  (* v3 *)
  | O_gtxns => both 3 [TF T_scalar] 1 1
  | O_gtxnsa => both 3 [TF T_array; K_uint8] 1 1
  | O_assert_ => both 3 [] 1 0
  | O_dig => bothv 3 [K_uint8]
  | O_swap => both 3 [] 2 2
  | O_select => both 3 [] 3 1
  | O_getbit | O_getbyte => both 3 [] 2 1
  | O_setbit | O_setbyte => both 3 [] 3 1
  | O_min_balance => appo 3 [] 1 1
  | O_pushbytes => both 3 [K_bytes] 0 1
  | O_pushint => both 3 [K_int] 0 1
  (* v4 *)
  | O_shl | O_shr | O_exp => both 4 [] 2 1
  | O_sqrt | O_bitlen => both 4 [] 1 1
  | O_divmodw => both 4 [] 4 4
  | O_expw => both 4 [] 2 2
  | O_b_add | O_b_minus | O_b_div | O_b_mul | O_b_lt | O_b_gt | O_b_le | O_b_ge | O_b_eq | O_b_neq
  | O_b_mod | O_b_or | O_b_and | O_b_xor => both 4 [] 2 1
  | O_b_not | O_bzero => both 4 [] 1 1
  | O_gload => appo 4 [K_uint8; K_uint8] 0 1
  | O_gloads => appo 4 [K_uint8] 1 1
  | O_gaid => appo 4 [K_uint8] 0 1
  | O_gaids => appo 4 [] 1 1
  | O_callsub => bothv 4 [K_label]
  | O_retsub => bothv 4 []
  (* v5 *)
  | O_ecdsa_verify => both 5 [K_field G_ecdsa] 5 1
  | O_ecdsa_pk_decompress => both 5 [K_field G_ecdsa] 1 2
  | O_ecdsa_pk_recover => both 5 [K_field G_ecdsa] 4 2
  | O_loads => both 5 [] 1 1
  | O_stores => both 5 [] 2 0
  | O_cover | O_uncover => bothv 5 [K_uint8]
  | O_extract => both 5 [K_uint8; K_uint8] 1 1
  | O_extract3 => both 5 [] 3 1
  | O_extract_uint16 | O_extract_uint32 | O_extract_uint64 => both 5 [] 2 1
  | O_app_params_get => appo 5 [K_field G_app_params] 1 2
  | O_log => appo 5 [] 1 0
  | O_itxn_begin | O_itxn_submit => appo 5 [] 0 0
  | O_itxn_field => appo 5 [IF T_settable] 1 0
  | O_itxn => appo 5 [IF T_scalar] 0 1
  | O_itxna => appo 5 [IF T_array; K_uint8] 0 1
  | O_txnas => both 5 [TF T_array] 1 1
  | O_gtxnas => both 5 [K_uint8; TF T_array] 1 1
  | O_gtxnsas => both 5 [TF T_array] 2 1
  | O_args => sigo 5 [] 1 1
  (* v6 *)
  | O_bsqrt => both 6 [] 1 1
  | O_divw => both 6 [] 3 1
  | O_itxn_next => appo 6 [] 0 0
  | O_itxnas => appo 6 [IF T_array] 1 1
  | O_gitxn => appo 6 [K_uint8; IF T_scalar] 0 1
  | O_gitxna => appo 6 [K_uint8; IF T_array; K_uint8] 0 1
  | O_gitxnas => appo 6 [K_uint8; IF T_array] 1 1
  | O_gloadss => appo 6 [] 2 1
  | O_acct_params_get => appo 6 [K_field G_acct_params] 1 2
  (* v7 *)
  | O_replace2 => both 7 [K_uint8] 2 1
  | O_replace3 => both 7 [] 3 1
  | O_base64_decode => both 7 [K_field G_base64] 1 1
  | O_json_ref => both 7 [K_field G_json] 2 1
  | O_ed25519verify_bare => both 7 [] 3 1
  | O_sha3_256 => both 7 [] 1 1
  | O_vrf_verify => both 7 [K_field G_vrf] 3 2
  | O_block => both 7 [K_field G_block] 1 1
  (* v8 *)
  | O_box_create => appo 8 [] 2 1
  | O_box_extract => appo 8 [] 3 1
  | O_box_replace => appo 8 [] 3 0
  | O_box_del => appo 8 [] 1 1
  | O_box_len | O_box_get => appo 8 [] 1 2
  | O_box_put => appo 8 [] 2 0
  | O_popn | O_dupn | O_bury => bothv 8 [K_uint8]
  | O_frame_dig => both 8 [K_int8] 0 1
  | O_frame_bury => both 8 [K_int8] 1 0
  | O_proto => both 8 [K_uint8; K_uint8] 0 0
  | O_pushbytess => bothv 8 [K_bytess]
  | O_pushints => bothv 8 [K_ints]
  | O_switch => both 8 [K_labels] 1 0
  | O_match_ => bothv 8 [K_labels]
  (* v10 *)
  | O_box_splice => appo 10 [] 4 0
  | O_box_resize => appo 10 [] 2 0
  | O_ec_add | O_ec_scalar_mul | O_ec_pairing_check | O_ec_multi_scalar_mul => both 10 [K_field G_ec] 2 1
  | O_ec_subgroup_check | O_ec_map_to => both 10 [K_field G_ec] 1 1
  (* v11 *)
  | O_mimc => both 11 [K_field G_mimc] 1 1
  | O_voter_params_get => appo 11 [K_field G_voter] 1 2
  | O_online_stake => appo 11 [] 0 1
  end.

(* ---- transaction fields ----
   (name, first version, array field, effects field (readable in Application mode only),
    first version in which itxn_field may set it: Known None = never settable) *)
Record tfield : Type := mkTF {
  tf_name : string; tf_minv : N; tf_array : bool; tf_app_only : bool; tf_itxn : known (option N)
}.

Definition never : known (option N) := Known None.
Definition since (v : N) : known (option N) := Known (Some v).

Definition ls_txn_fields : list tfield := [
  mkTF "Sender" 1 false false (since 5);
  mkTF "Fee" 1 false false (since 5);
  mkTF "FirstValid" 1 false false never;
  mkTF "FirstValidTime" 7 false false never;
  mkTF "LastValid" 1 false false never;
  mkTF "Note" 1 false false (since 6);
  mkTF "Lease" 1 false false Unknown;
  mkTF "Receiver" 1 false false (since 5);
  mkTF "Amount" 1 false false (since 5);
  mkTF "CloseRemainderTo" 1 false false (since 5);
  mkTF "VotePK" 1 false false (since 6);
  mkTF "SelectionPK" 1 false false (since 6);
  mkTF "VoteFirst" 1 false false (since 6);
  mkTF "VoteLast" 1 false false (since 6);
  mkTF "VoteKeyDilution" 1 false false (since 6);
  mkTF "Type" 1 false false (since 5);
  mkTF "TypeEnum" 1 false false (since 5);
  mkTF "XferAsset" 1 false false (since 5);
  mkTF "AssetAmount" 1 false false (since 5);
  mkTF "AssetSender" 1 false false (since 5);
  mkTF "AssetReceiver" 1 false false (since 5);
  mkTF "AssetCloseTo" 1 false false (since 5);
  mkTF "GroupIndex" 1 false false never;
  mkTF "TxID" 1 false false never;
  mkTF "ApplicationID" 2 false false (since 6);
  mkTF "OnCompletion" 2 false false (since 6);
  mkTF "ApplicationArgs" 2 true false (since 6);
  mkTF "NumAppArgs" 2 false false never;
  mkTF "Accounts" 2 true false (since 6);
  mkTF "NumAccounts" 2 false false never;
  mkTF "ApprovalProgram" 2 false false (since 6);
  mkTF "ClearStateProgram" 2 false false (since 6);
  mkTF "RekeyTo" 2 false false (since 6);
  mkTF "ConfigAsset" 2 false false (since 5);
  mkTF "ConfigAssetTotal" 2 false false (since 5);
  mkTF "ConfigAssetDecimals" 2 false false (since 5);
  mkTF "ConfigAssetDefaultFrozen" 2 false false (since 5);
  mkTF "ConfigAssetUnitName" 2 false false (since 5);
  mkTF "ConfigAssetName" 2 false false (since 5);
  mkTF "ConfigAssetURL" 2 false false (since 5);
  mkTF "ConfigAssetMetadataHash" 2 false false (since 5);
  mkTF "ConfigAssetManager" 2 false false (since 5);
  mkTF "ConfigAssetReserve" 2 false false (since 5);
  mkTF "ConfigAssetFreeze" 2 false false (since 5);
  mkTF "ConfigAssetClawback" 2 false false (since 5);
  mkTF "FreezeAsset" 2 false false (since 5);
  mkTF "FreezeAssetAccount" 2 false false (since 5);
  mkTF "FreezeAssetFrozen" 2 false false (since 5);
  mkTF "Assets" 3 true false (since 6);
  mkTF "NumAssets" 3 false false never;
  mkTF "Applications" 3 true false (since 6);
  mkTF "NumApplications" 3 false false never;
  mkTF "GlobalNumUint" 3 false false (since 6);
  mkTF "GlobalNumByteSlice" 3 false false (since 6);
  mkTF "LocalNumUint" 3 false false (since 6);
  mkTF "LocalNumByteSlice" 3 false false (since 6);
  mkTF "ExtraProgramPages" 4 false false (since 6);
  mkTF "Nonparticipation" 5 false false (since 6);
  mkTF "Logs" 5 true true never;
  mkTF "NumLogs" 5 false true never;
  mkTF "CreatedAssetID" 5 false true never;
  mkTF "CreatedApplicationID" 5 false true never;
  mkTF "LastLog" 6 false true never;
  mkTF "StateProofPK" 6 false false (since 6);
  mkTF "ApprovalProgramPages" 7 true false (since 7);
  mkTF "NumApprovalProgramPages" 7 false false never;
  mkTF "ClearStateProgramPages" 7 true false (since 7);
  mkTF "NumClearStateProgramPages" 7 false false never
].

(* ---- the other field groups: (name, first version, Application mode only) ---- *)
Record gfield : Type := mkGF { gf_name : string; gf_minv : N; gf_app_only : bool }.

Definition ls_group_fields (g : fgroup) : list gfield :=
  match g with
  | G_txn => map (fun t => mkGF (tf_name t) (tf_minv t) (tf_app_only t)) ls_txn_fields
  | G_global => [
      mkGF "MinTxnFee" 1 false; mkGF "MinBalance" 1 false; mkGF "MaxTxnLife" 1 false;
      mkGF "ZeroAddress" 1 false; mkGF "GroupSize" 1 false;
      mkGF "LogicSigVersion" 2 false;
      mkGF "Round" 2 true; mkGF "LatestTimestamp" 2 true; mkGF "CurrentApplicationID" 2 true;
      mkGF "CreatorAddress" 3 true;
      mkGF "CurrentApplicationAddress" 5 true; mkGF "GroupID" 5 false;
      mkGF "OpcodeBudget" 6 false; mkGF "CallerApplicationID" 6 true; mkGF "CallerApplicationAddress" 6 true;
      mkGF "AssetCreateMinBalance" 10 false; mkGF "AssetOptInMinBalance" 10 false; mkGF "GenesisHash" 10 false;
      mkGF "PayoutsEnabled" 11 false; mkGF "PayoutsGoOnlineFee" 11 false; mkGF "PayoutsPercent" 11 false;
      mkGF "PayoutsMinBalance" 11 false; mkGF "PayoutsMaxBalance" 11 false ]
  | G_asset_holding => [ mkGF "AssetBalance" 2 false; mkGF "AssetFrozen" 2 false ]
  | G_asset_params => [
      mkGF "AssetTotal" 2 false; mkGF "AssetDecimals" 2 false; mkGF "AssetDefaultFrozen" 2 false;
      mkGF "AssetUnitName" 2 false; mkGF "AssetName" 2 false; mkGF "AssetURL" 2 false;
      mkGF "AssetMetadataHash" 2 false; mkGF "AssetManager" 2 false; mkGF "AssetReserve" 2 false;
      mkGF "AssetFreeze" 2 false; mkGF "AssetClawback" 2 false;
      mkGF "AssetCreator" 5 false ]
  | G_app_params => [
      mkGF "AppApprovalProgram" 5 false; mkGF "AppClearStateProgram" 5 false;
      mkGF "AppGlobalNumUint" 5 false; mkGF "AppGlobalNumByteSlice" 5 false;
      mkGF "AppLocalNumUint" 5 false; mkGF "AppLocalNumByteSlice" 5 false;
      mkGF "AppExtraProgramPages" 5 false; mkGF "AppCreator" 5 false; mkGF "AppAddress" 5 false ]
  | G_acct_params => [
      mkGF "AcctBalance" 6 false; mkGF "AcctMinBalance" 6 false; mkGF "AcctAuthAddr" 6 false;
      mkGF "AcctTotalNumUint" 8 false; mkGF "AcctTotalNumByteSlice" 8 false;
      mkGF "AcctTotalExtraAppPages" 8 false; mkGF "AcctTotalAppsCreated" 8 false;
      mkGF "AcctTotalAppsOptedIn" 8 false; mkGF "AcctTotalAssetsCreated" 8 false;
      mkGF "AcctTotalAssets" 8 false; mkGF "AcctTotalBoxes" 8 false; mkGF "AcctTotalBoxBytes" 8 false;
      mkGF "AcctIncentiveEligible" 11 false; mkGF "AcctLastProposed" 11 false; mkGF "AcctLastHeartbeat" 11 false ]
  | G_block => [
      mkGF "BlkSeed" 7 false; mkGF "BlkTimestamp" 7 false;
      mkGF "BlkProposer" 11 false; mkGF "BlkFeesCollected" 11 false; mkGF "BlkBonus" 11 false;
      mkGF "BlkBranch" 11 false; mkGF "BlkFeeSink" 11 false; mkGF "BlkProtocol" 11 false;
      mkGF "BlkTxnCounter" 11 false; mkGF "BlkProposerPayout" 11 false ]
  | G_ecdsa => [ mkGF "Secp256k1" 5 false; mkGF "Secp256r1" 7 false ]
  | G_ec => [ mkGF "BN254g1" 10 false; mkGF "BN254g2" 10 false; mkGF "BLS12_381g1" 10 false; mkGF "BLS12_381g2" 10 false ]
  | G_base64 => [ mkGF "URLEncoding" 7 false; mkGF "StdEncoding" 7 false ]
  | G_json => [ mkGF "JSONString" 7 false; mkGF "JSONUint64" 7 false; mkGF "JSONObject" 7 false ]
  | G_vrf => [ mkGF "VrfAlgorand" 7 false ]
  | G_voter => [ mkGF "VoterBalance" 11 false; mkGF "VoterIncentiveEligible" 11 false ]
  | G_mimc => [ mkGF "BN254Mp110" 11 false; mkGF "BLS12_381Mp111" 11 false ]
  end.

Fixpoint find_tfield (l : list tfield) (s : string) : option tfield :=
  match l with
  | [] => None
  | f :: t => if String.eqb (tf_name f) s then Some f else find_tfield t s
  end.
Fixpoint find_gfield (l : list gfield) (s : string) : option gfield :=
  match l with
  | [] => None
  | f :: t => if String.eqb (gf_name f) s then Some f else find_gfield t s
  end.

(* the op family name PyTeal's tables use for a field group *)
Definition group_of_family (fam : string) : option fgroup :=
  if String.eqb fam "txn" then Some G_txn
  else if String.eqb fam "global" then Some G_global
  else if String.eqb fam "asset_holding_get" then Some G_asset_holding
  else if String.eqb fam "asset_params_get" then Some G_asset_params
  else if String.eqb fam "app_params_get" then Some G_app_params
  else if String.eqb fam "acct_params_get" then Some G_acct_params
  else if String.eqb fam "block" then Some G_block
  else if String.eqb fam "ecdsa" then Some G_ecdsa
  else if String.eqb fam "ec" then Some G_ec
  else if String.eqb fam "base64_decode" then Some G_base64
  else if String.eqb fam "json_ref" then Some G_json
  else if String.eqb fam "vrf_verify" then Some G_vrf
  else None.

(* Backward branches (target at or before the branch) exist since version 4. *)
Definition BACK_BRANCH_VERSION : N := 4.
(* Largest byte-string value the AVM can hold. *)
Definition MAX_BYTES_CONST : N := 4096.

(* rows marked Unknown, for the evidence *)
Definition unknown_ops : list string :=
  flat_map (fun o => match ls_op o with Unknown => [opc_name o] | Known _ => [] end) all_opcs.
Definition unknown_itxn_fields : list string :=
  flat_map (fun f => match tf_itxn f with Unknown => [tf_name f] | Known _ => [] end) ls_txn_fields.
