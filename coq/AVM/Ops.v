(* AVM/Ops.v — semantics of the pure (stack-only) TEAL opcodes.
   [exec_pure o imms stk] : the stack is a list with the TOP at the HEAD.
   Result: [POk stk'] | [PFail] (the program panics) | [PNot] (not a pure op: handled by the machine). *)
From Coq Require Import List NArith Ascii String Bool.
From PV Require Import Base.Bytes Base.U64 AVM.Syntax.
Import ListNotations.
Local Open Scope N_scope.

Inductive pres : Type :=
| POk (stk : list value)
| PFail
| PNot.

Definition MAX_BYTES : N := 4096.
Definition MAX_BYTEMATH : N := 64.

Definition okb (b : bytes) (rest : list value) : pres :=
  if blen b <=? MAX_BYTES then POk (VB b :: rest) else PFail.
Definition oki (n : N) (rest : list value) : pres :=
  if fits64 n then POk (VI n :: rest) else PFail.
Definition okbool (b : bool) (rest : list value) : pres := POk (VI (b2N b) :: rest).

(* bits of a byte string: bit 0 is the most significant bit of byte 0 *)
Definition get_bit_bytes (b : bytes) (i : N) : option N :=
  match nth_N b (i / 8) with
  | Some c => Some (b2N (N.testbit (b2n c) (7 - i mod 8)))
  | None => None
  end.
Definition set_bit_bytes (b : bytes) (i : N) (v : N) : option bytes :=
  match nth_N b (i / 8) with
  | Some c =>
      let m := N.shiftl 1 (7 - i mod 8) in
      let c' := if v =? 0 then N.land (b2n c) (255 - m) else N.lor (b2n c) m in
      Some (list_update b (N.to_nat (i / 8)) (n2b c'))
  | None => None
  end.

Definition replace_bytes (a : bytes) (s : N) (r : bytes) : option bytes :=
  if s + blen r <=? blen a
  then Some (firstn (N.to_nat s) a ++ r ++ skipn (N.to_nat (s + blen r)) a)
  else None.

(* zero-left-extend to length n *)
Definition lpad (n : nat) (b : bytes) : bytes := repeat zero (n - List.length b) ++ b.

Fixpoint map2 {A B C} (f : A -> B -> C) (a : list A) (b : list B) : list C :=
  match a, b with
  | x :: a', y :: b' => f x y :: map2 f a' b'
  | _, _ => []
  end.

Definition bytes_bitop (f : N -> N -> N) (a b : bytes) : bytes :=
  let n := Nat.max (List.length a) (List.length b) in
  map2 (fun x y => n2b (f (b2n x) (b2n y))) (lpad n a) (lpad n b).

Definition bm_ok (a b : bytes) : bool := (blen a <=? MAX_BYTEMATH) && (blen b <=? MAX_BYTEMATH).

Definition arg1 (imms : list arg) : option N :=
  match imms with [AInt n] => Some n | _ => None end.
Definition arg2 (imms : list arg) : option (N * N) :=
  match imms with [AInt a; AInt b] => Some (a, b) | _ => None end.

Fixpoint insert_at {A} (n : nat) (x : A) (l : list A) : option (list A) :=
  match n, l with
  | O, _ => Some (x :: l)
  | S k, h :: t => match insert_at k x t with Some r => Some (h :: r) | None => None end
  | S _, [] => None
  end.
Fixpoint remove_at {A} (n : nat) (l : list A) : option (A * list A) :=
  match n, l with
  | O, h :: t => Some (h, t)
  | S k, h :: t => match remove_at k t with Some (x, r) => Some (x, h :: r) | None => None end
  | _, [] => None
  end.

Definition exec_pure (o : opc) (imms : list arg) (stk : list value) : pres :=
  match o, stk with
  (* ---- uint64 arithmetic ---- *)
  | O_add, VI b :: VI a :: r => oki (a + b) r
  | O_minus, VI b :: VI a :: r => if b <=? a then POk (VI (a - b) :: r) else PFail
  | O_div, VI b :: VI a :: r => if b =? 0 then PFail else POk (VI (a / b) :: r)
  | O_mul, VI b :: VI a :: r => oki (a * b) r
  | O_mod, VI b :: VI a :: r => if b =? 0 then PFail else POk (VI (a mod b) :: r)
  | O_lt, VI b :: VI a :: r => okbool (a <? b) r
  | O_gt, VI b :: VI a :: r => okbool (b <? a) r
  | O_le, VI b :: VI a :: r => okbool (a <=? b) r
  | O_ge, VI b :: VI a :: r => okbool (b <=? a) r
  | O_logic_and, VI b :: VI a :: r => okbool (negb (a =? 0) && negb (b =? 0)) r
  | O_logic_or, VI b :: VI a :: r => okbool (negb (a =? 0) || negb (b =? 0)) r
  | O_eq, VI b :: VI a :: r => okbool (a =? b) r
  | O_eq, VB b :: VB a :: r => okbool (bytes_eqb a b) r
  | O_neq, VI b :: VI a :: r => okbool (negb (a =? b)) r
  | O_neq, VB b :: VB a :: r => okbool (negb (bytes_eqb a b)) r
  | O_logic_not, VI a :: r => okbool (a =? 0) r
  | O_bitwise_or, VI b :: VI a :: r => POk (VI (N.lor a b) :: r)
  | O_bitwise_and, VI b :: VI a :: r => POk (VI (N.land a b) :: r)
  | O_bitwise_xor, VI b :: VI a :: r => POk (VI (N.lxor a b) :: r)
  | O_bitwise_not, VI a :: r => POk (VI (MAXU64 - a) :: r)
  | O_mulw, VI b :: VI a :: r => POk (VI (lo64 (a * b)) :: VI (hi64 (a * b)) :: r)
  | O_addw, VI b :: VI a :: r => POk (VI (lo64 (a + b)) :: VI (hi64 (a + b)) :: r)
  | O_divmodw, VI d :: VI c :: VI b :: VI a :: r =>
      let x := a * U64 + b in
      let y := c * U64 + d in
      if y =? 0 then PFail
      else POk (VI (lo64 (x mod y)) :: VI (hi64 (x mod y)) :: VI (lo64 (x / y)) :: VI (hi64 (x / y)) :: r)
  | O_divw, VI c :: VI b :: VI a :: r =>
      if c =? 0 then PFail else oki ((a * U64 + b) / c) r
  | O_exp, VI b :: VI a :: r =>
      if (a =? 0) && (b =? 0) then PFail
      else if a <=? 1 then POk (VI a :: r)
      else if 64 <=? b then PFail
      else oki (a ^ b) r
  | O_expw, VI b :: VI a :: r =>
      if (a =? 0) && (b =? 0) then PFail
      else if a <=? 1 then POk (VI a :: VI 0 :: r)
      else if 128 <=? b then PFail
      else let p := a ^ b in
           if p <? U128 then POk (VI (lo64 p) :: VI (hi64 p) :: r) else PFail
  | O_shl, VI b :: VI a :: r => if b <? 64 then POk (VI ((N.shiftl a b) mod U64) :: r) else PFail
  | O_shr, VI b :: VI a :: r => if b <? 64 then POk (VI (N.shiftr a b) :: r) else PFail
  | O_sqrt, VI a :: r => POk (VI (isqrt a) :: r)
  | O_bitlen, VI a :: r => POk (VI (bitlen_N a) :: r)
  | O_bitlen, VB a :: r => POk (VI (bitlen_N (be_decode a)) :: r)
  (* ---- bytes ---- *)
  | O_len, VB a :: r => POk (VI (blen a) :: r)
  | O_itob, VI a :: r => POk (VB (be_encode 8 a) :: r)
  | O_btoi, VB a :: r => if blen a <=? 8 then POk (VI (be_decode a) :: r) else PFail
  | O_concat, VB b :: VB a :: r => okb (a ++ b) r
  | O_substring, VB a :: r =>
      match arg2 imms with
      | Some (s, e) => match bsub a s e with Some x => POk (VB x :: r) | None => PFail end
      | None => PFail
      end
  | O_substring3, VI e :: VI s :: VB a :: r =>
      match bsub a s e with Some x => POk (VB x :: r) | None => PFail end
  | O_extract, VB a :: r =>
      match arg2 imms with
      | Some (s, l) =>
          if l =? 0
          then match bsub a s (blen a) with Some x => POk (VB x :: r) | None => PFail end
          else match bextract a s l with Some x => POk (VB x :: r) | None => PFail end
      | None => PFail
      end
  | O_extract3, VI l :: VI s :: VB a :: r =>
      match bextract a s l with Some x => POk (VB x :: r) | None => PFail end
  | O_extract_uint16, VI s :: VB a :: r =>
      match bextract a s 2 with Some x => POk (VI (be_decode x) :: r) | None => PFail end
  | O_extract_uint32, VI s :: VB a :: r =>
      match bextract a s 4 with Some x => POk (VI (be_decode x) :: r) | None => PFail end
  | O_extract_uint64, VI s :: VB a :: r =>
      match bextract a s 8 with Some x => POk (VI (be_decode x) :: r) | None => PFail end
  | O_getbit, VI i :: VI a :: r =>
      if i <? 64 then POk (VI (b2N (N.testbit a i)) :: r) else PFail
  | O_getbit, VI i :: VB a :: r =>
      match get_bit_bytes a i with Some v => POk (VI v :: r) | None => PFail end
  | O_setbit, VI v :: VI i :: VI a :: r =>
      if (i <? 64) && (v <=? 1)
      then POk (VI (if v =? 0 then N.ldiff a (N.shiftl 1 i) else N.lor a (N.shiftl 1 i)) :: r)
      else PFail
  | O_setbit, VI v :: VI i :: VB a :: r =>
      if v <=? 1
      then match set_bit_bytes a i v with Some x => POk (VB x :: r) | None => PFail end
      else PFail
  | O_getbyte, VI i :: VB a :: r =>
      match nth_N a i with Some c => POk (VI (b2n c) :: r) | None => PFail end
  | O_setbyte, VI v :: VI i :: VB a :: r =>
      if (v <=? 255) && (i <? blen a)
      then POk (VB (list_update a (N.to_nat i) (n2b v)) :: r) else PFail
  | O_bzero, VI n :: r => if n <=? MAX_BYTES then POk (VB (bzero (N.to_nat n)) :: r) else PFail
  | O_replace2, VB b :: VB a :: r =>
      match arg1 imms with
      | Some s => match replace_bytes a s b with Some x => POk (VB x :: r) | None => PFail end
      | None => PFail
      end
  | O_replace3, VB b :: VI s :: VB a :: r =>
      match replace_bytes a s b with Some x => POk (VB x :: r) | None => PFail end
  (* ---- byte math ---- *)
  | O_b_add, VB b :: VB a :: r => if bm_ok a b then POk (VB (be_min (be_decode a + be_decode b)) :: r) else PFail
  | O_b_minus, VB b :: VB a :: r =>
      if bm_ok a b && (be_decode b <=? be_decode a)
      then POk (VB (be_min (be_decode a - be_decode b)) :: r) else PFail
  | O_b_mul, VB b :: VB a :: r => if bm_ok a b then POk (VB (be_min (be_decode a * be_decode b)) :: r) else PFail
  | O_b_div, VB b :: VB a :: r =>
      if bm_ok a b && negb (be_decode b =? 0)
      then POk (VB (be_min (be_decode a / be_decode b)) :: r) else PFail
  | O_b_mod, VB b :: VB a :: r =>
      if bm_ok a b && negb (be_decode b =? 0)
      then POk (VB (be_min (be_decode a mod be_decode b)) :: r) else PFail
  | O_b_lt, VB b :: VB a :: r => if bm_ok a b then okbool (be_decode a <? be_decode b) r else PFail
  | O_b_gt, VB b :: VB a :: r => if bm_ok a b then okbool (be_decode b <? be_decode a) r else PFail
  | O_b_le, VB b :: VB a :: r => if bm_ok a b then okbool (be_decode a <=? be_decode b) r else PFail
  | O_b_ge, VB b :: VB a :: r => if bm_ok a b then okbool (be_decode b <=? be_decode a) r else PFail
  | O_b_eq, VB b :: VB a :: r => if bm_ok a b then okbool (be_decode a =? be_decode b) r else PFail
  | O_b_neq, VB b :: VB a :: r => if bm_ok a b then okbool (negb (be_decode a =? be_decode b)) r else PFail
  (* the bitwise byte ops take plain byte strings: no 64-byte limit (only the arithmetic ones are bigint ops) *)
  | O_b_or, VB b :: VB a :: r => okb (bytes_bitop N.lor a b) r
  | O_b_and, VB b :: VB a :: r => okb (bytes_bitop N.land a b) r
  | O_b_xor, VB b :: VB a :: r => okb (bytes_bitop N.lxor a b) r
  | O_b_not, VB a :: r => POk (VB (map (fun c => n2b (255 - b2n c)) a) :: r)
  | O_bsqrt, VB a :: r =>
      if blen a <=? MAX_BYTEMATH then POk (VB (be_min (isqrt (be_decode a))) :: r) else PFail
  (* ---- stack manipulation ---- *)
  | O_pop, _ :: r => POk r
  | O_dup, a :: r => POk (a :: a :: r)
  | O_dup2, b :: a :: r => POk (b :: a :: b :: a :: r)
  | O_swap, b :: a :: r => POk (a :: b :: r)
  | O_select, VI c :: b :: a :: r => POk ((if c =? 0 then a else b) :: r)
  | O_dig, _ =>
      match arg1 imms with
      | Some n => if N.leb n 255 then match nth_error stk (N.to_nat n) with Some v => POk (v :: stk) | None => PFail end else PFail
      | None => PFail
      end
  | O_cover, a :: r =>
      match arg1 imms with
      | Some n => if N.leb n 255 then match insert_at (N.to_nat n) a r with Some s => POk s | None => PFail end else PFail
      | None => PFail
      end
  | O_uncover, _ =>
      match arg1 imms with
      | Some n => if N.leb n 255 then match remove_at (N.to_nat n) stk with Some (x, s) => POk (x :: s) | None => PFail end else PFail
      | None => PFail
      end
  | O_bury, a :: r =>
      match arg1 imms with
      | Some n =>
          if n =? 0 then PFail
          else if n <=? N.of_nat (List.length r)
               then POk (list_update r (N.to_nat (n - 1)) a) else PFail
      | None => PFail
      end
  | O_popn, _ =>
      match arg1 imms with
      | Some n => if n <=? N.of_nat (List.length stk) then POk (skipn (N.to_nat n) stk) else PFail
      | None => PFail
      end
  | O_dupn, a :: r =>
      match arg1 imms with
      | Some n => if N.leb n 255 then POk (repeat a (N.to_nat n) ++ a :: r) else PFail
      | None => PFail
      end
  | O_assert_, VI c :: r => if c =? 0 then PFail else POk r
  | O_int, _ => match imms with [AInt n] => oki n stk | _ => PNot end
  | O_pushint, _ => match imms with [AInt n] => oki n stk | _ => PNot end
  (* every remaining pure opcode applied to a stack of the wrong shape/type panics *)
  | (O_add | O_minus | O_div | O_mul | O_mod | O_lt | O_gt | O_le | O_ge | O_logic_and | O_logic_or
    | O_eq | O_neq | O_logic_not | O_bitwise_or | O_bitwise_and | O_bitwise_xor | O_bitwise_not
    | O_mulw | O_addw | O_divmodw | O_divw | O_exp | O_expw | O_shl | O_shr | O_sqrt | O_bitlen
    | O_len | O_itob | O_btoi | O_concat | O_substring | O_substring3 | O_extract | O_extract3
    | O_extract_uint16 | O_extract_uint32 | O_extract_uint64 | O_getbit | O_setbit | O_getbyte
    | O_setbyte | O_bzero | O_replace2 | O_replace3 | O_b_add | O_b_minus | O_b_mul | O_b_div
    | O_b_mod | O_b_lt | O_b_gt | O_b_le | O_b_ge | O_b_eq | O_b_neq | O_b_or | O_b_and | O_b_xor
    | O_b_not | O_bsqrt | O_pop | O_dup | O_dup2 | O_swap | O_select | O_cover | O_bury | O_dupn | O_assert_), _ => PFail
  | _, _ => PNot
  end.
