(* GENERATED from Proofs/SlotComposeEnd.v by harness/tools/callx_gen.py (semantics with a call oracle, CallX/Denote.v); do not edit. *)
(* Proofs/SlotComposeEnd.v — the end-to-end theorem of C01 for one routine WITH the slot assignment
   composed in: source semantics -> compile_one -> assign_slots (ASlot u |-> AInt (look u)) -> sortBlocks
   -> flattenBlocks, in the order compile_components runs them (without the optimiser).
     routine_end_to_end_rewritten : for any numbering [look]
     routine_end_to_end_slots     : for the numbering a successful [assign_slots] computes; the range
                                    hypothesis is discharged by [assign_look_in_range] *)
From Coq Require Import List Arith NArith String Bool Lia.
From PV Require Import Base.Bytes AVM.Syntax AVM.Machine Src.Expr CallX.Denote
  Comp.Blocks Comp.Lower Comp.Passes CallX.GraphSem CallX.LinearSem CallX.SimCheck Comp.Compile
  Proofs.LowerFrame CallX.LowerCorrect Proofs.LowerShape CallX.NormalizeSem
  CallX.NormalizeLowered CallX.FlattenCorrect CallX.SortCorrect
  Proofs.EndToEndExits CallX.EndToEndGlue CallX.EndToEnd
  CallX.SlotCompose Proofs.SlotComposeAssign.
Import ListNotations.

(* the rewritten routine keeps the shape facts of the compiled routine *)
Lemma rw_routine_shape o sub ast0 cr look :
  (match sub with Some r => r_deferred r | None => None end) = None ->
  compile_one o sub ast0 = COk cr ->
  wf (cr_graph (rw_routine look cr)) /\ exits_at (cr_graph (rw_routine look cr)) (cr_end cr).
Proof.
  intros D E. destruct (compiled_routine_facts o sub ast0 cr D E) as (s & g0 & _ & _ & _ & W3 & X3).
  split; [apply mgo_wf; exact W3|]. exact (exits_gpres _ _ _ (mgo_gpres look cr) X3).
Qed.

(* the graph stage: the REWRITTEN normalised graph computes what the source semantics prescribes *)
Theorem routine_graph_correct_rewritten o sub ast0 cr look :
  (match sub with Some r => r_deferred r | None => None end) = None ->
  compile_one o sub ast0 = COk cr ->
  head_loop (root_ast ast0) = false ->
  forall env, consistent env (routine_ctx o sub) ->
  slots_ok env look (routine_slots cr) ->
  forall fuel stk st h, ghalt_of (denote env fuel (root_ast ast0) stk st) = Some h ->
    star env (g_blk (cr_graph (rw_routine look cr))) (GAt (cr_start cr) stk st) h.
Proof.
  intros D E HL env Hc Hok fuel stk st h Hh.
  pose proof (routine_graph_correct o sub ast0 cr D E HL env Hc fuel stk st h Hh) as S3.
  exact (proj2 (star_rw env look _ _ (rw_routine_graph env look cr Hok) _ _) S3).
Qed.

(* for ANY numbering: under agreement + range on the routine's slots *)
Theorem routine_end_to_end_rewritten o sub ast0 cr look order code :
  (match sub with Some r => r_deferred r | None => None end) = None ->
  compile_one o sub ast0 = COk cr ->
  head_loop (root_ast ast0) = false ->
  let cr' := rw_routine look cr in
  sort_blocks (cr_graph cr') (cr_start cr') (cr_end cr') = Some order ->
  flatten_blocks (cr_graph cr') order = Some code ->
  pos_of (cr_graph cr') order (cr_start cr') = 0 /\
  forall env, consistent env (routine_ctx o sub) ->
  slots_ok env look (routine_slots cr) ->
  forall fuel stk st h, halt_of (denote env fuel (root_ast ast0) stk st) = Some h ->
    lstar env code (LAt 0 stk st) h /\
    forall c2, lstar env code (LAt 0 stk st) c2 -> lfinal c2 = true -> c2 = h.
Proof.
  intros D E HL cr' HS HF.
  change (cr_start cr') with (cr_start cr) in *. change (cr_end cr') with (cr_end cr) in *.
  destruct (rw_routine_shape o sub ast0 cr look D E) as [W4 X4]. fold cr' in W4, X4.
  pose proof (exits_single_exit _ (cr_start cr) _ X4) as SE.
  pose proof (exits_start_first _ (cr_start cr) _ X4) as H1.
  split.
  - destruct (sort_start_first _ _ _ _ W4 HS H1) as (t & Eo). rewrite Eo. apply pos_of_head.
  - intros env Hc Hok fuel stk st h Hh.
    rewrite (halt_img (pos_of (cr_graph cr') order)) in Hh.
    destruct (ghalt_of (denote env fuel (root_ast ast0) stk st)) as [gh|] eqn:Eg; [|discriminate Hh].
    cbn [option_map] in Hh. injection Hh as Hh. subst h.
    pose proof (routine_graph_correct_rewritten o sub ast0 cr look D E HL env Hc Hok fuel stk st gh Eg) as S4.
    fold cr' in S4.
    destruct (ghalt_props _ _ Eg) as (_ & Fin & Ok).
    split.
    + exact (flatten_sort_correct env _ _ _ _ _ W4 HS HF SE H1 stk st gh S4 Ok).
    + exact (proj2 (flatten_sort_correct_final env _ _ _ _ _ W4 HS HF SE H1 stk st gh S4 Fin Ok)).
Qed.

(* for the numbering assign_slots computes: the routine is one of the routines handed to the assignment;
   its rewritten form is in the result; the only hypothesis left about the numbers is that requested ids
   are valid scratch numbers; the environment's variable numbering is the assignment *)
Theorem routine_end_to_end_slots o sub ast0 cr p crs crs' locals asg :
  (match sub with Some r => r_deferred r | None => None end) = None ->
  compile_one o sub ast0 = COk cr ->
  head_loop (root_ast ast0) = false ->
  In cr crs ->
  assign_slots p crs = COk (crs', locals, asg) ->
  requested_valid p (all_slots crs) ->
  let cr' := rw_routine (look_of asg) cr in
  In cr' crs' /\
  forall order code,
  sort_blocks (cr_graph cr') (cr_start cr') (cr_end cr') = Some order ->
  flatten_blocks (cr_graph cr') order = Some code ->
  pos_of (cr_graph cr') order (cr_start cr') = 0 /\
  forall env, consistent env (routine_ctx o sub) ->
  agree_on env (look_of asg) (routine_slots cr) ->
  forall fuel stk st h, halt_of (denote env fuel (root_ast ast0) stk st) = Some h ->
    lstar env code (LAt 0 stk st) h /\
    forall c2, lstar env code (LAt 0 stk st) c2 -> lfinal c2 = true -> c2 = h.
Proof.
  intros D E HL Hin HA HV cr'. split; [exact (assign_slots_routines p crs crs' locals asg HA cr Hin)|].
  intros order code HS HF.
  destruct (routine_end_to_end_rewritten o sub ast0 cr (look_of asg) order code D E HL HS HF) as [P0 T].
  split; [exact P0|]. intros env Hc Hag. apply T; [exact Hc|].
  intros u Hu. split; [exact (Hag u Hu)|].
  apply (assign_look_in_range p crs crs' locals asg HA HV). exact (routine_slots_in_all crs cr u Hin Hu).
Qed.

(* the numbering itself as the environment: [with_asg env0 (look_of asg)] *)
Lemma consistent_with_asg env f c : consistent env c -> consistent (with_asg env f) c.
Proof. intros [A B]. split; [exact A|exact B]. Qed.

Lemma agree_with_asg env f l : agree_on (with_asg env f) f l.
Proof. intros u _. reflexivity. Qed.
