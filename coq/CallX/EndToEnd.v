(* GENERATED from Proofs/EndToEnd.v by harness/tools/callx_gen.py (semantics with a call oracle, CallX/Denote.v); do not edit. *)
(* Proofs/EndToEnd.v — property C01 for ONE routine, composed from the stage theorems:
     lowering (LowerCorrect) -> addIncoming + NormalizeBlocks (NormalizeLowered) -> sortBlocks
     (SortCorrect) -> flattenBlocks (FlattenCorrect),
   glued by Proofs/EndToEndExits.v (the lowered graph has one exit) and Proofs/EndToEndGlue.v
   (NormalizeBlocks keeps it; the normalised graph is well-formed). *)
From Coq Require Import List Arith NArith String Bool Lia.
From PV Require Import Base.Bytes AVM.Syntax AVM.Machine Src.Expr CallX.Denote
  Comp.Blocks Comp.Lower Comp.Passes CallX.GraphSem CallX.LinearSem CallX.SimCheck Comp.Compile
  Proofs.LowerFrame CallX.LowerLemmas CallX.LowerCorrect Proofs.LowerShape
  CallX.NormalizeLowered CallX.FlattenCorrect CallX.SortCorrect
  Proofs.EndToEndExits CallX.EndToEndGlue.
Import ListNotations.

(* what an outcome of the source semantics is on the block graph / on the linear machine when the
   fragment is a whole routine (no continuation, no enclosing loop): normal completion — and a
   Break/Continue that escaped, which the checks of compile_one exclude — is "ran off the end" *)
Definition ghalt_of (r : dout) : option gconf :=
  match r with
  | DNorm s st | DBrk s st | DCont s st | DEnd s st => Some (GEnd s st)
  | DRet s st => Some (GRet s st)
  | DExit v st => Some (GExit v st)
  | DFail => Some GFail
  | DFuel | DUnsup _ => None
  end.

Definition halt_of (r : dout) : option lconf :=
  match r with
  | DNorm s st | DBrk s st | DCont s st | DEnd s st => Some (LEnd s st)
  | DRet s st => Some (LRet s st)
  | DExit v st => Some (LExit v st)
  | DFail => Some LFail
  | DFuel | DUnsup _ => None
  end.

Lemma halt_img pos r : halt_of r = option_map (img pos) (ghalt_of r).
Proof. destruct r; reflexivity. Qed.

Lemma ghalt_props r h : ghalt_of r = Some h -> halting h /\ gfinal h = true /\ ok_out h.
Proof. destruct r; cbn; intros E; try discriminate E; injection E as E; subst h; cbn; auto. Qed.

Lemma tgt_root env G c0 c r h :
  l_brk c = None -> l_cont c = None -> tgt env G c0 None c r -> ghalt_of r = Some h -> star env G c0 h.
Proof.
  intros B C T E. destruct r; cbn [tgt ghalt_of] in *; try discriminate E; injection E as E; subst h;
    try rewrite B in T; try rewrite C in T; exact T.
Qed.

Lemma exits_single_exit g start en : exits_at g en -> single_exit g start en.
Proof.
  intros [X1 (ops & X2)] b bb _ Gb T O.
  assert (Q : b = en) by (apply (X1 b bb Gb); split; assumption). subst b.
  split; [reflexivity|]. rewrite X2 in Gb. injection Gb as Gb. eauto.
Qed.

Lemma exits_start_first g (start : id) en : exits_at g en -> start <> en \/ out_of g start = [].
Proof.
  intros [_ (ops & X2)]. destruct (Nat.eq_dec start en) as [Q|Q]; [right|left; exact Q].
  subst start. unfold out_of. rewrite X2. reflexivity.
Qed.

(* the routine's graph, entered at its start block, computes what the source semantics prescribes *)
Theorem routine_graph_correct o sub ast0 cr :
  (match sub with Some r => r_deferred r | None => None end) = None ->
  compile_one o sub ast0 = COk cr ->
  head_loop (root_ast ast0) = false ->
  forall env, consistent env (routine_ctx o sub) ->
  forall fuel stk st h, ghalt_of (denote env fuel (root_ast ast0) stk st) = Some h ->
    star env (g_blk (cr_graph cr)) (GAt (cr_start cr) stk st) h.
Proof.
  intros D E HL env Hc fuel stk st h Hh.
  destruct (compiled_routine_facts o sub ast0 cr D E) as (s & g0 & EL & W0 & EQ & W3 & X3).
  pose proof (lower_correct env o fuel (routine_ctx o sub) (root_ast ast0) Hc None empty_graph s (cr_end cr) g0
                wf_empty EL (g_blk g0) (fun i b H => H) stk st) as T.
  pose proof (tgt_root env _ _ (routine_ctx o sub) _ h eq_refl eq_refl T Hh) as S0.
  destruct (ghalt_props _ _ Hh) as (Hal & _).
  exact (proj1 (EQ HL env stk st h Hal) S0).
Qed.

Theorem routine_end_to_end o sub ast0 cr order code :
  (match sub with Some r => r_deferred r | None => None end) = None ->
  compile_one o sub ast0 = COk cr ->
  head_loop (root_ast ast0) = false ->
  sort_blocks (cr_graph cr) (cr_start cr) (cr_end cr) = Some order ->
  flatten_blocks (cr_graph cr) order = Some code ->
  pos_of (cr_graph cr) order (cr_start cr) = 0 /\
  forall env, consistent env (routine_ctx o sub) ->
  forall fuel stk st h, halt_of (denote env fuel (root_ast ast0) stk st) = Some h ->
    lstar env code (LAt 0 stk st) h /\
    forall c2, lstar env code (LAt 0 stk st) c2 -> lfinal c2 = true -> c2 = h.
Proof.
  intros D E HL HS HF.
  destruct (compiled_routine_facts o sub ast0 cr D E) as (s & g0 & EL & W0 & EQ & W3 & X3).
  pose proof (exits_single_exit _ (cr_start cr) _ X3) as SE.
  pose proof (exits_start_first _ (cr_start cr) _ X3) as H1.
  split.
  - destruct (sort_start_first _ _ _ _ W3 HS H1) as (t & Eo). rewrite Eo. apply pos_of_head.
  - intros env Hc fuel stk st h Hh.
    rewrite (halt_img (pos_of (cr_graph cr) order)) in Hh.
    destruct (ghalt_of (denote env fuel (root_ast ast0) stk st)) as [gh|] eqn:Eg; [|discriminate Hh].
    cbn [option_map] in Hh. injection Hh as Hh. subst h.
    pose proof (routine_graph_correct o sub ast0 cr D E HL env Hc fuel stk st gh Eg) as S3.
    destruct (ghalt_props _ _ Eg) as (_ & Fin & Ok).
    split.
    + exact (flatten_sort_correct env _ _ _ _ _ W3 HS HF SE H1 stk st gh S3 Ok).
    + exact (proj2 (flatten_sort_correct_final env _ _ _ _ _ W3 HS HF SE H1 stk st gh S3 Fin Ok)).
Qed.

(* ---- when the side condition on the root holds ---- *)
(* compile_one wraps a routine that does not end in a return: a statement in Seq(.., Return()), a
   value in Return(value).  The root is loop-headed only if the recipe itself is. *)
Lemma root_head_loop ast0 : head_loop ast0 = false -> head_loop (root_ast ast0) = false.
Proof.
  intros H. unfold root_ast. destruct (has_return ast0); [exact H|].
  destruct (type_of ast0); try reflexivity; exact H.
Qed.

(* a statement without return (in particular a bare loop) is always wrapped in a Seq *)
Lemma root_head_loop_stmt ast0 :
  has_return ast0 = false -> type_of ast0 = TNone -> head_loop (root_ast ast0) = false.
Proof. intros H T. unfold root_ast. rewrite H, T. reflexivity. Qed.

(* the body compileSubroutine builds for a subroutine declaration is a Seq: never loop-headed *)
Lemma decl_body_root_head_loop o r : head_loop (root_ast (decl_body o r)) = false.
Proof. apply root_head_loop. unfold decl_body. destruct (o_use_fp o); reflexivity. Qed.

(* the end-to-end theorem for a subroutine as compile_rec compiles it (no deferred expression, i.e. not
   an ABI-returning subroutine): no side condition left *)
Theorem subroutine_end_to_end o r cr order code :
  r_deferred r = None ->
  compile_one o (Some r) (decl_body o r) = COk cr ->
  sort_blocks (cr_graph cr) (cr_start cr) (cr_end cr) = Some order ->
  flatten_blocks (cr_graph cr) order = Some code ->
  pos_of (cr_graph cr) order (cr_start cr) = 0 /\
  forall env, consistent env (routine_ctx o (Some r)) ->
  forall fuel stk st h, halt_of (denote env fuel (root_ast (decl_body o r)) stk st) = Some h ->
    lstar env code (LAt 0 stk st) h /\
    forall c2, lstar env code (LAt 0 stk st) c2 -> lfinal c2 = true -> c2 = h.
Proof.
  intros D E HS HF.
  exact (routine_end_to_end o (Some r) (decl_body o r) cr order code D E (decl_body_root_head_loop o r) HS HF).
Qed.
