(* GENERATED from Proofs/SlotComposeFinal.v by harness/tools/callx_gen.py (semantics with a call oracle, CallX/Denote.v); do not edit. *)
(* Proofs/SlotComposeFinal.v — the two routes from the source semantics to the slot-assigned linear code
   of one routine agree, and the assigned code does not depend on the abstract reading of variables:

     route A (pipeline order):  compile_one -> rewrite the GRAPH (assign_slots) -> sortBlocks -> flattenBlocks
                                [routine_end_to_end_slots, Proofs/SlotComposeEnd.v]
     route B (linear rewrite):  compile_one -> sortBlocks -> flattenBlocks -> rewrite the CODE
                                [routine_end_to_end_linear: C01's routine_end_to_end + lstar_rw]
     [routine_code_rw] : both produce the same instruction list.

   [routine_end_to_end_assigned] is the statement without any abstract slot: the emitted code has no
   placeholder, is run in an environment with an ARBITRARY e_asg component, and computes what the source
   semantics denotes when its variables are numbered by the assignment. *)
From Coq Require Import List Arith NArith String Bool Lia.
From PV Require Import Base.Bytes AVM.Syntax AVM.Machine Src.Expr CallX.Denote
  Comp.Blocks Comp.Lower Comp.Passes CallX.GraphSem CallX.LinearSem CallX.SimCheck Comp.Compile
  Proofs.LowerFrame CallX.LowerCorrect Proofs.LowerShape CallX.NormalizeSem
  CallX.NormalizeLowered CallX.FlattenCorrect CallX.SortCorrect
  Proofs.EndToEndExits CallX.EndToEndGlue CallX.EndToEnd Proofs.OptimizeSem
  CallX.SlotCompose Proofs.SlotComposeAssign CallX.SlotComposeEnd CallX.SlotComposeCover.
Import ListNotations.

(* route B: C01's end-to-end theorem for the un-assigned code, then the linear-level rewrite theorem *)
Theorem routine_end_to_end_linear o sub ast0 cr look order code0 :
  (match sub with Some r => r_deferred r | None => None end) = None ->
  compile_one o sub ast0 = COk cr ->
  head_loop (root_ast ast0) = false ->
  sort_blocks (cr_graph cr) (cr_start cr) (cr_end cr) = Some order ->
  flatten_blocks (cr_graph cr) order = Some code0 ->
  forall env, consistent env (routine_ctx o sub) ->
  slots_ok env look (routine_slots cr) ->
  forall fuel stk st h, halt_of (denote env fuel (root_ast ast0) stk st) = Some h ->
    lstar env (rw_code look code0) (LAt 0 stk st) h /\
    forall c2, lstar env (rw_code look code0) (LAt 0 stk st) c2 -> lfinal c2 = true -> c2 = h.
Proof.
  intros D E HL HS HF env Hc Hok fuel stk st h Hh.
  destruct (compiled_routine_facts o sub ast0 cr D E) as (s & g0 & _ & _ & _ & W3 & _).
  destruct (routine_end_to_end o sub ast0 cr order code0 D E HL HS HF) as [_ T].
  destruct (T env Hc fuel stk st h Hh) as [T1 T2].
  assert (Hcode : slots_ok env look (code_slots code0)).
  { intros u Hu. apply Hok. apply (routine_code_slots cr order code0); [|exact HF|exact Hu].
    exact (order_covered_plain cr order code0 W3 HS HF). }
  destruct (rewrite_preserves env look code0 Hcode) as (_ & Star & _).
  split; [apply Star; exact T1|]. intros c2 S2 F2. apply T2; [apply Star; exact S2|exact F2].
Qed.

(* the code the pipeline emits for the routine is that rewritten code *)
Theorem routine_assigned_code o sub ast0 cr look order code :
  (match sub with Some r => r_deferred r | None => None end) = None ->
  compile_one o sub ast0 = COk cr ->
  let cr' := rw_routine look cr in
  sort_blocks (cr_graph cr') (cr_start cr') (cr_end cr') = Some order ->
  flatten_blocks (cr_graph cr') order = Some code ->
  sort_blocks (cr_graph cr) (cr_start cr) (cr_end cr) = Some order /\
  (exists code0, flatten_blocks (cr_graph cr) order = Some code0 /\ code = rw_code look code0) /\
  code_slots code = [].
Proof.
  intros D E cr' HS HF.
  destruct (compiled_routine_facts o sub ast0 cr D E) as (s & g0 & _ & _ & _ & W3 & _).
  change (cr_start cr') with (cr_start cr) in HS. change (cr_end cr') with (cr_end cr) in HS.
  destruct (routine_code_rw look cr order code W3 HS HF) as (HS0 & code0 & HF0 & Ec).
  split; [exact HS0|]. split; [exists code0; split; assumption|]. subst code. apply rw_code_no_slots.
Qed.

(* THE statement: no abstract slot left anywhere on the target side *)
Theorem routine_end_to_end_assigned o sub ast0 cr p crs crs' locals asg :
  (match sub with Some r => r_deferred r | None => None end) = None ->
  compile_one o sub ast0 = COk cr ->
  head_loop (root_ast ast0) = false ->
  In cr crs ->
  assign_slots p crs = COk (crs', locals, asg) ->
  requested_valid p (all_slots crs) ->
  let cr' := rw_routine (look_of asg) cr in
  In cr' crs' /\
  forall order code,
  sort_blocks (cr_graph cr') (cr_start cr') (cr_end cr') = Some order ->
  flatten_blocks (cr_graph cr') order = Some code ->
  pos_of (cr_graph cr') order (cr_start cr') = 0 /\
  code_slots code = [] /\
  forall env, consistent env (routine_ctx o sub) ->
  forall fuel stk st h,
    halt_of (denote (with_asg env (look_of asg)) fuel (root_ast ast0) stk st) = Some h ->
    lstar env code (LAt 0 stk st) h /\
    forall c2, lstar env code (LAt 0 stk st) c2 -> lfinal c2 = true -> c2 = h.
Proof.
  intros D E HL Hin HA HV cr'.
  destruct (routine_end_to_end_slots o sub ast0 cr p crs crs' locals asg D E HL Hin HA HV) as [Hin' T].
  split; [exact Hin'|]. intros order code HS HF.
  destruct (T order code HS HF) as [P0 T'].
  destruct (routine_assigned_code o sub ast0 cr (look_of asg) order code D E HS HF) as (_ & _ & NS).
  split; [exact P0|]. split; [exact NS|].
  intros env Hc fuel stk st h Hh.
  destruct (T' (with_asg env (look_of asg)) (consistent_with_asg env _ _ Hc) (agree_with_asg env _ _) fuel stk st h Hh)
    as [T1 T2].
  pose proof (lstar_asg_irrelevant env (look_of asg) code NS) as Irr.
  split; [apply Irr; exact T1|]. intros c2 S2 F2. apply T2; [apply Irr; exact S2|exact F2].
Qed.

(* "each variable a cell of its own" under the assignment: a store to one variable of the program is read
   back from it and leaves every other variable of the program unchanged — what the source semantics
   assumes when it treats [e_asg env u] as the private cell of u *)
Theorem assigned_variables_independent p crs crs' locals asg :
  assign_slots p crs = COk (crs', locals, asg) ->
  forall u1 u2, In u1 (all_slots crs) -> In u2 (all_slots crs) ->
  forall st v,
    scratch_get (s_scratch (set_scratch st (look_of asg u1) v)) (look_of asg u1) = v /\
    (u1 <> u2 ->
     scratch_get (s_scratch (set_scratch st (look_of asg u1) v)) (look_of asg u2) =
     scratch_get (s_scratch st) (look_of asg u2)).
Proof.
  intros HA u1 u2 H1 H2 st v. unfold set_scratch. cbn [s_scratch]. rewrite !scratch_get_aset.
  rewrite N.eqb_refl. split; [reflexivity|]. intros Ne.
  destruct (N.eqb_spec (look_of asg u2) (look_of asg u1)) as [E|E]; [|reflexivity].
  exfalso. apply Ne. symmetry. exact (assign_look_injective p crs crs' locals asg HA u2 u1 H2 H1 E).
Qed.
