(* CallX/GraphSem.v — Comp/GraphSem.v for the operation semantics with a call oracle (CallX/Denote.v):
   a call that ends the program ([do_op] = DExit) ends the block run with [BExit].  Configurations,
   [cont_conf], [gincl] are those of Comp/GraphSem.v. *)
From Coq Require Import List Arith NArith String Bool.
From PV Require Import Base.Bytes AVM.Syntax AVM.Machine Src.Expr CallX.Denote Comp.Blocks.
From PV Require Export Comp.GraphSem.
Import ListNotations.

Fixpoint exec_ops (env : denv) (ops : list instr) (stk : list value) (st : mstate) : bres :=
  match ops with
  | [] => BOk stk st
  | i :: t =>
      if is_return (i_op i) then match stk with v :: _ => BExit v st | [] => BFail end
      else if is_retsub (i_op i) then BRet stk st
      else
        match do_op env (i_op i) (i_args i) stk st with
        | DNorm s' st' => exec_ops env t s' st'
        | DExit v st' => BExit v st'
        | DUnsup o => BUnsup o
        | _ => BFail
        end
  end.

Definition gstep (env : denv) (G : bgraph) (c : gconf) : option gconf :=
  match c with
  | GAt b stk st =>
      match G b with
      | Some (BSimple ops n) =>
          Some (match exec_ops env ops stk st with
                | BOk s' st' => cont_conf n s' st'
                | BExit v st' => GExit v st'
                | BRet s' st' => GRet s' st'
                | BFail => GFail
                | BUnsup o => GUnsup o
                end)
      | Some (BCond ops t f) =>
          Some (match exec_ops env ops stk st with
                | BOk (v :: s') st' =>
                    match truthy v with
                    | Some true => match t with Some x => GAt x s' st' | None => GFail end
                    | Some false => match f with Some x => GAt x s' st' | None => GFail end
                    | None => GFail
                    end
                | BOk [] _ => GFail
                | BExit v st' => GExit v st'
                | BRet s' st' => GRet s' st'
                | BFail => GFail
                | BUnsup o => GUnsup o
                end)
      | None => None
      end
  | _ => None
  end.

Inductive star (env : denv) (G : bgraph) : gconf -> gconf -> Prop :=
| star_refl c : star env G c c
| star_step c c' c'' : gstep env G c = Some c' -> star env G c' c'' -> star env G c c''.

Fixpoint grun (fuel : nat) (env : denv) (G : bgraph) (c : gconf) : gconf :=
  match fuel with
  | O => c
  | S f => match gstep env G c with Some c' => grun f env G c' | None => c end
  end.
