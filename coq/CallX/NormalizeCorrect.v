(* GENERATED from Proofs/NormalizeCorrect.v by harness/tools/callx_gen.py (semantics with a call oracle, CallX/Denote.v); do not edit. *)
(* Proofs/NormalizeCorrect.v — TealBlock.NormalizeBlocks preserves behaviour (C01, stage
   "normalize") and what it does to the parent pointers (C20).

   The BFS of NormalizeBlocks mutates the graph it walks.  The proofs do not depend on the walk at
   all: each pass body preserves an invariant for ANY block it is applied to, so the invariant
   survives [norm_iter] whatever the queue is.

     pass 1 (merge)  : invariant  cond_full /\ incoming ⊇ predecessors (on the part reachable from the
                       current start) /\ "ok" for reachable blocks; the step is a two-to-one simulation
                       ([merge_equiv_*]) provided the start block has no incoming edge.
     pass 2 (by-pass): behaviour is preserved unconditionally given cond_full ([skip_equiv]); the
                       parent pointers survive only with the repaired bodies.

   Everything is proved for the pass bodies parameterised by the edge replacement [ro]
   (Comp/SimCheck.v).  The current code is the instance [replace_outgoing] (both branches of a
   conditional block are re-pointed) with ok := True; the code before the repair 39fa261 of /repo is
   the instance [replace_outgoing_elif] with ok := dist_b (re-pointing ONE branch is complete only on
   blocks whose two branches differ). *)
From Coq Require Import List Arith NArith String Bool Lia.
From PV Require Import Base.Bytes AVM.Syntax AVM.Machine Src.Expr CallX.Denote
  Comp.Blocks Comp.Lower Comp.Passes CallX.GraphSem CallX.SimCheck
  Proofs.LowerFrame CallX.NormalizeSem Proofs.NormalizeGraph Proofs.IncomingProof.
Import ListNotations.

(* ---- equivalence is an equivalence ---- *)
Lemma equiv_from_refl env G s : equiv_from env G s G s.
Proof. intros stk st c _. tauto. Qed.

Lemma equiv_from_trans env G1 s1 G2 s2 G3 s3 :
  equiv_from env G1 s1 G2 s2 -> equiv_from env G2 s2 G3 s3 -> equiv_from env G1 s1 G3 s3.
Proof.
  intros A B stk st c Hh. specialize (A stk st c Hh). specialize (B stk st c Hh). tauto.
Qed.

(* leaving an empty simple block *)
Lemma equiv_from_empty env G s ob : G s = Some (BSimple [] (Some ob)) -> equiv_from env G s G ob.
Proof.
  intros E stk st c Hh. split; intros St.
  - inversion St as [|a b d E1 St']; subst; [destruct Hh|].
    rewrite (gstep_at' _ _ _ _ _ _ E) in E1. cbn in E1. injection E1 as E1. subst b. exact St'.
  - eapply star_step; [apply gstep_at'; exact E|]. exact St.
Qed.

(* ---- an invariant of a pass body is an invariant of the pass, whatever the walk ---- *)
Lemma norm_iter_inv (body : graph -> id -> id -> graph * id) (P : graph -> id -> Prop) :
  (forall g s w g' s', P g s -> body g s w = (g', s') -> P g' s') ->
  forall fuel g s q v g' s', P g s -> norm_iter body fuel g s q v = (g', s') -> P g' s'.
Proof.
  intros Hb. induction fuel as [|f IH]; intros g s q v g' s' HP E; cbn [norm_iter] in E.
  - injection E as E1 E2. subst. exact HP.
  - destruct q as [|w q]; [injection E as E1 E2; subst; exact HP|].
    destruct (body g s w) as [g1 s1] eqn:Eb.
    destruct (enqueue (out_of g w) q v) as [q1 v1].
    eapply IH; [|exact E]. eapply Hb; eauto.
Qed.

Lemma reach_trans g s a b : reach g s a -> reach g a b -> reach g s b.
Proof. intros H1 H2. induction H2; [exact H1|eapply reach_step; eauto]. Qed.

Section Gen.
  Variable ro : block -> id -> id -> block.
  Variable ok : block -> Prop.
  Hypothesis ro_sub : forall b old new, esub old new b (ro b old new).
  Hypothesis ro_complete : forall b old new, ok b -> old <> new -> ~ In old (outgoing (ro b old new)).
  Hypothesis ok_esub : forall b b' old new,
    ok b -> esub old new b b' -> (old = new \/ ~ In new (outgoing b)) -> ok b'.
  Hypothesis ok_set_ops : forall b o, ok b -> ok (set_ops b o).

  (* ========================================================================================= *)
  (* pass 1                                                                                      *)
  (* ========================================================================================= *)
  Definition mg2 (g : graph) (w prev : id) (bb : block) : graph :=
    set_inc (set_blk g w (set_ops bb (get_ops g prev ++ b_ops bb))) w (g_inc g prev).
  Definition mg3 (g : graph) (w prev : id) (bb : block) : graph :=
    fold_left (f1 ro prev w) (g_inc g prev) (mg2 g w prev bb).
  Definition ms (prev s w : id) : id := if Nat.eqb prev s then w else s.

  Lemma gbody1_cases g s w g' s' :
    gbody1 ro g s w = (g', s') ->
    (g' = g /\ s' = s) \/
    exists prev bb, g_inc g w = [prev] /\ out_of g prev = [w] /\ g_blk g w = Some bb /\
                    g' = mg3 g w prev bb /\ s' = ms prev s w.
  Proof.
    unfold gbody1. destruct (g_inc g w) as [|prev [|? ?]] eqn:Ei; try (intros E; injection E as E1 E2; subst; auto; fail).
    destruct (out_of g prev) as [|x [|? ?]] eqn:Eo; try (intros E; injection E as E1 E2; subst; auto; fail).
    destruct (Nat.eqb_spec x w) as [Q|Q]; [|intros E; injection E as E1 E2; subst; auto].
    subst x. destruct (g_blk g w) as [bb|] eqn:Eb; [|intros E; injection E as E1 E2; subst; auto].
    intros E. injection E as E1 E2. right. exists prev, bb. repeat split; auto.
  Qed.

  Section MergeStep.
    Variables (g : graph) (s w prev : id) (bb : block).
    Hypothesis Hinc : g_inc g w = [prev].
    Hypothesis Hout : out_of g prev = [w].
    Hypothesis Hbb : g_blk g w = Some bb.
    Hypothesis Hfull : cond_full g.
    Hypothesis Hcov : inc_covers g s.
    Hypothesis Hok : forall p b, reach g s p -> g_blk g p = Some b -> ok b.

    Local Notation pops := (get_ops g prev).
    Local Notation pinc := (g_inc g prev).
    Local Notation g2 := (mg2 g w prev bb).
    Local Notation g3 := (mg3 g w prev bb).
    Local Notation s' := (ms prev s w).
    Local Notation rdm := (rd prev w).

    Lemma m_prev : g_blk g prev = Some (BSimple pops (Some w)).
    Proof.
      destruct (out_single g prev w Hfull Hout) as (o & E).
      unfold get_ops. rewrite E. reflexivity.
    Qed.

    Lemma m_g2_blk i :
      g_blk g2 i = if Nat.eqb i w then Some (set_ops bb (pops ++ b_ops bb)) else g_blk g i.
    Proof. reflexivity. Qed.

    Lemma m_g2_out i : out_of g2 i = out_of g i.
    Proof.
      unfold out_of. rewrite m_g2_blk. destruct (Nat.eqb_spec i w) as [E|E]; [|reflexivity].
      subst i. rewrite Hbb. apply outgoing_set_ops.
    Qed.

    Lemma m_g3_inc x : g_inc g3 x = if Nat.eqb x w then pinc else g_inc g x.
    Proof.
      unfold mg3. destruct (fold1_inc ro prev w pinc g2) as [E _]. rewrite E. reflexivity.
    Qed.

    Definition mP (x : id) : Prop := reach g s x /\ (prev <> w -> x <> prev).

    Lemma m_g2_ok x b : reach g s x -> g_blk g2 x = Some b -> ok b.
    Proof.
      intros R. rewrite m_g2_blk. destruct (Nat.eqb_spec x w) as [E|E].
      - subst x. intros H. injection H as H. subst b. apply ok_set_ops. eapply Hok; eauto.
      - apply Hok. exact R.
    Qed.

    Lemma m_g3_blk x : mP x -> g_blk g3 x = option_map (map_out rdm) (g_blk g2 x).
    Proof.
      intros [R NP].
      pose proof (fold1_blk ro ro_sub prev w pinc g2 x) as H. fold g3 in H.
      destruct (g_blk g2 x) as [b|] eqn:E2; [|exact H].
      destruct H as (b' & H1 & H2). rewrite H1. cbn [option_map]. f_equal.
      destruct (Nat.eq_dec prev w) as [Q|Q].
      - rewrite Q in H2. apply esub_same in H2. rewrite H2. symmetry. apply map_out_id.
        intros y. rewrite Q. apply rd_same.
      - apply esub_complete_map; [exact H2|].
        pose proof (m_g2_ok x b R E2) as Ob.
        destruct (in_dec Nat.eq_dec x pinc) as [I|I].
        + destruct (fold1_complete ro ro_sub prev w pinc g2 x b I E2 Q (ro_complete b prev w Ob Q))
            as (b'' & K1 & K2).
          fold g3 in K1. rewrite H1 in K1. injection K1 as K1. subst b''. exact K2.
        + pose proof (fold1_notin ro prev w pinc g2 x I) as K. fold g3 in K.
          rewrite H1, E2 in K. injection K as K. subst b'.
          intros Hin. apply I. apply (Hcov x prev R).
          rewrite <- m_g2_out. rewrite (out_of_blk _ _ _ E2). exact Hin.
    Qed.

    Lemma m_g3_out p : mP p -> out_of g3 p = map rdm (out_of g p).
    Proof.
      intros HP. rewrite <- m_g2_out. unfold out_of at 1 2. rewrite (m_g3_blk p HP).
      destruct (g_blk g2 p) as [b|]; [|reflexivity]. cbn [option_map]. apply outgoing_map_out.
    Qed.

    Lemma m_P_step p x : mP p -> In x (out_of g3 p) ->
      mP x /\ exists x0, In x0 (out_of g p) /\ x = rdm x0.
    Proof.
      intros HP I. rewrite (m_g3_out p HP) in I. apply in_map_iff in I.
      destruct I as (x0 & E & I). subst x. split; [|eauto].
      destruct HP as [R NP]. unfold rd. destruct (Nat.eqb_spec x0 prev) as [Q|Q].
      - subst x0. split.
        + eapply reach_step; [eapply reach_step; [exact R|exact I]|]. rewrite Hout. left. reflexivity.
        + intros N. congruence.
      - split; [eapply reach_step; eauto|]. intros _. exact Q.
    Qed.

    Lemma m_P_start : mP s'.
    Proof.
      unfold ms. destruct (Nat.eqb_spec prev s) as [Q|Q].
      - split; [|congruence]. eapply reach_step; [apply reach_refl|].
        rewrite <- Q, Hout. left. reflexivity.
      - split; [apply reach_refl|]. intros _. congruence.
    Qed.

    Lemma m_reach x : reach g3 s' x -> mP x.
    Proof.
      induction 1 as [|p x R IH I]; [apply m_P_start|]. apply (m_P_step p x IH I).
    Qed.

    (* no block of interest other than [prev] enters [w] *)
    Lemma m_noedge i : mP i -> In w (out_of g i) -> w = prev.
    Proof.
      intros [R NP] I. pose proof (Hcov i w R I) as K. rewrite Hinc in K.
      destruct K as [K|[]]. destruct (Nat.eq_dec prev w) as [Q|Q]; [congruence|].
      exfalso. apply (NP Q). congruence.
    Qed.

    Lemma m_equiv env : g_inc g s = [] -> equiv_from env (g_blk g) s (g_blk g3) s'.
    Proof.
      intros Hs.
      assert (C : forall i b x, mP i -> g_blk g3 i = Some b -> In x (outgoing b) -> mP x).
      { intros i b x Pi E I. apply (m_P_step i x Pi). rewrite (out_of_blk _ _ _ E). exact I. }
      assert (Oth : forall i, mP i -> i <> w -> g_blk g3 i = option_map (map_out rdm) (g_blk g i)).
      { intros i Pi N. rewrite (m_g3_blk i Pi), m_g2_blk.
        destruct (Nat.eqb_spec i w); [contradiction|reflexivity]. }
      assert (Blk : mP w -> g_blk g3 w = Some (map_out rdm (set_ops bb (pops ++ b_ops bb)))).
      { intros Pw. rewrite (m_g3_blk w Pw), m_g2_blk, Nat.eqb_refl. reflexivity. }
      assert (Ne : forall i b, mP i -> g_blk g i = Some b -> In w (outgoing b) -> w = prev).
      { intros i b Pi E I. apply (m_noedge i Pi). rewrite (out_of_blk _ _ _ E). exact I. }
      unfold ms. destruct (Nat.eqb_spec prev s) as [Q|Q].
      - rewrite <- Q.
        apply (merge_equiv_prev env (g_blk g) (g_blk g3) prev w pops bb mP m_prev Hbb C Oth Blk Ne).
        pose proof m_P_start as K. unfold ms in K.
        destruct (Nat.eqb_spec prev s); [exact K|contradiction].
      - apply (merge_equiv_same env (g_blk g) (g_blk g3) prev w pops bb mP m_prev Hbb C Oth Blk Ne).
        + pose proof m_P_start as K. unfold ms in K.
          destruct (Nat.eqb_spec prev s); [contradiction|exact K].
        + intros E. pose proof Hinc as K. rewrite <- E, Hs in K. discriminate.
    Qed.

    Lemma m_full : cond_full g3.
    Proof.
      intros i b' E. pose proof (fold1_blk ro ro_sub prev w pinc g2 i) as H. fold g3 in H.
      destruct (g_blk g2 i) as [b|] eqn:E2; [|congruence].
      destruct H as (b'' & H1 & H2). rewrite E in H1. injection H1 as H1. subst b''.
      apply (esub_full _ _ _ _ H2). rewrite m_g2_blk in E2.
      destruct (Nat.eqb_spec i w) as [Q|Q].
      - injection E2 as E2. subst b. apply full_set_ops. eapply Hfull; eauto.
      - eapply Hfull; eauto.
    Qed.

    Lemma m_cov : inc_covers g3 s'.
    Proof.
      intros p x R I. apply m_reach in R.
      destruct (m_P_step p x R I) as (_ & x0 & I0 & E). subst x.
      destruct R as [R NP]. pose proof (Hcov p x0 R I0) as K.
      rewrite m_g3_inc. unfold rd. destruct (Nat.eqb_spec x0 prev) as [Q|Q].
      - subst x0. rewrite Nat.eqb_refl. exact K.
      - destruct (Nat.eqb_spec x0 w) as [Q'|Q']; [|exact K].
        subst x0. rewrite Hinc in K. destruct K as [K|[]]. subst p.
        destruct (Nat.eq_dec prev w) as [Q2|Q2]; [congruence|]. exfalso. apply (NP Q2). reflexivity.
    Qed.

    Lemma m_ok p b : reach g3 s' p -> g_blk g3 p = Some b -> ok b.
    Proof.
      intros R E. apply m_reach in R.
      pose proof (fold1_blk ro ro_sub prev w pinc g2 p) as H. fold g3 in H.
      destruct (g_blk g2 p) as [b0|] eqn:E2; [|congruence].
      destruct H as (b'' & H1 & H2). rewrite E in H1. injection H1 as H1. subst b''.
      apply (ok_esub b0 b prev w); [apply (m_g2_ok p b0 (proj1 R) E2)|exact H2|].
      destruct (Nat.eq_dec prev w) as [Q|Q]; [left; exact Q|right].
      intros I. apply Q. symmetry. apply (m_noedge p R).
      rewrite <- m_g2_out, (out_of_blk _ _ _ E2). exact I.
    Qed.

    Lemma m_start : g_inc g s = [] -> g_inc g3 s' = [].
    Proof.
      intros Hs. rewrite m_g3_inc. unfold ms. destruct (Nat.eqb_spec prev s) as [Q|Q].
      - rewrite Nat.eqb_refl. rewrite Q. exact Hs.
      - destruct (Nat.eqb_spec s w) as [Q'|Q']; [|exact Hs].
        pose proof Hinc as K. rewrite <- Q', Hs in K. discriminate.
    Qed.

    Lemma m_nodup : (forall x, NoDup (g_inc g x)) -> forall x, NoDup (g_inc g3 x).
    Proof.
      intros H x. rewrite m_g3_inc. destruct (Nat.eqb x w); apply H.
    Qed.

    Lemma m_next : g_next g3 = g_next g.
    Proof. unfold mg3. destruct (fold1_inc ro prev w pinc g2) as [_ E]. rewrite E. reflexivity. Qed.

    Lemma m_dom i : g_blk g3 i = None <-> g_blk g i = None.
    Proof.
      pose proof (fold1_blk ro ro_sub prev w pinc g2 i) as H. fold g3 in H. rewrite m_g2_blk in H.
      destruct (Nat.eqb_spec i w) as [Q|Q].
      - subst i. destruct H as (b' & H1 & _). rewrite H1, Hbb. split; discriminate.
      - destruct (g_blk g i) as [b|]; [|split; [reflexivity|intros _; exact H]].
        destruct H as (b' & H1 & _). rewrite H1. split; discriminate.
    Qed.
  End MergeStep.

  (* the invariant of pass 1 *)
  Record inv1 (g : graph) (s : id) : Prop := {
    i1_full : cond_full g;
    i1_cov : inc_covers g s;
    i1_ok : forall p b, reach g s p -> g_blk g p = Some b -> ok b
  }.

  Lemma body1_inv g s w g' s' : inv1 g s -> gbody1 ro g s w = (g', s') -> inv1 g' s'.
  Proof.
    intros [F C O] E. apply gbody1_cases in E.
    destruct E as [[E1 E2]|(prev & bb & Hi & Ho & Hb & E1 & E2)]; subst; [constructor; assumption|].
    constructor.
    - apply m_full; assumption.
    - apply m_cov; assumption.
    - intros p b. apply m_ok; assumption.
  Qed.

  Definition sem1 (env : denv) (G0 : bgraph) (s0 : id) (g : graph) (s : id) : Prop :=
    inv1 g s /\ g_inc g s = [] /\ equiv_from env G0 s0 (g_blk g) s.

  Lemma body1_sem env G0 s0 g s w g' s' :
    sem1 env G0 s0 g s -> gbody1 ro g s w = (g', s') -> sem1 env G0 s0 g' s'.
  Proof.
    intros (I & Hs & Eq) E. split; [eapply body1_inv; eauto|].
    destruct I as [F C O]. apply gbody1_cases in E.
    destruct E as [[E1 E2]|(prev & bb & Hi & Ho & Hb & E1 & E2)]; subst; [split; assumption|].
    split.
    - apply m_start; assumption.
    - eapply equiv_from_trans; [exact Eq|]. apply m_equiv; assumption.
  Qed.

  Lemma body1_nodup g s w g' s' :
    cond_full g -> (forall x, NoDup (g_inc g x)) -> gbody1 ro g s w = (g', s') -> forall x, NoDup (g_inc g' x).
  Proof.
    intros F N E. apply gbody1_cases in E.
    destruct E as [[E1 E2]|(prev & bb & Hi & Ho & Hb & E1 & E2)]; subst; [exact N|].
    apply m_nodup; assumption.
  Qed.

  Lemma body1_shape g s w g' s' :
    gbody1 ro g s w = (g', s') ->
    g_next g' = g_next g /\ forall i, g_blk g' i = None <-> g_blk g i = None.
  Proof.
    intros E. apply gbody1_cases in E.
    destruct E as [[E1 E2]|(prev & bb & Hi & Ho & Hb & E1 & E2)]; subst; [split; tauto|].
    split; [apply m_next|intros i; apply m_dom; assumption].
  Qed.

  (* ========================================================================================= *)
  (* pass 2                                                                                      *)
  (* ========================================================================================= *)
  Definition bg1 (g : graph) (w ob : id) : graph := set_inc g ob (remove_first w (g_inc g ob)).
  Definition bg2 (g : graph) (w ob : id) : graph :=
    fold_left (f2 ro w ob) (g_inc (bg1 g w ob) w) (bg1 g w ob).
  Definition bs (fixstart : bool) (s w ob : id) : id := if fixstart && Nat.eqb w s then ob else s.

  Lemma gbody2_cases fs ss g s w g' s' :
    gbody2 ro fs ss g s w = (g', s') ->
    (g' = g /\ s' = s) \/
    exists ob, get_ops g w = [] /\ out_of g w = [ob] /\ (ss = true -> ob <> w) /\
               g' = bg2 g w ob /\ s' = bs fs s w ob.
  Proof.
    unfold gbody2. destruct (get_ops g w) eqn:Eg; [|intros E; injection E as E1 E2; subst; auto].
    destruct (out_of g w) as [|ob [|? ?]] eqn:Eo; try (intros E; injection E as E1 E2; subst; auto; fail).
    destruct (ss && Nat.eqb ob w) eqn:Es; [intros E; injection E as E1 E2; subst; auto|].
    intros E. injection E as E1 E2. right. exists ob. repeat split; auto.
    intros Q1 Q2. subst. rewrite Nat.eqb_refl in Es. discriminate.
  Qed.

  Section BypassStep.
    Variables (g : graph) (s w ob : id).
    Hypothesis Hops : get_ops g w = [].
    Hypothesis Hout : out_of g w = [ob].
    Hypothesis Hfull : cond_full g.

    Local Notation g1 := (bg1 g w ob).
    Local Notation g2 := (bg2 g w ob).
    Local Notation rdb := (rd w ob).

    Lemma b_blk : g_blk g w = Some (BSimple [] (Some ob)).
    Proof.
      destruct (out_single g w ob Hfull Hout) as (o & E).
      unfold get_ops in Hops. rewrite E in Hops. cbn in Hops. subst o. exact E.
    Qed.

    Lemma b_sub i :
      match g_blk g i with
      | None => g_blk g2 i = None
      | Some b => exists b', g_blk g2 i = Some b' /\ esub w ob b b'
      end.
    Proof. exact (fold2_blk ro ro_sub w ob (g_inc g1 w) g1 i). Qed.

    Lemma b_gskip : gskip (g_blk g) (g_blk g2).
    Proof.
      intros i. pose proof (b_sub i) as H. destruct (g_blk g i) as [b|]; [|rewrite H; exact Logic.I].
      destruct H as (b' & H1 & H2). rewrite H1. eapply esub_bskip; [exact b_blk|exact H2].
    Qed.

    Lemma b_equiv env fs : equiv_from env (g_blk g) s (g_blk g2) (bs fs s w ob).
    Proof.
      unfold bs. destruct (fs && Nat.eqb w s) eqn:E.
      - apply andb_true_iff in E. destruct E as [_ E]. apply Nat.eqb_eq in E. rewrite <- E.
        eapply equiv_from_trans; [apply equiv_from_empty; exact b_blk|].
        apply skip_equiv. exact b_gskip.
      - apply skip_equiv. exact b_gskip.
    Qed.

    Lemma b_full : cond_full g2.
    Proof.
      intros i b' E. pose proof (b_sub i) as H. destruct (g_blk g i) as [b|] eqn:Eb; [|congruence].
      destruct H as (b'' & H1 & H2). rewrite E in H1. injection H1 as H1. subst b''.
      apply (esub_full _ _ _ _ H2). eapply Hfull; eauto.
    Qed.

    Lemma b_next : g_next g2 = g_next g.
    Proof. unfold bg2. rewrite fold2_next. reflexivity. Qed.

    Lemma b_dom i : g_blk g2 i = None <-> g_blk g i = None.
    Proof.
      pose proof (b_sub i) as H. destruct (g_blk g i) as [b|]; [|split; [reflexivity|intros _; exact H]].
      destruct H as (b' & H1 & _). rewrite H1. split; discriminate.
    Qed.

    (* ---- parent pointers, for the repaired bodies ---- *)
    Hypothesis Hneq : ob <> w.
    Hypothesis Hcov : inc_covers g s.
    Hypothesis Hok : forall p b, reach g s p -> g_blk g p = Some b -> ok b.

    Definition bP (x : id) : Prop := reach g s x /\ x <> w.

    Lemma b_g1_inc_w : g_inc g1 w = g_inc g w.
    Proof.
      unfold bg1. cbn [set_inc g_inc]. unfold upd. destruct (Nat.eqb_spec w ob); [congruence|reflexivity].
    Qed.

    Lemma b_g2_blk x : bP x -> g_blk g2 x = option_map (map_out rdb) (g_blk g x).
    Proof.
      intros [R N]. pose proof (b_sub x) as H.
      destruct (g_blk g x) as [b|] eqn:Eb; [|exact H].
      destruct H as (b' & H1 & H2). rewrite H1. cbn [option_map]. f_equal.
      assert (Q : w <> ob) by congruence.
      apply esub_complete_map; [exact H2|].
      destruct (in_dec Nat.eq_dec x (g_inc g w)) as [I|I].
      - rewrite <- b_g1_inc_w in I.
        destruct (fold2_complete ro ro_sub w ob (g_inc g1 w) g1 x b I Eb Q
                    (ro_complete b w ob (Hok x b R Eb) Q)) as (b'' & K1 & K2).
        fold g2 in K1. rewrite H1 in K1. injection K1 as K1. subst b''. exact K2.
      - rewrite <- b_g1_inc_w in I.
        pose proof (fold2_notin ro w ob (g_inc g1 w) g1 x I) as K. fold g2 in K.
        change (g_blk g1 x) with (g_blk g x) in K. rewrite H1, Eb in K. injection K as K. subst b'.
        intros Hin. apply I. rewrite b_g1_inc_w. apply (Hcov x w R).
        rewrite (out_of_blk _ _ _ Eb). exact Hin.
    Qed.

    Lemma b_g2_out p : bP p -> out_of g2 p = map rdb (out_of g p).
    Proof.
      intros HP. unfold out_of. rewrite (b_g2_blk p HP).
      destruct (g_blk g p) as [b|]; [|reflexivity]. cbn [option_map]. apply outgoing_map_out.
    Qed.

    Lemma b_P_step p x : bP p -> In x (out_of g2 p) ->
      bP x /\ exists x0, In x0 (out_of g p) /\ x = rdb x0.
    Proof.
      intros HP I. rewrite (b_g2_out p HP) in I. apply in_map_iff in I.
      destruct I as (x0 & E & I). subst x. split; [|eauto].
      destruct HP as [R N]. unfold rd. destruct (Nat.eqb_spec x0 w) as [Q|Q].
      - subst x0. split; [|exact Hneq].
        eapply reach_step; [eapply reach_step; [exact R|exact I]|]. rewrite Hout. left. reflexivity.
      - split; [eapply reach_step; eauto|exact Q].
    Qed.

    Lemma b_P_start : bP (bs true s w ob).
    Proof.
      unfold bs. cbn [andb]. destruct (Nat.eqb_spec w s) as [Q|Q].
      - split; [|exact Hneq]. eapply reach_step; [apply reach_refl|].
        rewrite <- Q, Hout. left. reflexivity.
      - split; [apply reach_refl|congruence].
    Qed.

    Lemma b_reach x : reach g2 (bs true s w ob) x -> bP x.
    Proof.
      induction 1 as [|p x R IH I]; [apply b_P_start|]. apply (b_P_step p x IH I).
    Qed.

    Lemma b_g2_inc_other x : x <> ob -> g_inc g2 x = g_inc g x.
    Proof.
      intros N. unfold bg2. rewrite fold2_inc_other by exact N.
      unfold bg1. cbn [set_inc g_inc]. unfold upd. destruct (Nat.eqb_spec x ob); [contradiction|reflexivity].
    Qed.

    Lemma b_g1_inc_ob : g_inc g1 ob = remove_first w (g_inc g ob).
    Proof. unfold bg1. cbn [set_inc g_inc]. unfold upd. rewrite Nat.eqb_refl. reflexivity. Qed.

    Lemma b_cov : inc_covers g2 (bs true s w ob).
    Proof.
      intros p x R I. apply b_reach in R.
      destruct (b_P_step p x R I) as (_ & x0 & I0 & E). subst x.
      destruct R as [R N]. pose proof (Hcov p x0 R I0) as K.
      destruct (fold2_inc_new ro w ob (g_inc g1 w) g1) as (A1 & A2 & _). fold g2 in A1, A2.
      unfold rd. destruct (Nat.eqb_spec x0 w) as [Q|Q].
      - subst x0. apply A2. rewrite b_g1_inc_w. exact K.
      - destruct (Nat.eq_dec x0 ob) as [Q'|Q'].
        + subst x0. apply A1. rewrite b_g1_inc_ob. apply remove_first_in; assumption.
        + rewrite b_g2_inc_other by exact Q'. exact K.
    Qed.

    Lemma b_nodup : (forall x, NoDup (g_inc g x)) -> forall x, NoDup (g_inc g2 x).
    Proof.
      intros H x. destruct (Nat.eq_dec x ob) as [Q|Q].
      - subst x. destruct (fold2_inc_new ro w ob (g_inc g1 w) g1) as (_ & _ & A3). apply A3.
        rewrite b_g1_inc_ob. apply remove_first_nodup. apply H.
      - rewrite b_g2_inc_other by exact Q. apply H.
    Qed.
  End BypassStep.

  Definition sem2 (env : denv) (G0 : bgraph) (s0 : id) (g : graph) (s : id) : Prop :=
    cond_full g /\ equiv_from env G0 s0 (g_blk g) s.

  Lemma body2_sem env G0 s0 fs ss g s w g' s' :
    sem2 env G0 s0 g s -> gbody2 ro fs ss g s w = (g', s') -> sem2 env G0 s0 g' s'.
  Proof.
    intros [F Eq] E. apply gbody2_cases in E.
    destruct E as [[E1 E2]|(ob & Hg & Ho & Hs & E1 & E2)]; subst; [split; assumption|].
    split; [apply b_full; assumption|].
    eapply equiv_from_trans; [exact Eq|]. apply b_equiv; assumption.
  Qed.

  Lemma body2_shape fs ss g s w g' s' :
    cond_full g -> gbody2 ro fs ss g s w = (g', s') ->
    cond_full g' /\ g_next g' = g_next g /\ forall i, g_blk g' i = None <-> g_blk g i = None.
  Proof.
    intros F E. apply gbody2_cases in E.
    destruct E as [[E1 E2]|(ob & Hg & Ho & Hs & E1 & E2)]; subst; [repeat split; tauto|].
    split; [apply b_full; assumption|]. split; [apply b_next|intros i; apply b_dom].
  Qed.

  (* ---- the whole of NormalizeBlocks, any variant: behaviour ---- *)
  Theorem gnormalize_correct env fs ss g s g' s' :
    cond_full g -> inc_covers g s ->
    (forall p b, reach g s p -> g_blk g p = Some b -> ok b) ->
    g_inc g s = [] ->
    gnormalize ro fs ss g s = (g', s') ->
    equiv_from env (g_blk g) s (g_blk g') s'.
  Proof.
    intros F C O Hs E. unfold gnormalize in E.
    destruct (norm_iter (gbody1 ro) (S (g_next g)) g s [s] [s]) as [ga sa] eqn:E1.
    assert (A : sem1 env (g_blk g) s ga sa).
    { refine (norm_iter_inv (gbody1 ro) (sem1 env (g_blk g) s) _ _ _ _ _ _ _ _ _ E1).
      - intros. eapply body1_sem; eauto.
      - split; [constructor; assumption|split; [exact Hs|apply equiv_from_refl]]. }
    destruct A as ([Fa _ _] & _ & Eqa).
    assert (B : sem2 env (g_blk g) s g' s').
    { refine (norm_iter_inv (gbody2 ro fs ss) (sem2 env (g_blk g) s) _ _ _ _ _ _ _ _ _ E).
      - intros. eapply body2_sem; eauto.
      - split; [exact Fa|exact Eqa]. }
    exact (proj2 B).
  Qed.

  (* ---- the whole of NormalizeBlocks, repaired variant: parent pointers ---- *)
  Hypothesis ok_all : forall b, ok b.

  Definition tinv (g : graph) (s : id) : Prop :=
    cond_full g /\ inc_covers g s /\ (forall x, NoDup (g_inc g x)).

  Lemma body1_tinv g s w g' s' : tinv g s -> gbody1 ro g s w = (g', s') -> tinv g' s'.
  Proof.
    intros (F & C & N) E.
    assert (I : inv1 g s) by (constructor; auto).
    pose proof (body1_inv g s w g' s' I E) as [F' C' _].
    repeat split; auto. exact (body1_nodup g s w g' s' F N E).
  Qed.

  Lemma body2_tinv g s w g' s' : tinv g s -> gbody2 ro true true g s w = (g', s') -> tinv g' s'.
  Proof.
    intros (F & C & N) E. apply gbody2_cases in E.
    destruct E as [[E1 E2]|(ob & Hg & Ho & Hs & E1 & E2)]; subst; [repeat split; assumption|].
    specialize (Hs eq_refl). repeat split.
    - apply b_full; assumption.
    - apply b_cov; auto.
    - apply b_nodup; assumption.
  Qed.

  Theorem gnormalize_tinv g s g' s' :
    tinv g s -> gnormalize ro true true g s = (g', s') -> tinv g' s'.
  Proof.
    intros T E. unfold gnormalize in E.
    destruct (norm_iter (gbody1 ro) (S (g_next g)) g s [s] [s]) as [ga sa] eqn:E1.
    assert (A : tinv ga sa).
    { refine (norm_iter_inv (gbody1 ro) tinv _ _ _ _ _ _ _ _ T E1). intros. eapply body1_tinv; eauto. }
    refine (norm_iter_inv (gbody2 ro true true) tinv _ _ _ _ _ _ _ _ A E).
    intros. eapply body2_tinv; eauto.
  Qed.
End Gen.

(* the shape of the graph (allocated ids, id counter) is untouched by every variant *)
Lemma gnormalize_shape ro fs ss g s g' s' :
  (forall b old new, esub old new b (ro b old new)) ->
  cond_full g -> gnormalize ro fs ss g s = (g', s') ->
  g_next g' = g_next g /\ forall i, g_blk g' i = None <-> g_blk g i = None.
Proof.
  intros Hro F E. unfold gnormalize in E.
  destruct (norm_iter (gbody1 ro) (S (g_next g)) g s [s] [s]) as [ga sa] eqn:E1.
  pose (P := fun (h : graph) (_ : id) =>
               cond_full h /\ g_next h = g_next g /\ forall i, g_blk h i = None <-> g_blk g i = None).
  assert (A : P ga sa).
  { refine (norm_iter_inv (gbody1 ro) P _ _ _ _ _ _ _ _ _ E1); [|unfold P; repeat split; tauto].
    unfold P. intros h t w h' t' (Fh & Nh & Dh) Eb.
    destruct (body1_shape ro Hro h t w h' t' Eb) as [N' D'].
    split; [|split; [congruence|intros i; rewrite D'; apply Dh]].
    apply gbody1_cases in Eb.
    destruct Eb as [[Q1 Q2]|(prev & bb & Hi & Ho & Hb & Q1 & Q2)]; subst; [exact Fh|].
    apply m_full; assumption. }
  assert (B : P g' s').
  { refine (norm_iter_inv (gbody2 ro fs ss) P _ _ _ _ _ _ _ _ A E).
    unfold P. intros h t w h' t' (Fh & Nh & Dh) Eb.
    destruct (body2_shape ro Hro fs ss h t w h' t' Fh Eb) as (F' & N' & D').
    split; [exact F'|split; [congruence|intros i; rewrite D'; apply Dh]]. }
  destruct B as (_ & B1 & B2). split; assumption.
Qed.

(* =========================================================================================== *)
(* instances                                                                                    *)
(* =========================================================================================== *)

(* ---- the current code ---- *)
Theorem normalize_correct env g s g' s' :
  cond_full g -> inc_covers g s -> g_inc g s = [] ->
  normalize g s = (g', s') ->
  equiv_from env (g_blk g) s (g_blk g') s'.
Proof.
  intros F C Hs E. rewrite <- gnormalize_faithful in E.
  eapply (gnormalize_correct replace_outgoing (fun _ => True)); eauto.
  - apply replace_outgoing_esub.
  - intros b old new _. apply replace_outgoing_complete.
Qed.

(* the invariant behind validateTree's assertion *)
Theorem normalize_tinv g s g' s' :
  cond_full g -> inc_covers g s -> (forall x, NoDup (g_inc g x)) ->
  normalize g s = (g', s') ->
  cond_full g' /\ inc_covers g' s' /\ (forall x, NoDup (g_inc g' x)).
Proof.
  intros F C N E. rewrite <- gnormalize_faithful in E.
  eapply (gnormalize_tinv replace_outgoing (fun _ => True)); eauto.
  - apply replace_outgoing_esub.
  - intros b old new _. apply replace_outgoing_complete.
  - repeat split; assumption.
Qed.

Theorem normalize_shape g s g' s' :
  cond_full g -> normalize g s = (g', s') ->
  g_next g' = g_next g /\ forall i, g_blk g' i = None <-> g_blk g i = None.
Proof.
  intros F E. rewrite <- gnormalize_faithful in E.
  exact (gnormalize_shape replace_outgoing true true g s g' s' replace_outgoing_esub F E).
Qed.

(* ---- the per-step statements for the current bodies ---- *)

(* pass 2: by-passing an empty single-successor block preserves the observable behaviour from EVERY
   block (the by-passed one included: it still leads to its successor), whatever the incoming lists
   contain; when the by-passed block was the start, the new start is its successor *)
Theorem norm_body2_preserves env g s w g' s' :
  cond_full g -> norm_body2 g s w = (g', s') ->
  cond_full g' /\ equiv_from env (g_blk g) s (g_blk g') s' /\
  forall i, equiv_from env (g_blk g) i (g_blk g') i.
Proof.
  intros F E. rewrite <- gbody2_faithful in E. apply gbody2_cases in E.
  destruct E as [[E1 E2]|(ob & Hg & Ho & Hs & E1 & E2)]; subst.
  - split; [exact F|]. split; [apply equiv_from_refl|]. intros i. apply equiv_from_refl.
  - split; [apply b_full; [apply replace_outgoing_esub|exact F]|].
    split; [apply b_equiv; [apply replace_outgoing_esub|exact Hg|exact Ho|exact F]|].
    intros i. apply skip_equiv. apply b_gskip; [apply replace_outgoing_esub|exact Hg|exact Ho|exact F].
Qed.

(* pass 1: one merge step is a two-to-one simulation, and keeps the invariant *)
Theorem norm_body1_preserves env g s w g' s' :
  cond_full g -> inc_covers g s -> g_inc g s = [] ->
  norm_body1 g s w = (g', s') ->
  equiv_from env (g_blk g) s (g_blk g') s' /\
  cond_full g' /\ inc_covers g' s' /\ g_inc g' s' = [].
Proof.
  intros F C Hs E. rewrite <- gbody1_faithful in E.
  assert (A : sem1 (fun _ => True) env (g_blk g) s g s)
    by (split; [constructor; auto|split; [exact Hs|apply equiv_from_refl]]).
  pose proof (body1_sem replace_outgoing (fun _ => True) replace_outgoing_esub
                (fun b old new _ => replace_outgoing_complete b old new)
                (fun _ _ _ _ _ _ _ => Logic.I) (fun _ _ _ => Logic.I)
                env (g_blk g) s g s w g' s' A E) as ([F' C' _] & Hs' & Eq).
  split; [exact Eq|]. split; [exact F'|]. split; [exact C'|exact Hs'].
Qed.

(* ---- HISTORICAL: the code before the repair, and the partial repairs, preserved behaviour too
   (the defects were AssertionErrors, not miscompilations) — but the [elif] replacement needed the
   two branches of every reachable conditional block to differ ---- *)
Theorem normalize_pinned_correct env g s g' s' :
  cond_full g ->
  (forall p b, reach g s p -> g_blk g p = Some b -> dist_b b) ->
  inc_covers g s -> g_inc g s = [] ->
  normalize_pinned g s = (g', s') ->
  equiv_from env (g_blk g) s (g_blk g') s'.
Proof.
  intros F D C Hs E.
  eapply (gnormalize_correct replace_outgoing_elif dist_b); eauto.
  - apply replace_outgoing_elif_esub.
  - apply replace_outgoing_elif_complete.
  - apply dist_esub.
  - intros b o. apply dist_set_ops.
Qed.

Theorem normalize_startfix_correct env g s g' s' :
  cond_full g ->
  (forall p b, reach g s p -> g_blk g p = Some b -> dist_b b) ->
  inc_covers g s -> g_inc g s = [] ->
  normalize_startfix g s = (g', s') ->
  equiv_from env (g_blk g) s (g_blk g') s'.
Proof.
  intros F D C Hs E.
  eapply (gnormalize_correct replace_outgoing_elif dist_b); eauto.
  - apply replace_outgoing_elif_esub.
  - apply replace_outgoing_elif_complete.
  - apply dist_esub.
  - intros b o. apply dist_set_ops.
Qed.

(* =========================================================================================== *)
(* the forms used by the pipeline                                                               *)
(* =========================================================================================== *)
(* [norm_cert] (Comp/SimCheck.v) decides the side conditions of [normalize_correct] *)
Theorem norm_cert_sound env g s g' s' :
  wf g -> norm_cert g s = true -> normalize g s = (g', s') ->
  equiv_from env (g_blk g) s (g_blk g') s'.
Proof.
  intros W H E. unfold norm_cert in H. apply andb_true_iff in H. destruct H as [H H3].
  apply andb_true_iff in H. destruct H as [H1 H2].
  apply (normalize_correct env g s g' s'); auto.
  - apply cond_full_check_sound; assumption.
  - apply cov_of_tree_valid. apply (validate_tree_iff g s W). exact H2.
  - destruct (g_inc g s); [reflexivity|discriminate].
Qed.

(* from the graph as lowering leaves it (no incoming lists yet): addIncoming then NormalizeBlocks *)
Theorem add_incoming_normalize_correct env g s g' s' :
  wf g -> (forall b, g_inc g b = []) ->
  cond_full g ->
  (forall p, reach g s p -> ~ In s (out_of g p)) ->
  normalize (fst (add_incoming g s)) s = (g', s') ->
  equiv_from env (g_blk g) s (g_blk g') s'.
Proof.
  intros W Z F Hs E.
  assert (ZN : forall b, NoDup (g_inc g b)) by (intros b; rewrite Z; constructor).
  destruct (add_incoming_covers g s W ZN) as (B & N & C & ND & S0).
  rewrite <- B.
  apply (normalize_correct env (fst (add_incoming g s)) s g' s'); auto.
  intros i b Eb. rewrite B in Eb. apply (F i b Eb).
Qed.

(* parent pointers: validateTree's assertion survives NormalizeBlocks *)
Theorem normalize_keeps_tree_valid g s g' s' :
  wf g -> cond_full g -> (forall x, NoDup (g_inc g x)) ->
  validate_tree g s = true ->
  normalize g s = (g', s') ->
  validate_tree g' s' = true.
Proof.
  intros W F N V E.
  assert (C : inc_covers g s) by (apply cov_of_tree_valid; apply (validate_tree_iff g s W); exact V).
  destruct (normalize_tinv g s g' s' F C N E) as (F' & C' & N').
  destruct (normalize_shape g s g' s' F E) as [Nx D].
  apply validate_tree_iff.
  - intros i L. apply D. apply W. rewrite <- Nx. exact L.
  - apply tree_valid_of_cov; assumption.
Qed.

(* the whole sequence of compile_one on a graph without incoming lists: addIncoming, validateTree,
   NormalizeBlocks, validateTree — neither assertion fires *)
Theorem add_incoming_normalize_tree_valid g s g' s' :
  wf g -> cond_full g -> (forall b, NoDup (g_inc g b)) ->
  normalize (fst (add_incoming g s)) s = (g', s') ->
  validate_tree (fst (add_incoming g s)) s = true /\ validate_tree g' s' = true.
Proof.
  intros W F Z E.
  pose proof (validate_tree_passes_after_add_incoming g s W Z) as V.
  split; [exact V|].
  destruct (add_incoming_covers g s W Z) as (B & N & C & ND & _).
  apply (normalize_keeps_tree_valid (fst (add_incoming g s)) s g' s'); auto.
  - intros i L. rewrite B. apply W. rewrite <- N. exact L.
  - intros i b Eb. rewrite B in Eb. apply (F i b Eb).
Qed.
