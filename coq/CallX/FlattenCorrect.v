(* GENERATED from Proofs/FlattenCorrect.v by harness/tools/callx_gen.py (semantics with a call oracle, CallX/Denote.v); do not edit. *)
(* Proofs/FlattenCorrect.v — linearisation correctness: the labelled linear code emitted by
   [flatten_blocks] (Comp/Passes.v, model of pyteal/compiler/flatten.py flattenBlocks) simulates the
   block graph it was produced from.  Stage "flatten" of property C01.
   Contents: decimal printing is injective (so generated labels are distinct), structure of the
   emitted list (where block j starts, where label j is), execution of a block body in the linear
   machine, the one-step simulation, its lifting to [star], and two examples showing that the one
   hypothesis of the theorem ([ends_last]) cannot be dropped. *)
From Coq Require Import List Arith NArith Ascii String Bool Lia.
From PV Require Import Base.Bytes Base.Sexp AVM.Syntax AVM.Ops AVM.Machine Src.Expr CallX.Denote
  Comp.Blocks Comp.Lower Comp.Passes CallX.GraphSem CallX.LinearSem.
Import ListNotations.

(* ------------------------------------------------------------------------------------------ *)
(* 1. N_to_dec is injective; label_of is injective                                             *)
(* ------------------------------------------------------------------------------------------ *)
Section Decimal.
  Local Open Scope N_scope.

  Lemma dec_acc_digit d acc a : d < 10 ->
    dec_acc (ascii_of_N (48 + d) :: acc) a = dec_acc acc (a * 10 + d).
  Proof.
    intros H. cbn [dec_acc]. rewrite N_ascii_embedding by lia.
    replace (48 <=? 48 + d) with true by (symmetry; apply N.leb_le; lia).
    replace (48 + d <=? 57) with true by (symmetry; apply N.leb_le; lia).
    cbn [andb]. f_equal. lia.
  Qed.

  Lemma dec_digits_nonempty f : forall n acc, acc <> [] -> dec_digits f n acc <> [].
  Proof.
    induction f as [|f IH]; intros n acc H; cbn [dec_digits]; [exact H|].
    destruct (n <? 10); [discriminate|]. apply IH. discriminate.
  Qed.

  Lemma dec_digits_value f : forall n acc, n < 10 * 2 ^ N.of_nat f ->
    dec_acc (dec_digits (S f) n acc) 0 = dec_acc acc n.
  Proof.
    induction f as [|f IH]; intros n acc H.
    - change (2 ^ N.of_nat 0) with 1 in H. cbn [dec_digits].
      destruct (N.ltb_spec n 10) as [Hlt|Hge]; [|lia].
      rewrite N.mod_small by lia. now rewrite dec_acc_digit by lia.
    - change (dec_digits (S (S f)) n acc) with
        (if n <? 10 then ascii_of_N (48 + n mod 10) :: acc
         else dec_digits (S f) (n / 10) (ascii_of_N (48 + n mod 10) :: acc)).
      destruct (N.ltb_spec n 10) as [Hlt|Hge].
      + rewrite N.mod_small by lia. now rewrite dec_acc_digit by lia.
      + rewrite IH.
        * pose proof (N.mod_lt n 10 ltac:(lia)). rewrite dec_acc_digit by lia.
          f_equal. rewrite N.mul_comm. symmetry. apply N.div_mod. lia.
        * rewrite Nat2N.inj_succ, N.pow_succ_r' in H.
          apply N.div_lt_upper_bound; lia.
  Qed.

  (* reading back what was printed: the fuel [S (size n)] of N_to_dec is enough for every n *)
  Lemma N_of_dec_N_to_dec n : N_of_dec (N_to_dec n) = Some n.
  Proof.
    unfold N_of_dec, N_to_dec. rewrite list_ascii_of_string_of_list_ascii.
    set (f := N.to_nat (N.size n)).
    assert (Hne : dec_digits (S f) n [] <> []).
    { cbn [dec_digits]. destruct (n <? 10); [discriminate|]. apply dec_digits_nonempty. discriminate. }
    destruct (dec_digits (S f) n []) as [|c t] eqn:E; [congruence|]. rewrite <- E.
    rewrite dec_digits_value; [reflexivity|].
    unfold f. rewrite N2Nat.id. pose proof (N.size_gt n). lia.
  Qed.

  Theorem N_to_dec_inj a b : N_to_dec a = N_to_dec b -> a = b.
  Proof.
    intros H. pose proof (N_of_dec_N_to_dec a) as Ha. rewrite H, N_of_dec_N_to_dec in Ha.
    inversion Ha. reflexivity.
  Qed.
End Decimal.

Theorem label_of_inj i j : label_of i = label_of j -> i = j.
Proof.
  unfold label_of. cbn [String.append]. intros H. inversion H as [H1].
  apply N_to_dec_inj in H1. apply Nat2N.inj. exact H1.
Qed.

(* ------------------------------------------------------------------------------------------ *)
(* 2. facts about single operations                                                            *)
(* ------------------------------------------------------------------------------------------ *)
Lemma slot_access_none o imms : is_load o = false -> is_store o = false -> slot_access o imms = None.
Proof.
  intros H1 H2. unfold slot_access. destruct imms as [|[] [|]]; try reflexivity. rewrite H1, H2. reflexivity.
Qed.

(* a branch opcode inside a block body is outside the graph semantics: [do_op] reports it *)
Lemma do_op_branch env o imms stk st : is_branch o = true -> do_op env o imms stk st = DUnsup o.
Proof.
  intros H. unfold do_op.
  assert (o = O_b \/ o = O_bz \/ o = O_bnz) as [-> | [-> | ->]].
  { destruct o; try discriminate H; auto. }
  - cbn [call_target]. rewrite slot_access_none by reflexivity.
    destruct (args_to_imms env O_b imms); [|reflexivity]. unfold exec_op. cbn. reflexivity.
  - cbn [call_target]. rewrite slot_access_none by reflexivity.
    destruct (args_to_imms env O_bz imms); [|reflexivity]. unfold exec_op. cbn. reflexivity.
  - cbn [call_target]. rewrite slot_access_none by reflexivity.
    destruct (args_to_imms env O_bnz imms); [|reflexivity]. unfold exec_op. cbn. reflexivity.
Qed.

(* [err] never continues *)
Lemma do_op_err_stops env imms stk st :
  match do_op env O_err imms stk st with DNorm _ _ => False | _ => True end.
Proof.
  unfold do_op. cbn [call_target]. rewrite slot_access_none by reflexivity.
  destruct (args_to_imms env O_err imms); [|exact Logic.I]. unfold exec_op. cbn. exact Logic.I.
Qed.

Lemma jump_of_branch i x : jump_of i = Some x -> is_branch (i_op i) = true.
Proof. unfold jump_of. destruct (i_op i); intros H; try discriminate H; reflexivity. Qed.

(* a block that contains return / retsub / err never hands control to a successor *)
Lemma exec_ops_term env ops : existsb is_term_op ops = true ->
  forall stk st, match exec_ops env ops stk st with BOk _ _ => False | _ => True end.
Proof.
  induction ops as [|i t IH]; intros H stk st; [discriminate H|].
  cbn [existsb] in H. cbn [exec_ops].
  destruct (is_return (i_op i)) eqn:R; [destruct stk; exact Logic.I|].
  destruct (is_retsub (i_op i)) eqn:R'; [exact Logic.I|].
  destruct (is_term_op i) eqn:T.
  - assert (E : i_op i = O_err).
    { unfold is_term_op in T. destruct (i_op i); try discriminate T; try discriminate R; try discriminate R'; reflexivity. }
    rewrite E. pose proof (do_op_err_stops env (i_args i) stk st) as D.
    destruct (do_op env O_err (i_args i) stk st); try exact Logic.I. contradiction.
  - cbn [orb] in H. destruct (do_op env (i_op i) (i_args i) stk st); try exact Logic.I. apply IH; exact H.
Qed.

(* ------------------------------------------------------------------------------------------ *)
(* 3. executing a block body in the linear machine                                             *)
(* ------------------------------------------------------------------------------------------ *)
Section RunOps.
  Variable env : denv.
  Variable C : list comp.
  Notation lstar := (lstar env C).

  Lemma lstep_at_op pc i stk st : nth_error C pc = Some (COp i) ->
    lstep env C (LAt pc stk st) = Some (lstep_op env C pc i stk st).
  Proof. intros H. cbn [lstep]. rewrite H. reflexivity. Qed.

  (* the ops of a block sit at pc, pc+1, ...: the linear machine executes them as [exec_ops] does.
     The only divergence: a branch opcode INSIDE a block body, which the graph semantics reports as
     unsupported while the linear machine would jump. *)
  Lemma run_ops : forall ops pc stk st,
    (forall k i, nth_error ops k = Some i -> nth_error C (pc + k) = Some (COp i)) ->
    match exec_ops env ops stk st with
    | BOk s' st' => lstar (LAt pc stk st) (LAt (pc + List.length ops) s' st')
    | BExit v st' => lstar (LAt pc stk st) (LExit v st')
    | BRet s' st' => lstar (LAt pc stk st) (LRet s' st')
    | BFail => lstar (LAt pc stk st) LFail
    | BUnsup o => is_branch o = false -> lstar (LAt pc stk st) (LUnsup o)
    end.
  Proof.
    induction ops as [|i t IH]; intros pc stk st H.
    - cbn [exec_ops List.length]. rewrite Nat.add_0_r. apply lstar_refl.
    - assert (H0 : nth_error C pc = Some (COp i)).
      { specialize (H 0 i eq_refl). rewrite Nat.add_0_r in H. exact H. }
      assert (Ht : forall k j, nth_error t k = Some j -> nth_error C (S pc + k) = Some (COp j)).
      { intros k j Hk. specialize (H (S k) j Hk). rewrite Nat.add_succ_r in H. exact H. }
      pose proof (lstep_at_op pc i stk st H0) as S1. unfold lstep_op in S1.
      cbn [exec_ops].
      destruct (is_return (i_op i)) eqn:R.
      { destruct stk as [|v r]; apply lstar_one; exact S1. }
      destruct (is_retsub (i_op i)) eqn:R'.
      { apply lstar_one; exact S1. }
      destruct (jump_of i) as [[k l]|] eqn:J.
      { pose proof (jump_of_branch i _ J) as B. rewrite (do_op_branch env _ (i_args i) stk st B).
        intros B'. rewrite B in B'. discriminate B'. }
      specialize (IH (S pc)).
      destruct (do_op env (i_op i) (i_args i) stk st) as [s1 st1| | | | | | | |o] eqn:D;
        try (apply lstar_one; exact S1).
      + specialize (IH s1 st1 Ht). cbn [List.length]. rewrite Nat.add_succ_r.
        destruct (exec_ops env t s1 st1); try (eapply lstar_step; [exact S1|exact IH]).
        intros B. eapply lstar_step; [exact S1|exact (IH B)].
      + intros _. apply lstar_one; exact S1.
  Qed.

  Lemma step_b pc l stk st : nth_error C pc = Some (COp (mkI O_b [ALbl l])) ->
    lstep env C (LAt pc stk st) = Some (goto C l stk st).
  Proof. intros H. rewrite (lstep_at_op _ _ _ _ H). reflexivity. Qed.

  Lemma step_bz pc l stk st : nth_error C pc = Some (COp (mkI O_bz [ALbl l])) ->
    lstep env C (LAt pc stk st) =
    Some (match stk with
          | v :: s' => match truthy v with
                       | Some true => LAt (S pc) s' st
                       | Some false => goto C l s' st
                       | None => LFail
                       end
          | [] => LFail
          end).
  Proof. intros H. rewrite (lstep_at_op _ _ _ _ H). reflexivity. Qed.

  Lemma step_bnz pc l stk st : nth_error C pc = Some (COp (mkI O_bnz [ALbl l])) ->
    lstep env C (LAt pc stk st) =
    Some (match stk with
          | v :: s' => match truthy v with
                       | Some true => goto C l s' st
                       | Some false => LAt (S pc) s' st
                       | None => LFail
                       end
          | [] => LFail
          end).
  Proof. intros H. rewrite (lstep_at_op _ _ _ _ H). reflexivity. Qed.
End RunOps.

(* ------------------------------------------------------------------------------------------ *)
(* 4. the shape of the emitted list                                                            *)
(* ------------------------------------------------------------------------------------------ *)
Lemma mem_nat_In x l : mem_nat x l = true <-> In x l.
Proof.
  induction l as [|y t IH]; cbn [mem_nat In]; [split; [discriminate|tauto]|].
  rewrite orb_true_iff, IH, Nat.eqb_eq. split; intros [H|H]; auto.
Qed.

Definition lab (refs : list nat) (i : nat) : list comp :=
  if mem_nat i refs then [CLabel (label_of i) None] else [].

Lemma emit_cons code t refs i :
  flatten_emit (code :: t) refs i = (lab refs i ++ map COp code) ++ flatten_emit t refs (S i).
Proof. cbn [flatten_emit]. unfold lab. rewrite <- app_assoc. reflexivity. Qed.

Lemma emit_app a : forall b refs i,
  flatten_emit (a ++ b) refs i = flatten_emit a refs i ++ flatten_emit b refs (List.length a + i).
Proof.
  induction a as [|code t IH]; intros b refs i; [reflexivity|].
  rewrite <- app_comm_cons, !emit_cons, IH. cbn [List.length].
  rewrite Nat.add_succ_r, app_assoc. reflexivity.
Qed.

(* every label in the list is label_of k for a block index k of the list *)
Lemma emit_labels codes refs : forall i l c, In (CLabel l c) (flatten_emit codes refs i) ->
  exists k, i <= k < i + List.length codes /\ l = label_of k.
Proof.
  induction codes as [|code t IH]; intros i l c H; [destruct H|].
  rewrite emit_cons in H. apply in_app_or in H. destruct H as [H|H].
  - apply in_app_or in H. destruct H as [H|H].
    + unfold lab in H. destruct (mem_nat i refs); [|destruct H].
      destruct H as [H|[]]. inversion H; subst. exists i. cbn [List.length]. split; [lia|reflexivity].
    + apply in_map_iff in H. destruct H as (x & Hx & _). discriminate Hx.
  - destruct (IH _ _ _ H) as (k & Hk & E). exists k. cbn [List.length]. split; [lia|exact E].
Qed.

Lemma find_label_app_notin l c1 c2 : (forall c, ~ In (CLabel l c) c1) ->
  find_label l (c1 ++ c2) = option_map (fun p => List.length c1 + p) (find_label l c2).
Proof.
  induction c1 as [|x c1 IH]; intros H.
  - cbn. destruct (find_label l c2); reflexivity.
  - assert (H' : forall c, ~ In (CLabel l c) c1) by (intros c Hc; apply (H c); right; exact Hc).
    specialize (IH H'). rewrite <- app_comm_cons. cbn [find_label List.length].
    destruct x as [i|l' c'|v]; rewrite IH; try (destruct (find_label l c2); reflexivity).
    destruct (String.eqb_spec l l') as [E|E].
    + subst l'. exfalso. apply (H c'). left. reflexivity.
    + destruct (find_label l c2); reflexivity.
Qed.

(* where block j starts *)
Definition epos (codes : list (list instr)) (refs : list nat) (j : nat) : nat :=
  List.length (flatten_emit (firstn j codes) refs 0).

Lemma epos_0 codes refs : epos codes refs 0 = 0.
Proof. reflexivity. Qed.

Lemma epos_all codes refs : epos codes refs (List.length codes) = List.length (flatten_emit codes refs 0).
Proof. unfold epos. rewrite firstn_all. reflexivity. Qed.

Lemma firstn_len_app {A} (a b : list A) : firstn (List.length a) (a ++ b) = a.
Proof.
  induction a as [|x a IH]; [destruct b; reflexivity|]. cbn. rewrite IH. reflexivity.
Qed.

Lemma firstn_Slen_app {A} (a : list A) x b : firstn (S (List.length a)) (a ++ x :: b) = a ++ [x].
Proof.
  induction a as [|y a IH]; [destruct b; reflexivity|].
  cbn [List.length]. rewrite <- !app_comm_cons. rewrite firstn_cons, IH. reflexivity.
Qed.

(* decomposition of the list around block j *)
Lemma emit_block codes refs j code : nth_error codes j = Some code ->
  exists pre post,
    flatten_emit codes refs 0 = pre ++ (lab refs j ++ map COp code) ++ post /\
    List.length pre = epos codes refs j /\
    (forall l c, In (CLabel l c) pre -> exists k, k < j /\ l = label_of k) /\
    epos codes refs (S j) = epos codes refs j + List.length (lab refs j ++ map COp code).
Proof.
  intros H. destruct (nth_error_split _ _ H) as (p & q & E & Hl). subst codes j.
  exists (flatten_emit p refs 0), (flatten_emit q refs (S (List.length p))).
  split; [|split; [|split]].
  - rewrite emit_app, emit_cons, Nat.add_0_r. reflexivity.
  - unfold epos. rewrite firstn_len_app. reflexivity.
  - intros l c Hin. destruct (emit_labels _ _ _ _ _ Hin) as (k & Hk & Ek). exists k. split; [lia|exact Ek].
  - unfold epos. rewrite firstn_len_app, firstn_Slen_app, emit_app, app_length.
    cbn [flatten_emit]. rewrite app_nil_r. fold (lab refs (List.length p + 0)). rewrite Nat.add_0_r.
    reflexivity.
Qed.

Lemma find_label_emit codes refs j code : nth_error codes j = Some code -> mem_nat j refs = true ->
  find_label (label_of j) (flatten_emit codes refs 0) = Some (epos codes refs j).
Proof.
  intros H M. destruct (emit_block codes refs j code H) as (pre & post & E & L & Lb & _).
  rewrite E, find_label_app_notin.
  - unfold lab. rewrite M. cbn [app find_label]. rewrite String.eqb_refl. cbn [option_map].
    rewrite Nat.add_0_r, L. reflexivity.
  - intros c Hc. destruct (Lb _ _ Hc) as (k & Hk & Ek). apply label_of_inj in Ek. lia.
Qed.

(* ------------------------------------------------------------------------------------------ *)
(* 5. what flatten_collect / index_of return                                                   *)
(* ------------------------------------------------------------------------------------------ *)
Lemma nth_error_Some_lt {A} (l : list A) k x : nth_error l k = Some x -> k < List.length l.
Proof. intros H. apply nth_error_Some. rewrite H. discriminate. Qed.

Lemma index_of_spec x l : forall n m, index_of x l n = Some m ->
  n <= m /\ nth_error l (m - n) = Some x.
Proof.
  induction l as [|y t IH]; intros n m H; [discriminate H|]. cbn [index_of] in H.
  destruct (Nat.eqb_spec x y) as [E|E].
  - inversion H; subst. rewrite Nat.sub_diag. split; [lia|reflexivity].
  - destruct (IH _ _ H) as (L & N). split; [lia|].
    replace (m - n) with (S (m - S n)) by lia. exact N.
Qed.

Lemma index_of_nth x l m : index_of x l 0 = Some m -> nth_error l m = Some x.
Proof. intros H. destruct (index_of_spec _ _ _ _ H) as (_ & N). rewrite Nat.sub_0_r in N. exact N. Qed.

Lemma index_of_In x l : forall n, In x l -> exists m, index_of x l n = Some m.
Proof.
  induction l as [|y t IH]; intros n H; [destruct H|]. cbn [index_of].
  destruct (Nat.eqb_spec x y) as [E|E]; [eauto|].
  destruct H as [H|H]; [congruence|]. apply IH; exact H.
Qed.

Lemma collect_spec g blocks : forall rest i codes refs,
  flatten_collect g blocks i rest = Some (codes, refs) ->
  List.length codes = List.length rest /\
  forall j b, nth_error rest j = Some b ->
    exists code r, flatten_one g blocks (i + j) b = Some (code, r) /\ nth_error codes j = Some code /\
                   (forall x, In x r -> In x refs).
Proof.
  induction rest as [|b0 t IH]; intros i codes refs H; cbn [flatten_collect] in H.
  - inversion H; subst. split; [reflexivity|]. intros [|j] b Hb; discriminate Hb.
  - destruct (flatten_one g blocks i b0) as [[code0 r0]|] eqn:E0; [|discriminate H].
    destruct (flatten_collect g blocks (S i) t) as [[codes' refs']|] eqn:E1; [|discriminate H].
    inversion H; subst; clear H. destruct (IH _ _ _ E1) as (L & HI).
    split; [cbn [List.length]; rewrite L; reflexivity|].
    intros [|j] b Hb; cbn [nth_error] in Hb.
    + inversion Hb; subst. exists code0, r0. rewrite Nat.add_0_r.
      split; [exact E0|split; [reflexivity|]]. intros x Hx. apply in_or_app. left; exact Hx.
    + destruct (HI _ _ Hb) as (code & r & F & N & R). exists code, r.
      rewrite Nat.add_succ_r. split; [exact F|split; [exact N|]].
      intros x Hx. apply in_or_app. right. apply R; exact Hx.
Qed.

(* ------------------------------------------------------------------------------------------ *)
(* 6. the simulation                                                                           *)
(* ------------------------------------------------------------------------------------------ *)

(* The one place where graph and linear code can differ: a block without successor whose ops do not
   terminate the routine.  flattenBlocks emits no jump for it (isTerminal), so control continues
   into whatever block comes next in the list; the graph semantics stops ([GEnd] for a simple block,
   failure for a conditional block without branches).  The theorem therefore requires that the only
   such block is a simple block placed LAST (sortBlocks puts the routine's end block there). *)
Definition ends_last (G : bgraph) (blocks : list id) : Prop :=
  forall j b bb, index_of b blocks 0 = Some j -> G b = Some bb ->
    existsb is_term_op (b_ops bb) = false -> outgoing bb = [] ->
    (exists ops, bb = BSimple ops None) /\ S j = List.length blocks.

(* outcomes the theorem speaks about: everything except "unsupported: a branch opcode inside a block" *)
Definition ok_out (c : gconf) : Prop :=
  match c with GUnsup o => is_branch o = false | _ => True end.

Definition img (pos : id -> nat) (c : gconf) : lconf :=
  match c with
  | GAt b stk st => LAt (pos b) stk st
  | GEnd stk st => LEnd stk st
  | GExit v st => LExit v st
  | GRet stk st => LRet stk st
  | GFail => LFail
  | GUnsup o => LUnsup o
  end.

Section Sim.
  Variable env : denv.
  Variable g : graph.
  Variable blocks : list id.
  Variable codes : list (list instr).
  Variable refs : list nat.
  Hypothesis HC : flatten_collect g blocks 0 blocks = Some (codes, refs).
  Hypothesis EL : ends_last (g_blk g) blocks.

  Let C := flatten_emit codes refs 0.
  Let G : bgraph := g_blk g.
  Notation lstar := (lstar env C).

  Definition posb (b : id) : nat :=
    match index_of b blocks 0 with Some j => epos codes refs j | None => 0 end.

  Definition listed (c : gconf) : Prop :=
    match c with GAt b _ _ => exists j, index_of b blocks 0 = Some j | _ => True end.

  Lemma codes_len : List.length codes = List.length blocks.
  Proof. exact (proj1 (collect_spec g blocks blocks 0 codes refs HC)). Qed.

  (* jumping to the label of a referenced listed block lands on that block *)
  Lemma goto_label x ni stk st : index_of x blocks 0 = Some ni -> In ni refs ->
    goto C (label_of ni) stk st = LAt (posb x) stk st.
  Proof.
    intros Hx Hr. unfold goto, posb. rewrite Hx.
    pose proof (index_of_nth _ _ _ Hx) as N.
    destruct (proj2 (collect_spec g blocks blocks 0 codes refs HC) _ _ N) as (code & r & _ & Nc & _).
    unfold C. rewrite (find_label_emit codes refs ni code Nc (proj2 (mem_nat_In _ _) Hr)). reflexivity.
  Qed.

  Lemma posb_next x j : index_of x blocks 0 = Some (S j) -> posb x = epos codes refs (S j).
  Proof. intros H. unfold posb. rewrite H. reflexivity. Qed.

  Theorem flatten_step b j stk st c' :
    index_of b blocks 0 = Some j ->
    gstep env G (GAt b stk st) = Some c' -> ok_out c' ->
    lstar (LAt (posb b) stk st) (img posb c') /\ listed c'.
  Proof.
    intros Hj Hs Hok.
    pose proof (index_of_nth _ _ _ Hj) as Nb.
    destruct (proj2 (collect_spec g blocks blocks 0 codes refs HC) _ _ Nb) as (code & r & F & Nc & R).
    cbn [plus] in F.
    destruct (emit_block codes refs j code Nc) as (pre & post & E & Lp & _ & Nx).
    fold C in E.
    assert (Pb : posb b = List.length pre) by (unfold posb; rewrite Hj, Lp; reflexivity).
    set (P := List.length pre) in *.
    set (Q := P + List.length (lab refs j)).
    rewrite app_length, map_length in Nx. rewrite <- Lp in Nx. fold P in Nx.
    (* skipping the label, if there is one *)
    assert (A : lstar (LAt P stk st) (LAt Q stk st)).
    { unfold Q, lab. destruct (mem_nat j refs) eqn:M.
      - apply lstar_one. cbn [lstep].
        replace (nth_error C P) with (Some (CLabel (label_of j) None)).
        + cbn [List.length]. rewrite Nat.add_1_r. reflexivity.
        + rewrite E. unfold P. rewrite nth_error_app2 by lia. rewrite Nat.sub_diag.
          unfold lab. rewrite M. reflexivity.
      - cbn [List.length]. rewrite Nat.add_0_r. apply lstar_refl. }
    (* the instructions of the block *)
    assert (B : forall k i, nth_error code k = Some i -> nth_error C (Q + k) = Some (COp i)).
    { intros k i Hk. rewrite E. unfold Q, P.
      rewrite nth_error_app2 by lia.
      replace (List.length pre + List.length (lab refs j) + k - List.length pre) with (List.length (lab refs j) + k) by lia.
      rewrite nth_error_app1.
      - rewrite nth_error_app2 by lia.
        replace (List.length (lab refs j) + k - List.length (lab refs j)) with k by lia.
        rewrite nth_error_map, Hk. reflexivity.
      - rewrite app_length, map_length. apply nth_error_Some_lt in Hk. lia. }
    assert (Nx' : epos codes refs (S j) = Q + List.length code) by (unfold Q; lia).
    (* the block *)
    cbn [gstep] in Hs. unfold flatten_one in F. fold G in F.
    destruct (G b) as [bb|] eqn:Gb; [|discriminate Hs].
    rewrite Pb.
    destruct (is_terminal bb) eqn:T.
    - (* terminal block: no jump emitted *)
      inversion F; subst code r; clear F.
      pose proof (run_ops env C (b_ops bb) Q stk st B) as Rn.
      assert (Tm : existsb is_term_op (b_ops bb) = false ->
                   (exists ops, bb = BSimple ops None) /\ S j = List.length blocks).
      { intros X. apply (EL j b bb Hj Gb X). unfold is_terminal in T. rewrite X in T. cbn [orb] in T.
        destruct (outgoing bb); [reflexivity|discriminate T]. }
      assert (Ok : forall s' st', exec_ops env (b_ops bb) stk st = BOk s' st' ->
                   (exists ops, bb = BSimple ops None) /\ S j = List.length blocks).
      { intros s' st' X. apply Tm. destruct (existsb is_term_op (b_ops bb)) eqn:Y; [|reflexivity].
        pose proof (exec_ops_term env _ Y stk st) as Z. rewrite X in Z. contradiction. }
      destruct bb as [ops n|ops t f]; cbn [b_ops] in *.
      + destruct (exec_ops env ops stk st) as [s' st'|v st'|s' st'| |o] eqn:X;
          inversion Hs; subst c'; clear Hs; cbn [img listed];
          try (split; [eapply lstar_trans; [exact A|exact Rn]|exact Logic.I]).
        * destruct (Ok _ _ eq_refl) as ((ops' & Eb) & Last). inversion Eb; subst n ops'.
          cbn [cont_conf img listed]. split; [|exact Logic.I].
          eapply lstar_trans; [exact A|]. eapply lstar_trans; [exact Rn|].
          apply lstar_one. cbn [lstep].
          replace (nth_error C (Q + List.length ops)) with (@None comp); [reflexivity|].
          symmetry. apply nth_error_None. rewrite <- Nx', Last, <- codes_len, epos_all. fold C. lia.
        * split; [|exact Logic.I]. eapply lstar_trans; [exact A|exact (Rn Hok)].
      + destruct (exec_ops env ops stk st) as [s' st'|v st'|s' st'| |o] eqn:X.
        * destruct (Ok _ _ eq_refl) as ((ops' & Eb) & _). discriminate Eb.
        * inversion Hs; subst c'; cbn [img listed]. split; [eapply lstar_trans; [exact A|exact Rn]|exact Logic.I].
        * inversion Hs; subst c'; cbn [img listed]. split; [eapply lstar_trans; [exact A|exact Rn]|exact Logic.I].
        * inversion Hs; subst c'; cbn [img listed]. split; [eapply lstar_trans; [exact A|exact Rn]|exact Logic.I].
        * inversion Hs; subst c'; cbn [img listed]. split; [eapply lstar_trans; [exact A|exact (Rn Hok)]|exact Logic.I].
    - (* non-terminal block *)
      destruct bb as [ops [nx|]|ops [t|] [fl|]]; try discriminate F; cbn [b_ops] in *;
        [| unfold is_terminal in T; cbn [outgoing] in T; rewrite orb_true_r in T; discriminate T |].
      + (* simple block with a successor *)
        destruct (index_of nx blocks 0) as [ni|] eqn:Ni; [|discriminate F].
        destruct (Nat.eqb_spec ni (S j)) as [En|En]; inversion F; subst code r; clear F.
        * (* falls through *)
          pose proof (run_ops env C ops Q stk st B) as Rn. subst ni.
          destruct (exec_ops env ops stk st) as [s' st'|v st'|s' st'| |o] eqn:X;
            inversion Hs; subst c'; clear Hs; cbn [cont_conf img listed];
            try (split; [eapply lstar_trans; [exact A|exact Rn]|exact Logic.I]).
          -- split; [|eauto]. rewrite (posb_next _ _ Ni), Nx'.
             eapply lstar_trans; [exact A|exact Rn].
          -- split; [|exact Logic.I]. eapply lstar_trans; [exact A|exact (Rn Hok)].
        * (* b label *)
          assert (B0 : forall k i, nth_error ops k = Some i -> nth_error C (Q + k) = Some (COp i)).
          { intros k i Hk. apply B. rewrite nth_error_app1 by (apply nth_error_Some_lt in Hk; exact Hk). exact Hk. }
          assert (J0 : nth_error C (Q + List.length ops) = Some (COp (mkI O_b [ALbl (label_of ni)]))).
          { apply B. rewrite nth_error_app2 by lia. rewrite Nat.sub_diag. reflexivity. }
          pose proof (run_ops env C ops Q stk st B0) as Rn.
          destruct (exec_ops env ops stk st) as [s' st'|v st'|s' st'| |o] eqn:X;
            inversion Hs; subst c'; clear Hs; cbn [cont_conf img listed];
            try (split; [eapply lstar_trans; [exact A|exact Rn]|exact Logic.I]).
          -- split; [|eauto].
             eapply lstar_trans; [exact A|]. eapply lstar_trans; [exact Rn|].
             apply lstar_one. rewrite (step_b env C _ _ _ _ J0).
             rewrite (goto_label nx ni s' st' Ni (R _ (or_introl eq_refl))). reflexivity.
          -- split; [|exact Logic.I]. eapply lstar_trans; [exact A|exact (Rn Hok)].
      + (* conditional block *)
        destruct (index_of t blocks 0) as [ti|] eqn:Ti; [|discriminate F].
        destruct (index_of fl blocks 0) as [fi|] eqn:Fi; [|discriminate F].
        assert (Hcode : exists jumps, code = ops ++ jumps).
        { destruct (Nat.eqb fi (S j)); [|destruct (Nat.eqb ti (S j))]; inversion F; eauto. }
        destruct Hcode as (jumps & Ecode). subst code.
        assert (B0 : forall k i, nth_error ops k = Some i -> nth_error C (Q + k) = Some (COp i)).
        { intros k i Hk. apply B.
          rewrite nth_error_app1 by (apply nth_error_Some_lt in Hk; exact Hk). exact Hk. }
        assert (BJ : forall k i, nth_error jumps k = Some i ->
                                 nth_error C (Q + List.length ops + k) = Some (COp i)).
        { intros k i Hk. rewrite <- Nat.add_assoc. apply B.
          rewrite nth_error_app2 by lia.
          replace (List.length ops + k - List.length ops) with k by lia. exact Hk. }
        pose proof (run_ops env C ops Q stk st B0) as Rn.
        destruct (exec_ops env ops stk st) as [s' st'|v st'|s' st'| |o] eqn:X;
          [| inversion Hs; subst c'; cbn [img listed];
             split; [eapply lstar_trans; [exact A|exact Rn]|exact Logic.I] ..
           | inversion Hs; subst c'; cbn [img listed];
             split; [eapply lstar_trans; [exact A|exact (Rn Hok)]|exact Logic.I] ].
        set (pc := Q + List.length ops) in *.
        assert (Pre : lstar (LAt P stk st) (LAt pc s' st')) by (eapply lstar_trans; [exact A|exact Rn]).
        destruct (Nat.eqb_spec fi (S j)) as [Ef|Ef]; [|destruct (Nat.eqb_spec ti (S j)) as [Et|Et]];
          inversion F as [[EJ ER]]; clear F; apply app_inv_head in EJ; subst jumps r.
        * (* bnz true-label, false falls through *)
          pose proof (BJ 0 _ eq_refl) as J0. rewrite Nat.add_0_r in J0.
          pose proof (step_bnz env C _ _ s' st' J0) as S0.
          assert (Fall : S pc = posb fl).
          { subst fi. rewrite (posb_next _ _ Fi), Nx', app_length. cbn [List.length]. unfold pc. lia. }
          destruct s' as [|v s'].
          { inversion Hs; subst c'. cbn [img listed]. split; [|exact Logic.I].
            eapply lstar_trans; [exact Pre|]. apply lstar_one. exact S0. }
          destruct (truthy v) as [[|]|]; inversion Hs; subst c'; clear Hs; cbn [img listed].
          -- split; [|eauto]. eapply lstar_trans; [exact Pre|]. apply lstar_one. rewrite S0.
             rewrite (goto_label t ti s' st' Ti (R _ (or_introl eq_refl))). reflexivity.
          -- split; [|eauto]. eapply lstar_trans; [exact Pre|]. apply lstar_one. rewrite S0, Fall. reflexivity.
          -- split; [|exact Logic.I]. eapply lstar_trans; [exact Pre|]. apply lstar_one. exact S0.
        * (* bz false-label, true falls through *)
          pose proof (BJ 0 _ eq_refl) as J0. rewrite Nat.add_0_r in J0.
          pose proof (step_bz env C _ _ s' st' J0) as S0.
          assert (Fall : S pc = posb t).
          { subst ti. rewrite (posb_next _ _ Ti), Nx', app_length. cbn [List.length]. unfold pc. lia. }
          destruct s' as [|v s'].
          { inversion Hs; subst c'. cbn [img listed]. split; [|exact Logic.I].
            eapply lstar_trans; [exact Pre|]. apply lstar_one. exact S0. }
          destruct (truthy v) as [[|]|]; inversion Hs; subst c'; clear Hs; cbn [img listed].
          -- split; [|eauto]. eapply lstar_trans; [exact Pre|]. apply lstar_one. rewrite S0, Fall. reflexivity.
          -- split; [|eauto]. eapply lstar_trans; [exact Pre|]. apply lstar_one. rewrite S0.
             rewrite (goto_label fl fi s' st' Fi (R _ (or_introl eq_refl))). reflexivity.
          -- split; [|exact Logic.I]. eapply lstar_trans; [exact Pre|]. apply lstar_one. exact S0.
        * (* bnz true-label; b false-label *)
          pose proof (BJ 0 _ eq_refl) as J0. rewrite Nat.add_0_r in J0.
          pose proof (BJ 1 _ eq_refl) as J1. rewrite Nat.add_1_r in J1.
          pose proof (step_bnz env C _ _ s' st' J0) as S0.
          destruct s' as [|v s'].
          { inversion Hs; subst c'. cbn [img listed]. split; [|exact Logic.I].
            eapply lstar_trans; [exact Pre|]. apply lstar_one. exact S0. }
          destruct (truthy v) as [[|]|]; inversion Hs; subst c'; clear Hs; cbn [img listed].
          -- split; [|eauto]. eapply lstar_trans; [exact Pre|]. apply lstar_one. rewrite S0.
             rewrite (goto_label t ti s' st' Ti (R _ (or_introl eq_refl))). reflexivity.
          -- split; [|eauto]. eapply lstar_trans; [exact Pre|].
             eapply lstar_step; [exact S0|]. apply lstar_one. rewrite (step_b env C _ _ _ _ J1).
             rewrite (goto_label fl fi s' st' Fi (R _ (or_intror (or_introl eq_refl)))). reflexivity.
          -- split; [|exact Logic.I]. eapply lstar_trans; [exact Pre|]. apply lstar_one. exact S0.
  Qed.
  (* lifting to any number of graph steps *)
  Theorem flatten_star : forall c c', star env G c c' -> listed c -> ok_out c' ->
    lstar (img posb c) (img posb c').
  Proof.
    induction 1 as [c|c c1 c2 S1 H IH]; intros L Ok.
    - apply lstar_refl.
    - destruct c as [b stk st| | | | |]; cbn [gstep] in S1; try discriminate S1.
      destruct L as (j & Hj).
      assert (Ok1 : ok_out c1).
      { destruct H as [c|c d e S2 _]; [exact Ok|]. destruct c; cbn [gstep] in S2; try discriminate S2. exact Logic.I. }
      destruct (flatten_step b j stk st c1 Hj S1 Ok1) as (R & L1).
      eapply lstar_trans; [exact R|]. apply IH; assumption.
  Qed.
End Sim.

(* ------------------------------------------------------------------------------------------ *)
(* 7. the theorem                                                                              *)
(* ------------------------------------------------------------------------------------------ *)

(* where block b starts in [flatten_blocks g blocks] *)
Definition pos_of (g : graph) (blocks : list id) (b : id) : nat :=
  match flatten_collect g blocks 0 blocks with
  | Some (codes, refs) => posb blocks codes refs b
  | None => 0
  end.

Definition gfinal (c : gconf) : bool := match c with GAt _ _ _ => false | _ => true end.

Lemma img_final pos c : gfinal c = true -> lfinal (img pos c) = true.
Proof. destruct c; cbn; intros H; try reflexivity; discriminate H. Qed.

(* For EVERY graph, EVERY list of blocks (duplicates allowed: positions are those of first
   occurrences, which is what [index_of] and hence the emitted jumps use) on which flattenBlocks
   succeeds, and every run of the graph from a listed block: the linear code, started where that
   block starts, reaches the image of the configuration the graph reaches.
   No closure hypothesis is needed: success of flatten_blocks already implies that every listed
   block is defined and every successor of a non-terminal listed block is listed ([flatten_closed]). *)
Theorem flatten_correct (env : denv) (g : graph) (blocks : list id) (code : list comp) :
  flatten_blocks g blocks = Some code ->
  ends_last (g_blk g) blocks ->
  forall b stk st c', In b blocks ->
    star env (g_blk g) (GAt b stk st) c' -> ok_out c' ->
    lstar env code (LAt (pos_of g blocks b) stk st) (img (pos_of g blocks) c').
Proof.
  intros HF EL b stk st c' Hb Hs Hok. unfold flatten_blocks in HF. unfold pos_of.
  destruct (flatten_collect g blocks 0 blocks) as [[codes refs]|] eqn:HC; [|discriminate HF].
  inversion HF; subst code; clear HF.
  exact (flatten_star env g blocks codes refs HC EL _ _ Hs (index_of_In b blocks 0 Hb) Hok).
Qed.

(* halting outcomes: the linear code halts with the same outcome, and (the linear machine being
   deterministic) with no other *)
Corollary flatten_correct_final (env : denv) (g : graph) (blocks : list id) (code : list comp) :
  flatten_blocks g blocks = Some code ->
  ends_last (g_blk g) blocks ->
  forall b stk st c', In b blocks ->
    star env (g_blk g) (GAt b stk st) c' -> gfinal c' = true -> ok_out c' ->
    lstar env code (LAt (pos_of g blocks b) stk st) (img (pos_of g blocks) c') /\
    forall c2, lstar env code (LAt (pos_of g blocks b) stk st) c2 -> lfinal c2 = true ->
               c2 = img (pos_of g blocks) c'.
Proof.
  intros HF EL b stk st c' Hb Hs Hf Hok.
  pose proof (flatten_correct env g blocks code HF EL b stk st c' Hb Hs Hok) as R.
  split; [exact R|]. intros c2 R2 F2. symmetry.
  exact (lstar_final_unique env code _ _ _ R (img_final _ _ Hf) R2 F2).
Qed.

(* the first block of the list starts at pc 0 *)
Lemma pos_of_head g b t : pos_of g (b :: t) b = 0.
Proof.
  unfold pos_of. destruct (flatten_collect g (b :: t) 0 (b :: t)) as [[codes refs]|]; [|reflexivity].
  unfold posb. cbn [index_of]. rewrite Nat.eqb_refl. reflexivity.
Qed.

(* what success of flatten_blocks says about the list *)
Lemma flatten_closed g blocks code : flatten_blocks g blocks = Some code ->
  forall b, In b blocks ->
    exists bb, g_blk g b = Some bb /\
               (is_terminal bb = false -> forall x, In x (outgoing bb) -> In x blocks).
Proof.
  intros HF b Hb. unfold flatten_blocks in HF.
  destruct (flatten_collect g blocks 0 blocks) as [[codes refs]|] eqn:HC; [|discriminate HF].
  destruct (In_nth_error _ _ Hb) as (j & Nj).
  destruct (proj2 (collect_spec g blocks blocks 0 codes refs HC) _ _ Nj) as (cd & r & F & _).
  unfold flatten_one in F. destruct (g_blk g b) as [bb|]; [|discriminate F].
  exists bb. split; [reflexivity|]. intros T x Hx. rewrite T in F.
  destruct bb as [ops [nx|]|ops [t|] [fl|]]; cbn [outgoing app] in Hx; try discriminate F; try (destruct Hx; fail).
  - destruct Hx as [<-|[]]. destruct (index_of nx blocks 0) as [ni|] eqn:E; [|discriminate F].
    exact (nth_error_In _ _ (index_of_nth _ _ _ E)).
  - destruct (index_of t blocks 0) as [ti|] eqn:Et; [|discriminate F].
    destruct (index_of fl blocks 0) as [fi|] eqn:Ef; [|discriminate F].
    destruct Hx as [<-|[<-|[]]].
    + exact (nth_error_In _ _ (index_of_nth _ _ _ Et)).
    + exact (nth_error_In _ _ (index_of_nth _ _ _ Ef)).
Qed.

(* a decidable form of [ends_last], to discharge it on concrete graphs *)
Definition ends_last_b (G : bgraph) (blocks : list id) : bool :=
  forallb (fun b =>
             match index_of b blocks 0, G b with
             | Some j, Some bb =>
                 if existsb is_term_op (b_ops bb) then true
                 else match outgoing bb with
                      | [] => match bb with
                              | BSimple _ None => Nat.eqb (S j) (List.length blocks)
                              | _ => false
                              end
                      | _ => true
                      end
             | _, _ => true
             end) blocks.

Lemma ends_last_b_sound G blocks : ends_last_b G blocks = true -> ends_last G blocks.
Proof.
  intros H j b bb Hj Gb T O. unfold ends_last_b in H. rewrite forallb_forall in H.
  specialize (H b (nth_error_In _ _ (index_of_nth _ _ _ Hj))). rewrite Hj, Gb, T, O in H.
  destruct bb as [ops [n|]|ops t f]; try discriminate H.
  split; [eauto|]. apply Nat.eqb_eq. exact H.
Qed.

(* ------------------------------------------------------------------------------------------ *)
(* 8. the hypothesis [ends_last] is needed                                                     *)
(* ------------------------------------------------------------------------------------------ *)
Lemma grun_star env G : forall fuel c, star env G c (grun fuel env G c).
Proof.
  induction fuel as [|f IH]; intros c; cbn [grun]; [apply star_refl|].
  destruct (gstep env G c) as [c'|] eqn:E; [|apply star_refl].
  eapply star_step; [exact E|]. apply IH.
Qed.

Definition ex_ctx : ctx := mkCtx true [] 0 [] [] 0.
Definition ex_env : denv := mkEnv ex_ctx (fun n => n) [] [] false (fun _ => mkI O_int [AInt 0]) (fun _ _ _ => CNone).
Definition ex_st : mstate := init_state [] [] [].
Definition ex_graph (l : list block) : graph := mkG (fun i => nth_error l i) (fun _ => []) (List.length l).
Definition op_int (n : N) : instr := mkI O_int [AInt n].
Definition op0 (o : opc) : instr := mkI o [].

(* a successor-less simple block that is NOT last: the graph stops at its end, the linear code runs
   on into the next block (here: and returns 2) *)
Definition g_end_mid : graph :=
  ex_graph [BSimple [op_int 1] None; BSimple [op_int 2; op0 O_return_] None].

Theorem flatten_needs_end_last :
  exists env g blocks code b stk st c',
    flatten_blocks g blocks = Some code /\ In b blocks /\
    star env (g_blk g) (GAt b stk st) c' /\ gfinal c' = true /\ ok_out c' /\
    ~ lstar env code (LAt (pos_of g blocks b) stk st) (img (pos_of g blocks) c').
Proof.
  exists ex_env, g_end_mid, [0; 1], [COp (op_int 1); COp (op_int 2); COp (op0 O_return_)],
         0, [], ex_st, (GEnd [VI 1] ex_st).
  split; [vm_compute; reflexivity|]. split; [left; reflexivity|].
  split; [exact (grun_star ex_env (g_blk g_end_mid) 1 (GAt 0 [] ex_st))|].
  split; [reflexivity|]. split; [exact Logic.I|].
  intros H.
  pose proof (lrun_lstar ex_env [COp (op_int 1); COp (op_int 2); COp (op0 O_return_)] 5
                         (LAt (pos_of g_end_mid [0; 1] 0) [] ex_st)) as R.
  pose proof (lstar_final_unique _ _ _ _ _ H eq_refl R) as U.
  vm_compute in U. specialize (U eq_refl). discriminate U.
Qed.

(* a conditional block without branches and without a terminating op: flattenBlocks treats it as
   terminal and lets control run off its end; the graph semantics has nowhere to go *)
Definition g_cond_none : graph := ex_graph [BCond [op_int 1] None None].

Theorem flatten_needs_simple_end :
  exists env g blocks code b stk st c',
    flatten_blocks g blocks = Some code /\ In b blocks /\
    star env (g_blk g) (GAt b stk st) c' /\ gfinal c' = true /\ ok_out c' /\
    ~ lstar env code (LAt (pos_of g blocks b) stk st) (img (pos_of g blocks) c').
Proof.
  exists ex_env, g_cond_none, [0], [COp (op_int 1)], 0, [], ex_st, GFail.
  split; [vm_compute; reflexivity|]. split; [left; reflexivity|].
  split; [exact (grun_star ex_env (g_blk g_cond_none) 1 (GAt 0 [] ex_st))|].
  split; [reflexivity|]. split; [exact Logic.I|].
  intros H.
  pose proof (lrun_lstar ex_env [COp (op_int 1)] 5 (LAt (pos_of g_cond_none [0] 0) [] ex_st)) as R.
  pose proof (lstar_final_unique _ _ _ _ _ H eq_refl R) as U.
  vm_compute in U. specialize (U eq_refl). discriminate U.
Qed.

(* the exclusion in [ok_out] is needed too: a branch opcode INSIDE a block body is reported as
   unsupported by the graph semantics, while the linear machine takes it for a jump (here to a label
   that does not exist) *)
Definition g_branch_in_body : graph := ex_graph [BSimple [mkI O_b [ALbl "x"]; op_int 1; op0 O_return_] None].

Theorem flatten_needs_ok_out :
  exists env g blocks code b stk st c',
    flatten_blocks g blocks = Some code /\ ends_last (g_blk g) blocks /\ In b blocks /\
    star env (g_blk g) (GAt b stk st) c' /\ gfinal c' = true /\
    ~ lstar env code (LAt (pos_of g blocks b) stk st) (img (pos_of g blocks) c').
Proof.
  exists ex_env, g_branch_in_body, [0], [COp (mkI O_b [ALbl "x"]); COp (op_int 1); COp (op0 O_return_)],
         0, [], ex_st, (GUnsup O_b).
  split; [vm_compute; reflexivity|]. split; [apply ends_last_b_sound; vm_compute; reflexivity|].
  split; [left; reflexivity|].
  split; [exact (grun_star ex_env (g_blk g_branch_in_body) 1 (GAt 0 [] ex_st))|].
  split; [reflexivity|].
  intros H.
  pose proof (lrun_lstar ex_env [COp (mkI O_b [ALbl "x"]); COp (op_int 1); COp (op0 O_return_)] 5
                         (LAt (pos_of g_branch_in_body [0] 0) [] ex_st)) as R.
  pose proof (lstar_final_unique _ _ _ _ _ H eq_refl R) as U.
  vm_compute in U. specialize (U eq_refl). discriminate U.
Qed.
