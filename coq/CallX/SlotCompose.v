(* GENERATED from Proofs/SlotCompose.v by harness/tools/callx_gen.py (semantics with a call oracle, CallX/Denote.v); do not edit. *)
(* Proofs/SlotCompose.v — the slot-assignment rewrite [ASlot u |-> AInt (look u)] (the function
   [assign_slots] maps over every routine, Comp/Compile.v) is a semantic identity
     * operation by operation ([do_op_rw]),
     * on linear code, step for step ([lstep_rw], [lstar_rw], [lrun_rw]),
     * on block graphs, block step for block step ([gstep_rw], [star_rw]),
   for every environment whose [e_asg] agrees with [look] on the slots that occur, provided the slots
   that are accessed DIRECTLY (load/store with exactly one slot immediate) get a number below 256:
   [do_op] gives such an access the meaning "cell [e_asg env u], no range check"; after the rewrite the
   same instruction carries an integer immediate and runs through [exec_op] with the AVM's range check.
   A slot immediate in any other position ([int] of a ScratchIndex, a load/store with several
   immediates, any other opcode) is turned into the integer [e_asg env u] by [arg_to_imm] already, so for
   those agreement alone suffices.
   Also here: what [map_graph_ops] does to a graph ([mgo_blk]) and that it keeps the shape facts the
   sort and flatten stages need ([mgo_wf], [mgo_gpres]). *)
From Coq Require Import List Arith NArith String Bool Lia.
From PV Require Import Base.Bytes AVM.Syntax AVM.Ops AVM.Machine Src.Expr CallX.Denote
  Comp.Blocks Comp.Lower Comp.Passes CallX.GraphSem CallX.LinearSem Comp.Compile
  Proofs.LowerFrame CallX.NormalizeSem CallX.SortCorrect Proofs.EndToEndExits CallX.EndToEndGlue.
Import ListNotations.

(* ================================================================================================ *)
(* 1. the rewrite                                                                                    *)
(* ================================================================================================ *)
Definition rw_arg (look : N -> N) (a : arg) : arg :=
  match a with ASlot s => AInt (look s) | _ => a end.

Definition rw_instr (look : N -> N) : instr -> instr := rewrite_instr (rw_arg look).

Definition rw_comp (look : N -> N) (c : comp) : comp :=
  match c with COp i => COp (rw_instr look i) | other => other end.

Definition rw_code (look : N -> N) (code : list comp) : list comp := map (rw_comp look) code.

Definition rw_block (look : N -> N) (bb : block) : block := set_ops bb (map (rw_instr look) (b_ops bb)).

(* slots occurring in an immediate list / an op list / a linear code *)
Definition arg_slots (l : list arg) : list N :=
  flat_map (fun a => match a with ASlot s => [s] | _ => [] end) l.

Lemma instr_slots_eq i : instr_slots i = arg_slots (i_args i).
Proof. reflexivity. Qed.

Definition ops_slots (ops : list instr) : list N := flat_map instr_slots ops.

Definition comp_slots (c : comp) : list N := match c with COp i => instr_slots i | _ => [] end.
Definition code_slots (code : list comp) : list N := flat_map comp_slots code.

(* the slot a load/store accesses directly (the only place where the abstract semantics has no range check) *)
Definition direct_slots (i : instr) : list N :=
  match slot_access (i_op i) (i_args i) with Some (_, u) => [u] | None => [] end.
Definition ops_direct (ops : list instr) : list N := flat_map direct_slots ops.
Definition comp_direct (c : comp) : list N := match c with COp i => direct_slots i | _ => [] end.
Definition code_direct (code : list comp) : list N := flat_map comp_direct code.

(* the two hypotheses *)
Definition agree_on (env : denv) (look : N -> N) (l : list N) : Prop :=
  forall u, In u l -> e_asg env u = look u.
Definition in_range (look : N -> N) (l : list N) : Prop :=
  forall u, In u l -> (look u < 256)%N.

Lemma rw_arg_idem look a : rw_arg look (rw_arg look a) = rw_arg look a.
Proof. destruct a; reflexivity. Qed.

Lemma rw_instr_idem look i : rw_instr look (rw_instr look i) = rw_instr look i.
Proof.
  unfold rw_instr, rewrite_instr. cbn [i_op i_args]. rewrite map_map. f_equal.
  apply map_ext. intros a. apply rw_arg_idem.
Qed.

Lemma rw_instr_op look i : i_op (rw_instr look i) = i_op i.
Proof. reflexivity. Qed.

Lemma rw_instr_args look i : i_args (rw_instr look i) = map (rw_arg look) (i_args i).
Proof. reflexivity. Qed.

(* no placeholder survives *)
Lemma rw_arg_no_slot look a u : rw_arg look a <> ASlot u.
Proof. destruct a; cbn; discriminate. Qed.

Lemma rw_args_no_slots look l : arg_slots (map (rw_arg look) l) = [].
Proof. induction l as [|a t IH]; [reflexivity|]. cbn [map arg_slots flat_map]. fold (arg_slots (map (rw_arg look) t)). rewrite IH. destruct a; reflexivity. Qed.

Lemma rw_instr_no_slots look i : instr_slots (rw_instr look i) = [].
Proof. rewrite instr_slots_eq, rw_instr_args. apply rw_args_no_slots. Qed.

Lemma rw_code_no_slots look code : code_slots (rw_code look code) = [].
Proof.
  induction code as [|c t IH]; [reflexivity|]. unfold rw_code, code_slots in *. cbn [map flat_map]. rewrite IH, app_nil_r.
  destruct c as [i| |]; cbn [rw_comp comp_slots]; [apply rw_instr_no_slots|reflexivity|reflexivity].
Qed.

(* direct slots are slots *)
Lemma slot_access_inv o imms b u : slot_access o imms = Some (b, u) ->
  imms = [ASlot u] /\ (if b then is_load o = true else is_store o = true).
Proof.
  unfold slot_access. destruct imms as [|a [|a2 t]]; try discriminate; destruct a; try discriminate.
  destruct (is_load o) eqn:L.
  - intros E. injection E as E1 E2. subst. split; reflexivity.
  - destruct (is_store o) eqn:S; [|discriminate]. intros E. injection E as E1 E2. subst. split; reflexivity.
Qed.

Lemma direct_slots_incl i u : In u (direct_slots i) -> In u (instr_slots i).
Proof.
  unfold direct_slots. destruct (slot_access (i_op i) (i_args i)) as [[b v]|] eqn:E; [|intros []].
  intros [<-|[]]. destruct (slot_access_inv _ _ _ _ E) as [Ea _]. rewrite instr_slots_eq, Ea. left. reflexivity.
Qed.

Lemma code_direct_incl code u : In u (code_direct code) -> In u (code_slots code).
Proof.
  unfold code_direct, code_slots. rewrite !in_flat_map. intros (c & Hc & Hu). exists c. split; [exact Hc|].
  destruct c as [i| |]; cbn [comp_direct comp_slots] in *; [apply direct_slots_incl; exact Hu|destruct Hu|destruct Hu].
Qed.

Lemma ops_direct_incl ops u : In u (ops_direct ops) -> In u (ops_slots ops).
Proof.
  unfold ops_direct, ops_slots. rewrite !in_flat_map. intros (c & Hc & Hu). exists c. split; [exact Hc|].
  apply direct_slots_incl; exact Hu.
Qed.

(* ================================================================================================ *)
(* 2. one operation                                                                                  *)
(* ================================================================================================ *)
Lemma is_load_eq o : is_load o = true -> o = O_load.
Proof. destruct o; intros H; try discriminate H; reflexivity. Qed.
Lemma is_store_eq o : is_store o = true -> o = O_store.
Proof. destruct o; intros H; try discriminate H; reflexivity. Qed.

Lemma exec_load_lt cx i stk st : (i < 256)%N ->
  exec_op cx O_load [IInt i] stk st = OOk (scratch_get (s_scratch st) i :: stk) st.
Proof. intros H. unfold exec_op. cbn [exec_pure imms_to_args]. apply N.ltb_lt in H. rewrite H. reflexivity. Qed.

Lemma exec_store_lt cx i v stk st : (i < 256)%N ->
  exec_op cx O_store [IInt i] (v :: stk) st = OOk stk (set_scratch st i v).
Proof. intros H. unfold exec_op. cbn [exec_pure imms_to_args]. apply N.ltb_lt in H. rewrite H. reflexivity. Qed.

Lemma exec_store_nil cx i st : exec_op cx O_store [IInt i] [] st = OFail.
Proof. reflexivity. Qed.

(* out of range: the AVM fails (used by the necessity examples) *)
Lemma exec_load_ge cx i stk st : (256 <= i)%N -> exec_op cx O_load [IInt i] stk st = OFail.
Proof. intros H. unfold exec_op. cbn [exec_pure imms_to_args]. apply N.ltb_ge in H. rewrite H. reflexivity. Qed.

Lemma arg_to_imm_rw env look o a :
  (forall u, a = ASlot u -> e_asg env u = look u) ->
  arg_to_imm env o (rw_arg look a) = arg_to_imm env o a.
Proof.
  intros H. destruct a as [n|s|l|u|sb]; try reflexivity.
  cbn [rw_arg arg_to_imm]. rewrite (H u eq_refl). reflexivity.
Qed.

Lemma args_to_imms_rw env look o l : agree_on env look (arg_slots l) ->
  args_to_imms env o (map (rw_arg look) l) = args_to_imms env o l.
Proof.
  induction l as [|a t IH]; intros H; [reflexivity|]. cbn [map args_to_imms].
  rewrite arg_to_imm_rw, IH; [reflexivity| |].
  - intros u Hu. apply H. unfold arg_slots. cbn [flat_map]. apply in_or_app. right. exact Hu.
  - intros u Ea. subst a. apply H. left. reflexivity.
Qed.

(* after the rewrite no instruction is a "variable access" of the abstract semantics any more *)
Lemma slot_access_rw_none look o imms : slot_access o (map (rw_arg look) imms) = None.
Proof.
  destruct imms as [|a [|a2 t]]; try reflexivity; destruct a; reflexivity.
Qed.

(* the call instruction carries a routine reference, which the rewrite leaves alone *)
Lemma call_target_rw look o imms : call_target o (map (rw_arg look) imms) = call_target o imms.
Proof.
  unfold call_target. destruct o; try reflexivity.
  destruct imms as [|a [|a2 t]]; try reflexivity; destruct a; reflexivity.
Qed.

Theorem do_op_rw env look o imms stk st :
  agree_on env look (arg_slots imms) ->
  in_range look (direct_slots (mkI o imms)) ->
  do_op env o (map (rw_arg look) imms) stk st = do_op env o imms stk st.
Proof.
  intros Ha Hr. unfold do_op at 1 2. rewrite call_target_rw.
  destruct (call_target o imms) as [cf|]; [reflexivity|]. rewrite slot_access_rw_none.
  unfold direct_slots in Hr. cbn [i_op i_args] in Hr.
  destruct (slot_access o imms) as [[b u]|] eqn:E.
  - destruct (slot_access_inv _ _ _ _ E) as [Ei Ho]. subst imms.
    assert (Lu : (look u < 256)%N) by (apply Hr; left; reflexivity).
    assert (Au : e_asg env u = look u) by (apply Ha; left; reflexivity).
    cbn [map rw_arg args_to_imms arg_to_imm]. rewrite Au. destruct b.
    + apply is_load_eq in Ho. subst o. rewrite (exec_load_lt _ _ _ _ Lu). reflexivity.
    + apply is_store_eq in Ho. subst o. destruct stk as [|v r].
      * rewrite exec_store_nil. reflexivity.
      * rewrite (exec_store_lt _ _ _ _ _ Lu). reflexivity.
  - rewrite (args_to_imms_rw env look o imms Ha). reflexivity.
Qed.

Corollary do_op_rw_instr env look i stk st :
  agree_on env look (instr_slots i) -> in_range look (direct_slots i) ->
  do_op env (i_op (rw_instr look i)) (i_args (rw_instr look i)) stk st = do_op env (i_op i) (i_args i) stk st.
Proof. destruct i as [o imms]. intros Ha Hr. rewrite rw_instr_op, rw_instr_args. cbn [i_op i_args]. apply do_op_rw; assumption. Qed.

(* ================================================================================================ *)
(* 3. linear code: the step function is unchanged                                                    *)
(* ================================================================================================ *)
Lemma find_label_rw look l code : find_label l (rw_code look code) = find_label l code.
Proof.
  induction code as [|c t IH]; [reflexivity|]. unfold rw_code in *. cbn [map].
  destruct c as [i|l' cm|v]; cbn [rw_comp find_label]; rewrite IH; reflexivity.
Qed.

Lemma jump_of_rw look i : jump_of (rw_instr look i) = jump_of i.
Proof.
  destruct i as [o args]. unfold jump_of, rw_instr, rewrite_instr. cbn [i_op i_args].
  destruct args as [|a [|a2 t]]; cbn [map].
  - reflexivity.
  - destruct a; cbn [rw_arg]; destruct o; reflexivity.
  - destruct a; cbn [rw_arg]; destruct o; reflexivity.
Qed.

Lemma goto_rw look code l stk st : goto (rw_code look code) l stk st = goto code l stk st.
Proof. unfold goto. rewrite find_label_rw. reflexivity. Qed.

Lemma lstep_op_rw env look code pc i stk st :
  agree_on env look (instr_slots i) -> in_range look (direct_slots i) ->
  lstep_op env (rw_code look code) pc (rw_instr look i) stk st = lstep_op env code pc i stk st.
Proof.
  intros Ha Hr. unfold lstep_op. rewrite jump_of_rw, (do_op_rw_instr env look i stk st Ha Hr), rw_instr_op.
  destruct (is_return (i_op i)); [reflexivity|]. destruct (is_retsub (i_op i)); [reflexivity|].
  destruct (jump_of i) as [[[| |] l]|]; try reflexivity.
  - apply goto_rw.
  - destruct stk as [|v s']; [reflexivity|]. destruct (truthy v) as [[|]|]; try reflexivity. apply goto_rw.
  - destruct stk as [|v s']; [reflexivity|]. destruct (truthy v) as [[|]|]; try reflexivity. apply goto_rw.
Qed.

Lemma nth_comp_slots code pc c : nth_error code pc = Some c ->
  (forall u, In u (comp_slots c) -> In u (code_slots code)) /\
  (forall u, In u (comp_direct c) -> In u (code_direct code)).
Proof.
  intros E. apply nth_error_In in E. split; intros u Hu; [unfold code_slots|unfold code_direct];
    apply in_flat_map; exists c; split; assumption.
Qed.

(* MAIN (linear level): same configuration after every step, whatever the configuration *)
Theorem lstep_rw env look code :
  agree_on env look (code_slots code) -> in_range look (code_direct code) ->
  forall c, lstep env (rw_code look code) c = lstep env code c.
Proof.
  intros Ha Hr [pc stk st| | | | |]; try reflexivity. cbn [lstep]. unfold rw_code at 1. rewrite nth_error_map.
  destruct (nth_error code pc) as [c|] eqn:E; cbn [option_map]; [|reflexivity].
  destruct (nth_comp_slots code pc c E) as [S1 S2].
  destruct c as [i|l cm|v]; cbn [rw_comp]; try reflexivity.
  f_equal. apply lstep_op_rw.
  - intros u Hu. apply Ha, S1. exact Hu.
  - intros u Hu. apply Hr, S2. exact Hu.
Qed.

(* ... hence the same runs, in both directions, the same halting outcomes, and the same fuelled runs *)
Lemma lstar_of_step_eq env code code' :
  (forall c, lstep env code' c = lstep env code c) ->
  forall c c', lstar env code c c' -> lstar env code' c c'.
Proof.
  intros H c c' S. induction S as [c|c c1 c2 S1 _ IH]; [apply lstar_refl|].
  eapply lstar_step; [rewrite H; exact S1|exact IH].
Qed.

Theorem lstar_rw env look code :
  agree_on env look (code_slots code) -> in_range look (code_direct code) ->
  forall c c', lstar env (rw_code look code) c c' <-> lstar env code c c'.
Proof.
  intros Ha Hr c c'. pose proof (lstep_rw env look code Ha Hr) as H. split.
  - apply lstar_of_step_eq. intros x. symmetry. apply H.
  - apply lstar_of_step_eq. exact H.
Qed.

Theorem lrun_rw env look code :
  agree_on env look (code_slots code) -> in_range look (code_direct code) ->
  forall fuel c, lrun fuel env (rw_code look code) c = lrun fuel env code c.
Proof.
  intros Ha Hr. pose proof (lstep_rw env look code Ha Hr) as H.
  induction fuel as [|f IH]; intros c; [reflexivity|]. cbn [lrun]. rewrite H.
  destruct (lstep env code c) as [c'|]; [apply IH|reflexivity].
Qed.

(* the simple form of the hypotheses: every slot of the code is assigned as the environment says, below 256 *)
Definition slots_ok (env : denv) (look : N -> N) (l : list N) : Prop :=
  forall u, In u l -> e_asg env u = look u /\ (look u < 256)%N.

Lemma slots_ok_code env look code : slots_ok env look (code_slots code) ->
  agree_on env look (code_slots code) /\ in_range look (code_direct code).
Proof.
  intros H. split; intros u Hu; [exact (proj1 (H u Hu))|]. exact (proj2 (H u (code_direct_incl code u Hu))).
Qed.

Corollary rewrite_preserves env look code : slots_ok env look (code_slots code) ->
  (forall c, lstep env (rw_code look code) c = lstep env code c) /\
  (forall c c', lstar env (rw_code look code) c c' <-> lstar env code c c') /\
  (forall fuel c, lrun fuel env (rw_code look code) c = lrun fuel env code c).
Proof.
  intros H. destruct (slots_ok_code env look code H) as [Ha Hr].
  split; [exact (lstep_rw env look code Ha Hr)|]. split; [exact (lstar_rw env look code Ha Hr)|exact (lrun_rw env look code Ha Hr)].
Qed.

(* code without placeholders does not look at the assignment component of the environment at all *)
Definition with_asg (env : denv) (f : N -> N) : denv :=
  mkEnv (e_ctx env) f (e_msel env) (e_subs env) (e_in_sub env) (e_param env) (e_call env).

Lemma arg_to_imm_asg env f o a : (forall u, a <> ASlot u) -> arg_to_imm (with_asg env f) o a = arg_to_imm env o a.
Proof. intros H. destruct a as [n|s|l|u|sb]; try reflexivity. destruct (H u eq_refl). Qed.

Lemma args_to_imms_asg env f o l : arg_slots l = [] -> args_to_imms (with_asg env f) o l = args_to_imms env o l.
Proof.
  induction l as [|a t IH]; intros H; [reflexivity|]. cbn [args_to_imms].
  unfold arg_slots in H. cbn [flat_map] in H. apply app_eq_nil in H. destruct H as [H1 H2].
  rewrite arg_to_imm_asg, (IH H2); [reflexivity|]. intros u E. subst a. discriminate H1.
Qed.

Lemma do_op_asg env f o imms stk st : arg_slots imms = [] ->
  do_op (with_asg env f) o imms stk st = do_op env o imms stk st.
Proof.
  intros H. unfold do_op. cbn [with_asg e_call].
  destruct (call_target o imms) as [cf|]; [reflexivity|].
  assert (S : slot_access o imms = None).
  { destruct (slot_access o imms) as [[b u]|] eqn:E; [|reflexivity].
    destruct (slot_access_inv _ _ _ _ E) as [Ei _]. subst imms. discriminate H. }
  rewrite S, (args_to_imms_asg env f o imms H). reflexivity.
Qed.

Theorem lstep_asg_irrelevant env f code : code_slots code = [] ->
  forall c, lstep (with_asg env f) code c = lstep env code c.
Proof.
  intros H [pc stk st| | | | |]; try reflexivity. cbn [lstep].
  destruct (nth_error code pc) as [c|] eqn:E; [|reflexivity].
  destruct c as [i|l cm|v]; try reflexivity. f_equal. unfold lstep_op.
  assert (Si : arg_slots (i_args i) = []).
  { destruct (arg_slots (i_args i)) as [|u r] eqn:Ea; [reflexivity|]. exfalso.
    destruct (nth_comp_slots code pc (COp i) E) as [S1 _]. specialize (S1 u). cbn [comp_slots] in S1.
    rewrite instr_slots_eq, Ea, H in S1. apply S1. left. reflexivity. }
  rewrite (do_op_asg env f _ _ stk st Si). reflexivity.
Qed.

Theorem lstar_asg_irrelevant env f code : code_slots code = [] ->
  forall c c', lstar (with_asg env f) code c c' <-> lstar env code c c'.
Proof.
  intros H c c'. pose proof (lstep_asg_irrelevant env f code H) as Hs. split; intros S.
  - induction S as [x|x x1 x2 S1 _ IH]; [apply lstar_refl|]. eapply lstar_step; [rewrite <- Hs; exact S1|exact IH].
  - induction S as [x|x x1 x2 S1 _ IH]; [apply lstar_refl|]. eapply lstar_step; [rewrite Hs; exact S1|exact IH].
Qed.

(* ================================================================================================ *)
(* 4. block graphs                                                                                   *)
(* ================================================================================================ *)
Lemma exec_ops_rw env look ops : agree_on env look (ops_slots ops) -> in_range look (ops_direct ops) ->
  forall stk st, exec_ops env (map (rw_instr look) ops) stk st = exec_ops env ops stk st.
Proof.
  induction ops as [|i t IH]; intros Ha Hr stk st; [reflexivity|]. cbn [map exec_ops].
  rewrite do_op_rw_instr, rw_instr_op.
  - destruct (is_return (i_op i)); [reflexivity|]. destruct (is_retsub (i_op i)); [reflexivity|].
    destruct (do_op env (i_op i) (i_args i) stk st); try reflexivity. apply IH.
    + intros u Hu. apply Ha. unfold ops_slots. cbn [flat_map]. apply in_or_app. right. exact Hu.
    + intros u Hu. apply Hr. unfold ops_direct. cbn [flat_map]. apply in_or_app. right. exact Hu.
  - intros u Hu. apply Ha. unfold ops_slots. cbn [flat_map]. apply in_or_app. left. exact Hu.
  - intros u Hu. apply Hr. unfold ops_direct. cbn [flat_map]. apply in_or_app. left. exact Hu.
Qed.

(* G' is G with SOME blocks rewritten (those whose slots are assigned consistently) *)
Definition rw_graph (env : denv) (look : N -> N) (G G' : bgraph) : Prop :=
  forall b, match G b with
            | None => G' b = None
            | Some bb => G' b = Some bb \/
                         (G' b = Some (rw_block look bb) /\
                          agree_on env look (ops_slots (b_ops bb)) /\ in_range look (ops_direct (b_ops bb)))
            end.

Theorem gstep_rw env look G G' : rw_graph env look G G' ->
  forall c, gstep env G' c = gstep env G c.
Proof.
  intros H [b stk st| | | | |]; try reflexivity. cbn [gstep]. specialize (H b).
  destruct (G b) as [bb|]; [|rewrite H; reflexivity].
  destruct H as [H|(H & Ha & Hr)]; rewrite H; [reflexivity|].
  destruct bb as [ops n|ops t f]; cbn [rw_block set_ops b_ops] in *; rewrite (exec_ops_rw env look ops Ha Hr); reflexivity.
Qed.

Theorem star_rw env look G G' : rw_graph env look G G' ->
  forall c c', star env G' c c' <-> star env G c c'.
Proof.
  intros H c c'. pose proof (gstep_rw env look G G' H) as Hs. split; intros S.
  - induction S as [x|x x1 x2 S1 _ IH]; [apply star_refl|]. eapply star_step; [rewrite <- Hs; exact S1|exact IH].
  - induction S as [x|x x1 x2 S1 _ IH]; [apply star_refl|]. eapply star_step; [rewrite Hs; exact S1|exact IH].
Qed.

(* ================================================================================================ *)
(* 5. what map_graph_ops does                                                                        *)
(* ================================================================================================ *)
Definition mgo_body (f : instr -> instr) (g : graph) (b : id) : graph :=
  match g_blk g b with
  | Some bb => set_blk g b (set_ops bb (map f (b_ops bb)))
  | None => g
  end.

Definition map_block (f : instr -> instr) (bb : block) : block := set_ops bb (map f (b_ops bb)).

Lemma map_graph_ops_eq f c :
  map_graph_ops f c =
  mkCR (cr_sub c) (fold_left (mgo_body f) (iterate (cr_graph c) (cr_start c)) (cr_graph c)) (cr_start c) (cr_end c).
Proof. reflexivity. Qed.

Lemma map_block_idem f bb : (forall i, f (f i) = f i) -> map_block f (map_block f bb) = map_block f bb.
Proof.
  intros H. unfold map_block. rewrite b_ops_set_ops, map_map.
  replace (map (fun x => f (f x)) (b_ops bb)) with (map f (b_ops bb)) by (apply map_ext; intros i; symmetry; apply H).
  destruct bb; reflexivity.
Qed.

Lemma mgo_body_blk f g w b :
  g_blk (mgo_body f g w) b = if Nat.eqb b w then option_map (map_block f) (g_blk g b) else g_blk g b.
Proof.
  unfold mgo_body. destruct (g_blk g w) as [bb|] eqn:E.
  - unfold set_blk, define. cbn [g_blk]. unfold upd. destruct (Nat.eqb b w) eqn:Eb; [|reflexivity].
    apply Nat.eqb_eq in Eb. subst b. rewrite E. reflexivity.
  - destruct (Nat.eqb b w) eqn:Eb; [|reflexivity]. apply Nat.eqb_eq in Eb. subst b. rewrite E. reflexivity.
Qed.

Lemma mgo_body_rest f g w : g_next (mgo_body f g w) = g_next g /\ g_inc (mgo_body f g w) = g_inc g.
Proof. unfold mgo_body. destruct (g_blk g w); split; reflexivity. Qed.

Lemma mgo_fold_blk f : (forall i, f (f i) = f i) -> forall order g b,
  g_blk (fold_left (mgo_body f) order g) b =
  if mem_id b order then option_map (map_block f) (g_blk g b) else g_blk g b.
Proof.
  intros Hf. induction order as [|w t IH]; intros g b; [reflexivity|].
  cbn [fold_left mem_id]. rewrite IH, mgo_body_blk.
  destruct (Nat.eqb b w) eqn:Eb; cbn [orb]; [|reflexivity].
  destruct (mem_id b t); [|reflexivity].
  destruct (g_blk g b) as [bb|]; cbn [option_map]; [rewrite (map_block_idem f bb Hf)|]; reflexivity.
Qed.

Lemma mgo_fold_rest f : forall order g,
  g_next (fold_left (mgo_body f) order g) = g_next g /\ g_inc (fold_left (mgo_body f) order g) = g_inc g.
Proof.
  induction order as [|w t IH]; intros g; [split; reflexivity|]. cbn [fold_left].
  destruct (IH (mgo_body f g w)) as [A B]. destruct (mgo_body_rest f g w) as [A' B']. split; congruence.
Qed.

(* the slot rewrite of a routine *)
Definition rw_routine (look : N -> N) (c : croutine) : croutine := map_graph_ops (rw_instr look) c.

Lemma rw_routine_fields look c :
  cr_sub (rw_routine look c) = cr_sub c /\ cr_start (rw_routine look c) = cr_start c /\
  cr_end (rw_routine look c) = cr_end c.
Proof. repeat split; reflexivity. Qed.

Lemma map_block_rw look bb : map_block (rw_instr look) bb = rw_block look bb.
Proof. reflexivity. Qed.

Theorem mgo_blk look c b :
  g_blk (cr_graph (rw_routine look c)) b =
  if mem_id b (iterate (cr_graph c) (cr_start c)) then option_map (rw_block look) (g_blk (cr_graph c) b)
  else g_blk (cr_graph c) b.
Proof.
  unfold rw_routine. rewrite map_graph_ops_eq. cbn [cr_graph].
  apply (mgo_fold_blk (rw_instr look) (rw_instr_idem look)).
Qed.

Lemma mgo_next look c : g_next (cr_graph (rw_routine look c)) = g_next (cr_graph c).
Proof. unfold rw_routine. rewrite map_graph_ops_eq. cbn [cr_graph]. apply mgo_fold_rest. Qed.

Lemma mgo_out_of look c b : out_of (cr_graph (rw_routine look c)) b = out_of (cr_graph c) b.
Proof.
  unfold out_of. rewrite mgo_blk. destruct (mem_id b (iterate (cr_graph c) (cr_start c))); [|reflexivity].
  destruct (g_blk (cr_graph c) b) as [bb|]; cbn [option_map]; [|reflexivity]. unfold rw_block. apply outgoing_set_ops.
Qed.

Lemma mgo_wf look c : wf (cr_graph c) -> wf (cr_graph (rw_routine look c)).
Proof.
  intros W i Li. rewrite mgo_next in Li. rewrite mgo_blk, (W i Li).
  destruct (mem_id i (iterate (cr_graph c) (cr_start c))); reflexivity.
Qed.

(* the rewrite keeps every opcode, hence the terminal ops and the single exit *)
Lemma is_term_rw look i : is_term_op (rw_instr look i) = is_term_op i.
Proof. reflexivity. Qed.

Lemma existsb_term_rw look ops : existsb is_term_op (map (rw_instr look) ops) = existsb is_term_op ops.
Proof. induction ops as [|a t IH]; [reflexivity|]. cbn [map existsb]. rewrite IH, is_term_rw. reflexivity. Qed.

Lemma rw_block_bpres look b : bpres b (rw_block look b).
Proof.
  unfold rw_block. split.
  - intros [T O]. rewrite b_ops_set_ops, existsb_term_rw in T. rewrite outgoing_set_ops in O. split; assumption.
  - intros o E. subst b. cbn. eauto.
Qed.

Lemma mgo_gpres look c : gpres (cr_graph c) (cr_graph (rw_routine look c)).
Proof.
  intros i. rewrite mgo_blk. destruct (mem_id i (iterate (cr_graph c) (cr_start c)));
    destruct (g_blk (cr_graph c) i) as [b|]; cbn [option_map];
    try reflexivity; eexists; (split; [reflexivity|]); [apply rw_block_bpres|apply bpres_refl].
Qed.

(* slots of the routine = slots of the blocks TealBlock.Iterate visits *)
Lemma in_insert_sorted' x y l : In x (insert_sorted y l) <-> x = y \/ In x l.
Proof.
  induction l as [|z t IH]; cbn [insert_sorted]; [cbn; intuition|].
  destruct (N.eqb_spec y z) as [E|E].
  - subst. cbn. intuition.
  - destruct (N.ltb y z); cbn [In]; [intuition|]. rewrite IH. intuition.
Qed.

Lemma in_sort_dedup' x l : In x (sort_dedup l) <-> In x l.
Proof.
  unfold sort_dedup. induction l as [|y t IH]; cbn [fold_right]; [tauto|].
  rewrite in_insert_sorted', IH. cbn. intuition.
Qed.

Lemma routine_slots_spec c u :
  In u (routine_slots c) <->
  exists b, In b (iterate (cr_graph c) (cr_start c)) /\ In u (ops_slots (get_ops (cr_graph c) b)).
Proof.
  unfold routine_slots. rewrite in_sort_dedup', in_flat_map. reflexivity.
Qed.

(* the rewritten routine graph is the original one with the visited blocks rewritten *)
Theorem rw_routine_graph env look c :
  slots_ok env look (routine_slots c) ->
  rw_graph env look (g_blk (cr_graph c)) (g_blk (cr_graph (rw_routine look c))).
Proof.
  intros H b. rewrite mgo_blk. destruct (g_blk (cr_graph c) b) as [bb|] eqn:Eb.
  - destruct (mem_id b (iterate (cr_graph c) (cr_start c))) eqn:M; [|left; reflexivity].
    right. cbn [option_map]. split; [reflexivity|]. apply mem_id_In in M.
    assert (Hs : forall u, In u (ops_slots (b_ops bb)) -> In u (routine_slots c)).
    { intros u Hu. apply routine_slots_spec. exists b. split; [exact M|]. unfold get_ops. rewrite Eb. exact Hu. }
    split; intros u Hu.
    + exact (proj1 (H u (Hs u Hu))).
    + exact (proj2 (H u (Hs u (ops_direct_incl _ _ Hu)))).
  - destruct (mem_id b (iterate (cr_graph c) (cr_start c))); reflexivity.
Qed.
