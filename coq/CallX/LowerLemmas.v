(* GENERATED from Proofs/LowerLemmas.v by harness/tools/callx_gen.py (semantics with a call oracle, CallX/Denote.v); do not edit. *)
(* Proofs/LowerLemmas.v — lemmas for Proofs/LowerCorrect.v: the block graph produced by [lower] executes exactly as [denote] says:
   operands left to right exactly once, branch polarity, loop back-edges, Break/Continue targets,
   Return/Exit, the multi-value store order.  Parametric in the operation semantics ([do_op]). *)
From Coq Require Import List Arith NArith String Bool Lia.
From PV Require Import Base.Bytes AVM.Syntax AVM.Machine Src.Expr CallX.Denote
  Comp.Blocks Comp.WideRatio Comp.Lower CallX.GraphSem Proofs.LowerFrame.
Import ListNotations.

Section Correct.
  Variable env : denv.

  Notation star := (star env).

  Lemma star_trans G a b c : star G a b -> star G b c -> star G a c.
  Proof. induction 1; eauto using GraphSem.star. Qed.

  Lemma star_one G a b : gstep env G a = Some b -> star G a b.
  Proof. intros H. eapply star_step; [exact H|apply star_refl]. Qed.

  Lemma gstep_mono G G' c c' : gincl G G' -> gstep env G c = Some c' -> gstep env G' c = Some c'.
  Proof.
    intros Hi. destruct c as [b stk st| | | | |]; cbn [gstep]; try discriminate.
    destruct (G b) eqn:E; [|discriminate]. rewrite (Hi _ _ E). auto.
  Qed.

  Lemma star_mono G G' c c' : gincl G G' -> star G c c' -> star G' c c'.
  Proof. induction 2; eauto using GraphSem.star, gstep_mono. Qed.

  (* what an outcome means on the graph, from configuration c0, for a fragment whose normal exit is k *)
  Definition tgt (G : bgraph) (c0 : gconf) (k : option id) (c : lctx) (r : dout) : Prop :=
    match r with
    | DNorm s st => star G c0 (cont_conf k s st)
    | DBrk s st => star G c0 (cont_conf (l_brk c) s st)
    | DCont s st => star G c0 (cont_conf (l_cont c) s st)
    | DRet s st => star G c0 (GRet s st)
    | DExit v st => star G c0 (GExit v st)
    | DEnd s st => star G c0 (GEnd s st)
    | DFail => star G c0 GFail
    | DFuel => True
    | DUnsup _ => True
    end.

  Lemma tgt_pre G c0 c1 k c r : star G c0 c1 -> tgt G c1 k c r -> tgt G c0 k c r.
  Proof. intros S. destruct r; cbn [tgt]; intros H; try exact Logic.I; eapply star_trans; eauto. Qed.

  (* outcomes other than DNorm/DBrk/DCont do not depend on the continuation or the loop context *)
  Definition abrupt (r : dout) : Prop :=
    match r with DNorm _ _ | DBrk _ _ | DCont _ _ => False | _ => True end.

  Lemma tgt_abrupt G c0 k c k' c' r : abrupt r -> tgt G c0 k c r -> tgt G c0 k' c' r.
  Proof. destruct r; cbn [abrupt tgt]; intros A H; try contradiction; exact H. Qed.

  Lemma tgt_then G c0 k1 k c r1 (f : list value -> mstate -> dout) :
    tgt G c0 k1 c r1 ->
    (forall s st, tgt G (cont_conf k1 s st) k c (f s st)) ->
    tgt G c0 k c (bind r1 f).
  Proof.
    intros H1 H2. destruct r1; cbn [tgt bind] in *; try exact H1.
    eapply tgt_pre; [exact H1|apply H2].
  Qed.

  (* one step through a block *)
  Lemma step_simple G b ops n stk st :
    G b = Some (BSimple ops n) ->
    gstep env G (GAt b stk st) =
    Some (match exec_ops env ops stk st with
          | BOk s' st' => cont_conf n s' st'
          | BExit v st' => GExit v st'
          | BRet s' st' => GRet s' st'
          | BFail => GFail
          | BUnsup o => GUnsup o
          end).
  Proof. intros E. cbn [gstep]. rewrite E. reflexivity. Qed.

  Lemma empty_block G b n stk st : G b = Some (BSimple [] n) -> star G (GAt b stk st) (cont_conf n stk st).
  Proof. intros E. apply star_one. rewrite (step_simple _ _ _ _ _ _ E). reflexivity. Qed.

  Lemma tgt_branch G c0 br t f k c r (yes no : list value -> mstate -> dout) :
    tgt G c0 (Some br) c r ->
    G br = Some (BCond [] (Some t) (Some f)) ->
    (forall s st, tgt G (GAt t s st) k c (yes s st)) ->
    (forall s st, tgt G (GAt f s st) k c (no s st)) ->
    tgt G c0 k c (branch r yes no).
  Proof.
    intros H Hb Hy Hn. destruct r; cbn [tgt branch] in *; try exact H.
    destruct stk as [|v s].
    - eapply star_trans; [exact H|]. apply star_one. cbn [cont_conf gstep]. rewrite Hb. reflexivity.
    - destruct (truthy v) as [[|]|] eqn:T.
      + eapply tgt_pre; [|apply Hy]. eapply star_trans; [exact H|]. apply star_one.
        cbn [cont_conf gstep]. rewrite Hb. cbn [exec_ops]. rewrite T. reflexivity.
      + eapply tgt_pre; [|apply Hn]. eapply star_trans; [exact H|]. apply star_one.
        cbn [cont_conf gstep]. rewrite Hb. cbn [exec_ops]. rewrite T. reflexivity.
      + eapply star_trans; [exact H|]. apply star_one.
        cbn [cont_conf gstep]. rewrite Hb. cbn [exec_ops]. rewrite T. reflexivity.
  Qed.

  (* a block holding one non-control operation *)
  Definition plain_op (o : opc) : Prop := is_return o = false /\ is_retsub o = false.

  Lemma do_op_shape o imms stk st :
    match do_op env o imms stk st with DNorm _ _ | DExit _ _ | DFail | DUnsup _ => True | _ => False end.
  Proof.
    unfold do_op.
    destruct (call_target o imms) as [cf|]; [destruct (e_call env cf stk st); exact Logic.I|].
    destruct (slot_access o imms) as [[[|] u]|].
    - exact Logic.I.
    - destruct stk; exact Logic.I.
    - destruct (args_to_imms env o imms); [|exact Logic.I].
      destruct (exec_op (e_ctx env) o l stk st); try exact Logic.I.
      destruct (is_err o); exact Logic.I.
  Qed.

  Lemma op_block G b o imms n stk st : plain_op o ->
    G b = Some (BSimple [mkI o imms] n) ->
    forall c, tgt G (GAt b stk st) n c (do_op env o imms stk st).
  Proof.
    intros [P1 P2] E c.
    assert (S1 : gstep env G (GAt b stk st) =
                 Some (match do_op env o imms stk st with
                       | DNorm s' st' => cont_conf n s' st'
                       | DExit v' st' => GExit v' st'
                       | DUnsup o' => GUnsup o'
                       | _ => GFail
                       end)).
    { rewrite (step_simple _ _ _ _ _ _ E). cbn [exec_ops i_op i_args]. rewrite P1, P2.
      destruct (do_op env o imms stk st); reflexivity. }
    pose proof (do_op_shape o imms stk st) as D.
    destruct (do_op env o imms stk st); cbn [tgt]; try contradiction; try exact Logic.I;
      apply star_one; exact S1.
  Qed.

  Lemma slot_access_none o imms : is_load o = false -> is_store o = false -> slot_access o imms = None.
  Proof.
    intros H1 H2. unfold slot_access. destruct imms as [|[] [|]]; try reflexivity. rewrite H1, H2. reflexivity.
  Qed.

  Lemma do_op_ctrl o imms stk st : is_return o = true \/ is_retsub o = true ->
    exists o', do_op env o imms stk st = DUnsup o'.
  Proof.
    intros H. unfold do_op.
    assert (o = O_return_ \/ o = O_retsub) as [-> | ->].
    { destruct H as [H|H]; destruct o; try discriminate H; auto. }
    - cbn [call_target]. rewrite slot_access_none by reflexivity.
      destruct (args_to_imms env O_return_ imms); [|eauto]. unfold exec_op. cbn. eauto.
    - cbn [call_target]. rewrite slot_access_none by reflexivity.
      destruct (args_to_imms env O_retsub imms); [|eauto]. unfold exec_op. cbn. eauto.
  Qed.

  Lemma op_block_any G b o imms n stk st :
    G b = Some (BSimple [mkI o imms] n) ->
    forall c, tgt G (GAt b stk st) n c (do_op env o imms stk st).
  Proof.
    intros E c.
    destruct (is_return o) eqn:R1; [|destruct (is_retsub o) eqn:R2].
    - destruct (do_op_ctrl o imms stk st (or_introl R1)) as [o' ->]. exact Logic.I.
    - destruct (do_op_ctrl o imms stk st (or_intror R2)) as [o' ->]. exact Logic.I.
    - apply op_block; [split; assumption|exact E].
  Qed.

  Lemma gincl_refl G : gincl G G.
  Proof. intros i b H; exact H. Qed.
  Lemma gincl_trans A B C : gincl A B -> gincl B C -> gincl A C.
  Proof. intros H1 H2 i b H; auto. Qed.
  Lemma frame_gincl g g' : wf g -> frame g g' -> gincl (g_blk g) (g_blk g').
  Proof. intros W F i b H. eapply frame_keeps; eauto. Qed.

  (* a list of plain operations in one block *)
  Fixpoint all_plain (ops : list instr) : Prop :=
    match ops with [] => True | i :: t => plain_op (i_op i) /\ all_plain t end.

  Lemma exec_ops_den_ops ops : all_plain ops -> forall stk st,
    exec_ops env ops stk st =
    match den_ops env ops stk st with
    | DNorm s' st' => BOk s' st'
    | DExit v' st' => BExit v' st'
    | DUnsup o => BUnsup o
    | _ => BFail
    end.
  Proof.
    induction ops as [|i t IH]; intros P stk st; cbn [exec_ops den_ops]; [reflexivity|].
    destruct P as [[P1 P2] Pt]. rewrite P1, P2.
    pose proof (do_op_shape (i_op i) (i_args i) stk st) as D.
    destruct (do_op env (i_op i) (i_args i) stk st); cbn [bind]; try contradiction; try reflexivity.
    apply IH; exact Pt.
  Qed.

  Lemma den_ops_shape ops stk st :
    match den_ops env ops stk st with DNorm _ _ | DExit _ _ | DFail | DUnsup _ => True | _ => False end.
  Proof.
    revert stk st; induction ops as [|i t IH]; intros stk st; cbn [den_ops]; [exact Logic.I|].
    pose proof (do_op_shape (i_op i) (i_args i) stk st) as D.
    destruct (do_op env (i_op i) (i_args i) stk st); cbn [bind]; try contradiction; try exact Logic.I.
    apply IH.
  Qed.

  Lemma ops_block G b ops n stk st : all_plain ops ->
    G b = Some (BSimple ops n) ->
    forall c, tgt G (GAt b stk st) n c (den_ops env ops stk st).
  Proof.
    intros P E c.
    assert (S1 : gstep env G (GAt b stk st) =
                 Some (match den_ops env ops stk st with
                       | DNorm s' st' => cont_conf n s' st'
                       | DExit v' st' => GExit v' st'
                       | DUnsup o' => GUnsup o'
                       | _ => GFail
                       end)).
    { rewrite (step_simple _ _ _ _ _ _ E). rewrite (exec_ops_den_ops _ P).
      destruct (den_ops env ops stk st); reflexivity. }
    pose proof (den_ops_shape ops stk st) as D.
    destruct (den_ops env ops stk st); cbn [tgt]; try contradiction; try exact Logic.I;
      apply star_one; exact S1.
  Qed.

  (* specification of a single-expression lowering function against an evaluator *)
  Definition lw_ok (lw : expr -> option id -> graph -> (id * id) * graph)
             (den : expr -> list value -> mstate -> dout) (c : lctx) (e : expr) : Prop :=
    forall k g s en g', wf g -> lw e k g = ((s, en), g') ->
    forall G, gincl (g_blk g') G -> forall stk st, tgt G (GAt s stk st) k c (den e stk st).

  Section HelperOk.
    Variable lw : expr -> option id -> graph -> (id * id) * graph.
    Variable den : expr -> list value -> mstate -> dout.
    Variable c : lctx.

    Lemma chain_ok es : Forall (lw_frame lw) es -> Forall (lw_ok lw den c) es ->
      forall k g ks en g', wf g -> lower_chain lw es k g = ((ks, en), g') ->
      forall G, gincl (g_blk g') G -> forall stk st,
        tgt G (cont_conf ks stk st) k c (den_list den es stk st).
    Proof.
      intros HF HO. induction es as [|e t IH]; intros k g ks en g' W E G HG stk st; cbn [lower_chain den_list] in *.
      - inversion E; subst. cbn [tgt]. apply star_refl.
      - inversion HF as [|? ? Fe Ft]; subst. inversion HO as [|? ? Oe Ot]; subst.
        destruct (lower_chain lw t k g) as [[kt endt] g1] eqn:E1.
        destruct (lw e kt g1) as [[s en0] g2] eqn:E2. inversion E; subst; clear E.
        pose proof (lower_chain_frame lw t Ft _ _ _ _ W E1) as F1.
        pose proof (Fe _ _ _ _ (frame_wf _ _ F1) E2) as F2.
        cbn [cont_conf].
        apply tgt_then with (k1 := kt).
        + exact (Oe kt g1 s en0 g' (frame_wf _ _ F1) E2 G HG stk st).
        + intros s1 st1. apply (IH Ft Ot k g kt endt g1 W E1).
          eapply gincl_trans; [|exact HG]. apply frame_gincl; [exact (frame_wf _ _ F1)|exact F2].
    Qed.

    Lemma nary_rest_ok op l : Forall (lw_frame lw) l -> Forall (lw_ok lw den c) l ->
      forall k g ks en g', wf g -> lower_nary_rest lw op l k g = ((ks, en), g') ->
      forall G, gincl (g_blk g') G -> forall stk st,
        tgt G (cont_conf ks stk st) k c (den_nary_rest env den op l stk st).
    Proof.
      intros HF HO. induction l as [|e t IH]; intros k g ks en g' W E G HG stk st;
        cbn [lower_nary_rest den_nary_rest] in *.
      - inversion E; subst. cbn [tgt]. apply star_refl.
      - inversion HF as [|? ? Fe Ft]; subst. inversion HO as [|? ? Oe Ot]; subst.
        destruct (lower_nary_rest lw op t k g) as [[kt endt] g1] eqn:E1.
        destruct (add_block g1 (BSimple [I op []] kt)) as [opb g2] eqn:E2.
        destruct (lw e (Some opb) g2) as [[s en0] g3] eqn:E3. inversion E; subst; clear E.
        pose proof (lower_nary_rest_frame lw op t Ft _ _ _ _ W E1) as F1.
        destruct (add_block_spec _ _ _ _ (frame_wf _ _ F1) E2) as (F2 & B2 & _).
        pose proof (Fe _ _ _ _ (frame_wf _ _ F2) E3) as F3.
        assert (G3 : gincl (g_blk g2) G).
        { eapply gincl_trans; [|exact HG]. apply frame_gincl; eauto using frame_wf. }
        cbn [cont_conf].
        apply tgt_then with (k1 := Some opb).
        + exact (Oe (Some opb) g2 s en0 g' (frame_wf _ _ F2) E3 G HG stk st).
        + intros s1 st1. cbn [cont_conf].
          apply tgt_then with (k1 := kt).
          * apply op_block_any. apply G3. exact B2.
          * intros s2 st2. apply (IH Ft Ot k g kt endt g1 W E1).
            eapply gincl_trans; [|exact G3]. apply frame_gincl; [exact (frame_wf _ _ F1)|exact F2].
    Qed.

    (* the normal exit may be prolonged through an empty block *)
    Lemma tgt_post G c0 en k r : G en = Some (BSimple [] k) ->
      tgt G c0 (Some en) c r -> tgt G c0 k c r.
    Proof.
      intros E H. destruct r; cbn [tgt] in *; try exact H.
      eapply star_trans; [exact H|]. cbn [cont_conf]. apply empty_block. exact E.
    Qed.

    Lemma do_op_err stk st : do_op env O_err [] stk st = DFail.
    Proof. unfold do_op. cbn. destruct stk; reflexivity. Qed.

    Lemma err_block G b n stk st : G b = Some (BSimple [I O_err []] n) -> star G (GAt b stk st) GFail.
    Proof.
      intros E. pose proof (op_block G b O_err [] n stk st (conj eq_refl eq_refl) E c) as H.
      rewrite do_op_err in H. exact H.
    Qed.

    Lemma cond_arms_ok l :
      Forall (fun a => lw_frame lw (fst a) /\ lw_frame lw (snd a)) l ->
      Forall (fun a => lw_ok lw den c (fst a) /\ lw_ok lw den c (snd a)) l ->
      forall k en errb g st0 g', wf g -> lower_cond_arms lw l en errb g = (st0, g') ->
      forall G, gincl (g_blk g') G ->
      G en = Some (BSimple [] k) -> G errb = Some (BSimple [I O_err []] None) ->
      forall stk st, tgt G (GAt st0 stk st) k c (den_cond den l stk st).
    Proof.
      intros HF HO. induction l as [|[cnd pred] t IH]; intros k en errb g st0 g' W E G HG Een Eerr stk st;
        cbn [lower_cond_arms den_cond] in *.
      - inversion E; subst. cbn [tgt]. eapply err_block; exact Eerr.
      - inversion HF as [|? ? [Fc Fp] Ft]; subst. inversion HO as [|? ? [Oc Op] Ot]; subst. cbn [fst snd] in *.
        destruct (lower_cond_arms lw t en errb g) as [fls g1] eqn:E1.
        destruct (lw pred (Some en) g1) as [[ps pe] g2] eqn:E2.
        destruct (add_block g2 (BCond [] (Some ps) (Some fls))) as [br g3] eqn:E3.
        destruct (lw cnd (Some br) g3) as [[cs ce] g4] eqn:E4. inversion E; subst; clear E.
        pose proof (lower_cond_arms_frame lw t Ft _ _ _ _ _ W E1) as F1.
        pose proof (Fp _ _ _ _ (frame_wf _ _ F1) E2) as F2.
        destruct (add_block_spec _ _ _ _ (frame_wf _ _ F2) E3) as (F3 & B3 & _).
        pose proof (Fc _ _ _ _ (frame_wf _ _ F3) E4) as F4.
        assert (G3 : gincl (g_blk g3) G).
        { eapply gincl_trans; [|exact HG]. apply frame_gincl; [exact (frame_wf _ _ F3)|exact F4]. }
        assert (G2 : gincl (g_blk g2) G).
        { eapply gincl_trans; [|exact G3]. apply frame_gincl; [exact (frame_wf _ _ F2)|exact F3]. }
        assert (G1 : gincl (g_blk g1) G).
        { eapply gincl_trans; [|exact G2]. apply frame_gincl; [exact (frame_wf _ _ F1)|exact F2]. }
        eapply tgt_branch.
        + exact (Oc (Some br) g3 st0 ce g' (frame_wf _ _ F3) E4 G HG stk st).
        + apply G3. exact B3.
        + intros s1 st1. eapply tgt_post; [exact Een|].
          exact (Op (Some en) g1 ps pe g2 (frame_wf _ _ F1) E2 G G2 s1 st1).
        + intros s1 st1. exact (IH Ft Ot k en errb g fls g1 W E1 G G1 Een Eerr s1 st1).
    Qed.

    Lemma den_stores_app a b stk st :
      den_stores env (a ++ b) stk st = bind (den_stores env a stk st) (fun s' st' => den_stores env b s' st').
    Proof.
      revert stk st; induction a as [|x t IH]; intros stk st; cbn [app den_stores]; [reflexivity|].
      destruct (do_op env O_store [ASlot x] stk st); cbn [bind]; try reflexivity. apply IH.
    Qed.

    Lemma stores_ok outs : forall kk first g kst lastst g', wf g ->
      lower_stores outs kk first g = (kst, lastst, g') ->
      forall G, gincl (g_blk g') G -> forall stk st,
        tgt G (cont_conf kst stk st) kk c (den_stores env (rev outs) stk st).
    Proof.
      induction outs as [|s t IH]; intros kk first g kst lastst g' W E G HG stk st; cbn [lower_stores rev] in *.
      - inversion E; subst. cbn [den_stores tgt]. apply star_refl.
      - destruct (add_block g (BSimple [I O_store [ASlot s]] kk)) as [b g1] eqn:E1.
        destruct (add_block_spec _ _ _ _ W E1) as (F1 & B1 & _).
        pose proof (lower_stores_frame _ _ _ _ _ _ _ (frame_wf _ _ F1) E) as F2.
        rewrite den_stores_app.
        apply tgt_then with (k1 := Some b).
        + exact (IH (Some b) _ g1 kst lastst g' (frame_wf _ _ F1) E G HG stk st).
        + intros s1 st1. cbn [cont_conf den_stores].
          assert (X : tgt G (GAt b s1 st1) kk c (do_op env O_store [ASlot s] s1 st1)).
          { apply op_block; [split; reflexivity|]. apply HG.
            eapply frame_keeps; [exact F2|exact (frame_wf _ _ F1)|exact B1]. }
          destruct (do_op env O_store [ASlot s] s1 st1); cbn [bind tgt] in *; exact X.
    Qed.

    Lemma do_op_comment l stk st : do_op env O_comment [AStr l] stk st = DNorm stk st.
    Proof. unfold do_op. cbn. destruct stk; reflexivity. Qed.

    Lemma comment_lines_ok lines : forall k g ks g', wf g ->
      lower_comment_lines lines k g = (ks, g') ->
      forall G, gincl (g_blk g') G -> forall stk st, star G (cont_conf ks stk st) (cont_conf k stk st).
    Proof.
      induction lines as [|l t IH]; intros k g ks g' W E G HG stk st; cbn [lower_comment_lines] in *.
      - inversion E; subst. apply star_refl.
      - destruct (lower_comment_lines t k g) as [kt g1] eqn:E1.
        destruct (add_block g1 (BSimple [mkI O_comment [AStr l]] kt)) as [b g2] eqn:E2. inversion E; subst; clear E.
        pose proof (lower_comment_lines_frame _ _ _ _ _ W E1) as F1.
        destruct (add_block_spec _ _ _ _ (frame_wf _ _ F1) E2) as (F2 & B2 & _).
        cbn [cont_conf].
        pose proof (op_block G b O_comment [AStr l] kt stk st (conj eq_refl eq_refl) (HG _ _ B2) c) as X.
        rewrite do_op_comment in X. cbn [tgt] in X.
        eapply star_trans; [exact X|].
        apply (IH k g kt g1 W E1).
        eapply gincl_trans; [|exact HG]. apply frame_gincl; [exact (frame_wf _ _ F1)|exact F2].
    Qed.

    (* the assert op: pops the condition, fails unless it is a non-zero integer *)
    Lemma do_op_assert stk st :
      do_op env O_assert_ [] stk st =
      match stk with
      | v :: r => match truthy v with Some true => DNorm r st | _ => DFail end
      | [] => DFail
      end.
    Proof.
      unfold do_op. destruct stk as [|[n|b] r]; cbn -[N.eqb]; try reflexivity.
      unfold exec_op. cbn -[N.eqb]. destruct (N.eqb n 0); reflexivity.
    Qed.

    Lemma assert_block G c0 opb k r (yes : list value -> mstate -> dout) k' :
      G opb = Some (BSimple [I O_assert_ []] k) ->
      tgt G c0 (Some opb) c r ->
      (forall s st, tgt G (cont_conf k s st) k' c (yes s st)) ->
      tgt G c0 k' c (branch r yes (fun _ _ => DFail)).
    Proof.
      intros E H Hy. destruct r; cbn [tgt branch] in *; try exact H.
      pose proof (op_block G opb O_assert_ [] k stk st (conj eq_refl eq_refl) E c) as X.
      rewrite do_op_assert in X.
      destruct stk as [|v s].
      - cbn [tgt] in X. eapply star_trans; [exact H|exact X].
      - destruct (truthy v) as [[|]|]; cbn [tgt] in X.
        + eapply tgt_pre; [|apply Hy]. eapply star_trans; [exact H|exact X].
        + eapply star_trans; [exact H|exact X].
        + eapply star_trans; [exact H|exact X].
    Qed.

    Section AssertOk.
      Variable version : N.
      Variable comment : option (list string).

      Lemma assert1_ok cnd : lw_frame lw cnd -> lw_ok lw den c cnd ->
        forall k g s en g', wf g -> lower_assert1 lw version comment cnd k g = ((s, en), g') ->
        forall G, gincl (g_blk g') G -> forall (yes : list value -> mstate -> dout) k',
          (forall s1 st1, tgt G (cont_conf k s1 st1) k' c (yes s1 st1)) ->
          forall stk st, tgt G (GAt s stk st) k' c (branch (den cnd stk st) yes (fun _ _ => DFail)).
      Proof.
        intros Fc Oc k g s en g' W E G HG yes k' Hy stk st. unfold lower_assert1 in E.
        destruct (N.leb 3 version).
        - destruct (add_block g (BSimple [I O_assert_ []] k)) as [opb g1] eqn:E1.
          destruct (add_block_spec _ _ _ _ W E1) as (F1 & B1 & _).
          destruct comment as [lines|].
          + destruct (lower_comment_lines lines (Some opb) g1) as [ks ga] eqn:E2.
            destruct (add_block ga (BSimple [] ks)) as [st0 gb] eqn:E3.
            destruct (lw cnd (Some st0) gb) as [[cs ce] g3] eqn:E4. inversion E; subst; clear E.
            pose proof (lower_comment_lines_frame _ _ _ _ _ (frame_wf _ _ F1) E2) as F2.
            destruct (add_block_spec _ _ _ _ (frame_wf _ _ F2) E3) as (F3 & B3 & _).
            pose proof (Fc _ _ _ _ (frame_wf _ _ F3) E4) as F4.
            assert (Gb : gincl (g_blk gb) G).
            { eapply gincl_trans; [|exact HG]. apply frame_gincl; [exact (frame_wf _ _ F3)|exact F4]. }
            assert (Ga : gincl (g_blk ga) G).
            { eapply gincl_trans; [|exact Gb]. apply frame_gincl; [exact (frame_wf _ _ F2)|exact F3]. }
            assert (G1 : gincl (g_blk g1) G).
            { eapply gincl_trans; [|exact Ga]. apply frame_gincl; [exact (frame_wf _ _ F1)|exact F2]. }
            eapply assert_block; [apply G1; exact B1| |exact Hy].
            pose proof (Oc (Some st0) gb s ce g' (frame_wf _ _ F3) E4 G HG stk st) as X.
            (* from st0 (empty) through the comment blocks to opb *)
            destruct (den cnd stk st); cbn [tgt] in *; try exact X.
            eapply star_trans; [exact X|]. cbn [cont_conf].
            eapply star_trans; [apply empty_block; apply Gb; exact B3|].
            exact (comment_lines_ok lines (Some en) g1 ks ga (frame_wf _ _ F1) E2 G Ga stk0 st1).
          + destruct (lw cnd (Some opb) g1) as [[cs ce] g3] eqn:E4. inversion E; subst; clear E.
            pose proof (Fc _ _ _ _ (frame_wf _ _ F1) E4) as F4.
            assert (G1 : gincl (g_blk g1) G).
            { eapply gincl_trans; [|exact HG]. apply frame_gincl; [exact (frame_wf _ _ F1)|exact F4]. }
            eapply assert_block; [apply G1; exact B1| |exact Hy].
            exact (Oc (Some en) g1 s ce g' (frame_wf _ _ F1) E4 G HG stk st).
        - destruct (add_block g (BSimple [] k)) as [en0 g1] eqn:E1.
          destruct (add_block g1 (BSimple [I O_err []] None)) as [errb g2] eqn:E2.
          destruct (add_block g2 (BCond [] (Some en0) (Some errb))) as [br g3] eqn:E3.
          destruct (lw cnd (Some br) g3) as [[cs ce] g4] eqn:E4. inversion E; subst; clear E.
          destruct (add_block_spec _ _ _ _ W E1) as (F1 & B1 & _).
          destruct (add_block_spec _ _ _ _ (frame_wf _ _ F1) E2) as (F2 & B2 & _).
          destruct (add_block_spec _ _ _ _ (frame_wf _ _ F2) E3) as (F3 & B3 & _).
          pose proof (Fc _ _ _ _ (frame_wf _ _ F3) E4) as F4.
          assert (G3 : gincl (g_blk g3) G).
          { eapply gincl_trans; [|exact HG]. apply frame_gincl; [exact (frame_wf _ _ F3)|exact F4]. }
          assert (G2 : gincl (g_blk g2) G).
          { eapply gincl_trans; [|exact G3]. apply frame_gincl; [exact (frame_wf _ _ F2)|exact F3]. }
          assert (G1 : gincl (g_blk g1) G).
          { eapply gincl_trans; [|exact G2]. apply frame_gincl; [exact (frame_wf _ _ F1)|exact F2]. }
          eapply tgt_branch.
          + exact (Oc (Some br) g3 s ce g' (frame_wf _ _ F3) E4 G HG stk st).
          + apply G3. exact B3.
          + intros s1 st1. eapply tgt_pre; [|apply Hy]. apply empty_block. apply G1. exact B1.
          + intros s1 st1. cbn [tgt]. eapply err_block. apply G2. exact B2.
      Qed.

      Lemma asserts_ok l : Forall (lw_frame lw) l -> Forall (lw_ok lw den c) l ->
        forall k g ks en g', wf g -> lower_asserts lw version comment l k g = ((ks, en), g') ->
        forall G, gincl (g_blk g') G -> forall stk st,
          tgt G (cont_conf ks stk st) k c (den_asserts den l stk st).
      Proof.
        intros HF HO. induction l as [|e t IH]; intros k g ks en g' W E G HG stk st;
          cbn [lower_asserts den_asserts] in *.
        - inversion E; subst. cbn [tgt]. apply star_refl.
        - inversion HF as [|? ? Fe Ft]; subst. inversion HO as [|? ? Oe Ot]; subst.
          destruct (lower_asserts lw version comment t k g) as [[kt endt] g1] eqn:E1.
          destruct (lower_assert1 lw version comment e kt g1) as [[s en0] g2] eqn:E2. inversion E; subst; clear E.
          pose proof (lower_asserts_frame lw version comment t Ft _ _ _ _ W E1) as F1.
          pose proof (lower_assert1_frame lw version comment e Fe _ _ _ _ (frame_wf _ _ F1) E2) as F2.
          cbn [cont_conf].
          eapply (assert1_ok e Fe Oe kt g1 s en0 g' (frame_wf _ _ F1) E2 G HG).
          intros s1 st1. apply (IH Ft Ot k g kt endt g1 W E1).
          eapply gincl_trans; [|exact HG]. apply frame_gincl; [exact (frame_wf _ _ F1)|exact F2].
      Qed.
    End AssertOk.

    (* WideRatio *)
    Lemma mul_step_plain : all_plain mul_step_ops.
    Proof. cbn. repeat split; reflexivity. Qed.
    Lemma combine_plain : all_plain combine_ops.
    Proof. cbn. repeat split; reflexivity. Qed.

    Lemma wide_rest_ok l : Forall (lw_frame lw) l -> Forall (lw_ok lw den c) l ->
      forall k g ks en g', wf g -> lower_wide_rest lw l k g = ((ks, en), g') ->
      forall G, gincl (g_blk g') G -> forall stk st,
        tgt G (cont_conf ks stk st) k c (den_wide_rest env den l stk st).
    Proof.
      intros HF HO. induction l as [|e t IH]; intros k g ks en g' W E G HG stk st;
        cbn [lower_wide_rest den_wide_rest] in *.
      - inversion E; subst. cbn [tgt]. apply star_refl.
      - inversion HF as [|? ? Fe Ft]; subst. inversion HO as [|? ? Oe Ot]; subst.
        destruct (lower_wide_rest lw t k g) as [[kt endt] g1] eqn:E1.
        destruct (add_block g1 (BSimple mul_step_ops kt)) as [mb g2] eqn:E2.
        destruct (lw e (Some mb) g2) as [[s en0] g3] eqn:E3. inversion E; subst; clear E.
        pose proof (lower_wide_rest_frame lw t Ft _ _ _ _ W E1) as F1.
        destruct (add_block_spec _ _ _ _ (frame_wf _ _ F1) E2) as (F2 & B2 & _).
        pose proof (Fe _ _ _ _ (frame_wf _ _ F2) E3) as F3.
        assert (G3 : gincl (g_blk g2) G).
        { eapply gincl_trans; [|exact HG]. apply frame_gincl; [exact (frame_wf _ _ F2)|exact F3]. }
        cbn [cont_conf].
        apply tgt_then with (k1 := Some mb).
        + exact (Oe (Some mb) g2 s en0 g' (frame_wf _ _ F2) E3 G HG stk st).
        + intros s1 st1. cbn [cont_conf].
          apply tgt_then with (k1 := kt).
          * apply ops_block; [exact mul_step_plain|]. apply G3. exact B2.
          * intros s2 st2. apply (IH Ft Ot k g kt endt g1 W E1).
            eapply gincl_trans; [|exact G3]. apply frame_gincl; [exact (frame_wf _ _ F1)|exact F2].
    Qed.

    Lemma factors_ok fs : Forall (lw_frame lw) fs -> Forall (lw_ok lw den c) fs ->
      forall k g s en g', wf g -> lower_factors lw fs k g = ((s, en), g') ->
      forall G, gincl (g_blk g') G -> forall stk st,
        tgt G (GAt s stk st) k c (den_factors env den fs stk st).
    Proof.
      intros HF HO k g s en g' W E G HG stk st. unfold lower_factors in E. unfold den_factors.
      destruct fs as [|f0 [|f1 rest]].
      - destruct (add_block g (BSimple [] k)) as [b g1] eqn:E1. inversion E; subst; clear E.
        destruct (add_block_spec _ _ _ _ W E1) as (F1 & B1 & _).
        cbn [tgt]. apply empty_block. apply HG. exact B1.
      - inversion HF as [|? ? F0 _]; subst. inversion HO as [|? ? O0 _]; subst.
        destruct (lw f0 k g) as [[s0 e0] g1] eqn:E1.
        destruct (add_block g1 (BSimple [I1 O_int 0] (Some s0))) as [hw g2] eqn:E2.
        destruct (add_block g2 (BSimple [] (Some hw))) as [st0 g3] eqn:E3. inversion E; subst; clear E.
        pose proof (F0 _ _ _ _ W E1) as Fr1.
        destruct (add_block_spec _ _ _ _ (frame_wf _ _ Fr1) E2) as (Fr2 & B2 & _).
        destruct (add_block_spec _ _ _ _ (frame_wf _ _ Fr2) E3) as (Fr3 & B3 & _).
        assert (G2 : gincl (g_blk g2) G).
        { eapply gincl_trans; [|exact HG]. apply frame_gincl; [exact (frame_wf _ _ Fr2)|exact Fr3]. }
        assert (G1 : gincl (g_blk g1) G).
        { eapply gincl_trans; [|exact G2]. apply frame_gincl; [exact (frame_wf _ _ Fr1)|exact Fr2]. }
        eapply tgt_pre; [apply empty_block; apply HG; exact B3|]. cbn [cont_conf].
        apply tgt_then with (k1 := Some s0).
        + apply ops_block; [cbn; repeat split; reflexivity|]. apply G2. exact B2.
        + intros s1 st1. exact (O0 k g s0 en g1 W E1 G G1 s1 st1).
      - inversion HF as [|? ? F0 HF1]; subst. inversion HF1 as [|? ? F1 FR]; subst.
        inversion HO as [|? ? O0 HO1]; subst. inversion HO1 as [|? ? O1 OR]; subst.
        destruct (lower_wide_rest lw rest k g) as [[krest endrest] g1] eqn:E1.
        destruct (add_block g1 (BSimple [I0 O_mulw] krest)) as [m2 g2] eqn:E2.
        destruct (lw f1 (Some m2) g2) as [[s1 e1] g3] eqn:E3.
        destruct (lw f0 (Some s1) g3) as [[s0 e0] g4] eqn:E4.
        destruct (add_block g4 (BSimple [] (Some s0))) as [st0 g5] eqn:E5. inversion E; subst; clear E.
        pose proof (lower_wide_rest_frame lw rest FR _ _ _ _ W E1) as Fr1.
        destruct (add_block_spec _ _ _ _ (frame_wf _ _ Fr1) E2) as (Fr2 & B2 & _).
        pose proof (F1 _ _ _ _ (frame_wf _ _ Fr2) E3) as Fr3.
        pose proof (F0 _ _ _ _ (frame_wf _ _ Fr3) E4) as Fr4.
        destruct (add_block_spec _ _ _ _ (frame_wf _ _ Fr4) E5) as (Fr5 & B5 & _).
        assert (G4 : gincl (g_blk g4) G).
        { eapply gincl_trans; [|exact HG]. apply frame_gincl; [exact (frame_wf _ _ Fr4)|exact Fr5]. }
        assert (G3 : gincl (g_blk g3) G).
        { eapply gincl_trans; [|exact G4]. apply frame_gincl; [exact (frame_wf _ _ Fr3)|exact Fr4]. }
        assert (G2 : gincl (g_blk g2) G).
        { eapply gincl_trans; [|exact G3]. apply frame_gincl; [exact (frame_wf _ _ Fr2)|exact Fr3]. }
        assert (G1 : gincl (g_blk g1) G).
        { eapply gincl_trans; [|exact G2]. apply frame_gincl; [exact (frame_wf _ _ Fr1)|exact Fr2]. }
        eapply tgt_pre; [apply empty_block; apply HG; exact B5|]. cbn [cont_conf].
        apply tgt_then with (k1 := Some s1).
        + exact (O0 (Some s1) g3 s0 e0 g4 (frame_wf _ _ Fr3) E4 G G4 stk st).
        + intros x1 y1. cbn [cont_conf]. apply tgt_then with (k1 := Some m2).
          * exact (O1 (Some m2) g2 s1 e1 g3 (frame_wf _ _ Fr2) E3 G G3 x1 y1).
          * intros x2 y2. cbn [cont_conf]. apply tgt_then with (k1 := krest).
            -- apply ops_block; [cbn; repeat split; reflexivity|]. apply G2. exact B2.
            -- intros x3 y3. exact (wide_rest_ok rest FR OR k g krest endrest g1 W E1 G G1 x3 y3).
    Qed.
  End HelperOk.

  (* ---- loops ---- *)
  Lemma after_body_ok G c0 k c sub pm kin en cont_t r (again : list value -> mstate -> dout) :
    tgt G c0 kin (mkL sub (Some en) (Some cont_t) pm) r ->
    G en = Some (BSimple [] k) ->
    (forall s st, tgt G (cont_conf kin s st) k c (again s st)) ->
    (forall s st, tgt G (GAt cont_t s st) k c (again s st)) ->
    tgt G c0 k c (after_body r again).
  Proof.
    intros H Een Hn Hc. destruct r; cbn [tgt after_body l_brk l_cont cont_conf] in *; try exact H.
    - eapply tgt_pre; [exact H|apply Hn].
    - eapply star_trans; [exact H|]. apply empty_block. exact Een.
    - eapply tgt_pre; [exact H|apply Hc].
  Qed.

  Lemma hdr_ok G c0 k c sub pm kin en r (again : list value -> mstate -> dout) :
    tgt G c0 kin (mkL sub (Some en) None pm) r ->
    G en = Some (BSimple [] k) ->
    (forall s st, tgt G (cont_conf kin s st) k c (again s st)) ->
    tgt G c0 k c (hdr r again).
  Proof.
    intros H Een Hn. destruct r; cbn [tgt hdr l_brk l_cont cont_conf] in *; try exact H.
    - eapply tgt_pre; [exact H|apply Hn].
    - eapply star_trans; [exact H|]. apply empty_block. exact Een.
  Qed.

  Lemma while_loop_ok (den : expr -> list value -> mstate -> dout) G (c : lctx) sub pm k en br cs ds cnd body :
    G en = Some (BSimple [] k) -> G br = Some (BCond [] (Some ds) (Some en)) ->
    (forall stk st, tgt G (GAt cs stk st) (Some br) (mkL sub (Some en) None pm) (den cnd stk st)) ->
    (forall stk st, tgt G (GAt ds stk st) (Some cs) (mkL sub (Some en) (Some cs) pm) (den body stk st)) ->
    forall n stk st, tgt G (GAt cs stk st) k c (den_while den n cnd body stk st).
  Proof.
    intros Een Ebr Hc Hb. induction n as [|n IH]; intros stk st; cbn [den_while]; [exact Logic.I|].
    pose proof (Hc stk st) as H. destruct (den cnd stk st) eqn:R; cbn [tgt l_brk l_cont cont_conf branch] in *; try exact H.
    - (* condition evaluated *)
      change (tgt G (GAt cs stk st) k c (branch (DNorm stk0 st0)
               (fun s1 st1 => after_body (den body s1 st1) (fun s2 st2 => den_while den n cnd body s2 st2))
               (fun s1 st1 => DNorm s1 st1))).
      eapply tgt_branch with (br := br); [exact H|exact Ebr| |].
      + intros s1 st1. eapply after_body_ok; [apply Hb|exact Een| |].
        * intros s2 st2. apply IH.
        * intros s2 st2. apply IH.
      + intros s1 st1. cbn [tgt]. apply empty_block. exact Een.
    - (* Break in the condition *)
      eapply star_trans; [exact H|]. apply empty_block. exact Een.
  Qed.

  Lemma for_loop_ok (den : expr -> list value -> mstate -> dout) G (c : lctx) sub pm k en br cs ss ds cnd stp body :
    G en = Some (BSimple [] k) -> G br = Some (BCond [] (Some ds) (Some en)) ->
    (forall stk st, tgt G (GAt cs stk st) (Some br) (mkL sub (Some en) None pm) (den cnd stk st)) ->
    (forall stk st, tgt G (GAt ss stk st) (Some cs) (mkL sub (Some en) None pm) (den stp stk st)) ->
    (forall stk st, tgt G (GAt ds stk st) (Some ss) (mkL sub (Some en) (Some ss) pm) (den body stk st)) ->
    forall n stk st, tgt G (GAt cs stk st) k c (den_for den n cnd stp body stk st).
  Proof.
    intros Een Ebr Hc Hs Hb. induction n as [|n IH]; intros stk st; cbn [den_for]; [exact Logic.I|].
    pose proof (Hc stk st) as H. destruct (den cnd stk st) eqn:R; cbn [tgt l_brk l_cont cont_conf branch] in *; try exact H.
    - change (tgt G (GAt cs stk st) k c (branch (DNorm stk0 st0)
               (fun s1 st1 => after_body (den body s1 st1)
                                (fun s2 st2 => hdr (den stp s2 st2) (fun s3 st3 => den_for den n cnd stp body s3 st3)))
               (fun s1 st1 => DNorm s1 st1))).
      eapply tgt_branch with (br := br); [exact H|exact Ebr| |].
      + intros s1 st1.
        assert (Again : forall s2 st2, tgt G (GAt ss s2 st2) k c
                   (hdr (den stp s2 st2) (fun s3 st3 => den_for den n cnd stp body s3 st3))).
        { intros s2 st2. eapply hdr_ok; [apply Hs|exact Een|]. intros s3 st3. apply IH. }
        eapply after_body_ok; [apply Hb|exact Een| |].
        * intros s2 st2. apply Again.
        * intros s2 st2. apply Again.
      + intros s1 st1. cbn [tgt]. apply empty_block. exact Een.
    - eapply star_trans; [exact H|]. apply empty_block. exact Een.
  Qed.

  Lemma all_frames o c (l : list expr) : Forall (lw_frame (lower o c)) l.
  Proof. apply Forall_forall. intros x _. apply lower_frame. Qed.

  Lemma all_frames2 o c (l : list (expr * expr)) :
    Forall (fun a => lw_frame (lower o c) (fst a) /\ lw_frame (lower o c) (snd a)) l.
  Proof. apply Forall_forall. intros x _. split; apply lower_frame. Qed.

  Lemma return_block G b o n stk st : is_return o = true ->
    G b = Some (BSimple [mkI o []] n) ->
    star G (GAt b stk st) (match stk with v :: _ => GExit v st | [] => GFail end).
  Proof.
    intros R E. apply star_one. rewrite (step_simple _ _ _ _ _ _ E). cbn [exec_ops i_op]. rewrite R.
    destruct stk; reflexivity.
  Qed.

  Lemma retsub_block G b n stk st :
    G b = Some (BSimple [mkI O_retsub []] n) -> star G (GAt b stk st) (GRet stk st).
  Proof. intros E. apply star_one. rewrite (step_simple _ _ _ _ _ _ E). reflexivity. Qed.

  Lemma chain_start lw es k0 g ks en g' : lower_chain lw es (Some k0) g = ((ks, en), g') -> exists x, ks = Some x.
  Proof.
    destruct es as [|e t]; cbn [lower_chain]; intros E.
    - inversion E; eauto.
    - destruct (lower_chain lw t (Some k0) g) as [[kt endt] g1]. destruct (lw e kt g1) as [[s0 e0] g2].
      inversion E; eauto.
  Qed.

End Correct.
