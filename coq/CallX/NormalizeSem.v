(* GENERATED from Proofs/NormalizeSem.v by harness/tools/callx_gen.py (semantics with a call oracle, CallX/Denote.v); do not edit. *)
(* Proofs/NormalizeSem.v — the two semantic building blocks of NormalizeBlocks, for ALL graphs:
   [skip_equiv]  : re-pointing any set of edges that enter an empty single-successor block to that
                   block's successor preserves the reachable halting configurations from every block;
   [merge_equiv] : merging [prev] into [block] (ops concatenated, edges into [prev] re-pointed) is a
                   two-to-one simulation on any edge-closed set S of blocks of the new graph that
                   avoids [prev] and in which [block] has no other predecessor.
   Plus [exec_ops_app]: running a concatenation = running the parts in sequence, early exits included. *)
From Coq Require Import List Arith NArith String Bool Lia.
From PV Require Import Base.Bytes AVM.Syntax AVM.Machine Src.Expr CallX.Denote
  Comp.Blocks Comp.Lower Comp.Passes CallX.GraphSem CallX.SimCheck.
Import ListNotations.

(* ---- exec_ops over a concatenation ---- *)
Lemma exec_ops_app env a : forall b stk st,
  exec_ops env (a ++ b) stk st =
  match exec_ops env a stk st with
  | BOk s' st' => exec_ops env b s' st'
  | r => r
  end.
Proof.
  induction a as [|i a IH]; intros b stk st; [reflexivity|].
  cbn [app exec_ops].
  destruct (is_return (i_op i)); [destruct stk; reflexivity|].
  destruct (is_retsub (i_op i)); [reflexivity|].
  destruct (do_op env (i_op i) (i_args i) stk st); try reflexivity.
  apply IH.
Qed.

(* ---- one block step as a function of the block ---- *)
Definition bstep (env : denv) (b : block) (stk : list value) (st : mstate) : gconf :=
  match b with
  | BSimple ops n =>
      match exec_ops env ops stk st with
      | BOk s' st' => cont_conf n s' st'
      | BExit v st' => GExit v st'
      | BRet s' st' => GRet s' st'
      | BFail => GFail
      | BUnsup o => GUnsup o
      end
  | BCond ops t f =>
      match exec_ops env ops stk st with
      | BOk (v :: s') st' =>
          match truthy v with
          | Some true => match t with Some x => GAt x s' st' | None => GFail end
          | Some false => match f with Some x => GAt x s' st' | None => GFail end
          | None => GFail
          end
      | BOk [] _ => GFail
      | BExit v st' => GExit v st'
      | BRet s' st' => GRet s' st'
      | BFail => GFail
      | BUnsup o => GUnsup o
      end
  end.

Lemma gstep_bstep env G i stk st :
  gstep env G (GAt i stk st) = option_map (fun b => bstep env b stk st) (G i).
Proof. cbn [gstep]. destruct (G i) as [[o n|o t f]|]; reflexivity. Qed.

Lemma gstep_at env G i stk st c1 :
  gstep env G (GAt i stk st) = Some c1 -> exists b, G i = Some b /\ c1 = bstep env b stk st.
Proof.
  rewrite gstep_bstep. destruct (G i) as [b|]; [|discriminate].
  cbn [option_map]. intros E. exists b. split; [reflexivity|]. congruence.
Qed.

Lemma gstep_at' env G i stk st b :
  G i = Some b -> gstep env G (GAt i stk st) = Some (bstep env b stk st).
Proof. intros E. rewrite gstep_bstep, E. reflexivity. Qed.

Lemma gstep_halting env G c : halting c -> gstep env G c = None.
Proof. destruct c; cbn; intros H; try reflexivity. destruct H. Qed.

Lemma star_halting env G c c' : halting c -> star env G c c' -> c' = c.
Proof.
  intros H S. inversion S as [|a b d E S']; subst; [reflexivity|].
  rewrite gstep_halting in E by exact H. discriminate.
Qed.

Lemma star_trans' env G a b c : star env G a b -> star env G b c -> star env G a c.
Proof. induction 1; eauto using star. Qed.

Lemma star_one' env G a b : gstep env G a = Some b -> star env G a b.
Proof. intros H. eapply star_step; [exact H|apply star_refl]. Qed.

(* the target of a step is an outgoing edge of the block *)
Lemma bstep_target env b stk st x s' st' :
  bstep env b stk st = GAt x s' st' -> In x (outgoing b).
Proof.
  destruct b as [o n|o t f]; cbn [bstep outgoing].
  - destruct (exec_ops env o stk st); try discriminate.
    destruct n as [n|]; cbn [cont_conf]; [|discriminate].
    intros E. inversion E; subst. left. reflexivity.
  - destruct (exec_ops env o stk st) as [[|v s1] st1| | | |]; try discriminate.
    destruct (truthy v) as [[|]|]; try discriminate.
    + destruct t as [t|]; [|discriminate]. intros E. inversion E; subst. apply in_or_app. left. left. reflexivity.
    + destruct f as [f|]; [|discriminate]. intros E. inversion E; subst. apply in_or_app. right. left. reflexivity.
Qed.

(* ---- renaming the edges of a block ---- *)
Definition map_out (f : id -> id) (b : block) : block :=
  match b with
  | BSimple o n => BSimple o (option_map f n)
  | BCond o t e => BCond o (option_map f t) (option_map f e)
  end.

Definition map_conf (f : id -> id) (c : gconf) : gconf :=
  match c with GAt x s st => GAt (f x) s st | _ => c end.

Lemma bstep_map_out env f b stk st :
  bstep env (map_out f b) stk st = map_conf f (bstep env b stk st).
Proof.
  destruct b as [o n|o t e]; cbn [map_out bstep].
  - destruct (exec_ops env o stk st); try reflexivity. destruct n; reflexivity.
  - destruct (exec_ops env o stk st) as [[|v s1] st1| | | |]; try reflexivity.
    destruct (truthy v) as [[|]|]; try reflexivity; [destruct t|destruct e]; reflexivity.
Qed.

Lemma outgoing_map_out f b : outgoing (map_out f b) = map f (outgoing b).
Proof.
  destruct b as [o [n|]|o [t|] [e|]]; reflexivity.
Qed.

Lemma map_out_id f b : (forall x, f x = x) -> map_out f b = b.
Proof.
  intros H. destruct b as [o [n|]|o [t|] [e|]]; cbn; rewrite ?H; reflexivity.
Qed.

Lemma outgoing_set_ops b o : outgoing (set_ops b o) = outgoing b.
Proof. destruct b; reflexivity. Qed.

Lemma b_ops_set_ops b o : b_ops (set_ops b o) = o.
Proof. destruct b; reflexivity. Qed.

(* a step of the merged block = the step of [block] after [pops] ran *)
Lemma bstep_merged_ok env pops bb s0 st0 s1 st1 :
  exec_ops env pops s0 st0 = BOk s1 st1 ->
  bstep env (set_ops bb (pops ++ b_ops bb)) s0 st0 = bstep env bb s1 st1.
Proof.
  intros E. destruct bb as [o n|o t f]; cbn [set_ops b_ops bstep]; rewrite exec_ops_app, E; reflexivity.
Qed.

Definition early (r : bres) : gconf :=
  match r with
  | BOk _ _ => GFail
  | BExit v st => GExit v st
  | BRet s st => GRet s st
  | BFail => GFail
  | BUnsup o => GUnsup o
  end.

Lemma bstep_merged_early env pops bb s0 st0 :
  (forall s1 st1, exec_ops env pops s0 st0 <> BOk s1 st1) ->
  bstep env (set_ops bb (pops ++ b_ops bb)) s0 st0 = early (exec_ops env pops s0 st0).
Proof.
  intros N. destruct bb as [o n|o t f]; cbn [set_ops b_ops bstep]; rewrite exec_ops_app;
    destruct (exec_ops env pops s0 st0) as [s1 st1| | | |]; try reflexivity; exfalso; eapply N; reflexivity.
Qed.

Lemma bstep_simple_early env pops n s0 st0 :
  (forall s1 st1, exec_ops env pops s0 st0 <> BOk s1 st1) ->
  bstep env (BSimple pops n) s0 st0 = early (exec_ops env pops s0 st0).
Proof.
  intros N. cbn [bstep]. destruct (exec_ops env pops s0 st0) as [s1 st1| | | |]; try reflexivity.
  exfalso; eapply N; reflexivity.
Qed.

Lemma bstep_simple_ok env pops n s0 st0 s1 st1 :
  exec_ops env pops s0 st0 = BOk s1 st1 ->
  bstep env (BSimple pops n) s0 st0 = cont_conf n s1 st1.
Proof. intros E. cbn [bstep]. rewrite E. reflexivity. Qed.

Lemma early_halting r : (forall s1 st1, r <> BOk s1 st1) -> halting (early r).
Proof. destruct r; cbn; intros N; try exact Logic.I. Qed.

Lemma map_conf_halting f c : halting c -> map_conf f c = c.
Proof. destruct c; cbn; intros H; try reflexivity. destruct H. Qed.

(* =========================================================================================== *)
(* by-passing empty single-successor blocks                                                     *)
(* =========================================================================================== *)
Section Skip.
  Variable env : denv.
  Variables G G' : bgraph.

  Definition skip1 (x x' : id) : Prop := x' = x \/ G x = Some (BSimple [] (Some x')).

  Definition oskip (o o' : option id) : Prop :=
    match o, o' with
    | None, None => True
    | Some x, Some x' => skip1 x x'
    | _, _ => False
    end.

  Definition bskip (b b' : block) : Prop :=
    match b, b' with
    | BSimple o n, BSimple o' n' => o = o' /\ oskip n n'
    | BCond o t f, BCond o' t' f' => o = o' /\ oskip t t' /\ oskip f f'
    | _, _ => False
    end.

  Definition gskip : Prop :=
    forall i, match G i, G' i with
              | None, None => True
              | Some b, Some b' => bskip b b'
              | _, _ => False
              end.

  Definition cskip (c c' : gconf) : Prop :=
    c' = c \/ exists x x' s st, c = GAt x s st /\ c' = GAt x' s st /\ G x = Some (BSimple [] (Some x')).

  Lemma cskip_at x x' s st : skip1 x x' -> cskip (GAt x s st) (GAt x' s st).
  Proof. intros [E|E]; [subst; left; reflexivity|right; eauto 8]. Qed.

  Lemma bstep_skip b b' s st : bskip b b' -> cskip (bstep env b s st) (bstep env b' s st).
  Proof.
    destruct b as [o n|o t f], b' as [o' n'|o' t' f']; cbn [bskip]; try (intros []; fail).
    - intros [E K]; subst o'. cbn [bstep]. destruct (exec_ops env o s st); try (left; reflexivity).
      destruct n as [n|], n' as [n'|]; cbn [oskip] in K; cbn [cont_conf].
      + apply cskip_at. exact K.
      + destruct K.
      + destruct K.
      + left; reflexivity.
    - intros (E & K1 & K2); subst o'. cbn [bstep].
      destruct (exec_ops env o s st) as [[|v s1] st1| | | |]; try (left; reflexivity).
      destruct (truthy v) as [[|]|]; try (left; reflexivity).
      + destruct t as [t|], t' as [t'|]; cbn [oskip] in K1.
        * apply cskip_at; assumption.
        * destruct K1.
        * destruct K1.
        * left; reflexivity.
      + destruct f as [f|], f' as [f'|]; cbn [oskip] in K2.
        * apply cskip_at; assumption.
        * destruct K2.
        * destruct K2.
        * left; reflexivity.
  Qed.

  Hypothesis HG : gskip.

  Lemma skip_fwd c0 c : star env G c0 c -> halting c ->
    forall c0', cskip c0 c0' -> star env G' c0' c.
  Proof.
    induction 1 as [c|c0 c1 c E S IH]; intros Hh c0' K.
    - destruct K as [K|(x & x' & s & st & K1 & _)]; [subst; apply star_refl|subst; destruct Hh].
    - destruct K as [K|(x & x' & s & st & K1 & K2 & K3)].
      + subst c0'. destruct c0 as [i s st| | | | |]; try discriminate.
        rewrite gstep_bstep in E. specialize (HG i).
        destruct (G i) as [b|] eqn:Eb; [|discriminate]. cbn in E. inversion E; subst c1; clear E.
        destruct (G' i) as [b'|] eqn:Eb'; [|destruct HG].
        eapply star_step; [rewrite gstep_bstep, Eb'; reflexivity|].
        apply IH; [exact Hh|]. apply bstep_skip. exact HG.
      + subst c0 c0'. rewrite gstep_bstep, K3 in E. cbn in E. inversion E; subst c1; clear E.
        apply IH; [exact Hh|]. left. reflexivity.
  Qed.

  Lemma skip_bwd c0 c : star env G' c0 c -> halting c -> star env G c0 c.
  Proof.
    induction 1 as [c|c0 c1 c E S IH]; intros Hh; [apply star_refl|].
    destruct c0 as [i s st| | | | |]; try discriminate.
    rewrite gstep_bstep in E. specialize (HG i).
    destruct (G' i) as [b'|] eqn:Eb'; [|discriminate]. cbn in E. inversion E; subst c1; clear E.
    destruct (G i) as [b|] eqn:Eb; [|destruct HG].
    eapply star_step; [rewrite gstep_bstep, Eb; reflexivity|].
    destruct (bstep_skip b b' s st HG) as [K|(x & x' & s1 & st1 & K1 & K2 & K3)].
    - rewrite <- K. apply IH. exact Hh.
    - rewrite K1. eapply star_step; [rewrite gstep_bstep, K3; reflexivity|].
      cbn [bstep exec_ops cont_conf]. rewrite <- K2. apply IH. exact Hh.
  Qed.

  Theorem skip_equiv i : equiv_from env G i G' i.
  Proof.
    intros stk st c Hh. split; intros S.
    - eapply skip_fwd; [exact S|exact Hh|left; reflexivity].
    - apply skip_bwd; assumption.
  Qed.
End Skip.

(* =========================================================================================== *)
(* merging [prev] into [block]                                                                  *)
(* =========================================================================================== *)
Section Merge.
  Variable env : denv.
  Variables G G' : bgraph.
  Variables prev blk : id.
  Variable pops : list instr.
  Variable bb : block.
  Variable Lv : id -> Prop.

  Definition rd (x : id) : id := if Nat.eqb x prev then blk else x.

  Hypothesis Hprev : G prev = Some (BSimple pops (Some blk)).
  Hypothesis Hblk : G blk = Some bb.
  Hypothesis HS_closed : forall i b x, Lv i -> G' i = Some b -> In x (outgoing b) -> Lv x.
  Hypothesis HG'_other : forall i, Lv i -> i <> blk -> G' i = option_map (map_out rd) (G i).
  Hypothesis HG'_blk : Lv blk -> G' blk = Some (map_out rd (set_ops bb (pops ++ b_ops bb))).
  Hypothesis H_noedge : forall i b, Lv i -> G i = Some b -> In blk (outgoing b) -> blk = prev.

  Inductive mrel : gconf -> gconf -> Prop :=
  | mr_halt c : halting c -> mrel c c
  | mr_same i s st : Lv i -> i <> blk -> mrel (GAt i s st) (GAt i s st)
  | mr_prev s st : Lv blk -> mrel (GAt prev s st) (GAt blk s st)
  | mr_mid s0 st0 s1 st1 : Lv blk -> exec_ops env pops s0 st0 = BOk s1 st1 ->
                           mrel (GAt blk s1 st1) (GAt blk s0 st0).

  (* the step of an Lv-blk in G and the renamed step in G' stay related *)
  Lemma mrel_target i b b' s st :
    Lv i -> G i = Some b -> G' i = Some b' -> outgoing b' = map rd (outgoing b) ->
    mrel (bstep env b s st) (map_conf rd (bstep env b s st)).
  Proof.
    intros Si Eb Eb' Eo.
    destruct (bstep env b s st) as [x s' st'| | | | |] eqn:E; try (apply mr_halt; exact Logic.I).
    cbn [map_conf]. apply bstep_target in E.
    assert (Sx : Lv (rd x)).
    { eapply HS_closed; [exact Si|exact Eb'|]. rewrite Eo. apply in_map. exact E. }
    unfold rd in *. destruct (Nat.eqb_spec x prev) as [P|P].
    - subst x. apply mr_prev. exact Sx.
    - apply mr_same; [exact Sx|]. intros Q. subst x. apply P. exact (H_noedge i b Si Eb E).
  Qed.

  Lemma early_case s st :
    (exists s1 st1, exec_ops env pops s st = BOk s1 st1) \/
    (forall s1 st1, exec_ops env pops s st <> BOk s1 st1).
  Proof. destruct (exec_ops env pops s st); eauto; right; discriminate. Qed.

  Lemma merged_target s0 st0 s1 st1 :
    Lv blk -> exec_ops env pops s0 st0 = BOk s1 st1 ->
    mrel (bstep env bb s1 st1)
         (bstep env (map_out rd (set_ops bb (pops ++ b_ops bb))) s0 st0).
  Proof.
    intros Sb Ex. rewrite bstep_map_out, (bstep_merged_ok _ _ _ _ _ _ _ Ex).
    eapply mrel_target; [exact Sb|exact Hblk|exact (HG'_blk Sb)|].
    rewrite outgoing_map_out, outgoing_set_ops. reflexivity.
  Qed.

  Lemma merged_early s st :
    (forall s1 st1, exec_ops env pops s st <> BOk s1 st1) ->
    bstep env (map_out rd (set_ops bb (pops ++ b_ops bb))) s st = early (exec_ops env pops s st).
  Proof.
    intros N. rewrite bstep_map_out, bstep_merged_early by exact N.
    apply map_conf_halting. apply early_halting. exact N.
  Qed.

  Lemma merge_fwd c0 c : star env G c0 c -> halting c ->
    forall c0', mrel c0 c0' -> star env G' c0' c.
  Proof.
    induction 1 as [c|c0 c1 c E St IH]; intros Hh c0' K.
    - inversion K; subst; try destruct Hh. apply star_refl.
    - inversion K as [c' Hc|i s st Si Ni|s st Sb|s0 st0 s1 st1 Sb Ex]; subst.
      + rewrite gstep_halting in E by assumption. discriminate.
      + apply gstep_at in E. destruct E as (b & Eb & E). subst c1.
        pose proof (HG'_other i Si Ni) as E'. rewrite Eb in E'. cbn [option_map] in E'.
        eapply star_step; [apply gstep_at'; exact E'|].
        rewrite bstep_map_out. apply IH; [exact Hh|].
        eapply mrel_target; [exact Si|exact Eb|exact E'|]. apply outgoing_map_out.
      + apply gstep_at in E. destruct E as (b & Eb & E). subst c1.
        rewrite Hprev in Eb. injection Eb as Eb. subst b.
        destruct (early_case s st) as [(s1 & st1 & Ex)|N].
        * rewrite (bstep_simple_ok _ _ _ _ _ _ _ Ex) in IH. cbn [cont_conf] in IH.
          apply IH; [exact Hh|]. exact (mr_mid _ _ _ _ Sb Ex).
        * rewrite bstep_simple_early in St by exact N.
          apply star_halting in St; [|apply early_halting; exact N]. subst c.
          apply star_one'. rewrite (gstep_at' _ _ _ _ _ _ (HG'_blk Sb)).
          rewrite merged_early by exact N. reflexivity.
      + apply gstep_at in E. destruct E as (b & Eb & E). subst c1.
        rewrite Hblk in Eb. injection Eb as Eb. subst b.
        eapply star_step; [apply gstep_at'; exact (HG'_blk Sb)|].
        apply IH; [exact Hh|]. apply merged_target; assumption.
  Qed.

  Lemma merge_bwd c0' c : star env G' c0' c -> halting c ->
    forall c0, mrel c0 c0' -> star env G c0 c.
  Proof.
    induction 1 as [c|c0' c1' c E St IH]; intros Hh c0 K.
    - inversion K; subst; try destruct Hh. apply star_refl.
    - inversion K as [c' Hc|i s st Si Ni|s st Sb|s0 st0 s1 st1 Sb Ex]; subst.
      + rewrite gstep_halting in E by assumption. discriminate.
      + apply gstep_at in E. destruct E as (b' & Eb' & E). subst c1'.
        pose proof (HG'_other i Si Ni) as E'. rewrite Eb' in E'.
        destruct (G i) as [b|] eqn:Eb; [|discriminate]. cbn [option_map] in E'.
        injection E' as E'. subst b'.
        eapply star_step; [apply gstep_at'; exact Eb|].
        apply IH; [exact Hh|]. rewrite bstep_map_out.
        eapply mrel_target; [exact Si|exact Eb|exact Eb'|]. apply outgoing_map_out.
      + apply gstep_at in E. destruct E as (b' & Eb' & E). subst c1'.
        rewrite (HG'_blk Sb) in Eb'. injection Eb' as Eb'. subst b'.
        eapply star_step; [apply gstep_at'; exact Hprev|].
        destruct (early_case s st) as [(s1 & st1 & Ex)|N].
        * rewrite (bstep_simple_ok _ _ _ _ _ _ _ Ex). cbn [cont_conf].
          eapply star_step; [apply gstep_at'; exact Hblk|].
          apply IH; [exact Hh|]. apply merged_target; assumption.
        * rewrite bstep_simple_early by exact N. apply IH; [exact Hh|].
          rewrite merged_early by exact N. apply mr_halt. apply early_halting. exact N.
      + apply gstep_at in E. destruct E as (b' & Eb' & E). subst c1'.
        rewrite (HG'_blk Sb) in Eb'. injection Eb' as Eb'. subst b'.
        eapply star_step; [apply gstep_at'; exact Hblk|].
        apply IH; [exact Hh|]. apply merged_target; assumption.
  Qed.

  (* entering at [prev] in G = entering at [blk] in G' *)
  Theorem merge_equiv_prev : Lv blk -> equiv_from env G prev G' blk.
  Proof.
    intros Sb stk st c Hh. split; intros St.
    - eapply merge_fwd; [exact St|exact Hh|apply mr_prev; exact Sb].
    - eapply merge_bwd; [exact St|exact Hh|apply mr_prev; exact Sb].
  Qed.

  (* entering at any other blk of Lv *)
  Theorem merge_equiv_same i : Lv i -> i <> blk -> equiv_from env G i G' i.
  Proof.
    intros Si Ni stk st c Hh. split; intros St.
    - eapply merge_fwd; [exact St|exact Hh|apply mr_same; assumption].
    - eapply merge_bwd; [exact St|exact Hh|apply mr_same; assumption].
  Qed.
  Theorem merge_equiv :
    (Lv blk -> equiv_from env G prev G' blk) /\
    (forall i, Lv i -> i <> blk -> equiv_from env G i G' i).
  Proof. split; [exact merge_equiv_prev|exact merge_equiv_same]. Qed.
End Merge.
