(* GENERATED from Proofs/LowerCorrect.v by harness/tools/callx_gen.py (semantics with a call oracle, CallX/Denote.v); do not edit. *)
(* Proofs/LowerCorrect.v — the block graph produced by [lower] executes exactly as [denote] says:
   operands left to right exactly once, branch polarity, loop back-edges, Break/Continue targets,
   Return/Exit, the multi-value store order.  Parametric in the operation semantics ([do_op]). *)
From Coq Require Import List Arith NArith String Bool Lia.
From PV Require Import Base.Bytes AVM.Syntax AVM.Machine Src.Expr CallX.Denote
  Comp.Blocks Comp.WideRatio Comp.Lower CallX.GraphSem Proofs.LowerFrame CallX.LowerLemmas.
Import ListNotations.

Section Main.
  Variable env : denv.
  Notation star := (star env).
  Notation tgt := (tgt env).
  Notation lw_ok := (lw_ok env).
  Notation step_simple := (LowerLemmas.step_simple env).
  Notation tgt_then := (LowerLemmas.tgt_then env).
  Notation tgt_pre := (LowerLemmas.tgt_pre env).
  Notation tgt_post := (LowerLemmas.tgt_post env).
  Notation tgt_branch := (LowerLemmas.tgt_branch env).
  Notation tgt_abrupt := (LowerLemmas.tgt_abrupt env).
  Notation op_block := (LowerLemmas.op_block env).
  Notation ops_block := (LowerLemmas.ops_block env).
  Notation chain_ok := (LowerLemmas.chain_ok env).
  Notation nary_rest_ok := (LowerLemmas.nary_rest_ok env).
  Notation cond_arms_ok := (LowerLemmas.cond_arms_ok env).
  Notation stores_ok := (LowerLemmas.stores_ok env).
  Notation assert1_ok := (LowerLemmas.assert1_ok env).
  Notation asserts_ok := (LowerLemmas.asserts_ok env).
  Notation factors_ok := (LowerLemmas.factors_ok env).
  Notation empty_block := (LowerLemmas.empty_block env).
  Notation while_loop_ok := (LowerLemmas.while_loop_ok env).
  Notation for_loop_ok := (LowerLemmas.for_loop_ok env).
  Notation hdr_ok := (LowerLemmas.hdr_ok env).
  Notation after_body_ok := (LowerLemmas.after_body_ok env).
  Notation err_block := (LowerLemmas.err_block env).
  Notation star_trans := (LowerLemmas.star_trans env).
  Notation star_one := (LowerLemmas.star_one env).
  Notation do_op_shape := (LowerLemmas.do_op_shape env).
  Notation comment_lines_ok := (LowerLemmas.comment_lines_ok env).
  Notation return_block := (LowerLemmas.return_block env).
  Notation retsub_block := (LowerLemmas.retsub_block env).
  Notation do_op_ctrl := (LowerLemmas.do_op_ctrl env).
  Notation op_block_any := (LowerLemmas.op_block_any env).

  (* ---- the main theorem ---- *)
  Definition consistent (c : lctx) : Prop :=
    e_in_sub env = match l_sub_ret c with Some _ => true | None => false end /\
    (forall i, e_param env i = l_param c i).

  Theorem lower_correct o : forall fuel c e, consistent c -> lw_ok (lower o c) (denote env fuel) c e.
  Proof.
    induction fuel as [|f IH]; intros c e Hcons k g s en g' W E G HG stk st; [exact Logic.I|].
    assert (IHl : forall c0, consistent c0 -> forall l : list expr, Forall (lw_ok (lower o c0) (denote env f) c0) l).
    { intros c0 H0 l. apply Forall_forall. intros x _. apply IH. exact H0. }
    destruct e; cbn [lower] in E; cbn [denote].
    - (* EOp *)
      destruct (add_block g (BSimple [I o0 imms] k)) as [opb g1] eqn:E1.
      destruct (lower_chain (lower o c) args (Some opb) g1) as [[s0 x] g2] eqn:E2.
      destruct (chain_start _ _ _ _ _ _ _ E2) as [s1 ->]. cbn [or_else] in E. inversion E; subst; clear E.
      destruct (add_block_spec _ _ _ _ W E1) as (F1 & B1 & _).
      pose proof (lower_chain_frame _ _ (all_frames o c args) _ _ _ _ (frame_wf _ _ F1) E2) as F2.
      assert (G1 : gincl (g_blk g1) G).
      { eapply gincl_trans; [|exact HG]. apply frame_gincl; [exact (frame_wf _ _ F1)|exact F2]. }
      pose proof (chain_ok (lower o c) (denote env f) c args (all_frames o c args) (IHl c Hcons args)
                           (Some en) g1 (Some s) x g' (frame_wf _ _ F1) E2 G HG stk st) as X.
      apply tgt_then with (k1 := Some en); [exact X|].
      intros s2 st2. cbn [cont_conf].
      apply op_block_any. apply G1. exact B1.
    - (* ENary *)
      destruct args as [|a1 rest].
      + destruct (add_block g (BSimple [] k)) as [b g1] eqn:E1. inversion E; subst; clear E.
        destruct (add_block_spec _ _ _ _ W E1) as (F1 & B1 & _).
        cbn [tgt]. apply empty_block. apply HG. exact B1.
      + destruct (lower_nary_rest (lower o c) o0 rest k g) as [[krest endrest] g1] eqn:E1.
        destruct (lower o c a1 krest g1) as [[s1 e1] g2] eqn:E2. inversion E; subst; clear E.
        pose proof (lower_nary_rest_frame _ o0 _ (all_frames o c rest) _ _ _ _ W E1) as F1.
        pose proof (lower_frame o a1 c _ _ _ _ (frame_wf _ _ F1) E2) as F2.
        assert (G1 : gincl (g_blk g1) G).
        { eapply gincl_trans; [|exact HG]. apply frame_gincl; [exact (frame_wf _ _ F1)|exact F2]. }
        apply tgt_then with (k1 := krest).
        * exact (IH c a1 Hcons krest g1 s e1 g' (frame_wf _ _ F1) E2 G HG stk st).
        * intros s2 st2.
          exact (nary_rest_ok (lower o c) (denote env f) c o0 rest (all_frames o c rest) (IHl c Hcons rest)
                              k g krest endrest g1 W E1 G G1 s2 st2).
    - (* ESeq *)
      destruct (lower_chain (lower o c) es k g) as [[ks en0] g1] eqn:E1.
      destruct (add_block g1 (BSimple [] ks)) as [st0 g2] eqn:E2. inversion E; subst; clear E.
      pose proof (lower_chain_frame _ _ (all_frames o c es) _ _ _ _ W E1) as F1.
      destruct (add_block_spec _ _ _ _ (frame_wf _ _ F1) E2) as (F2 & B2 & _).
      assert (G1 : gincl (g_blk g1) G).
      { eapply gincl_trans; [|exact HG]. apply frame_gincl; [exact (frame_wf _ _ F1)|exact F2]. }
      eapply tgt_pre; [apply empty_block; apply HG; exact B2|].
      exact (chain_ok (lower o c) (denote env f) c es (all_frames o c es) (IHl c Hcons es) k g ks en0 g1 W E1 G G1 stk st).
    - (* EIf *)
      destruct (add_block g (BSimple [] k)) as [en0 g1] eqn:E1.
      destruct (lower o c e2 (Some en0) g1) as [[ths the] g2] eqn:E2.
      destruct (add_block_spec _ _ _ _ W E1) as (F1 & B1 & _).
      pose proof (lower_frame o e2 c _ _ _ _ (frame_wf _ _ F1) E2) as F2.
      destruct el as [x|].
      + destruct (lower o c x (Some en0) g2) as [[els xe] g3] eqn:E3.
        destruct (add_block g3 (BCond [] (Some ths) (Some els))) as [br g4] eqn:E4.
        destruct (lower o c e1 (Some br) g4) as [[cs ce] g5] eqn:E5. inversion E; subst; clear E.
        pose proof (lower_frame o x c _ _ _ _ (frame_wf _ _ F2) E3) as F3.
        destruct (add_block_spec _ _ _ _ (frame_wf _ _ F3) E4) as (F4 & B4 & _).
        pose proof (lower_frame o e1 c _ _ _ _ (frame_wf _ _ F4) E5) as F5.
        assert (G4 : gincl (g_blk g4) G).
        { eapply gincl_trans; [|exact HG]. apply frame_gincl; [exact (frame_wf _ _ F4)|exact F5]. }
        assert (G3 : gincl (g_blk g3) G).
        { eapply gincl_trans; [|exact G4]. apply frame_gincl; [exact (frame_wf _ _ F3)|exact F4]. }
        assert (G2 : gincl (g_blk g2) G).
        { eapply gincl_trans; [|exact G3]. apply frame_gincl; [exact (frame_wf _ _ F2)|exact F3]. }
        assert (G1 : gincl (g_blk g1) G).
        { eapply gincl_trans; [|exact G2]. apply frame_gincl; [exact (frame_wf _ _ F1)|exact F2]. }
        eapply tgt_branch with (br := br).
        * exact (IH c e1 Hcons (Some br) g4 s ce g' (frame_wf _ _ F4) E5 G HG stk st).
        * apply G4. exact B4.
        * intros s1 st1. eapply tgt_post; [apply G1; exact B1|].
          exact (IH c e2 Hcons (Some en) g1 ths the g2 (frame_wf _ _ F1) E2 G G2 s1 st1).
        * intros s1 st1. eapply tgt_post; [apply G1; exact B1|].
          exact (IH c x Hcons (Some en) g2 els xe g3 (frame_wf _ _ F2) E3 G G3 s1 st1).
      + destruct (add_block g2 (BCond [] (Some ths) (Some en0))) as [br g4] eqn:E4.
        destruct (lower o c e1 (Some br) g4) as [[cs ce] g5] eqn:E5. inversion E; subst; clear E.
        destruct (add_block_spec _ _ _ _ (frame_wf _ _ F2) E4) as (F4 & B4 & _).
        pose proof (lower_frame o e1 c _ _ _ _ (frame_wf _ _ F4) E5) as F5.
        assert (G4 : gincl (g_blk g4) G).
        { eapply gincl_trans; [|exact HG]. apply frame_gincl; [exact (frame_wf _ _ F4)|exact F5]. }
        assert (G2 : gincl (g_blk g2) G).
        { eapply gincl_trans; [|exact G4]. apply frame_gincl; [exact (frame_wf _ _ F2)|exact F4]. }
        assert (G1 : gincl (g_blk g1) G).
        { eapply gincl_trans; [|exact G2]. apply frame_gincl; [exact (frame_wf _ _ F1)|exact F2]. }
        eapply tgt_branch with (br := br).
        * exact (IH c e1 Hcons (Some br) g4 s ce g' (frame_wf _ _ F4) E5 G HG stk st).
        * apply G4. exact B4.
        * intros s1 st1. eapply tgt_post; [apply G1; exact B1|].
          exact (IH c e2 Hcons (Some en) g1 ths the g2 (frame_wf _ _ F1) E2 G G2 s1 st1).
        * intros s1 st1. cbn [tgt]. apply empty_block. apply G1. exact B1.
    - (* ECond *)
      destruct (add_block g (BSimple [] k)) as [en0 g1] eqn:E1.
      destruct (add_block g1 (BSimple [I O_err []] None)) as [errb g2] eqn:E2.
      destruct (lower_cond_arms (lower o c) arms en0 errb g2) as [st0 g3] eqn:E3. inversion E; subst; clear E.
      destruct (add_block_spec _ _ _ _ W E1) as (F1 & B1 & _).
      destruct (add_block_spec _ _ _ _ (frame_wf _ _ F1) E2) as (F2 & B2 & _).
      pose proof (lower_cond_arms_frame _ _ (all_frames2 o c arms) _ _ _ _ _ (frame_wf _ _ F2) E3) as F3.
      assert (G2 : gincl (g_blk g2) G).
      { eapply gincl_trans; [|exact HG]. apply frame_gincl; [exact (frame_wf _ _ F2)|exact F3]. }
      assert (G1 : gincl (g_blk g1) G).
      { eapply gincl_trans; [|exact G2]. apply frame_gincl; [exact (frame_wf _ _ F1)|exact F2]. }
      eapply (cond_arms_ok (lower o c) (denote env f) c arms (all_frames2 o c arms)); [|exact (frame_wf _ _ F2)|exact E3|exact HG| |].
      + apply Forall_forall. intros a _. split; apply IH; exact Hcons.
      + apply G1. exact B1.
      + apply G2. exact B2.
    - (* EWhile *)
      destruct (add_block g (BSimple [] k)) as [en0 g1] eqn:E1.
      destruct (reserve g1) as [br g2] eqn:E2.
      destruct (lower o (mkL (l_sub_ret c) (Some en0) None (l_param c)) e1 (Some br) g2) as [[cs ce] g3] eqn:E3.
      destruct (lower o (mkL (l_sub_ret c) (Some en0) (Some cs) (l_param c)) e2 (Some cs) g3) as [[ds de] g4] eqn:E4.
      inversion E; subst; clear E.
      destruct (add_block_spec _ _ _ _ W E1) as (F1 & B1 & Ien & Nen).
      destruct (reserve_spec _ _ _ (frame_wf _ _ F1) E2) as (F2 & B2 & Ibr & Nbr).
      pose proof (lower_frame o e1 _ _ _ _ _ (frame_wf _ _ F2) E3) as F3.
      pose proof (lower_frame o e2 _ _ _ _ _ (frame_wf _ _ F3) E4) as F4.
      assert (Lbr : br < g_next g4).
      { destruct F3 as (X1 & _). destruct F4 as (Y1 & _). lia. }
      destruct (define_spec g4 br (BCond [] (Some ds) (Some en)) (frame_wf _ _ F4) Lbr) as (D1 & D2 & D3 & D4).
      assert (G4 : gincl (g_blk g4) G).
      { intros i b Hi. apply HG. rewrite D4; [exact Hi|]. intros ->.
        (* br is undefined in g4 *)
        assert (g_blk g4 br = None).
        { destruct F4 as (_ & K4 & _). destruct F3 as (X1 & K3 & _).
          rewrite K4 by lia. rewrite K3 by lia. exact B2. }
        congruence. }
      assert (G3 : gincl (g_blk g3) G).
      { eapply gincl_trans; [|exact G4]. apply frame_gincl; [exact (frame_wf _ _ F3)|exact F4]. }
      assert (G2 : gincl (g_blk g2) G).
      { eapply gincl_trans; [|exact G3]. apply frame_gincl; [exact (frame_wf _ _ F2)|exact F3]. }
      assert (G1 : gincl (g_blk g1) G).
      { eapply gincl_trans; [|exact G2]. apply frame_gincl; [exact (frame_wf _ _ F1)|exact F2]. }
      eapply while_loop_ok with (sub := l_sub_ret c) (pm := l_param c) (en := en) (br := br) (ds := ds).
      + apply G1. exact B1.
      + apply HG. exact D3.
      + intros s1 st1. exact (IH (mkL (l_sub_ret c) (Some en) None (l_param c)) e1 Hcons (Some br) g2 s ce g3 (frame_wf _ _ F2) E3 G G3 s1 st1).
      + intros s1 st1. exact (IH (mkL (l_sub_ret c) (Some en) (Some s) (l_param c)) e2 Hcons (Some s) g3 ds de g4 (frame_wf _ _ F3) E4 G G4 s1 st1).
    - (* EFor *)
      destruct (add_block g (BSimple [] k)) as [en0 g1] eqn:E1.
      destruct (reserve g1) as [br g2] eqn:E2.
      destruct (lower o (mkL (l_sub_ret c) (Some en0) None (l_param c)) e2 (Some br) g2) as [[cs ce] g3] eqn:E3.
      destruct (lower o (mkL (l_sub_ret c) (Some en0) None (l_param c)) e3 (Some cs) g3) as [[ss se] g4] eqn:E4.
      destruct (lower o (mkL (l_sub_ret c) (Some en0) (Some ss) (l_param c)) e4 (Some ss) g4) as [[ds de] g5] eqn:E5.
      destruct (lower o (mkL (l_sub_ret c) (Some en0) None (l_param c)) e1 (Some cs) g5) as [[is_ ie] g6] eqn:E6.
      inversion E; subst; clear E.
      destruct (add_block_spec _ _ _ _ W E1) as (F1 & B1 & Ien & Nen).
      destruct (reserve_spec _ _ _ (frame_wf _ _ F1) E2) as (F2 & B2 & Ibr & Nbr).
      pose proof (lower_frame o e2 _ _ _ _ _ (frame_wf _ _ F2) E3) as F3.
      pose proof (lower_frame o e3 _ _ _ _ _ (frame_wf _ _ F3) E4) as F4.
      pose proof (lower_frame o e4 _ _ _ _ _ (frame_wf _ _ F4) E5) as F5.
      pose proof (lower_frame o e1 _ _ _ _ _ (frame_wf _ _ F5) E6) as F6.
      assert (Lbr : br < g_next g6).
      { destruct F3 as (X1 & _). destruct F4 as (Y1 & _). destruct F5 as (Z1 & _). destruct F6 as (U1 & _). lia. }
      destruct (define_spec g6 br (BCond [] (Some ds) (Some en)) (frame_wf _ _ F6) Lbr) as (D1 & D2 & D3 & D4).
      assert (G6 : gincl (g_blk g6) G).
      { intros i b Hi. apply HG. rewrite D4; [exact Hi|]. intros ->.
        assert (g_blk g6 br = None).
        { destruct F6 as (_ & K6 & _). destruct F5 as (Z1 & K5 & _). destruct F4 as (Y1 & K4 & _). destruct F3 as (X1 & K3 & _).
          rewrite K6 by lia. rewrite K5 by lia. rewrite K4 by lia. rewrite K3 by lia. exact B2. }
        congruence. }
      assert (G5 : gincl (g_blk g5) G).
      { eapply gincl_trans; [|exact G6]. apply frame_gincl; [exact (frame_wf _ _ F5)|exact F6]. }
      assert (G4 : gincl (g_blk g4) G).
      { eapply gincl_trans; [|exact G5]. apply frame_gincl; [exact (frame_wf _ _ F4)|exact F5]. }
      assert (G3 : gincl (g_blk g3) G).
      { eapply gincl_trans; [|exact G4]. apply frame_gincl; [exact (frame_wf _ _ F3)|exact F4]. }
      assert (G2 : gincl (g_blk g2) G).
      { eapply gincl_trans; [|exact G3]. apply frame_gincl; [exact (frame_wf _ _ F2)|exact F3]. }
      assert (G1 : gincl (g_blk g1) G).
      { eapply gincl_trans; [|exact G2]. apply frame_gincl; [exact (frame_wf _ _ F1)|exact F2]. }
      eapply hdr_ok with (sub := l_sub_ret c) (pm := l_param c) (en := en) (kin := Some cs).
      + exact (IH (mkL (l_sub_ret c) (Some en) None (l_param c)) e1 Hcons (Some cs) g5 s ie g6 (frame_wf _ _ F5) E6 G G6 stk st).
      + apply G1. exact B1.
      + intros s0 st0. cbn [cont_conf].
        eapply for_loop_ok with (sub := l_sub_ret c) (pm := l_param c) (en := en) (br := br) (ds := ds) (ss := ss).
        * apply G1. exact B1.
        * apply HG. exact D3.
        * intros s1 st1. exact (IH (mkL (l_sub_ret c) (Some en) None (l_param c)) e2 Hcons (Some br) g2 cs ce g3 (frame_wf _ _ F2) E3 G G3 s1 st1).
        * intros s1 st1. exact (IH (mkL (l_sub_ret c) (Some en) None (l_param c)) e3 Hcons (Some cs) g3 ss se g4 (frame_wf _ _ F3) E4 G G4 s1 st1).
        * intros s1 st1. exact (IH (mkL (l_sub_ret c) (Some en) (Some ss) (l_param c)) e4 Hcons (Some ss) g4 ds de g5 (frame_wf _ _ F4) E5 G G5 s1 st1).
    - (* EBreak *)
      destruct (add_block g (BSimple [] (l_brk c))) as [b g1] eqn:E1. inversion E; subst; clear E.
      destruct (add_block_spec _ _ _ _ W E1) as (F1 & B1 & _).
      cbn [tgt]. apply empty_block. apply HG. exact B1.
    - (* EContinue *)
      destruct (add_block g (BSimple [] (l_cont c))) as [b g1] eqn:E1. inversion E; subst; clear E.
      destruct (add_block_spec _ _ _ _ W E1) as (F1 & B1 & _).
      cbn [tgt]. apply empty_block. apply HG. exact B1.
    - (* EAssert *)
      destruct conds as [|c1 [|c2 rest]].
      + cbn [lower_asserts] in E. cbn [den_asserts].
        destruct (add_block g (BSimple [] k)) as [st0 g2] eqn:E2. inversion E; subst; clear E.
        destruct (add_block_spec _ _ _ _ W E2) as (F2 & B2 & _).
        cbn [tgt]. apply empty_block. apply HG. exact B2.
      + cbn [den_asserts].
        eapply (assert1_ok (lower o c) (denote env f) c (o_version o) comment c1 (lower_frame o c1 c) (IH c c1 Hcons)
                           k g s en g' W E G HG).
        intros s1 st1. cbn [tgt]. apply GraphSem.star_refl.
      + destruct (lower_asserts (lower o c) (o_version o) comment (c1 :: c2 :: rest) k g) as [[ks en0] g1] eqn:E1.
        destruct (add_block g1 (BSimple [] ks)) as [st0 g2] eqn:E2. inversion E; subst; clear E.
        pose proof (lower_asserts_frame _ _ _ _ (all_frames o c (c1 :: c2 :: rest)) _ _ _ _ W E1) as F1.
        destruct (add_block_spec _ _ _ _ (frame_wf _ _ F1) E2) as (F2 & B2 & _).
        assert (G1 : gincl (g_blk g1) G).
        { eapply gincl_trans; [|exact HG]. apply frame_gincl; [exact (frame_wf _ _ F1)|exact F2]. }
        eapply tgt_pre; [apply empty_block; apply HG; exact B2|].
        exact (asserts_ok (lower o c) (denote env f) c (o_version o) comment _ (all_frames o c _) (IHl c Hcons _)
                          k g ks en0 g1 W E1 G G1 stk st).
    - (* EReturn *)
      destruct (add_block g (BSimple [I (match l_sub_ret c with Some _ => O_retsub | None => O_return_ end) []] k)) as [opb g1] eqn:E1.
      destruct (add_block_spec _ _ _ _ W E1) as (F1 & B1 & _).
      pose proof Hcons as [Hsub _].
      destruct v as [x|].
      + destruct (lower o c x (Some opb) g1) as [[s0 xe] g2] eqn:E2. inversion E; subst; clear E.
        pose proof (lower_frame o x c _ _ _ _ (frame_wf _ _ F1) E2) as F2.
        assert (G1 : gincl (g_blk g1) G).
        { eapply gincl_trans; [|exact HG]. apply frame_gincl; [exact (frame_wf _ _ F1)|exact F2]. }
        apply tgt_then with (k1 := Some en).
        * exact (IH c x Hcons (Some en) g1 s xe g' (frame_wf _ _ F1) E2 G HG stk st).
        * intros s1 st1. cbn [cont_conf]. rewrite Hsub.
          destruct (l_sub_ret c).
          -- cbn [tgt]. eapply retsub_block. apply G1. exact B1.
          -- pose proof (return_block G en O_return_ k s1 st1 eq_refl (G1 _ _ B1)) as X.
             destruct s1; cbn [tgt]; exact X.
      + inversion E; subst; clear E. rewrite Hsub.
        destruct (l_sub_ret c).
        * cbn [tgt]. eapply retsub_block. apply HG. exact B1.
        * pose proof (return_block G en O_return_ k stk st eq_refl (HG _ _ B1)) as X.
          destruct stk; cbn [tgt]; exact X.
    - (* EExit *)
      destruct (add_block g (BSimple [I O_return_ []] k)) as [opb g1] eqn:E1.
      destruct (lower o c e (Some opb) g1) as [[s0 xe] g2] eqn:E2. inversion E; subst; clear E.
      destruct (add_block_spec _ _ _ _ W E1) as (F1 & B1 & _).
      pose proof (lower_frame o e c _ _ _ _ (frame_wf _ _ F1) E2) as F2.
      assert (G1 : gincl (g_blk g1) G).
      { eapply gincl_trans; [|exact HG]. apply frame_gincl; [exact (frame_wf _ _ F1)|exact F2]. }
      apply tgt_then with (k1 := Some en).
      + exact (IH c e Hcons (Some en) g1 s xe g' (frame_wf _ _ F1) E2 G HG stk st).
      + intros s1 st1. cbn [cont_conf].
        pose proof (return_block G en O_return_ k s1 st1 eq_refl (G1 _ _ B1)) as X.
        destruct s1; cbn [tgt]; exact X.
    - (* EMulti *)
      destruct (lower_stores outs k None g) as [[kst lastst] g1] eqn:E1.
      destruct (add_block g1 (BSimple [I o0 imms] kst)) as [opb g2] eqn:E2.
      destruct (lower_chain (lower o c) args (Some opb) g2) as [[s0 x] g3] eqn:E3.
      destruct (chain_start _ _ _ _ _ _ _ E3) as [s1 ->]. cbn [or_else] in E. inversion E; subst; clear E.
      pose proof (lower_stores_frame _ _ _ _ _ _ _ W E1) as F1.
      destruct (add_block_spec _ _ _ _ (frame_wf _ _ F1) E2) as (F2 & B2 & _).
      pose proof (lower_chain_frame _ _ (all_frames o c args) _ _ _ _ (frame_wf _ _ F2) E3) as F3.
      assert (G2 : gincl (g_blk g2) G).
      { eapply gincl_trans; [|exact HG]. apply frame_gincl; [exact (frame_wf _ _ F2)|exact F3]. }
      assert (G1 : gincl (g_blk g1) G).
      { eapply gincl_trans; [|exact G2]. apply frame_gincl; [exact (frame_wf _ _ F1)|exact F2]. }
      apply tgt_then with (k1 := Some opb).
      + exact (chain_ok (lower o c) (denote env f) c args (all_frames o c args) (IHl c Hcons args)
                        (Some opb) g2 (Some s) x g' (frame_wf _ _ F2) E3 G HG stk st).
      + intros s2 st2. cbn [cont_conf]. apply tgt_then with (k1 := kst).
        * apply op_block_any. apply G2. exact B2.
        * intros s3 st3. exact (stores_ok c outs k None g kst lastst g1 W E1 G G1 s3 st3).
    - (* ECall: the arguments, then the block holding the call instruction (the oracle's step) *)
      destruct (add_block g (BSimple [I O_callsub [ASub sub]] k)) as [opb g1] eqn:E1.
      destruct (lower_chain (lower o c) args (Some opb) g1) as [[s0 x] g2] eqn:E2.
      destruct (chain_start _ _ _ _ _ _ _ E2) as [s1 ->]. cbn [or_else] in E. inversion E; subst; clear E.
      destruct (add_block_spec _ _ _ _ W E1) as (F1 & B1 & _).
      pose proof (lower_chain_frame _ _ (all_frames o c args) _ _ _ _ (frame_wf _ _ F1) E2) as F2.
      assert (G1 : gincl (g_blk g1) G).
      { eapply gincl_trans; [|exact HG]. apply frame_gincl; [exact (frame_wf _ _ F1)|exact F2]. }
      pose proof (chain_ok (lower o c) (denote env f) c args (all_frames o c args) (IHl c Hcons args)
                           (Some en) g1 (Some s) x g' (frame_wf _ _ F1) E2 G HG stk st) as X.
      apply tgt_then with (k1 := Some en); [exact X|].
      intros s2 st2. cbn [cont_conf].
      apply op_block_any. apply G1. exact B1.
    - (* EWide *)
      destruct (add_block g (BSimple combine_ops k)) as [cb g1] eqn:E1.
      destruct (lower_factors (lower o c) ds (Some cb) g1) as [[dstart de] g2] eqn:E2.
      destruct (lower_factors (lower o c) ns (Some dstart) g2) as [[nstart ne] g3] eqn:E3. inversion E; subst; clear E.
      destruct (add_block_spec _ _ _ _ W E1) as (F1 & B1 & _).
      pose proof (lower_factors_frame _ _ (all_frames o c ds) _ _ _ _ (frame_wf _ _ F1) E2) as F2.
      pose proof (lower_factors_frame _ _ (all_frames o c ns) _ _ _ _ (frame_wf _ _ F2) E3) as F3.
      assert (G2 : gincl (g_blk g2) G).
      { eapply gincl_trans; [|exact HG]. apply frame_gincl; [exact (frame_wf _ _ F2)|exact F3]. }
      assert (G1 : gincl (g_blk g1) G).
      { eapply gincl_trans; [|exact G2]. apply frame_gincl; [exact (frame_wf _ _ F1)|exact F2]. }
      apply tgt_then with (k1 := Some dstart).
      + exact (factors_ok (lower o c) (denote env f) c ns (all_frames o c ns) (IHl c Hcons ns)
                          (Some dstart) g2 s ne g' (frame_wf _ _ F2) E3 G HG stk st).
      + intros s1 st1. cbn [cont_conf]. apply tgt_then with (k1 := Some en).
        * exact (factors_ok (lower o c) (denote env f) c ds (all_frames o c ds) (IHl c Hcons ds)
                            (Some en) g1 dstart de g2 (frame_wf _ _ F1) E2 G G2 s1 st1).
        * intros s2 st2. cbn [cont_conf]. apply ops_block; [exact (combine_plain)|]. apply G1. exact B1.
    - (* EParam *)
      destruct (add_block g (BSimple [l_param c i] k)) as [b g1] eqn:E1. inversion E; subst; clear E.
      destruct (add_block_spec _ _ _ _ W E1) as (F1 & B1 & _).
      destruct Hcons as [_ Hp]. rewrite Hp.
      apply op_block_any. apply HG. rewrite B1. destruct (l_param c i); reflexivity.
  Qed.
End Main.
