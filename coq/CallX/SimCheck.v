(* CallX/SimCheck.v — Comp/SimCheck.v with [equiv_from] read in the semantics with a call oracle. *)
From Coq Require Import List Arith NArith String Bool Lia.
From PV Require Import Base.Bytes AVM.Syntax AVM.Machine Src.Expr CallX.Denote
  Comp.Blocks Comp.Lower Comp.Passes CallX.GraphSem.
From PV Require Export Comp.SimCheck.
Import ListNotations.

Definition equiv_from (env : denv) (G : bgraph) (s : id) (G' : bgraph) (s' : id) : Prop :=
  forall stk st c, halting c ->
    (star env G (GAt s stk st) c <-> star env G' (GAt s' stk st) c).
