(* CallX/LinearSem.v — Comp/LinearSem.v for the operation semantics with a call oracle
   (CallX/Denote.v): [callsub <ASub f>] is one step whose effect is the oracle's answer; a call that
   ends the program yields [LExit].  Configurations, [find_label], [jump_of], [goto], [lfinal] are those
   of Comp/LinearSem.v. *)
From Coq Require Import List Arith NArith String Bool.
From PV Require Import Base.Bytes AVM.Syntax AVM.Machine Src.Expr CallX.Denote Comp.Blocks CallX.GraphSem.
From PV Require Export Comp.LinearSem.
Import ListNotations.

Definition lstep_op (env : denv) (code : list comp) (pc : nat) (i : instr) (stk : list value) (st : mstate) : lconf :=
  if is_return (i_op i) then match stk with v :: _ => LExit v st | [] => LFail end
  else if is_retsub (i_op i) then LRet stk st
  else
    match jump_of i with
    | Some (JB, l) => goto code l stk st
    | Some (JBz, l) =>
        match stk with
        | v :: s' =>
            match truthy v with
            | Some true => LAt (S pc) s' st
            | Some false => goto code l s' st
            | None => LFail
            end
        | [] => LFail
        end
    | Some (JBnz, l) =>
        match stk with
        | v :: s' =>
            match truthy v with
            | Some true => goto code l s' st
            | Some false => LAt (S pc) s' st
            | None => LFail
            end
        | [] => LFail
        end
    | None =>
        match do_op env (i_op i) (i_args i) stk st with
        | DNorm s' st' => LAt (S pc) s' st'
        | DExit v st' => LExit v st'
        | DUnsup o => LUnsup o
        | _ => LFail
        end
    end.

Definition lstep (env : denv) (code : list comp) (c : lconf) : option lconf :=
  match c with
  | LAt pc stk st =>
      match nth_error code pc with
      | None => Some (LEnd stk st)
      | Some (COp i) => Some (lstep_op env code pc i stk st)
      | Some (CLabel _ _) => Some (LAt (S pc) stk st)
      | Some (CPragma _) => Some (LAt (S pc) stk st)
      end
  | _ => None
  end.

Inductive lstar (env : denv) (code : list comp) : lconf -> lconf -> Prop :=
| lstar_refl c : lstar env code c c
| lstar_step c c' c'' : lstep env code c = Some c' -> lstar env code c' c'' -> lstar env code c c''.

Lemma lstar_trans env code a b c : lstar env code a b -> lstar env code b c -> lstar env code a c.
Proof. induction 1 as [|x y z S1 _ IH]; intros H; [exact H|]. eapply lstar_step; [exact S1|]. apply IH; exact H. Qed.

Lemma lstar_one env code a b : lstep env code a = Some b -> lstar env code a b.
Proof. intros H. eapply lstar_step; [exact H|]. apply lstar_refl. Qed.

Fixpoint lrun (fuel : nat) (env : denv) (code : list comp) (c : lconf) : lconf :=
  match fuel with
  | O => c
  | S f => match lstep env code c with Some c' => lrun f env code c' | None => c end
  end.

Lemma lrun_lstar env code : forall fuel c, lstar env code c (lrun fuel env code c).
Proof.
  induction fuel as [|f IH]; intros c; cbn [lrun]; [apply lstar_refl|].
  destruct (lstep env code c) as [c'|] eqn:E; [|apply lstar_refl].
  eapply lstar_step; [exact E|]. apply IH.
Qed.

Lemma lfinal_stuck env code c : lfinal c = true -> lstep env code c = None.
Proof. destruct c; cbn; intros H; try reflexivity; discriminate H. Qed.

Lemma lstar_final_unique env code : forall c c1 c2,
  lstar env code c c1 -> lfinal c1 = true -> lstar env code c c2 -> lfinal c2 = true -> c1 = c2.
Proof.
  intros c c1 c2 H1. revert c2. induction H1 as [c|c c' c1 S1 _ IH]; intros c2 F1 H2 F2.
  - destruct H2 as [|c c' c2 S2 _]; [reflexivity|]. rewrite (lfinal_stuck env code c F1) in S2. discriminate S2.
  - destruct H2 as [c|c d c2 S2 H2'].
    + rewrite (lfinal_stuck env code c F2) in S1. discriminate S1.
    + rewrite S1 in S2. inversion S2; subst d. apply IH; assumption.
Qed.

Lemma lstar_lrun env code c c' : lstar env code c c' -> lfinal c' = true ->
  exists n, lrun n env code c = c'.
Proof.
  induction 1 as [c|c c1 c2 S1 _ IH]; intros F.
  - exists 0. reflexivity.
  - destruct (IH F) as (n & E). exists (S n). cbn [lrun]. rewrite S1. exact E.
Qed.
