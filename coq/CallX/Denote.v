(* CallX/Denote.v — the source semantics of Src/Denote.v with ONE extension: the environment carries a
   call oracle [e_call] (what a [callsub] of routine f does to the operand stack and the machine state),
   and [do_op] consults it for the instruction [callsub <ASub f>]; [denote] evaluates [ECall f _ args] as
   "arguments left to right, then that instruction".  Everything that does not depend on the
   environment is re-exported from Src/Denote.v unchanged (same [dout], [bind], [branch], [den_list],
   [den_while], ...), so the two semantics share their result types.

   This file and the other files of CallX/ are a PARALLEL COPY of the C01 proof chain
   (lowering -> NormalizeBlocks -> sortBlocks -> flattenBlocks -> slot assignment) re-checked for the
   extended operation semantics; they are generated from the originals by harness/tools/callx_gen.py
   (imports redirected, the handful of lemmas that look inside [do_op] patched) and serve property C02
   (Proofs/CallCompose*.v).  With the trivial oracle the extended semantics is the original one
   ([do_op_old]). *)
From Coq Require Import List Arith NArith Ascii String Bool.
From PV Require Import Base.Bytes AVM.Syntax AVM.Ops AVM.Machine AVM.Parse Src.Expr Comp.WideRatio.
From PV Require Export Src.Denote.
Import ListNotations.

(* what a call does, as far as the caller is concerned *)
Inductive callres : Type :=
| CRet (stk : list value) (st : mstate)     (* retsub: the callee hands this operand stack back *)
| CExit (v : value) (st : mstate)           (* the callee ended the program *)
| CFail
| CNone.                                    (* no information (fuel, unknown routine, unsupported op) *)

Definition of_callres (r : callres) : dout :=
  match r with
  | CRet s st => DNorm s st
  | CExit v st => DExit v st
  | CFail => DFail
  | CNone => DUnsup O_callsub
  end.

Record denv : Type := mkEnv {
  e_ctx : ctx;
  e_asg : N -> N;
  e_msel : list (string * bytes);
  e_subs : list routine;
  e_in_sub : bool;
  e_param : N -> instr;
  e_call : N -> list value -> mstate -> callres
}.

(* the environment of the original semantics *)
Definition old_env (env : denv) : Src.Denote.denv :=
  Src.Denote.mkEnv (e_ctx env) (e_asg env) (e_msel env) (e_subs env) (e_in_sub env) (e_param env).

Definition arg_to_imm (env : denv) (o : opc) (a : arg) : option imm :=
  match a with
  | AInt n => Some (IInt n)
  | ASlot u => Some (IInt (e_asg env u))
  | ALbl l => Some (IName l)
  | ASub _ => None
  | AStr s =>
      match o with
      | O_byte | O_pushbytes =>
          match parse_bytes_arg (tokens_of_line s) with Some (b, []) => Some (IBytes b) | _ => None end
      | O_int | O_pushint => option_map IInt (parse_int_arg s)
      | O_addr => match decode_base32 s with Some b => Some (IBytes (firstn 32 b)) | None => None end
      | O_method_signature =>
          match parse_string_literal s with
          | Some sig => option_map IBytes (alookup String.eqb (string_of_bytes sig) (e_msel env))
          | None => None
          end
      | _ => Some (IName s)
      end
  end.

Fixpoint args_to_imms (env : denv) (o : opc) (l : list arg) : option (list imm) :=
  match l with
  | [] => Some []
  | a :: t => match arg_to_imm env o a, args_to_imms env o t with Some x, Some r => Some (x :: r) | _, _ => None end
  end.

(* the call instruction as the lowering emits it: [callsub] carrying exactly one routine reference *)
Definition call_target (o : opc) (imms : list arg) : option N :=
  match o, imms with
  | O_callsub, [ASub f] => Some f
  | _, _ => None
  end.

(* one non-control operation; shared by the source semantics and the graph/linear semantics *)
Definition do_op (env : denv) (o : opc) (imms : list arg) (stk : list value) (st : mstate) : dout :=
  match call_target o imms with
  | Some f => of_callres (e_call env f stk st)
  | None =>
  match slot_access o imms with
  (* a variable is a cell of its own: no range check on the (model-assigned) number *)
  | Some (true, u) => DNorm (scratch_get (s_scratch st) (e_asg env u) :: stk) st
  | Some (false, u) =>
      match stk with
      | v :: r => DNorm r (set_scratch st (e_asg env u) v)
      | [] => DFail
      end
  | None =>
      match args_to_imms env o imms with
      | None => DUnsup o
      | Some im =>
          match exec_op (e_ctx env) o im stk st with
          | OOk s st' => DNorm s st'
          | OFail => DFail
          | ONot => if is_err o then DFail else DUnsup o
          | OUnsup => DUnsup o
          end
      end
  end
  end.

Section Helpers.
  Variable env : denv.
  Variable den : expr -> list value -> mstate -> dout.

  Fixpoint den_nary_rest (o : opc) (l : list expr) (stk : list value) (st : mstate) : dout :=
    match l with
    | [] => DNorm stk st
    | x :: t =>
        bind (den x stk st) (fun s2 st2 =>
        bind (do_op env o [] s2 st2) (fun s3 st3 => den_nary_rest o t s3 st3))
    end.

  Fixpoint den_stores (l : list N) (stk : list value) (st : mstate) : dout :=
    match l with
    | [] => DNorm stk st
    | s :: t => bind (do_op env O_store [ASlot s] stk st) (fun s' st' => den_stores t s' st')
    end.

  (* a fixed list of plain operations *)
  Fixpoint den_ops (ops : list instr) (stk : list value) (st : mstate) : dout :=
    match ops with
    | [] => DNorm stk st
    | i :: t => bind (do_op env (i_op i) (i_args i) stk st) (fun s' st' => den_ops t s' st')
    end.

  Fixpoint den_wide_rest (l : list expr) (stk : list value) (st : mstate) : dout :=
    match l with
    | [] => DNorm stk st
    | f :: t =>
        bind (den f stk st) (fun s1 st1 =>
        bind (den_ops mul_step_ops s1 st1) (fun s2 st2 => den_wide_rest t s2 st2))
    end.

  Definition den_factors (fs : list expr) (stk : list value) (st : mstate) : dout :=
    match fs with
    | [] => DNorm stk st
    | [f0] => bind (den_ops [I1 O_int 0] stk st) (fun s1 st1 => den f0 s1 st1)
    | f0 :: f1 :: rest =>
        bind (den f0 stk st) (fun s1 st1 =>
        bind (den f1 s1 st1) (fun s2 st2 =>
        bind (den_ops [I0 O_mulw] s2 st2) (fun s3 st3 => den_wide_rest rest s3 st3)))
    end.
End Helpers.

Section Denote.
  Variable env : denv.

  Fixpoint denote (fuel : nat) (e : expr) (stk : list value) (st : mstate) {struct fuel} : dout :=
    match fuel with
    | O => DFuel
    | S f =>
        let den := denote f in
        match e with
        | EOp o imms _ args =>
            bind (den_list den args stk st) (fun s1 st1 => do_op env o imms s1 st1)
        | ENary o _ args =>
            match args with
            | [] => DNorm stk st
            | a1 :: rest => bind (den a1 stk st) (fun s1 st1 => den_nary_rest env den o rest s1 st1)
            end
        | ESeq es => den_list den es stk st
        | EIf c th el =>
            branch (den c stk st)
                   (fun s1 st1 => den th s1 st1)
                   (fun s1 st1 => match el with Some x => den x s1 st1 | None => DNorm s1 st1 end)
        | ECond arms => den_cond den arms stk st
        | EWhile c body => den_while den f c body stk st
        | EFor ini c stp body =>
            hdr (den ini stk st) (fun s0 st0 => den_for den f c stp body s0 st0)
        | EBreak => DBrk stk st
        | EContinue => DCont stk st
        | EAssert conds _ => den_asserts den conds stk st
        | EReturn v =>
            match v with
            | None =>
                if e_in_sub env then DRet stk st else match stk with r :: _ => DExit r st | [] => DFail end
            | Some x =>
                bind (den x stk st) (fun s1 st1 =>
                  if e_in_sub env then DRet s1 st1
                  else match s1 with r :: _ => DExit r st1 | [] => DFail end)
            end
        | EExit v =>
            bind (den v stk st) (fun s1 st1 => match s1 with r :: _ => DExit r st1 | [] => DFail end)
        | EMulti o imms args outs =>
            bind (den_list den args stk st) (fun s1 st1 =>
            bind (do_op env o imms s1 st1) (fun s2 st2 => den_stores env (rev outs) s2 st2))
        (* a subroutine call: the arguments left to right, then the call instruction (the oracle) *)
        | ECall sub _ args =>
            bind (den_list den args stk st) (fun s1 st1 => do_op env O_callsub [ASub sub] s1 st1)
        | EWide ns ds =>
            bind (den_factors env den ns stk st) (fun s1 st1 =>
            bind (den_factors env den ds s1 st1) (fun s2 st2 => den_ops env combine_ops s2 st2))
        | EParam i => do_op env (i_op (e_param env i)) (i_args (e_param env i)) stk st
        end
    end.
End Denote.

(* ---- relation to the original semantics ---- *)
Lemma arg_to_imm_old env o a : arg_to_imm env o a = Src.Denote.arg_to_imm (old_env env) o a.
Proof. destruct a; reflexivity. Qed.

Lemma args_to_imms_old env o l : args_to_imms env o l = Src.Denote.args_to_imms (old_env env) o l.
Proof.
  induction l as [|a t IH]; [reflexivity|].
  cbn [args_to_imms Src.Denote.args_to_imms]. rewrite arg_to_imm_old, IH. reflexivity.
Qed.

(* every instruction except the call instruction has its original meaning *)
Lemma do_op_old env o imms stk st : call_target o imms = None ->
  do_op env o imms stk st = Src.Denote.do_op (old_env env) o imms stk st.
Proof.
  intros H. unfold do_op, Src.Denote.do_op. rewrite H, args_to_imms_old. reflexivity.
Qed.

Lemma do_op_call env f stk st :
  do_op env O_callsub [ASub f] stk st = of_callres (e_call env f stk st).
Proof. reflexivity. Qed.
