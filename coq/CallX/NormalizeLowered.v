(* GENERATED from Proofs/NormalizeLowered.v by harness/tools/callx_gen.py (semantics with a call oracle, CallX/Denote.v); do not edit. *)
(* Proofs/NormalizeLowered.v — the NormalizeBlocks theorems instantiated on the graphs that lowering
   produces: for a routine lowered from the empty graph (no continuation, no enclosing loop), the
   sequence of compile_one — addIncoming, validateTree, NormalizeBlocks, validateTree — raises no
   AssertionError (C20) and preserves behaviour (C01) with NO side condition on the graph; the only
   condition left is syntactic, on the recipe: its start block must not be a loop head
   ([head_loop e = false]; compile_one wraps a root loop in a Seq, whose start is a fresh block). *)
From Coq Require Import List Arith NArith String Bool Lia.
From PV Require Import Base.Bytes AVM.Syntax AVM.Machine Src.Expr CallX.Denote
  Comp.Blocks Comp.Lower Comp.Passes CallX.GraphSem CallX.SimCheck Comp.Compile
  Proofs.LowerFrame Proofs.LowerShape CallX.NormalizeSem Proofs.NormalizeGraph Proofs.IncomingProof
  CallX.NormalizeCorrect.
Import ListNotations.

Theorem lowered_normalize_correct env o c e s en g0 g' s' :
  l_brk c = None -> l_cont c = None ->
  head_loop e = false ->
  lower o c e None empty_graph = ((s, en), g0) ->
  normalize (fst (add_incoming g0 s)) s = (g', s') ->
  equiv_from env (g_blk g0) s (g_blk g') s'.
Proof.
  intros B C HL E N.
  destruct (lower_root_shape o c e s en g0 B C E) as (W & F & Z & NE).
  apply (add_incoming_normalize_correct env g0 s g' s' W Z F); [|exact N].
  intros p _. apply (NE HL).
Qed.

Theorem lowered_tree_valid o c e s en g0 g' s' :
  l_brk c = None -> l_cont c = None ->
  lower o c e None empty_graph = ((s, en), g0) ->
  normalize (fst (add_incoming g0 s)) s = (g', s') ->
  validate_tree (fst (add_incoming g0 s)) s = true /\ validate_tree g' s' = true.
Proof.
  intros B C E N.
  destruct (lower_root_shape o c e s en g0 B C E) as (W & F & Z & _).
  apply (add_incoming_normalize_tree_valid g0 s g' s' W F); [|exact N].
  intros b. rewrite Z. constructor.
Qed.

(* the roots compile_one builds when the routine does not end in a return *)
Lemma head_loop_seq es : head_loop (ESeq es) = false.
Proof. reflexivity. Qed.

(* ---- compile_one itself (a routine without deferred expression, i.e. every routine except an
   ABI-returning subroutine): once PyTeal's own checks pass, the routine compiles — neither
   validateTree assertion fires — to the normalised graph, and that graph computes what the lowered
   graph computes ---- *)
Definition root_ast (ast0 : expr) : expr :=
  if has_return ast0 then ast0
  else match type_of ast0 with
       | TNone => ESeq [ast0; EReturn None]
       | _ => EReturn (Some ast0)
       end.

Theorem compile_one_tree_checks_pass o sub ast0 :
  (match sub with Some r => r_deferred r | None => None end) = None ->
  check_expr o (option_map r_ret sub) false (root_ast ast0) = None ->
  has_bad_continue false (root_ast ast0) = false ->
  exists cr, compile_one o sub ast0 = COk cr /\
    let pm := match sub with Some r => param_instr o r | None => main_param end in
    let '((s, _), g0) := lower o (mkL (option_map r_ret sub) None None pm) (root_ast ast0) None empty_graph in
    normalize (fst (add_incoming g0 s)) s = (cr_graph cr, cr_start cr) /\
    (head_loop (root_ast ast0) = false ->
     forall env, equiv_from env (g_blk g0) s (g_blk (cr_graph cr)) (cr_start cr)).
Proof.
  intros D Ck Bc. unfold compile_one. fold (root_ast ast0). rewrite Ck, Bc.
  destruct (lower o (mkL (option_map r_ret sub) None None
                         (match sub with Some r => param_instr o r | None => main_param end))
                  (root_ast ast0) None empty_graph) as [[s en] g0] eqn:E.
  destruct (add_incoming g0 s) as [g1 d] eqn:E1.
  destruct (normalize g1 s) as [g3 s3] eqn:E3.
  assert (E3' : normalize (fst (add_incoming g0 s)) s = (g3, s3)) by (rewrite E1; exact E3).
  destruct (lowered_tree_valid o (mkL _ None None _) _ s en g0 g3 s3 eq_refl eq_refl E E3') as [V1 V3].
  rewrite E1 in V1. cbn [fst] in V1. rewrite V1. cbn [negb]. rewrite D, V1. cbn [negb].
  rewrite E3, V3. cbn [negb]. eexists. split; [reflexivity|]. cbn [cr_graph cr_start].
  split; [cbn [fst]; exact E3|]. intros HL env.
  exact (lowered_normalize_correct env o (mkL _ None None _) _ s en g0 g3 s3 eq_refl eq_refl HL E E3').
Qed.

(* the syntactic condition is about a real situation: a bare loop as the root has an edge into its
   start block (compile_one never lowers one: has_return of a loop is false, so it is wrapped) *)
Definition opts0 : copts := mkOpts 6 true false false (fun _ => 0%N) (fun _ _ => 0%N).
Definition ctx0 : lctx := mkL None None None (fun _ => mkI O_err []).
Definition one : expr := EOp O_int [AInt 1] TUint [].

Example root_loop_has_edge_into_start :
  let '((s, _), g) := lower opts0 ctx0 (EWhile one (EOp O_pop [] TNone [one])) None empty_graph in
  existsb (fun p => mem_id s (out_of g p)) (seq 0 (g_next g)) = true.
Proof. vm_compute. reflexivity. Qed.

Example wrapped_loop_has_none :
  let '((s, _), g) := lower opts0 ctx0 (ESeq [EWhile one (EOp O_pop [] TNone [one]); EReturn None]) None empty_graph in
  existsb (fun p => mem_id s (out_of g p)) (seq 0 (g_next g)) = false.
Proof. vm_compute. reflexivity. Qed.
