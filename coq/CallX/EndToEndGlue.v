(* GENERATED from Proofs/EndToEndGlue.v by harness/tools/callx_gen.py (semantics with a call oracle, CallX/Denote.v); do not edit. *)
(* Proofs/EndToEndGlue.v — glue between the stages of C01 for one routine:
     * the lowered routine graph has ONE exit (the end block), and NormalizeBlocks keeps it so;
     * [compile_one] inverted: what a successful run has computed;
     * the normalised graph is well-formed (ids below the counter), so [sort_blocks] is complete on it,
       its order satisfies [single_exit] (hence [ends_last]) and begins with the start block. *)
From Coq Require Import List Arith NArith String Bool Lia.
From PV Require Import Base.Bytes AVM.Syntax AVM.Machine Src.Expr CallX.Denote
  Comp.Blocks Comp.Lower Comp.Passes CallX.GraphSem CallX.SimCheck Comp.Compile
  Proofs.LowerFrame Proofs.LowerShape CallX.NormalizeSem Proofs.NormalizeGraph Proofs.IncomingProof
  CallX.NormalizeCorrect CallX.NormalizeLowered Proofs.EndToEndExits.
Import ListNotations.

(* ---- one exit ---- *)
Definition exits_at (g : graph) (en : id) : Prop :=
  (forall i bb, g_blk g i = Some bb -> falloff bb -> i = en) /\
  exists ops, g_blk g en = Some (BSimple ops None).

Theorem lower_root_exits o c e s en g0 :
  l_brk c = None -> l_cont c = None ->
  check_expr o (l_sub_ret c) false e = None -> has_bad_continue false e = false ->
  lower o c e None empty_graph = ((s, en), g0) ->
  exits_at g0 en.
Proof.
  intros B C Ck Hb E.
  assert (Ct : ctl c false false) by (split; intros Q; discriminate Q).
  destruct (lower_exits o e c false false Ct (conj Ck Hb) None empty_graph s en g0 wf_empty E) as [X (ops & n & Bn & Hn)].
  split.
  - intros i bb Ei Fi. destruct (X i bb Ei Fi) as [Q|Q]; [discriminate Q|]. cbn [kex] in Q. injection Q as Q. auto.
  - exists ops. rewrite Bn. f_equal. f_equal. destruct Hn as [Q|[Q|Q]]; congruence.
Qed.

(* block-wise transformations that keep the exit *)
Definition bpres (b b' : block) : Prop :=
  (falloff b' -> falloff b) /\ (forall o, b = BSimple o None -> exists o', b' = BSimple o' None).

Lemma bpres_refl b : bpres b b.
Proof. split; [auto|intros o E; eauto]. Qed.

Lemma bpres_trans a b c : bpres a b -> bpres b c -> bpres a c.
Proof.
  intros [A1 A2] [B1 B2]. split; [auto|].
  intros o E. destruct (A2 o E) as (o' & E'). exact (B2 o' E').
Qed.

Lemma esub_bpres old new b b' : esub old new b b' -> bpres b b'.
Proof.
  destruct b as [o n|o t f], b' as [o' n'|o' t' f']; cbn [esub]; try contradiction.
  - intros [Eo Hn]. subst o'. pose proof (osub_some _ _ _ _ Hn) as Sn. split.
    + intros [T O]. split; [exact T|]. cbn [outgoing] in *. destruct n' as [x|]; [discriminate O|].
      rewrite (proj2 Sn eq_refl). reflexivity.
    + intros o0 Q. injection Q as Q1 Q2. subst. rewrite (proj1 Sn eq_refl). eauto.
  - intros (Eo & Ht & Hf). subst o'.
    pose proof (osub_some _ _ _ _ Ht) as St. pose proof (osub_some _ _ _ _ Hf) as Sf. split.
    + intros [T O]. split; [exact T|]. cbn [outgoing] in *.
      destruct t' as [x|]; [discriminate O|]. destruct f' as [y|]; [discriminate O|].
      rewrite (proj2 St eq_refl), (proj2 Sf eq_refl). reflexivity.
    + intros o0 Q. discriminate Q.
Qed.

Lemma setops_bpres bb p : bpres bb (set_ops bb (p ++ b_ops bb)).
Proof.
  split.
  - intros [T O]. rewrite b_ops_set_ops, existsb_app in T. rewrite outgoing_set_ops in O.
    apply orb_false_iff in T. split; [exact (proj2 T)|exact O].
  - intros o E. subst bb. cbn. eauto.
Qed.

Definition gpres (g g' : graph) : Prop :=
  forall i, match g_blk g i with
            | None => g_blk g' i = None
            | Some b => exists b', g_blk g' i = Some b' /\ bpres b b'
            end.

Lemma exits_gpres g g' en : gpres g g' -> exits_at g en -> exits_at g' en.
Proof.
  intros H [X1 (ops & X2)]. split.
  - intros i bb' E F. specialize (H i). destruct (g_blk g i) as [b|] eqn:Eb; [|rewrite H in E; discriminate E].
    destruct H as (b' & E' & [P1 P2]). rewrite E' in E. injection E as E. subst b'. exact (X1 i b Eb (P1 F)).
  - specialize (H en). rewrite X2 in H. destruct H as (b' & E' & [_ P2]).
    destruct (P2 ops eq_refl) as (o' & Q). subst b'. eauto.
Qed.

Lemma body1_exits g s w g' s' en :
  gbody1 replace_outgoing g s w = (g', s') -> exits_at g en -> exits_at g' en.
Proof.
  intros E. apply gbody1_cases in E.
  destruct E as [[E1 E2]|(prev & bb & Hi & Ho & Hb & E1 & E2)]; subst; [auto|].
  apply exits_gpres. intros i.
  pose proof (fold1_blk replace_outgoing replace_outgoing_esub prev w (g_inc g prev) (mg2 g w prev bb) i) as K.
  fold (mg3 replace_outgoing g w prev bb) in K.
  assert (B : g_blk (mg2 g w prev bb) i =
              if Nat.eqb i w then Some (set_ops bb (get_ops g prev ++ b_ops bb)) else g_blk g i) by reflexivity.
  rewrite B in K. destruct (Nat.eqb_spec i w) as [Q|Q].
  - subst i. rewrite Hb. destruct K as (b' & K1 & K2). exists b'. split; [exact K1|].
    eapply bpres_trans; [apply setops_bpres|eapply esub_bpres; exact K2].
  - destruct (g_blk g i) as [b|]; [|exact K].
    destruct K as (b' & K1 & K2). exists b'. split; [exact K1|eapply esub_bpres; exact K2].
Qed.

Lemma body2_exits fs ss g s w g' s' en :
  gbody2 replace_outgoing fs ss g s w = (g', s') -> exits_at g en -> exits_at g' en.
Proof.
  intros E. apply gbody2_cases in E.
  destruct E as [[E1 E2]|(ob & Hg & Ho & Hs & E1 & E2)]; subst; [auto|].
  apply exits_gpres. intros i.
  pose proof (fold2_blk replace_outgoing replace_outgoing_esub w ob (g_inc (bg1 g w ob) w) (bg1 g w ob) i) as K.
  fold (bg2 replace_outgoing g w ob) in K.
  change (g_blk (bg1 g w ob) i) with (g_blk g i) in K.
  destruct (g_blk g i) as [b|]; [|exact K].
  destruct K as (b' & K1 & K2). exists b'. split; [exact K1|eapply esub_bpres; exact K2].
Qed.

Theorem normalize_exits g s g' s' en :
  normalize g s = (g', s') -> exits_at g en -> exits_at g' en.
Proof.
  intros E X. rewrite <- gnormalize_faithful in E. unfold gnormalize in E.
  destruct (norm_iter (gbody1 replace_outgoing) (S (g_next g)) g s [s] [s]) as [ga sa] eqn:E1.
  assert (A : exits_at ga en).
  { refine (norm_iter_inv (gbody1 replace_outgoing) (fun h _ => exits_at h en) _ _ _ _ _ _ _ _ X E1).
    intros h t w h' t' Hh Eb. eapply body1_exits; eauto. }
  refine (norm_iter_inv (gbody2 replace_outgoing true true) (fun h _ => exits_at h en) _ _ _ _ _ _ _ _ A E).
  intros h t w h' t' Hh Eb. eapply body2_exits; eauto.
Qed.

(* ---- compile_one, inverted ---- *)
Definition routine_ctx (o : copts) (sub : option routine) : lctx :=
  mkL (option_map r_ret sub) None None
      (match sub with Some r => param_instr o r | None => main_param end).

Lemma compile_one_inv o sub ast0 cr :
  (match sub with Some r => r_deferred r | None => None end) = None ->
  compile_one o sub ast0 = COk cr ->
  check_expr o (option_map r_ret sub) false (root_ast ast0) = None /\
  has_bad_continue false (root_ast ast0) = false /\
  exists s g0,
    lower o (routine_ctx o sub) (root_ast ast0) None empty_graph = ((s, cr_end cr), g0) /\
    normalize (fst (add_incoming g0 s)) s = (cr_graph cr, cr_start cr).
Proof.
  intros D E. unfold compile_one in E. fold (root_ast ast0) in E. fold (routine_ctx o sub) in E.
  destruct (check_expr o (option_map r_ret sub) false (root_ast ast0)) as [err|] eqn:Ck; [discriminate E|].
  destruct (has_bad_continue false (root_ast ast0)) eqn:Hb; [discriminate E|].
  destruct (lower o (routine_ctx o sub) (root_ast ast0) None empty_graph) as [[s en] g0] eqn:EL.
  destruct (add_incoming g0 s) as [g1 d] eqn:E1.
  destruct (negb (validate_tree g1 s)); [discriminate E|].
  rewrite D in E.
  destruct (negb (validate_tree g1 s)); [discriminate E|].
  destruct (normalize g1 s) as [g3 s3] eqn:E3.
  destruct (negb (validate_tree g3 s3)); [discriminate E|].
  injection E as E. subst cr. cbn [cr_end cr_graph cr_start].
  split; [reflexivity|]. split; [reflexivity|]. exists s, g0. split; [reflexivity|].
  rewrite E1. cbn [fst]. exact E3.
Qed.

(* ---- everything the later stages need to know about a compiled routine ---- *)
Theorem compiled_routine_facts o sub ast0 cr :
  (match sub with Some r => r_deferred r | None => None end) = None ->
  compile_one o sub ast0 = COk cr ->
  exists s g0,
    lower o (routine_ctx o sub) (root_ast ast0) None empty_graph = ((s, cr_end cr), g0) /\
    wf g0 /\
    (head_loop (root_ast ast0) = false ->
     forall env, equiv_from env (g_blk g0) s (g_blk (cr_graph cr)) (cr_start cr)) /\
    wf (cr_graph cr) /\
    exits_at (cr_graph cr) (cr_end cr).
Proof.
  intros D E. destruct (compile_one_inv o sub ast0 cr D E) as (Ck & Hb & s & g0 & EL & EN).
  exists s, g0. split; [exact EL|].
  destruct (lower_root_shape o (routine_ctx o sub) (root_ast ast0) s (cr_end cr) g0 eq_refl eq_refl EL)
    as (W0 & F0 & Z0 & NE).
  split; [exact W0|]. split.
  - intros HL env.
    exact (lowered_normalize_correct env o (routine_ctx o sub) _ s (cr_end cr) g0 _ _ eq_refl eq_refl HL EL EN).
  - assert (ZN : forall b, NoDup (g_inc g0 b)) by (intros b; rewrite Z0; constructor).
    destruct (add_incoming_covers g0 s W0 ZN) as (B1 & N1 & _).
    assert (F1 : cond_full (fst (add_incoming g0 s))).
    { intros i b Eb. rewrite B1 in Eb. exact (F0 i b Eb). }
    destruct (normalize_shape _ _ _ _ F1 EN) as [N3 D3].
    split.
    + intros i L. apply D3. rewrite B1. apply W0. rewrite <- N1, <- N3. exact L.
    + apply (normalize_exits _ _ _ _ _ EN).
      pose proof (lower_root_exits o (routine_ctx o sub) (root_ast ast0) s (cr_end cr) g0 eq_refl eq_refl Ck Hb EL)
        as [X1 X2].
      split; [intros i bb Ei; rewrite B1 in Ei; exact (X1 i bb Ei)|rewrite B1; exact X2].
Qed.
