(* GENERATED from Proofs/SlotComposeCover.v by harness/tools/callx_gen.py (semantics with a call oracle, CallX/Denote.v); do not edit. *)
(* Proofs/SlotComposeCover.v — the slot rewrite commutes with sortBlocks and flattenBlocks:
     sort_blocks (rewritten graph)    = sort_blocks (graph)
     flatten_blocks (rewritten graph) = rw_code look (flatten_blocks (graph))
   so the code the pipeline emits for a routine is the linear-level rewrite of the code of the
   un-assigned routine, and contains no slot placeholder any more: its execution does not look at the
   [e_asg] component of the environment (the abstract "a variable is a cell of its own" reading of
   [do_op] is not used by it).
   The one non-trivial point: [map_graph_ops] rewrites the blocks TealBlock.Iterate (BFS, fuel
   g_next + 1) visits, flatten_blocks reads the blocks sortBlocks (DFS) lists.  Both are the blocks
   reachable from the start block — for the BFS this needs that all reachable blocks are allocated
   (below g_next), which follows from the success of flatten_blocks. *)
From Coq Require Import List Arith NArith String Bool Lia.
From PV Require Import Base.Bytes AVM.Syntax AVM.Machine Src.Expr CallX.Denote
  Comp.Blocks Comp.Lower Comp.Passes CallX.GraphSem CallX.LinearSem Comp.Compile
  Proofs.LowerFrame CallX.NormalizeSem CallX.FlattenCorrect CallX.SortCorrect Proofs.OptimizeCorrect
  CallX.SlotCompose.
Import ListNotations.

(* ================================================================================================ *)
(* 1. TealBlock.Iterate reaches every reachable block when these are allocated                       *)
(* ================================================================================================ *)
Lemma bfs_closed_on g n (R : id -> Prop) :
  (forall b x, R b -> In x (out_of g b) -> R x) -> (forall b, R b -> b < n) ->
  forall fuel q v acc,
    v = rev acc ++ q -> NoDup v -> (forall x, In x v -> R x) ->
    (forall p x, In p acc -> In x (out_of g p) -> In x v) ->
    n < fuel + List.length acc ->
    (forall x, In x v -> In x (bfs fuel g q v acc)) /\
    (forall p x, In p (bfs fuel g q v acc) -> In x (out_of g p) -> In x (bfs fuel g q v acc)).
Proof.
  intros Hout Hlt. induction fuel as [|f IH]; intros q v acc Hv Hnd Hb Hcl Hf.
  - exfalso. pose proof (bounded_length n v Hnd (fun x Hx => Hlt x (Hb x Hx))) as L.
    rewrite Hv, app_length, rev_length in L. cbn in Hf. lia.
  - cbn [bfs]. destruct q as [|w q].
    + rewrite app_nil_r in Hv. subst v. split; [tauto|].
      intros p x Hp Hx. apply (Hcl p x); [apply in_rev, Hp|exact Hx].
    + match goal with
      | |- context [fold_left ?F (out_of g w) (q, v)] =>
          destruct (enq_spec F (fun _ _ _ => eq_refl) (out_of g w) q v) as [added [H1 [H2 [H3 H4]]]]
      end.
      rewrite H1.
      assert (Rw : R w). { apply Hb. rewrite Hv. apply in_or_app. right. left. reflexivity. }
      assert (X : (forall x, In x (v ++ added) -> In x (bfs f g (q ++ added) (v ++ added) (w :: acc))) /\
                  (forall p x, In p (bfs f g (q ++ added) (v ++ added) (w :: acc)) -> In x (out_of g p) ->
                               In x (bfs f g (q ++ added) (v ++ added) (w :: acc)))).
      { apply IH.
        - subst v. cbn [rev]. rewrite <- !app_assoc. reflexivity.
        - apply nodup_app_intro; [exact Hnd|exact H2|]. intros x Hx. apply (H3 x Hx).
        - intros x Hx. apply in_app_or in Hx. destruct Hx as [Hx|Hx]; [apply Hb, Hx|].
          apply (Hout w); [exact Rw|]. apply (H3 x Hx).
        - intros p x [<-|Hp] Hx; [apply H4, Hx|]. apply in_or_app. left. apply (Hcl p x Hp Hx).
        - cbn [List.length]. lia. }
      destruct X as [X1 X2]. split; [|exact X2].
      intros x Hx. apply X1, in_or_app. left. exact Hx.
Qed.

Theorem iterate_reach g start :
  (forall b, reach g start b -> b < g_next g) ->
  forall b, reach g start b -> In b (iterate g start).
Proof.
  intros Hlt. unfold iterate.
  destruct (bfs_closed_on g (g_next g) (reach g start)
              (fun b x Rb Hx => reach_step g start b x Rb Hx) Hlt (S (g_next g)) [start] [start] []) as [A B].
  - reflexivity.
  - constructor; [intros []|constructor].
  - intros x [<-|[]]. apply reach_refl.
  - intros p x [].
  - cbn. lia.
  - intros b Rb. induction Rb as [|x y Rx IH Hy]; [apply A; left; reflexivity|exact (B x y IH Hy)].
Qed.

(* ================================================================================================ *)
(* 2. sortBlocks only looks at the edges                                                             *)
(* ================================================================================================ *)
Lemma sort_loop_ext g g' : (forall b, out_of g' b = out_of g b) ->
  forall fuel stack visited order, sort_loop fuel g' stack visited order = sort_loop fuel g stack visited order.
Proof.
  intros H. induction fuel as [|f IH]; intros stack visited order; [reflexivity|].
  rewrite !sort_loop_S. destruct (rev stack) as [|n rr]; [reflexivity|].
  destruct (mem_id n visited); [apply IH|]. rewrite H. apply IH.
Qed.

Lemma sort_blocks_ext g g' start end_ :
  (forall b, out_of g' b = out_of g b) -> g_next g' = g_next g ->
  sort_blocks g' start end_ = sort_blocks g start end_.
Proof. intros H N. unfold sort_blocks. rewrite N, (sort_loop_ext g g' H). reflexivity. Qed.

Theorem sort_blocks_rw look c :
  sort_blocks (cr_graph (rw_routine look c)) (cr_start c) (cr_end c) =
  sort_blocks (cr_graph c) (cr_start c) (cr_end c).
Proof. apply sort_blocks_ext; [apply mgo_out_of|apply mgo_next]. Qed.

(* ================================================================================================ *)
(* 3. flattenBlocks commutes with the rewrite on rewritten blocks                                    *)
(* ================================================================================================ *)
Lemma is_terminal_rw look bb : is_terminal (rw_block look bb) = is_terminal bb.
Proof. unfold is_terminal, rw_block. rewrite b_ops_set_ops, existsb_term_rw, outgoing_set_ops. reflexivity. Qed.

Definition rw_pair (look : N -> N) (x : list instr * list nat) : list instr * list nat :=
  (map (rw_instr look) (fst x), snd x).

Lemma flatten_one_rw look g g' blocks i b :
  g_blk g' b = option_map (rw_block look) (g_blk g b) ->
  flatten_one g' blocks i b = option_map (rw_pair look) (flatten_one g blocks i b).
Proof.
  intros H. unfold flatten_one. rewrite H. destruct (g_blk g b) as [bb|]; cbn [option_map]; [|reflexivity].
  rewrite is_terminal_rw. unfold rw_block at 1. rewrite b_ops_set_ops.
  destruct (is_terminal bb); [reflexivity|].
  destruct bb as [ops [nx|]|ops [t|] [f|]]; cbn [rw_block set_ops b_ops]; try reflexivity.
  - destruct (index_of nx blocks 0) as [ni|]; [|reflexivity].
    destruct (Nat.eqb ni (S i)); cbn [option_map]; unfold rw_pair; cbn [fst snd]; [reflexivity|].
    rewrite map_app. reflexivity.
  - destruct (index_of t blocks 0) as [ti|]; [|reflexivity].
    destruct (index_of f blocks 0) as [fi|]; [|reflexivity].
    destruct (Nat.eqb fi (S i)); [|destruct (Nat.eqb ti (S i))]; cbn [option_map]; unfold rw_pair; cbn [fst snd];
      rewrite map_app; reflexivity.
Qed.

Definition rw_coll (look : N -> N) (x : list (list instr) * list nat) : list (list instr) * list nat :=
  (map (map (rw_instr look)) (fst x), snd x).

Lemma flatten_collect_rw look g g' blocks : forall rest i,
  (forall b, In b rest -> g_blk g' b = option_map (rw_block look) (g_blk g b)) ->
  flatten_collect g' blocks i rest = option_map (rw_coll look) (flatten_collect g blocks i rest).
Proof.
  induction rest as [|b t IH]; intros i H; [reflexivity|]. cbn [flatten_collect].
  rewrite (flatten_one_rw look g g' blocks i b (H b (or_introl eq_refl))).
  rewrite (IH (S i) (fun x Hx => H x (or_intror Hx))).
  destruct (flatten_one g blocks i b) as [[code refs]|]; cbn [option_map]; [|reflexivity].
  destruct (flatten_collect g blocks (S i) t) as [[codes refs']|]; reflexivity.
Qed.

Lemma flatten_emit_rw look refs : forall codes i,
  flatten_emit (map (map (rw_instr look)) codes) refs i = rw_code look (flatten_emit codes refs i).
Proof.
  induction codes as [|code t IH]; intros i; [reflexivity|]. cbn [map flatten_emit]. unfold rw_code in *.
  rewrite !map_app, IH, !map_map. destruct (mem_nat i refs); reflexivity.
Qed.

Theorem flatten_blocks_rw look g g' blocks :
  (forall b, In b blocks -> g_blk g' b = option_map (rw_block look) (g_blk g b)) ->
  flatten_blocks g' blocks = option_map (rw_code look) (flatten_blocks g blocks).
Proof.
  intros H. unfold flatten_blocks. rewrite (flatten_collect_rw look g g' blocks blocks 0 H).
  destruct (flatten_collect g blocks 0 blocks) as [[codes refs]|]; cbn [option_map]; [|reflexivity].
  unfold rw_coll. cbn [fst snd]. rewrite flatten_emit_rw. reflexivity.
Qed.

(* ================================================================================================ *)
(* 4. the routine: the blocks sortBlocks lists are blocks TealBlock.Iterate visited                  *)
(* ================================================================================================ *)
Lemma rw_block_some look (o : option block) : option_map (rw_block look) o = None -> o = None.
Proof. destruct o; [discriminate|reflexivity]. Qed.

Lemma order_covered_gen c order :
  wf (cr_graph c) ->
  sort_blocks (cr_graph c) (cr_start c) (cr_end c) = Some order ->
  (forall b, In b order -> g_blk (cr_graph c) b <> None) ->
  forall b, In b order -> In b (iterate (cr_graph c) (cr_start c)).
Proof.
  intros W HS Def.
  destruct (sort_blocks_complete _ _ _ _ W HS) as (_ & R & _).
  assert (Hlt : forall b, reach (cr_graph c) (cr_start c) b -> b < g_next (cr_graph c)).
  { intros b Rb. apply R in Rb.
    destruct (Nat.lt_ge_cases b (g_next (cr_graph c))) as [L|L]; [exact L|exfalso].
    exact (Def b Rb (W b L)). }
  intros b Hb. apply iterate_reach; [exact Hlt|]. apply R. exact Hb.
Qed.

(* from the success of flatten_blocks on the routine itself ... *)
Theorem order_covered_plain c order code :
  wf (cr_graph c) ->
  sort_blocks (cr_graph c) (cr_start c) (cr_end c) = Some order ->
  flatten_blocks (cr_graph c) order = Some code ->
  forall b, In b order -> In b (iterate (cr_graph c) (cr_start c)).
Proof.
  intros W HS HF. apply (order_covered_gen c order W HS).
  intros b Hb E. destruct (flatten_closed _ _ _ HF b Hb) as (bb & Eb & _). congruence.
Qed.

(* ... or on the rewritten routine *)
Theorem order_covered look c order code' :
  wf (cr_graph c) ->
  sort_blocks (cr_graph c) (cr_start c) (cr_end c) = Some order ->
  flatten_blocks (cr_graph (rw_routine look c)) order = Some code' ->
  forall b, In b order -> In b (iterate (cr_graph c) (cr_start c)).
Proof.
  intros W HS HF. apply (order_covered_gen c order W HS).
  intros b Hb E. destruct (flatten_closed _ _ _ HF b Hb) as (bb & Eb & _).
  rewrite mgo_blk, E in Eb. destruct (mem_id b (iterate (cr_graph c) (cr_start c))); discriminate Eb.
Qed.

(* the code of the rewritten routine is the rewrite of the code of the routine *)
Theorem routine_code_rw look c order code' :
  wf (cr_graph c) ->
  sort_blocks (cr_graph (rw_routine look c)) (cr_start c) (cr_end c) = Some order ->
  flatten_blocks (cr_graph (rw_routine look c)) order = Some code' ->
  sort_blocks (cr_graph c) (cr_start c) (cr_end c) = Some order /\
  exists code, flatten_blocks (cr_graph c) order = Some code /\ code' = rw_code look code.
Proof.
  intros W HS HF. rewrite sort_blocks_rw in HS. split; [exact HS|].
  pose proof (order_covered look c order code' W HS HF) as Cov.
  rewrite (flatten_blocks_rw look (cr_graph c) _ order) in HF.
  - destruct (flatten_blocks (cr_graph c) order) as [code|]; [|discriminate HF].
    cbn [option_map] in HF. injection HF as HF. exists code. split; [reflexivity|symmetry; exact HF].
  - intros b Hb. rewrite mgo_blk. rewrite (proj2 (mem_id_In b _) (Cov b Hb)). reflexivity.
Qed.

Corollary routine_code_no_slots look c order code' :
  wf (cr_graph c) ->
  sort_blocks (cr_graph (rw_routine look c)) (cr_start c) (cr_end c) = Some order ->
  flatten_blocks (cr_graph (rw_routine look c)) order = Some code' ->
  code_slots code' = [].
Proof.
  intros W HS HF. destruct (routine_code_rw look c order code' W HS HF) as (_ & code & _ & ->).
  apply rw_code_no_slots.
Qed.

(* the slots of the un-assigned code are slots of the routine *)
Lemma flatten_emit_slots codes refs : forall i u, In u (code_slots (flatten_emit codes refs i)) ->
  exists code, In code codes /\ In u (ops_slots code).
Proof.
  induction codes as [|code t IH]; intros i u Hu; [destruct Hu|]. cbn [flatten_emit] in Hu.
  unfold code_slots in Hu. rewrite !flat_map_app in Hu. apply in_app_or in Hu. destruct Hu as [Hu|Hu].
  { destruct (mem_nat i refs); cbn in Hu; destruct Hu. }
  apply in_app_or in Hu. destruct Hu as [Hu|Hu].
  - exists code. split; [left; reflexivity|]. unfold ops_slots. rewrite flat_map_concat_map, map_map in Hu.
    rewrite flat_map_concat_map. exact Hu.
  - destruct (IH (S i) u Hu) as (cd & Hc & Hs). exists cd. split; [right; exact Hc|exact Hs].
Qed.

Lemma flatten_one_slots g blocks i b code refs u :
  flatten_one g blocks i b = Some (code, refs) -> In u (ops_slots code) -> In u (ops_slots (get_ops g b)).
Proof.
  unfold flatten_one, get_ops. destruct (g_blk g b) as [bb|]; [|discriminate].
  assert (X : forall extra, ops_slots extra = [] -> In u (ops_slots (b_ops bb ++ extra)) -> In u (ops_slots (b_ops bb))).
  { intros extra He Hu. unfold ops_slots in *. rewrite flat_map_app, He, app_nil_r in Hu. exact Hu. }
  destruct (is_terminal bb); [intros E; injection E as <- _; auto|].
  destruct bb as [ops [nx|]|ops [t|] [f|]]; cbn [b_ops] in *; try discriminate.
  - destruct (index_of nx blocks 0) as [ni|]; [|discriminate].
    destruct (Nat.eqb ni (S i)); intros E; injection E as <- _; [auto|]. apply X. reflexivity.
  - intros E; injection E as <- _; auto.
  - destruct (index_of t blocks 0) as [ti|]; [|discriminate].
    destruct (index_of f blocks 0) as [fi|]; [|discriminate].
    destruct (Nat.eqb fi (S i)); [|destruct (Nat.eqb ti (S i))]; intros E; injection E as <- _; apply X; reflexivity.
Qed.

Theorem routine_code_slots c order code :
  (forall b, In b order -> In b (iterate (cr_graph c) (cr_start c))) ->
  flatten_blocks (cr_graph c) order = Some code ->
  forall u, In u (code_slots code) -> In u (routine_slots c).
Proof.
  intros Cov HF u Hu. unfold flatten_blocks in HF.
  destruct (flatten_collect (cr_graph c) order 0 order) as [[codes refs]|] eqn:HC; [|discriminate HF].
  injection HF as <-. destruct (flatten_emit_slots codes refs 0 u Hu) as (cd & Hc & Hs).
  destruct (collect_spec _ _ _ _ _ _ HC) as [Len Spec].
  destruct (In_nth_error _ _ Hc) as (j & Nj).
  assert (Lj : j < List.length order). { rewrite <- Len. apply nth_error_Some. rewrite Nj. discriminate. }
  destruct (nth_error order j) as [b|] eqn:Nb; [|apply nth_error_None in Nb; lia].
  destruct (Spec j b Nb) as (cd' & r & F1 & F2 & _). rewrite Nj in F2. injection F2 as <-.
  apply routine_slots_spec. exists b. split; [apply Cov; exact (nth_error_In _ _ Nb)|].
  exact (flatten_one_slots _ _ _ _ _ _ u F1 Hs).
Qed.
