(* GENERATED from Proofs/SortCorrect.v by harness/tools/callx_gen.py (semantics with a call oracle, CallX/Denote.v); do not edit. *)
(* Proofs/SortCorrect.v — sortBlocks (Comp/Passes.v [sort_blocks], model of pyteal/compiler/sort.py)
   returns every block reachable from the start block exactly once, nothing else, the end block
   last and (unless start = end) the start block first; the fuel of the model's loop is sufficient.
   Then the composition with Proofs/FlattenCorrect.v: sort, flatten, run from pc 0.
   Stage "sort" of property C01. *)
From Coq Require Import List Arith NArith String Bool Lia.
From PV Require Import Base.Bytes AVM.Syntax AVM.Machine Src.Expr CallX.Denote
  Comp.Blocks Comp.Lower Comp.Passes CallX.GraphSem CallX.LinearSem
  Proofs.LowerFrame CallX.FlattenCorrect.
Import ListNotations.

(* ------------------------------------------------------------------------------------------ *)
(* 1. small list facts                                                                         *)
(* ------------------------------------------------------------------------------------------ *)
Lemma mem_id_In x l : mem_id x l = true <-> In x l.
Proof.
  induction l as [|y t IH]; cbn [mem_id In]; [split; [discriminate|tauto]|].
  rewrite orb_true_iff, IH, Nat.eqb_eq. split; intros [H|H]; auto.
Qed.

Lemma mem_id_false x l : mem_id x l = false <-> ~ In x l.
Proof.
  rewrite <- mem_id_In. destruct (mem_id x l); split; intros H; try reflexivity; try discriminate H.
  - exfalso; apply H; reflexivity.
  - intros H'; discriminate H'.
Qed.

Lemma rev_eq_nil {A} (l : list A) : rev l = [] -> l = [].
Proof. intros H. rewrite <- (rev_involutive l), H. reflexivity. Qed.

Lemma rev_eq_cons {A} (l : list A) x r : rev l = x :: r -> l = rev r ++ [x].
Proof. intros H. rewrite <- (rev_involutive l), H. reflexivity. Qed.

Lemma filter_length_le {A} (f f' : A -> bool) l : (forall x, f' x = true -> f x = true) ->
  List.length (filter f' l) <= List.length (filter f l).
Proof.
  intros M. induction l as [|x t IH]; [apply le_n|]. cbn [filter].
  destruct (f' x) eqn:E'.
  - rewrite (M x E'). cbn [List.length]. lia.
  - destruct (f x); cbn [List.length]; lia.
Qed.

Lemma filter_length_lt {A} (f f' : A -> bool) l n : (forall x, f' x = true -> f x = true) ->
  In n l -> f n = true -> f' n = false ->
  List.length (filter f' l) < List.length (filter f l).
Proof.
  intros M. induction l as [|x t IH]; intros Hin Hf Hf'; [destruct Hin|]. cbn [filter].
  pose proof (filter_length_le f f' t M) as Le.
  destruct Hin as [->|Hin].
  - rewrite Hf, Hf'. cbn [List.length]. lia.
  - specialize (IH Hin Hf Hf'). destruct (f' x) eqn:E'.
    + rewrite (M x E'). cbn [List.length]. lia.
    + destruct (f x); cbn [List.length]; lia.
Qed.

Lemma filter_length_all {A} (f : A -> bool) l : List.length (filter f l) <= List.length l.
Proof. induction l as [|x t IH]; [apply le_n|]. cbn [filter]. destruct (f x); cbn [List.length]; lia. Qed.

(* remove_first on a duplicate-free list *)
Lemma remove_first_In x e l : In x (remove_first e l) -> In x l.
Proof.
  induction l as [|y t IH]; [intros []|]. cbn [remove_first].
  destruct (Nat.eqb e y); [intros H; right; exact H|]. intros [H|H]; [left; exact H|right; apply IH; exact H].
Qed.

Lemma remove_first_keeps x e l : In x l -> x <> e -> In x (remove_first e l).
Proof.
  induction l as [|y t IH]; [intros []|]. intros H Ne. cbn [remove_first].
  destruct (Nat.eqb_spec e y) as [E|E].
  - destruct H as [H|H]; [congruence|exact H].
  - destruct H as [H|H]; [left; exact H|right; apply IH; assumption].
Qed.

Lemma remove_first_NoDup e l : NoDup l -> NoDup (remove_first e l) /\ ~ In e (remove_first e l).
Proof.
  induction l as [|y t IH]; intros H; [split; [constructor|intros []]|].
  inversion H as [|? ? Hy Ht]; subst. cbn [remove_first].
  destruct (Nat.eqb_spec e y) as [E|E].
  - subst y. split; assumption.
  - destruct (IH Ht) as (N1 & N2). split.
    + constructor; [|exact N1]. intros X. apply Hy. eapply remove_first_In; exact X.
    + intros [X|X]; [congruence|exact (N2 X)].
Qed.

Lemma NoDup_app_one {A} (l : list A) e : NoDup l -> ~ In e l -> NoDup (l ++ [e]).
Proof.
  induction l as [|y t IH]; intros N H; [constructor; [intros []|constructor]|].
  inversion N as [|? ? Hy Ht]; subst. rewrite <- app_comm_cons. constructor.
  - intros X. apply in_app_or in X. destruct X as [X|[X|[]]]; [exact (Hy X)|].
    apply H. left. symmetry. exact X.
  - apply IH; [exact Ht|]. intros X. apply H. right. exact X.
Qed.

Lemma index_of_app_notin x a : forall b n, ~ In x a ->
  index_of x (a ++ b) n = index_of x b (List.length a + n).
Proof.
  induction a as [|y t IH]; intros b n H; [reflexivity|]. cbn [app index_of List.length].
  destruct (Nat.eqb_spec x y) as [E|E]; [exfalso; apply H; left; congruence|].
  rewrite IH by (intros X; apply H; right; exact X). f_equal. lia.
Qed.

(* ------------------------------------------------------------------------------------------ *)
(* 2. the loop                                                                                 *)
(* ------------------------------------------------------------------------------------------ *)
Inductive reach (g : graph) (s : id) : id -> Prop :=
| reach_refl : reach g s s
| reach_step x y : reach g s x -> In y (out_of g x) -> reach g s y.

Lemma out_of_le2 g n : List.length (out_of g n) <= 2.
Proof.
  unfold out_of. destruct (g_blk g n) as [[ops [x|]|ops [t|] [f|]]|]; cbn; lia.
Qed.

Lemma out_of_outside g n : wf g -> g_next g <= n -> out_of g n = [].
Proof. intros W H. unfold out_of. rewrite (W n H). reflexivity. Qed.

Lemma sort_loop_S f g stack visited order :
  sort_loop (S f) g stack visited order =
  match rev stack with
  | [] => rev order
  | n :: rest_rev =>
      if mem_id n visited then sort_loop f g (rev rest_rev) visited order
      else sort_loop f g (rev rest_rev ++ out_of g n) (n :: visited) (n :: order)
  end.
Proof. reflexivity. Qed.

(* whatever the fuel, the result starts with what has been output so far *)
Lemma sort_loop_prefix g : forall fuel stack visited order,
  exists more, sort_loop fuel g stack visited order = rev order ++ more.
Proof.
  induction fuel as [|f IH]; intros stack visited order.
  - exists []. cbn [sort_loop]. rewrite app_nil_r. reflexivity.
  - rewrite sort_loop_S. destruct (rev stack) as [|n rr].
    + exists []. rewrite app_nil_r. reflexivity.
    + destruct (mem_id n visited); [apply IH|].
      destruct (IH (rev rr ++ out_of g n) (n :: visited) (n :: order)) as (more & E).
      exists (n :: more). rewrite E. cbn [rev]. rewrite <- app_assoc. reflexivity.
Qed.

Section Loop.
  Variable g : graph.
  Variable start : id.
  Hypothesis W : wf g.

  (* number of ids below g_next not yet visited *)
  Definition unv (vis : list id) : nat :=
    List.length (filter (fun i => negb (mem_id i vis)) (seq 0 (g_next g))).

  (* every iteration pops one element and pushes at most two, and pushes only when it visits a new
     block below g_next: stack height + 2 * unvisited decreases by at least one *)
  Definition potential (stack vis : list id) : nat := List.length stack + 2 * unv vis.

  Lemma unv_nil : unv [] <= g_next g.
  Proof. unfold unv. etransitivity; [apply filter_length_all|]. rewrite seq_length. apply le_n. Qed.

  Lemma unv_mono (n : id) (vis : list id) : unv (n :: vis) <= unv vis.
  Proof.
    unfold unv. apply filter_length_le. intros x. cbn [mem_id].
    destruct (Nat.eqb x n); [discriminate|]. cbn [orb]. tauto.
  Qed.

  Lemma unv_visit (n : id) (vis : list id) : n < g_next g -> mem_id n vis = false -> unv (n :: vis) < unv vis.
  Proof.
    intros L M. unfold unv. apply (filter_length_lt _ _ _ n).
    - intros x. cbn [mem_id]. destruct (Nat.eqb x n); [discriminate|]. cbn [orb]. tauto.
    - apply in_seq. lia.
    - rewrite M. reflexivity.
    - cbn [mem_id]. rewrite Nat.eqb_refl. reflexivity.
  Qed.

  Lemma potential_skip (rr : list id) (n : id) vis :
    potential (rr ++ [n]) vis = S (potential rr vis).
  Proof. unfold potential. rewrite app_length. cbn [List.length]. lia. Qed.

  Lemma potential_visit (rr : list id) (n : id) vis : mem_id n vis = false ->
    potential (rr ++ out_of g n) (n :: vis) <= potential rr vis.
  Proof.
    intros M. unfold potential. rewrite app_length.
    destruct (Nat.lt_ge_cases n (g_next g)) as [L|L].
    - pose proof (unv_visit n vis L M). pose proof (out_of_le2 g n). lia.
    - rewrite (out_of_outside g n W L). pose proof (unv_mono n vis). cbn [List.length]. lia.
  Qed.

  (* the fuel is sufficient: once it exceeds the potential, more fuel changes nothing (the loop ends
     because the stack is empty, never because the fuel ran out) *)
  Lemma sort_loop_fuel : forall f1 f2 stack vis ord,
    potential stack vis < f1 -> potential stack vis < f2 ->
    sort_loop f1 g stack vis ord = sort_loop f2 g stack vis ord.
  Proof.
    induction f1 as [|f1 IH]; intros f2 stack vis ord P1 P2; [inversion P1|].
    destruct f2 as [|f2]; [inversion P2|]. rewrite !sort_loop_S.
    destruct (rev stack) as [|n rr] eqn:E; [reflexivity|].
    apply rev_eq_cons in E. subst stack. rewrite potential_skip in P1, P2.
    destruct (mem_id n vis) eqn:M.
    - apply IH; lia.
    - pose proof (potential_visit (rev rr) n vis M). apply IH; lia.
  Qed.

  Record inv (stack vis : list id) : Prop := mkInv {
    inv_nodup : NoDup vis;
    inv_reach : forall x, In x stack \/ In x vis -> reach g start x;
    inv_closed : forall x, In x vis -> forall y, In y (out_of g x) -> In y vis \/ In y stack;
    inv_start : In start vis \/ In start stack
  }.

  Lemma closed_all vis : inv [] vis -> forall x, reach g start x -> In x vis.
  Proof.
    intros I x R. induction R as [|x y R IH Hy].
    - destruct (inv_start _ _ I) as [H|[]]. exact H.
    - destruct (inv_closed _ _ I x IH y Hy) as [H|[]]. exact H.
  Qed.

  Lemma sort_loop_spec : forall fuel stack vis,
    potential stack vis < fuel -> inv stack vis ->
    NoDup (sort_loop fuel g stack vis vis) /\
    (forall x, In x (sort_loop fuel g stack vis vis) <-> reach g start x).
  Proof.
    induction fuel as [|f IH]; intros stack vis P I; [inversion P|].
    rewrite sort_loop_S. destruct (rev stack) as [|n rr] eqn:E.
    - apply rev_eq_nil in E. subst stack. split.
      + apply NoDup_rev. exact (inv_nodup _ _ I).
      + intros x. rewrite <- in_rev. split.
        * intros H. apply (inv_reach _ _ I). right; exact H.
        * apply closed_all; exact I.
    - apply rev_eq_cons in E. subst stack.
      rewrite potential_skip in P.
      destruct (mem_id n vis) eqn:M.
      + apply IH.
        * lia.
        * apply mem_id_In in M. constructor.
          -- exact (inv_nodup _ _ I).
          -- intros x [H|H]; apply (inv_reach _ _ I); [left; apply in_or_app; left; exact H|right; exact H].
          -- intros x Hx y Hy. destruct (inv_closed _ _ I x Hx y Hy) as [H|H]; [left; exact H|].
             apply in_app_or in H. destruct H as [H|[H|[]]]; [right; exact H|left; subst; exact M].
          -- destruct (inv_start _ _ I) as [H|H]; [left; exact H|].
             apply in_app_or in H. destruct H as [H|[H|[]]]; [right; exact H|left; subst; exact M].
      + assert (Rn : reach g start n).
        { apply (inv_reach _ _ I). left. apply in_or_app. right. left. reflexivity. }
        apply IH.
        * pose proof (potential_visit (rev rr) n vis M). lia.
        * constructor.
          -- constructor; [apply mem_id_false; exact M|exact (inv_nodup _ _ I)].
          -- intros x [H|[H|H]].
             ++ apply in_app_or in H. destruct H as [H|H].
                ** apply (inv_reach _ _ I). left. apply in_or_app. left; exact H.
                ** eapply reach_step; [exact Rn|exact H].
             ++ subst x. exact Rn.
             ++ apply (inv_reach _ _ I). right; exact H.
          -- intros x [Hx|Hx] y Hy.
             ++ subst x. right. apply in_or_app. right; exact Hy.
             ++ destruct (inv_closed _ _ I x Hx y Hy) as [H|H]; [left; right; exact H|].
                apply in_app_or in H. destruct H as [H|[H|[]]].
                ** right. apply in_or_app. left; exact H.
                ** left. left. exact H.
          -- destruct (inv_start _ _ I) as [H|H]; [left; right; exact H|].
             apply in_app_or in H. destruct H as [H|[H|[]]].
             ++ right. apply in_or_app. left; exact H.
             ++ left. left. exact H.
  Qed.

  (* the traversal of sort_blocks, before the end block is moved *)
  Definition dfs_order : list id := sort_loop (3 * S (g_next g)) g [start] [] [].

  Lemma dfs_order_spec :
    NoDup dfs_order /\ (forall x, In x dfs_order <-> reach g start x) /\
    exists more, dfs_order = start :: more.
  Proof.
    assert (I0 : inv [start] []).
    { constructor.
      - constructor.
      - intros x [[H|[]]|[]]. subst. apply reach_refl.
      - intros x [].
      - right. left. reflexivity. }
    assert (P0 : potential [start] [] < 3 * S (g_next g)).
    { unfold potential. pose proof unv_nil. cbn [List.length]. lia. }
    destruct (sort_loop_spec _ _ _ P0 I0) as (N & R).
    split; [exact N|split; [exact R|]].
    unfold dfs_order. replace (3 * S (g_next g)) with (S (2 + 3 * g_next g)) by lia.
    rewrite sort_loop_S. cbn [rev app mem_id].
    destruct (sort_loop_prefix g (2 + 3 * g_next g) (out_of g start) [start] [start]) as (more & E).
    exists more. rewrite E. reflexivity.
  Qed.

  Lemma potential_start : potential [start] [] < 3 * S (g_next g).
  Proof. unfold potential. pose proof unv_nil. cbn [List.length]. lia. Qed.

  Theorem sort_fuel_sufficient extra :
    sort_loop (3 * S (g_next g) + extra) g [start] [] [] = dfs_order.
  Proof. unfold dfs_order. pose proof potential_start. apply sort_loop_fuel; lia. Qed.
End Loop.

(* ------------------------------------------------------------------------------------------ *)
(* 3. sort_blocks                                                                              *)
(* ------------------------------------------------------------------------------------------ *)
Lemma reach_no_out g s : out_of g s = [] -> forall x, reach g s x -> x = s.
Proof.
  intros O x R. induction R as [|x y R IH Hy]; [reflexivity|]. subst x. rewrite O in Hy. destruct Hy.
Qed.

Theorem sort_blocks_complete (g : graph) (start end_ : id) (order : list id) :
  wf g -> sort_blocks g start end_ = Some order ->
  NoDup order /\
  (forall x, In x order <-> reach g start x) /\
  (exists pre, order = pre ++ [end_]) /\
  (start <> end_ -> exists t, order = start :: t) /\
  (start = end_ -> exists more, dfs_order g start = start :: more /\ order = more ++ [start]) /\
  (start = end_ -> out_of g start = [] -> order = [start]).
Proof.
  intros W H. unfold sort_blocks in H. fold (dfs_order g start) in H.
  destruct (dfs_order_spec g start W) as (N & R & more & E).
  destruct (mem_id end_ (dfs_order g start)) eqn:M; [|discriminate H]. inversion H; subst order; clear H.
  apply mem_id_In in M. destruct (remove_first_NoDup end_ _ N) as (N1 & N2).
  assert (RR : forall x, In x (remove_first end_ (dfs_order g start) ++ [end_]) <-> reach g start x).
  { intros x. rewrite <- R. split.
    - intros X. apply in_app_or in X. destruct X as [X|[X|[]]]; [eapply remove_first_In; exact X|subst; exact M].
    - intros X. apply in_or_app. destruct (Nat.eq_dec x end_) as [->|Ne]; [right; left; reflexivity|].
      left. apply remove_first_keeps; assumption. }
  assert (ND : NoDup (remove_first end_ (dfs_order g start) ++ [end_])).
  { apply NoDup_app_one. exact N1. exact N2. }
  split; [exact ND|]. split; [exact RR|]. split; [eauto|].
  assert (S1 : start = end_ -> remove_first end_ (dfs_order g start) = more).
  { intros <-. rewrite E. cbn [remove_first]. rewrite Nat.eqb_refl. reflexivity. }
  split; [|split].
  - intros Ne. rewrite E. cbn [remove_first]. destruct (Nat.eqb_spec end_ start) as [X|X]; [congruence|].
    rewrite <- app_comm_cons. eauto.
  - intros Es. exists more. split; [exact E|]. rewrite (S1 Es), Es. reflexivity.
  - intros Es O. rewrite (S1 Es) in *. subst end_. destruct more as [|m more']; [reflexivity|].
    exfalso. assert (X : m = start).
    { apply (reach_no_out g start O). apply RR. left. reflexivity. }
    subst m. inversion ND as [|? ? Hn _]. apply Hn. apply in_or_app. right. left. reflexivity.
Qed.

(* ------------------------------------------------------------------------------------------ *)
(* 4. sort, then flatten: the routine's code, entered at pc 0, simulates the graph            *)
(* ------------------------------------------------------------------------------------------ *)

(* what the lowering has to provide: among the reachable blocks, the only one without successor and
   without return / retsub / err is the routine's end block, and it is a simple block *)
Definition single_exit (g : graph) (start end_ : id) : Prop :=
  forall b bb, reach g start b -> g_blk g b = Some bb ->
    existsb is_term_op (b_ops bb) = false -> outgoing bb = [] ->
    b = end_ /\ exists ops, bb = BSimple ops None.

Lemma sort_ends_last g start end_ order :
  wf g -> sort_blocks g start end_ = Some order -> single_exit g start end_ ->
  ends_last (g_blk g) order.
Proof.
  intros W HS SE j b bb Hj Gb T O.
  destruct (sort_blocks_complete g start end_ order W HS) as (ND & R & (pre & Ep) & _).
  assert (Hin : In b order) by exact (nth_error_In _ _ (index_of_nth _ _ _ Hj)).
  destruct (SE b bb (proj1 (R b) Hin) Gb T O) as (Eb & Hs). subst b. split; [exact Hs|].
  subst order. pose proof (NoDup_remove_2 _ _ _ ND) as Nin. rewrite app_nil_r in Nin.
  rewrite (index_of_app_notin end_ pre [end_] 0 Nin) in Hj. cbn [index_of] in Hj.
  rewrite Nat.eqb_refl in Hj. inversion Hj; subst j. rewrite app_length. cbn [List.length]. lia.
Qed.

Lemma sort_start_first g start end_ order :
  wf g -> sort_blocks g start end_ = Some order ->
  start <> end_ \/ out_of g start = [] -> exists t, order = start :: t.
Proof.
  intros W HS H.
  destruct (sort_blocks_complete g start end_ order W HS) as (_ & _ & _ & F1 & _ & F2).
  destruct (Nat.eq_dec start end_) as [E|E]; [|exact (F1 E)].
  destruct H as [H|H]; [contradiction|]. exists []. exact (F2 E H).
Qed.

Theorem flatten_sort_correct (env : denv) (g : graph) (start end_ : id) (order : list id) (code : list comp) :
  wf g ->
  sort_blocks g start end_ = Some order ->
  flatten_blocks g order = Some code ->
  single_exit g start end_ ->
  start <> end_ \/ out_of g start = [] ->
  forall stk st c',
    star env (g_blk g) (GAt start stk st) c' -> ok_out c' ->
    lstar env code (LAt 0 stk st) (img (pos_of g order) c').
Proof.
  intros W HS HF SE H1 stk st c' Hs Hok.
  destruct (sort_start_first g start end_ order W HS H1) as (t & Eo).
  pose proof (sort_ends_last g start end_ order W HS SE) as EL.
  subst order.
  pose proof (flatten_correct env g (start :: t) code HF EL start stk st c') as FC.
  rewrite pos_of_head in FC.
  apply FC; [left; reflexivity|exact Hs|exact Hok].
Qed.

(* halting version: same outcome, no other outcome, and the fuelled runner computes it *)
Corollary flatten_sort_correct_final (env : denv) (g : graph) (start end_ : id) (order : list id) (code : list comp) :
  wf g ->
  sort_blocks g start end_ = Some order ->
  flatten_blocks g order = Some code ->
  single_exit g start end_ ->
  start <> end_ \/ out_of g start = [] ->
  forall stk st c',
    star env (g_blk g) (GAt start stk st) c' -> gfinal c' = true -> ok_out c' ->
    (exists n, lrun n env code (LAt 0 stk st) = img (pos_of g order) c') /\
    (forall c2, lstar env code (LAt 0 stk st) c2 -> lfinal c2 = true -> c2 = img (pos_of g order) c').
Proof.
  intros W HS HF SE H1 stk st c' Hs Hf Hok.
  pose proof (flatten_sort_correct env g start end_ order code W HS HF SE H1 stk st c' Hs Hok) as R.
  pose proof (img_final (pos_of g order) c' Hf) as Fi.
  split; [exact (lstar_lrun env code _ _ R Fi)|].
  intros c2 R2 F2. symmetry. exact (lstar_final_unique env code _ _ _ R Fi R2 F2).
Qed.

(* start = end_ with a successor: sortBlocks moves the start block to the END, so the routine's entry
   is no longer at pc 0 — the side condition of [flatten_sort_correct] is needed *)
Lemma wf_ex_graph l : wf (ex_graph l).
Proof. intros i H. cbn. apply nth_error_None. exact H. Qed.

Example sort_start_not_first :
  exists g s order, wf g /\ sort_blocks g s s = Some order /\ hd_error order <> Some s.
Proof.
  exists (ex_graph [BSimple [] (Some 1); BSimple [] (Some 0)]), 0, [1; 0].
  split; [apply wf_ex_graph|]. split; [vm_compute; reflexivity|]. cbn. discriminate.
Qed.

(* a decidable form of [single_exit], checked on the sorted order *)
Definition single_exit_b (g : graph) (end_ : id) (order : list id) : bool :=
  forallb (fun b =>
             match g_blk g b with
             | Some bb =>
                 if existsb is_term_op (b_ops bb) then true
                 else match outgoing bb with
                      | [] => Nat.eqb b end_ && match bb with BSimple _ None => true | _ => false end
                      | _ => true
                      end
             | None => true
             end) order.

Lemma single_exit_b_sound g start end_ order :
  wf g -> sort_blocks g start end_ = Some order -> single_exit_b g end_ order = true ->
  single_exit g start end_.
Proof.
  intros W HS H b bb Rb Gb T O.
  destruct (sort_blocks_complete g start end_ order W HS) as (_ & R & _).
  unfold single_exit_b in H. rewrite forallb_forall in H. specialize (H b (proj2 (R b) Rb)).
  rewrite Gb, T, O in H. apply andb_true_iff in H. destruct H as (H1 & H2).
  apply Nat.eqb_eq in H1. split; [exact H1|]. destruct bb as [ops [n|]|ops t f]; try discriminate H2. eauto.
Qed.

(* ------------------------------------------------------------------------------------------ *)
(* 5. non-vacuity: the hypotheses hold on concrete graphs, and the computed runs agree         *)
(* ------------------------------------------------------------------------------------------ *)
Definition op_ld (s : N) : instr := mkI O_load [ASlot s].
Definition op_st (s : N) : instr := mkI O_store [ASlot s].
Definition lbl (i : nat) : comp := CLabel (label_of i) None.
Definition jmp (o : opc) (i : nat) : comp := COp (mkI o [ALbl (label_of i)]).

(* a diamond: If(1) then 10 else 20; return *)
Definition g_diamond : graph :=
  ex_graph [BCond [op_int 1] (Some 1) (Some 2); BSimple [op_int 10] (Some 3);
            BSimple [op_int 20] (Some 3); BSimple [op0 O_return_] None].
Definition code_diamond : list comp :=
  [COp (op_int 1); jmp O_bnz 2; COp (op_int 20); jmp O_b 3; lbl 2; COp (op_int 10); lbl 3; COp (op0 O_return_)].

Example ex_diamond :
  wf g_diamond /\ sort_blocks g_diamond 0 3 = Some [0; 2; 1; 3] /\
  flatten_blocks g_diamond [0; 2; 1; 3] = Some code_diamond /\
  single_exit g_diamond 0 3 /\
  star ex_env (g_blk g_diamond) (GAt 0 [] ex_st) (GExit (VI 10) ex_st) /\
  lstar ex_env code_diamond (LAt 0 [] ex_st) (LExit (VI 10) ex_st) /\
  lrun 20 ex_env code_diamond (LAt 0 [] ex_st) = LExit (VI 10) ex_st.
Proof.
  assert (W : wf g_diamond) by apply wf_ex_graph.
  assert (S : sort_blocks g_diamond 0 3 = Some [0; 2; 1; 3]) by (vm_compute; reflexivity).
  assert (F : flatten_blocks g_diamond [0; 2; 1; 3] = Some code_diamond) by (vm_compute; reflexivity).
  assert (E : single_exit g_diamond 0 3) by (eapply single_exit_b_sound; [exact W|exact S|vm_compute; reflexivity]).
  assert (R : star ex_env (g_blk g_diamond) (GAt 0 [] ex_st) (GExit (VI 10) ex_st))
    by exact (grun_star ex_env (g_blk g_diamond) 5 (GAt 0 [] ex_st)).
  repeat (split; [assumption|]). split; [|vm_compute; reflexivity].
  exact (flatten_sort_correct ex_env g_diamond 0 3 _ _ W S F E (or_introl (fun H => O_S 2 H)) [] ex_st _ R Logic.I).
Qed.

(* a loop with a back edge: x := 3; while x: x := x - 1; return x + 5 *)
Definition g_loop : graph :=
  ex_graph [BSimple [op_int 3; op_st 0] (Some 1); BCond [op_ld 0] (Some 2) (Some 3);
            BSimple [op_ld 0; op_int 1; op0 O_minus; op_st 0] (Some 1);
            BSimple [op_ld 0; op_int 5; op0 O_add; op0 O_return_] None].
Definition code_loop : list comp :=
  [COp (op_int 3); COp (op_st 0); lbl 1; COp (op_ld 0); jmp O_bz 3;
   COp (op_ld 0); COp (op_int 1); COp (op0 O_minus); COp (op_st 0); jmp O_b 1;
   lbl 3; COp (op_ld 0); COp (op_int 5); COp (op0 O_add); COp (op0 O_return_)].
Definition st_loop : mstate := set_scratch ex_st 0 (VI 0).

Example ex_loop :
  wf g_loop /\ sort_blocks g_loop 0 3 = Some [0; 1; 2; 3] /\
  flatten_blocks g_loop [0; 1; 2; 3] = Some code_loop /\
  single_exit g_loop 0 3 /\
  star ex_env (g_blk g_loop) (GAt 0 [] ex_st) (GExit (VI 5) st_loop) /\
  lstar ex_env code_loop (LAt 0 [] ex_st) (LExit (VI 5) st_loop) /\
  lrun 60 ex_env code_loop (LAt 0 [] ex_st) = LExit (VI 5) st_loop.
Proof.
  assert (W : wf g_loop) by apply wf_ex_graph.
  assert (S : sort_blocks g_loop 0 3 = Some [0; 1; 2; 3]) by (vm_compute; reflexivity).
  assert (F : flatten_blocks g_loop [0; 1; 2; 3] = Some code_loop) by (vm_compute; reflexivity).
  assert (E : single_exit g_loop 0 3) by (eapply single_exit_b_sound; [exact W|exact S|vm_compute; reflexivity]).
  assert (R : star ex_env (g_blk g_loop) (GAt 0 [] ex_st) (GExit (VI 5) st_loop)).
  { replace (GExit (VI 5) st_loop) with (grun 20 ex_env (g_blk g_loop) (GAt 0 [] ex_st)) by (vm_compute; reflexivity).
    apply grun_star. }
  repeat (split; [assumption|]). split; [|vm_compute; reflexivity].
  exact (flatten_sort_correct ex_env g_loop 0 3 _ _ W S F E (or_introl (fun H => O_S 2 H)) [] ex_st _ R Logic.I).
Qed.

(* a terminal block in the middle of the list (with dead ops after its return), a block that falls
   through, in a hand-chosen order; entered at block 0 and at block 1 *)
Definition g_mid : graph :=
  ex_graph [BCond [op_int 0] (Some 1) (Some 2); BSimple [op_int 1; op0 O_return_; op_int 9] None;
            BSimple [op_int 7] (Some 3); BSimple [op0 O_return_] None].
Definition code_mid : list comp :=
  [COp (op_int 0); jmp O_bz 2; COp (op_int 1); COp (op0 O_return_); COp (op_int 9);
   lbl 2; COp (op_int 7); COp (op0 O_return_)].

Example ex_mid :
  flatten_blocks g_mid [0; 1; 2; 3] = Some code_mid /\
  ends_last (g_blk g_mid) [0; 1; 2; 3] /\
  pos_of g_mid [0; 1; 2; 3] 1 = 2 /\
  star ex_env (g_blk g_mid) (GAt 0 [] ex_st) (GExit (VI 7) ex_st) /\
  lstar ex_env code_mid (LAt 0 [] ex_st) (LExit (VI 7) ex_st) /\
  star ex_env (g_blk g_mid) (GAt 1 [] ex_st) (GExit (VI 1) ex_st) /\
  lstar ex_env code_mid (LAt 2 [] ex_st) (LExit (VI 1) ex_st) /\
  lrun 20 ex_env code_mid (LAt 0 [] ex_st) = LExit (VI 7) ex_st.
Proof.
  assert (F : flatten_blocks g_mid [0; 1; 2; 3] = Some code_mid) by (vm_compute; reflexivity).
  assert (E : ends_last (g_blk g_mid) [0; 1; 2; 3]) by (apply ends_last_b_sound; vm_compute; reflexivity).
  assert (P1 : pos_of g_mid [0; 1; 2; 3] 1 = 2) by (vm_compute; reflexivity).
  assert (R0 : star ex_env (g_blk g_mid) (GAt 0 [] ex_st) (GExit (VI 7) ex_st))
    by exact (grun_star ex_env (g_blk g_mid) 5 (GAt 0 [] ex_st)).
  assert (R1 : star ex_env (g_blk g_mid) (GAt 1 [] ex_st) (GExit (VI 1) ex_st))
    by exact (grun_star ex_env (g_blk g_mid) 5 (GAt 1 [] ex_st)).
  split; [exact F|]. split; [exact E|]. split; [exact P1|]. split; [exact R0|]. split; [|split; [exact R1|split]].
  - exact (flatten_correct ex_env g_mid _ _ F E 0 [] ex_st _ (or_introl eq_refl) R0 Logic.I).
  - rewrite <- P1. exact (flatten_correct ex_env g_mid _ _ F E 1 [] ex_st _ (or_intror (or_introl eq_refl)) R1 Logic.I).
  - vm_compute; reflexivity.
Qed.

(* a routine that ends without return: the end block is last, both machines run off the end *)
Definition g_end : graph := ex_graph [BSimple [op_int 1] (Some 1); BSimple [op_int 2] None].

Example ex_end :
  wf g_end /\ sort_blocks g_end 0 1 = Some [0; 1] /\
  flatten_blocks g_end [0; 1] = Some [COp (op_int 1); COp (op_int 2)] /\
  single_exit g_end 0 1 /\
  star ex_env (g_blk g_end) (GAt 0 [] ex_st) (GEnd [VI 2; VI 1] ex_st) /\
  lstar ex_env [COp (op_int 1); COp (op_int 2)] (LAt 0 [] ex_st) (LEnd [VI 2; VI 1] ex_st).
Proof.
  assert (W : wf g_end) by apply wf_ex_graph.
  assert (S : sort_blocks g_end 0 1 = Some [0; 1]) by (vm_compute; reflexivity).
  assert (F : flatten_blocks g_end [0; 1] = Some [COp (op_int 1); COp (op_int 2)]) by (vm_compute; reflexivity).
  assert (E : single_exit g_end 0 1) by (eapply single_exit_b_sound; [exact W|exact S|vm_compute; reflexivity]).
  assert (R : star ex_env (g_blk g_end) (GAt 0 [] ex_st) (GEnd [VI 2; VI 1] ex_st))
    by exact (grun_star ex_env (g_blk g_end) 5 (GAt 0 [] ex_st)).
  repeat (split; [assumption|]).
  exact (flatten_sort_correct ex_env g_end 0 1 _ _ W S F E (or_introl (fun H => O_S 0 H)) [] ex_st _ R Logic.I).
Qed.
