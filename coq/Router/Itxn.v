(* Router/Itxn.v — C14: InnerTxnBuilder.MethodCall / ExecuteMethodCall.

   MODEL of pyteal/ast/itxn.py (InnerTxnBuilder.SetField, SetFields, MethodCall, ExecuteMethodCall),
   faithful to the source as it is.  The model's end product is what the reference AVM RECORDS when
   the expression  Seq(InnerTxnBuilder.Begin(), MethodCall(...), InnerTxnBuilder.Submit())  runs: the
   list of inner transactions MethodCall adds to the open group, each a list of (field name, value)
   in the order the `itxn_field` instructions execute (an array field appears once per element) —
   or the class of the exception the constructor raises.

       fields_to_set = [SetField(type_enum, ApplicationCall)]
       if app_id is not None: require_type(app_id, uint64); fields_to_set += [SetField(application_id, app_id)]
       arg_type_specs, _ = abi.type_specs_from_signature(method_signature)
       if len(args) != len(arg_type_specs): raise TealInputError
       app_args = [MethodSignature(method_signature)]; txns_to_pass = []; accts = []; apps = []; assets = []
       for idx, method_arg_ts in enumerate(arg_type_specs):
           arg = args[idx]
           if method_arg_ts in abi.TransactionTypeSpecs:      dict with an EnumInt type_enum whose name
               ...                                            maps to a spec assignable to method_arg_ts
               txns_to_pass.append(InnerTxnBuilder.SetFields(arg))
           elif method_arg_ts in abi.ReferenceTypeSpecs:
               account:      accts.append(value);  app_args.append(Bytes(uint8(len(accts))))    AFTER the append
               application:  apps.append(value);   app_args.append(Bytes(uint8(len(apps))))     AFTER the append
               asset:        app_args.append(Bytes(uint8(len(assets))));  assets.append(value)  BEFORE the append
           else:
               Expr:          require_type(arg, bytes); app_args.append(arg)
               abi.BaseType:  type_spec_is_assignable_to(arg.type_spec(), method_arg_ts) else TealTypeError
                              app_args.append(arg.encode())
       accounts, applications, assets (each only when non-empty), application_args
       return Seq( [Seq(ttp, Next()) for ttp in txns_to_pass]..., fields_to_set..., SetFields(extra_fields or {}) )

   There is NO step that packs the 15th and later arguments into a tuple (the known finding of C14).

   SPEC (second half of this file), written from the ARC-4 text: [valid_call] — what it means for an
   application call (ApplicationArgs, foreign arrays, preceding transactions) to be an ARC-4 client
   encoding of given arguments under a given signature.  It reuses the pieces of the C09 client
   specification (Router/Args.v): [pack] (one application argument per non-transaction argument; with
   more than 15 the first 14 alone and the rest as ONE tuple), [resolve_account] / [resolve_asset] /
   [resolve_app] (what an index means to the callee).  Unlike [client_encode] (a particular client that
   reuses entries), [valid_call] is the relation every ARC-4 client must satisfy, so it also admits
   PyTeal's choice of always appending a fresh entry.

   Definitions only; lemmas are in Proofs/Itxn*.v, property theorems in Props/C14.v. *)
From Coq Require Import List Arith NArith Ascii String Bool.
From PV Require Import Base.Bytes Base.Sexp AVM.Syntax ABI.Types ABI.Spec ABI.Descr ABI.Assignable
  Gen.Tables Gen.FieldTables Router.Args.
Import ListNotations.
Local Open Scope string_scope.
Local Open Scope list_scope.

(* ------------------------------------------------------------------------------------------ *)
(* TEAL types and require_type                                                                 *)
(* ------------------------------------------------------------------------------------------ *)
Inductive tt : Type := T_uint | T_bytes | T_any | T_none.

Definition tt_eqb (a b : tt) : bool :=
  match a, b with
  | T_uint, T_uint | T_bytes, T_bytes | T_any, T_any | T_none, T_none => true
  | _, _ => false
  end.
Definition is_any (a : tt) : bool := tt_eqb a T_any.
Definition is_none (a : tt) : bool := tt_eqb a T_none.

(* pyteal/types.py require_type: raises iff
     actual != expected and (expected == none or actual == none or (actual != anytype and expected != anytype)) *)
Definition require_ok (actual expected : tt) : bool :=
  negb (negb (tt_eqb actual expected) &&
        (is_none expected || is_none actual || (negb (is_any actual) && negb (is_any expected)))).

(* type codes of Gen/Tables.v: 0 uint64, 1 bytes, 2 anytype, 3 none *)
Definition tt_of_code (c : N) : tt :=
  match c with 0%N => T_uint | 1%N => T_bytes | 2%N => T_any | _ => T_none end.

(* TxnField.type_of() and TxnField.is_array by the field's TEAL name, from the tables regenerated
   from pyteal/ast/txn.py on every run *)
Fixpoint find_txn_field (f : string) (l : list (string * string * N * N)) : option tt :=
  match l with
  | [] => None
  | (fam, name, _, c) :: r =>
      if String.eqb fam "txn" && String.eqb name f then Some (tt_of_code c) else find_txn_field f r
  end.
Definition field_type (f : string) : option tt := find_txn_field f gen_fields.

Fixpoint assoc_str {B} (k : string) (l : list (string * B)) : option B :=
  match l with
  | [] => None
  | (k', v) :: r => if String.eqb k k' then Some v else assoc_str k r
  end.
Definition field_is_array (f : string) : bool :=
  match assoc_str f gen_txn_arrays with Some b => b | None => false end.

(* ------------------------------------------------------------------------------------------ *)
(* the Python objects the constructors are called with                                         *)
(* ------------------------------------------------------------------------------------------ *)
(* the value of `int NAME` for the named constants an EnumInt can carry (TxnType, OnComplete) *)
Definition enum_value (name : string) : N :=
  (if String.eqb name "pay" then 1 else if String.eqb name "keyreg" then 2
   else if String.eqb name "acfg" then 3 else if String.eqb name "axfer" then 4
   else if String.eqb name "afrz" then 5 else if String.eqb name "appl" then 6
   else if String.eqb name "OptIn" then 1 else if String.eqb name "CloseOut" then 2
   else if String.eqb name "ClearState" then 3 else if String.eqb name "UpdateApplication" then 4
   else if String.eqb name "DeleteApplication" then 5 else 0)%N.

(* a PyTeal expression as far as MethodCall looks at it: its static TEAL type, and the value it
   evaluates to when the program runs (constants and run-time reads alike) *)
Inductive xexpr : Type :=
| XE (t : tt) (v : value)         (* any Expr with type_of() = t evaluating to v *)
| XEnum (name : string).          (* EnumInt(name) *)

Definition x_type (e : xexpr) : tt := match e with XE t _ => t | XEnum _ => T_uint end.
Definition x_val (e : xexpr) : value := match e with XE _ v => v | XEnum n => VI (enum_value n) end.

(* the value given for a transaction field in a dict *)
Inductive fval : Type :=
| FExpr (e : xexpr)                     (* an Expr *)
| FList (es : list (option xexpr))      (* a Python list; None = an element that is not an Expr *)
| FArr (t : tt) (vs : list value)       (* a TxnArray (Txn.accounts, ...): element type, run-time content *)
| FOther.                               (* any other Python object *)

Definition fdict : Type := list (string * fval).   (* dict[TxnField, ...] in insertion order, keys distinct *)

(* one element of `args` *)
Inductive iarg : Type :=
| IExpr (e : xexpr)
| IAbi (a : ty) (v : val)               (* an abi.BaseType instance of a non-reference spec a holding v *)
| IRefInst (k : ref_kind) (rv : value)  (* abi.Account / Asset / Application; rv = what address() /
                                           asset_id() / application_id() evaluates to *)
| IDict (fs : fdict)
| IOther.                               (* int, str, None, ComputedValue, ... *)

Inductive aid : Type := AidNone | AidExpr (e : xexpr) | AidOther.

(* ------------------------------------------------------------------------------------------ *)
(* outcomes                                                                                    *)
(* ------------------------------------------------------------------------------------------ *)
Inductive ecls : Type :=
| E_Input      (* TealInputError *)
| E_Type       (* TealTypeError *)
| E_PyType     (* builtin TypeError raised by require_type for an object without type_of() *)
| E_Sdk        (* an algosdk.error.* exception escapes (unparsable signature, uint8 index >= 256) *)
| E_Model.     (* the input is outside the modelled domain — never a prediction about /repo *)

Inductive res (A : Type) : Type := Ok (a : A) | Err (e : ecls).
Arguments Ok {A} a.
Arguments Err {A} e.

Definition rbind {A B} (r : res A) (f : A -> res B) : res B :=
  match r with Ok a => f a | Err e => Err e end.

(* a recorded inner transaction: (field, value) in execution order *)
Definition itx : Type := list (string * value).

(* ------------------------------------------------------------------------------------------ *)
(* InnerTxnBuilder.SetField / SetFields                                                        *)
(* ------------------------------------------------------------------------------------------ *)
Fixpoint first_bad_type (ft : tt) (es : list (option xexpr)) : bool :=
  match es with
  | [] => false
  | Some e :: r => negb (require_ok (x_type e) ft) || first_bad_type ft r
  | None :: r => first_bad_type ft r
  end.

Definition is_noneo {A} (o : option A) : bool := match o with None => true | Some _ => false end.

Fixpoint some_vals (f : string) (es : list (option xexpr)) : itx :=
  match es with
  | [] => []
  | Some e :: r => (f, x_val e) :: some_vals f r
  | None :: r => some_vals f r
  end.

Definition set_field (f : string) (v : fval) : res itx :=
  match field_type f with
  | None => Err E_Model
  | Some ft =>
      if negb (field_is_array f) then
        match v with
        | FList _ | FArr _ _ => Err E_Input
        | FExpr e => if require_ok (x_type e) ft then Ok [(f, x_val e)] else Err E_Type
        | FOther => Err E_PyType
        end
      else
        match v with
        | FExpr _ | FOther => Err E_Input
        | FList es =>
            if existsb is_noneo es then Err E_Input
            else if first_bad_type ft es then Err E_Type
            else Ok (some_vals f es)
        | FArr t vs =>
            (* For(i = 0; i < arr.length(); i++): InnerTxnFieldExpr(field, arr[i]) *)
            if require_ok t ft then Ok (map (fun x => (f, x)) vs) else Err E_Type
        end
  end.

Fixpoint set_fields (fs : fdict) : res itx :=
  match fs with
  | [] => Ok []
  | (f, v) :: r => rbind (set_field f v) (fun a => rbind (set_fields r) (fun b => Ok (a ++ b)))
  end.

(* ------------------------------------------------------------------------------------------ *)
(* the signature as PyTeal sees it                                                             *)
(* ------------------------------------------------------------------------------------------ *)
(* types that abi.type_spec_from_algosdk can return for a type STRING: no StaticBytes / DynamicBytes /
   NamedTuple spelling (these denote the same strings as byte[N] / byte[] / a tuple) *)
Fixpoint parsed_ty (t : ty) : bool :=
  match t with
  | TStaticBytes _ | TDynBytes => false
  | TTuple (Some _) _ => false
  | TTuple None ts => forallb parsed_ty ts
  | TStaticArray e _ | TDynArray e => parsed_ty e
  | _ => true
  end.

Fixpoint all_uints (p : N -> bool) (t : ty) : bool :=
  match t with
  | TUint n => p n
  | TStaticArray e _ | TDynArray e => all_uints p e
  | TTuple _ ts => forallb (all_uints p) ts
  | _ => true
  end.

(* algosdk.abi.Method.from_signature accepts: transaction / reference type strings as top-level
   arguments only; ARC-4 uint widths *)
Definition sdk_parses (s : msig) : bool :=
  forallb (fun t => (is_txn_ty t || is_ref_ty t || negb (contains_txn t || contains_ref t))
                    && all_uints valid_uint_bits t) (s_params s)
  && match s_ret s with
     | None => true
     | Some t => negb (contains_txn t || contains_ref t) && all_uints valid_uint_bits t
     end.

(* type_spec_from_algosdk: "Invalid Type" (TealInputError) for a width PyTeal does not have *)
Definition pyteal_supports (s : msig) : bool :=
  forallb (all_uints pyteal_uint_bits) (s_params s)
  && match s_ret s with None => true | Some t => all_uints pyteal_uint_bits t end.

Definition sig_in_domain (s : msig) : bool :=
  forallb parsed_ty (s_params s) && match s_ret s with None => true | Some t => parsed_ty t end.

(* type_spec_from_algosdk on the NAME of the EnumInt given as type_enum *)
Definition spec_of_enum_name (name : string) : option ty :=
  if String.eqb name "txn" then Some (TTxn TxAny)
  else if String.eqb name "pay" then Some (TTxn TxPay)
  else if String.eqb name "keyreg" then Some (TTxn TxKeyreg)
  else if String.eqb name "acfg" then Some (TTxn TxAcfg)
  else if String.eqb name "axfer" then Some (TTxn TxAxfer)
  else if String.eqb name "afrz" then Some (TTxn TxAfrz)
  else if String.eqb name "appl" then Some (TTxn TxAppl)
  else if String.eqb name "account" then Some (TRef RAccount)
  else if String.eqb name "asset" then Some (TRef RAsset)
  else if String.eqb name "application" then Some (TRef RApplication)
  else None.

(* ------------------------------------------------------------------------------------------ *)
(* the argument loop                                                                           *)
(* ------------------------------------------------------------------------------------------ *)
Record acc : Type := mkAcc {
  a_txns : list itx;        (* txns_to_pass, in order *)
  a_accts : list value;     (* accts *)
  a_apps : list value;      (* apps *)
  a_assets : list value;    (* assets *)
  a_args : list value       (* app_args after the selector *)
}.

Definition acc0 : acc := mkAcc [] [] [] [] [].

(* Bytes(algosdk.abi.ABIType.from_string("uint8").encode(n)) *)
Definition index_byte (n : nat) : res value :=
  if (n <? 256)%nat then Ok (VB [n2b (N.of_nat n)]) else Err E_Sdk.

Definition ref_tt (k : ref_kind) : tt := match k with RAccount => T_bytes | _ => T_uint end.

(* the run-time value of a reference argument, or the exception *)
Definition ref_value (k : ref_kind) (a : iarg) : res value :=
  match a with
  | IExpr e => if require_ok (x_type e) (ref_tt k) then Ok (x_val e) else Err E_Type
  | IRefInst k' rv => if ref_kind_eqb k' k then Ok rv else Err E_Type
  | _ => Err E_Type
  end.

Definition step_txn (t : ty) (a : iarg) (st : acc) : res acc :=
  match a with
  | IDict fs =>
      match assoc_str "TypeEnum" fs with
      | None => Err E_Input
      | Some (FExpr (XEnum name)) =>
          match spec_of_enum_name name with
          | None => Err E_Input
          | Some a_spec =>
              if assignable a_spec t then
                rbind (set_fields fs) (fun tx =>
                  Ok (mkAcc (a_txns st ++ [tx]) (a_accts st) (a_apps st) (a_assets st) (a_args st)))
              else Err E_Input
          end
      | Some _ => Err E_Type
      end
  | _ => Err E_Type
  end.

Definition step_ref (k : ref_kind) (a : iarg) (st : acc) : res acc :=
  match k with
  | RAccount =>
      rbind (ref_value k a) (fun v =>
      let accts := a_accts st ++ [v] in
      rbind (index_byte (List.length accts)) (fun b =>
        Ok (mkAcc (a_txns st) accts (a_apps st) (a_assets st) (a_args st ++ [b]))))
  | RApplication =>
      rbind (ref_value k a) (fun v =>
      let apps := a_apps st ++ [v] in
      rbind (index_byte (List.length apps)) (fun b =>
        Ok (mkAcc (a_txns st) (a_accts st) apps (a_assets st) (a_args st ++ [b]))))
  | RAsset =>
      rbind (index_byte (List.length (a_assets st))) (fun b =>
      rbind (ref_value k a) (fun v =>
        Ok (mkAcc (a_txns st) (a_accts st) (a_apps st) (a_assets st ++ [v]) (a_args st ++ [b]))))
  end.

Definition push_arg (st : acc) (v : value) : acc :=
  mkAcc (a_txns st) (a_accts st) (a_apps st) (a_assets st) (a_args st ++ [v]).

Definition step_plain (t : ty) (a : iarg) (st : acc) : res acc :=
  match a with
  | IExpr e => if require_ok (x_type e) T_bytes then Ok (push_arg st (x_val e)) else Err E_Type
  | IAbi a_spec v =>
      if assignable a_spec t then
        match arc4_encode a_spec v with
        | Some bs => Ok (push_arg st (VB bs))      (* arg.encode() *)
        | None => Err E_Model                      (* the instance holds no value of its type *)
        end
      else Err E_Type
  | IRefInst k _ =>
      (* ReferenceType.encode() raises TealInputError — unreachable: never assignable *)
      if assignable (TRef k) t then Err E_Input else Err E_Type
  | IDict _ | IOther => Err E_Type
  end.

Definition step (t : ty) (a : iarg) (st : acc) : res acc :=
  match t with
  | TTxn _ => step_txn t a st
  | TRef k => step_ref k a st
  | _ => step_plain t a st
  end.

Fixpoint walk (ps : list ty) (args : list iarg) (st : acc) : res acc :=
  match ps, args with
  | t :: pr, a :: ar => rbind (step t a st) (walk pr ar)
  | _, _ => Ok st
  end.

Definition fields_of (f : string) (vs : list value) : itx := map (fun v => (f, v)) vs.

Section WithSelector.
  (* first four bytes of SHA-512/256 of the signature string: an oracle (only assumed to be a function) *)
  Variable selector_of : string -> bytes.

  Definition app_call_fields (s : msig) (idf : itx) (st : acc) : itx :=
    [("TypeEnum", VI 6)] ++ idf
    ++ fields_of "Accounts" (a_accts st)
    ++ fields_of "Applications" (a_apps st)
    ++ fields_of "Assets" (a_assets st)
    ++ fields_of "ApplicationArgs" (VB (selector_of (arc4_sig_str s)) :: a_args st).

  (* what MethodCall adds to the open group; [ExecuteMethodCall] = Begin, this, Submit *)
  Definition method_call (s : msig) (app_id : aid) (args : list iarg) (extra : fdict) : res (list itx) :=
    rbind (match app_id with
           | AidNone => Ok []
           | AidExpr e => if require_ok (x_type e) T_uint then Ok [("ApplicationID", x_val e)] else Err E_Type
           | AidOther => Err E_PyType
           end) (fun idf =>
    if negb (sig_in_domain s) then Err E_Model
    else if negb (sdk_parses s) then Err E_Sdk
    else if negb (pyteal_supports s) then Err E_Input
    else if negb (Nat.eqb (List.length args) (List.length (s_params s))) then Err E_Input
    else
      rbind (walk (s_params s) args acc0) (fun st =>
      rbind (set_fields extra) (fun ex =>
        Ok (a_txns st ++ [app_call_fields s idf st ++ ex])))).
End WithSelector.

(* ------------------------------------------------------------------------------------------ *)
(* SPEC: what an ARC-4 client encoding of a call is                                            *)
(* ------------------------------------------------------------------------------------------ *)
(* what the caller means to pass for one parameter *)
Inductive karg : Type :=
| KVal (v : val)               (* a value of a plain ARC-4 type *)
| KAccount (a : bytes)
| KAsset (id : N)
| KApp (id : N)
| KTxn (x : itx).              (* a transaction, as its field list *)

(* the call as the callee sees it *)
Record icall : Type := mkICall {
  ic_args : list bytes;         (* ApplicationArgs *)
  ic_accounts : list bytes;     (* Accounts, WITHOUT the implicit entry 0 (the sender) *)
  ic_assets : list N;           (* Assets *)
  ic_apps : list N;             (* Applications, WITHOUT the implicit entry 0 (the called application) *)
  ic_txns : list itx            (* the transactions immediately before the call in its group, in order *)
}.

(* the last value set for a scalar field *)
Fixpoint last_field (f : string) (x : itx) : option value :=
  match x with
  | [] => None
  | (k, v) :: r => match last_field f r with Some w => Some w | None => if String.eqb k f then Some v else None end
  end.

Definition ktxn_type_ok (k : txn_kind) (x : itx) : bool :=
  match kind_enum k with
  | None => true
  | Some e => match last_field "TypeEnum" x with Some (VI n) => N.eqb n e | _ => false end
  end.

(* does argument a fit parameter type t at all *)
Definition kind_fits (t : ty) (a : karg) : bool :=
  match t, a with
  | TTxn k, KTxn x => ktxn_type_ok k x
  | TRef RAccount, KAccount _ | TRef RAsset, KAsset _ | TRef RApplication, KApp _ => true
  | TTxn _, _ | TRef _, _ => false
  | _, KVal _ => true
  | _, _ => false
  end.

(* The non-transaction arguments as (wire type, wire value), given the index chosen for every
   reference argument (in order): a reference travels as a uint8. *)
Fixpoint wire (ps : list (ty * karg)) (idxs : list N) : option (list (ty * val)) :=
  match ps with
  | [] => Some []
  | (t, a) :: r =>
      if negb (kind_fits t a) then None
      else match t with
           | TTxn _ => wire r idxs
           | TRef _ =>
               match idxs with
               | i :: ir => option_map (cons (TUint 8, VUint i)) (wire r ir)
               | [] => None
               end
           | _ => match a with
                  | KVal v => option_map (cons (t, v)) (wire r idxs)
                  | _ => None
                  end
           end
  end.

(* every chosen index means, to the callee, the argument that was passed *)
Fixpoint refs_resolve (sender : bytes) (callee : N) (c : icall) (ps : list (ty * karg)) (idxs : list N) : Prop :=
  match ps with
  | [] => True
  | (TRef _, a) :: r =>
      match idxs with
      | i :: ir =>
          match a with
          | KAccount x => resolve_account sender (ic_accounts c) i = Some x
          | KAsset n => resolve_asset (ic_assets c) i = Some n
          | KApp n => resolve_app callee (ic_apps c) i = Some n
          | _ => False
          end /\ refs_resolve sender callee c r ir
      | [] => False
      end
  | _ :: r => refs_resolve sender callee c r idxs
  end.

Fixpoint ktxns (ps : list (ty * karg)) : list itx :=
  match ps with
  | [] => []
  | (_, KTxn x) :: r => x :: ktxns r
  | _ :: r => ktxns r
  end.

(* [c] is an ARC-4 client encoding of calling the method [s] with [args]; [sel] = its selector *)
Definition valid_call (sel : bytes) (sender : bytes) (callee : N) (s : msig) (args : list karg) (c : icall) : Prop :=
  List.length (s_params s) = List.length args /\
  exists idxs w bs,
    wire (combine (s_params s) args) idxs = Some w /\
    refs_resolve sender callee c (combine (s_params s) args) idxs /\
    pack w = Some bs /\
    ic_args c = sel :: bs /\
    ic_txns c = ktxns (combine (s_params s) args).

(* ------------------------------------------------------------------------------------------ *)
(* reading a recorded group as a call                                                          *)
(* ------------------------------------------------------------------------------------------ *)
Definition arr_of (f : string) (x : itx) : list value :=
  map snd (filter (fun kv => String.eqb (fst kv) f) x).

Fixpoint all_bytes (vs : list value) : option (list bytes) :=
  match vs with
  | [] => Some []
  | VB b :: r => option_map (cons b) (all_bytes r)
  | VI _ :: _ => None
  end.
Fixpoint all_uints_v (vs : list value) : option (list N) :=
  match vs with
  | [] => Some []
  | VI n :: r => option_map (cons n) (all_uints_v r)
  | VB _ :: _ => None
  end.

(* the last transaction of the group is the application call *)
Definition observe (pre : list itx) (calltx : itx) : option icall :=
  match all_bytes (arr_of "ApplicationArgs" calltx), all_bytes (arr_of "Accounts" calltx),
        all_uints_v (arr_of "Assets" calltx), all_uints_v (arr_of "Applications" calltx) with
  | Some a, Some ac, Some asx, Some ap => Some (mkICall a ac asx ap pre)
  | _, _, _, _ => None
  end.

(* ------------------------------------------------------------------------------------------ *)
(* what the supplied Python objects mean at the ARC-4 level                                    *)
(* ------------------------------------------------------------------------------------------ *)
(* [denotes1 t a k]: passing the object a for a parameter of type t means passing k.
   - an ABI instance means the value it holds;
   - a raw bytes expression for a plain parameter is, by MethodCall's contract ("we assume its
     already abi encoded"), the ARC-4 encoding of the value meant;
   - for a reference parameter the address / id itself;
   - a dict means the transaction with those fields. *)
Inductive denotes1 : ty -> iarg -> karg -> Prop :=
| D_abi : forall t a v, is_txn_ty t = false -> is_ref_ty t = false -> denotes1 t (IAbi a v) (KVal v)
| D_raw : forall t e bs v, is_txn_ty t = false -> is_ref_ty t = false ->
    x_val e = VB bs -> arc4_encode t v = Some bs -> denotes1 t (IExpr e) (KVal v)
| D_acct_e : forall e a, x_val e = VB a -> denotes1 (TRef RAccount) (IExpr e) (KAccount a)
| D_acct_i : forall a, denotes1 (TRef RAccount) (IRefInst RAccount (VB a)) (KAccount a)
| D_asset_e : forall e n, x_val e = VI n -> denotes1 (TRef RAsset) (IExpr e) (KAsset n)
| D_asset_i : forall n, denotes1 (TRef RAsset) (IRefInst RAsset (VI n)) (KAsset n)
| D_app_e : forall e n, x_val e = VI n -> denotes1 (TRef RApplication) (IExpr e) (KApp n)
| D_app_i : forall n, denotes1 (TRef RApplication) (IRefInst RApplication (VI n)) (KApp n)
| D_txn : forall k fs x, set_fields fs = Ok x -> NoDup (map fst fs) -> denotes1 (TTxn k) (IDict fs) (KTxn x).

Inductive denotes : list ty -> list iarg -> list karg -> Prop :=
| D_nil : denotes [] [] []
| D_cons : forall t a k ts args ks, denotes1 t a k -> denotes ts args ks -> denotes (t :: ts) (a :: args) (k :: ks).

(* extra_fields that leave the marshalled part alone *)
Definition extra_ok (extra : fdict) : bool :=
  forallb (fun kv => negb (String.eqb (fst kv) "ApplicationArgs" || String.eqb (fst kv) "TypeEnum"
                           || String.eqb (fst kv) "ApplicationID")) extra.

Definition count_nontxn (ps : list ty) : nat := List.length (filter not_txn_ty ps).
Definition count_ref (k : ref_kind) (ps : list ty) : nat :=
  List.length (filter (fun t => match t with TRef k' => ref_kind_eqb k' k | _ => false end) ps).
