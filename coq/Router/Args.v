(* Router/Args.v — C09: how a routed method's parameters are bound, and how its result is logged.

   Two independent halves (definitions only; lemmas are in Proofs/RouterArgs*.v):

   SPEC (written from the ARC-4 text, not from PyTeal)
     [client_encode] : the CLIENT calling convention.  ApplicationArgs[0] = method selector; every
     non-transaction argument, in order, occupies one application argument holding its ARC-4
     encoding; when a method has MORE THAN 15 non-transaction arguments the first 14 stay alone
     and the 15th and later are encoded together as ONE tuple in ApplicationArgs[15]; a reference
     argument (account / asset / application) is placed in the matching foreign array of the call
     and passed as the uint8 index of that entry (Accounts and Applications have an implicit entry
     0 = Sender / called application, so added entries start at 1; Assets start at 0; a caller
     passing the Sender or the called application uses index 0 and adds nothing); a transaction
     argument does not appear in ApplicationArgs at all: the transactions are placed in the group
     immediately before the application call, in the order of the arguments.
     The return value of a non-void method is the LAST log of the call: the 4 bytes 151f7c75
     followed by the ARC-4 encoding of the value.

   MODEL of pyteal/ast/router.py (ASTBuilder.__subroutine_argument_instance_generate,
     __decode_constructions_and_args, __de_abify_subroutine_vanilla / _frame_pointers,
     abi.MethodReturn), faithful to the source as it is:
     [binding_plan] : for every declared parameter, where the generated glue reads it from.
     The Python code keeps ONE list of argument instances [arg_vals] and two sub-lists of the SAME
     objects ([app_arg_vals] = not a Transaction, [txn_arg_vals] = Transactions); decoding
     instructions are generated per sub-list and reach the handler through object identity.  Here
     the identity is made explicit: bindings are computed per sub-list ([app_bindings],
     [txn_bindings]) and spliced back in declaration order ([splice]).
     METHOD_ARG_NUM_CUTOFF is not written here: it is [gen_METHOD_ARG_NUM_CUTOFF] of Gen/Tables.v,
     regenerated from pyteal/config.py on every run.
     [glue_steps] / [run_glue] : the storage view of the two flavours of the glue (scratch slots below
     version 8 or with frame_pointers=False; frame cells of the `proto 0 0` caster subroutine
     otherwise): which cell every instance lives in, in which order cells are written, what the
     handler is called with, and the MethodReturn log. *)
From Coq Require Import List Arith NArith Ascii String Bool.
From PV Require Import Base.Bytes Base.Sexp ABI.Types ABI.Spec ABI.Descr Gen.Tables.
Import ListNotations.

(* ------------------------------------------------------------------------------------------ *)
(* signatures                                                                                  *)
(* ------------------------------------------------------------------------------------------ *)
Record msig : Type := mkSig { s_name : string; s_params : list ty; s_ret : option ty }.

Definition is_txn_ty (t : ty) : bool := match t with TTxn _ => true | _ => false end.
Definition is_ref_ty (t : ty) : bool := match t with TRef _ => true | _ => false end.
Definition not_txn_ty (t : ty) : bool := negb (is_txn_ty t).

(* a plain parameter: an ARC-4 value type (no transaction / reference spec anywhere inside) *)
Definition is_plain_ty (t : ty) : bool := encodable t.

(* does a transaction / reference spec occur anywhere inside t (abi.contains_type_spec)? *)
Fixpoint contains_txn (t : ty) : bool :=
  match t with
  | TTxn _ => true
  | TStaticArray e _ | TDynArray e => contains_txn e
  | TTuple _ ts => existsb contains_txn ts
  | _ => false
  end.
Fixpoint contains_ref (t : ty) : bool :=
  match t with
  | TRef _ => true
  | TStaticArray e _ | TDynArray e => contains_ref e
  | TTuple _ ts => existsb contains_ref ts
  | _ => false
  end.

(* ARC-4 method signature string: name(type,...)ret with "void" for no result *)
Definition ret_str (f : ty -> string) (r : option ty) : string :=
  match r with None => "void" | Some t => f t end.
Definition sig_str_with (f : ty -> string) (s : msig) : string :=
  (s_name s ++ "(" ++ concat_sep "," (map f (s_params s)) ++ ")" ++ ret_str f (s_ret s))%string.
(* the ARC-4 one (type strings of the specification) *)
Definition arc4_sig_str : msig -> string := sig_str_with type_str.
(* ABIReturnSubroutine.method_signature: str(v) of every argument's TypeSpec and of the output's *)
Definition pyteal_sig_str : msig -> string := sig_str_with py_str.

(* ------------------------------------------------------------------------------------------ *)
(* transactions of the group, client arguments, the call                                        *)
(* ------------------------------------------------------------------------------------------ *)
(* a group transaction as far as this property looks at it: its TypeEnum and an opaque body *)
Record gtx : Type := mkGtx { g_type : N; g_body : bytes }.

(* TypeEnum values of the AVM: pay 1, keyreg 2, acfg 3, axfer 4, afrz 5, appl 6; `txn` = any *)
Definition kind_enum (k : txn_kind) : option N :=
  match k with
  | TxAny => None | TxPay => Some 1%N | TxKeyreg => Some 2%N | TxAcfg => Some 3%N
  | TxAxfer => Some 4%N | TxAfrz => Some 5%N | TxAppl => Some 6%N
  end.
Definition txn_type_ok (k : txn_kind) (x : gtx) : bool :=
  match kind_enum k with None => true | Some e => N.eqb (g_type x) e end.

(* what the caller passes for one parameter *)
Inductive carg : Type :=
| CVal (v : val)               (* a value of a plain ARC-4 type *)
| CTxn (x : gtx)               (* a transaction *)
| CAccount (a : bytes)         (* an account address *)
| CAsset (id : N)
| CApp (id : N).

Record call : Type := mkCall {
  c_args : list bytes;         (* ApplicationArgs, selector first *)
  c_accounts : list bytes;     (* Accounts (apat), WITHOUT the implicit entry 0 *)
  c_assets : list N;           (* ForeignAssets (apas) *)
  c_apps : list N;             (* ForeignApps (apfa), WITHOUT the implicit entry 0 *)
  c_txns : list gtx            (* the transactions placed immediately before the call, in order *)
}.

(* what the AVM resolves an index to (txna Accounts i / Assets i / Applications i) *)
Definition resolve_account (sender : bytes) (accts : list bytes) (i : N) : option bytes :=
  if N.eqb i 0 then Some sender else nth_error accts (N.to_nat i - 1).
Definition resolve_asset (assets : list N) (i : N) : option N := nth_error assets (N.to_nat i).
Definition resolve_app (app_id : N) (apps : list N) (i : N) : option N :=
  if N.eqb i 0 then Some app_id else nth_error apps (N.to_nat i - 1).

(* ------------------------------------------------------------------------------------------ *)
(* SPEC: the ARC-4 client                                                                      *)
(* ------------------------------------------------------------------------------------------ *)
Section IndexOf.
  Context {A : Type} (eqb : A -> A -> bool).
  Fixpoint index_of (x : A) (l : list A) : option nat :=
    match l with
    | [] => None
    | y :: r => if eqb x y then Some O else option_map S (index_of x r)
    end.
  (* position of x in the array, appending it when absent *)
  Definition populate (x : A) (arr : list A) : nat * list A :=
    match index_of x arr with
    | Some i => (i, arr)
    | None => (List.length arr, arr ++ [x])
    end.
End IndexOf.

Record foreign : Type := mkForeign { f_accounts : list bytes; f_assets : list N; f_apps : list N }.

(* on the wire a reference argument is a uint8 *)
Definition wire_ty (t : ty) : ty := match t with TRef _ => TUint 8 | _ => t end.

(* One parameter: a transaction argument joins the group; any other argument becomes a wire
   (type, value) — a reference argument is first placed into its foreign array. *)
Inductive placed : Type := PWire (tv : ty * val) (fs : foreign) | PTxn (x : gtx).

Definition place1 (sender : bytes) (app_id : N) (t : ty) (a : carg) (fs : foreign) : option placed :=
  match t, a with
  | TTxn k, CTxn x => if txn_type_ok k x then Some (PTxn x) else None
  | TRef RAccount, CAccount addr =>
      let '(i, accts) :=
        if bytes_eqb addr sender then (0%nat, f_accounts fs)
        else let '(j, l) := populate bytes_eqb addr (f_accounts fs) in (S j, l) in
      Some (PWire (TUint 8, VUint (N.of_nat i)) (mkForeign accts (f_assets fs) (f_apps fs)))
  | TRef RAsset, CAsset id =>
      let '(i, assets) := populate N.eqb id (f_assets fs) in
      Some (PWire (TUint 8, VUint (N.of_nat i)) (mkForeign (f_accounts fs) assets (f_apps fs)))
  | TRef RApplication, CApp id =>
      let '(i, apps) :=
        if N.eqb id app_id then (0%nat, f_apps fs)
        else let '(j, l) := populate N.eqb id (f_apps fs) in (S j, l) in
      Some (PWire (TUint 8, VUint (N.of_nat i)) (mkForeign (f_accounts fs) (f_assets fs) apps))
  | TTxn _, _ | TRef _, _ => None
  | _, CVal v => if is_plain_ty t then Some (PWire (t, v) fs) else None
  | _, _ => None
  end.

(* Walk the (type, argument) pairs in order.  Result: the wire (type, value) of every
   non-transaction argument in order, the transaction arguments in order, the foreign arrays. *)
Fixpoint place (sender : bytes) (app_id : N) (ps : list (ty * carg)) (fs : foreign)
  : option (list (ty * val) * list gtx * foreign) :=
  match ps with
  | [] => Some ([], [], fs)
  | (t, a) :: r =>
      match place1 sender app_id t a fs with
      | None => None
      | Some (PTxn x) =>
          match place sender app_id r fs with
          | Some (w, xs, fs') => Some (w, x :: xs, fs')
          | None => None
          end
      | Some (PWire tv fs1) =>
          match place sender app_id r fs1 with
          | Some (w, xs, fs') => Some (tv :: w, xs, fs')
          | None => None
          end
      end
  end.

Fixpoint enc_each (w : list (ty * val)) : option (list bytes) :=
  match w with
  | [] => Some []
  | (t, v) :: r =>
      match arc4_encode t v, enc_each r with
      | Some b, Some bs => Some (b :: bs)
      | _, _ => None
      end
  end.

(* at most 15 arguments: one application argument each; more: 14 alone, the rest as ONE tuple *)
Definition pack (w : list (ty * val)) : option (list bytes) :=
  if (15 <? List.length w)%nat then
    let rest := skipn 14 w in
    match enc_each (firstn 14 w),
          arc4_encode (TTuple None (map fst rest)) (VList (map snd rest)) with
    | Some heads, Some tup => Some (heads ++ [tup])
    | _, _ => None
    end
  else enc_each w.

Definition client_encode (sel : bytes) (sender : bytes) (app_id : N) (s : msig) (args : list carg)
  : option call :=
  if Nat.eqb (List.length (s_params s)) (List.length args) then
    match place sender app_id (combine (s_params s) args) (mkForeign [] [] []) with
    | Some (w, xs, fs) =>
        match pack w with
        | Some bs => Some (mkCall (sel :: bs) (f_accounts fs) (f_assets fs) (f_apps fs) xs)
        | None => None
        end
    | None => None
    end
  else None.

(* the group a call lives in: anything before, the transaction arguments, the call, anything after *)
Definition group_of (before : list gtx) (c : call) (me : gtx) (after : list gtx) : list gtx :=
  before ++ c_txns c ++ me :: after.
Definition group_index_of (before : list gtx) (c : call) : nat :=
  List.length before + List.length (c_txns c).

(* ------------------------------------------------------------------------------------------ *)
(* MODEL: where the router glue reads every parameter from                                      *)
(* ------------------------------------------------------------------------------------------ *)
Definition CUTOFF : nat := N.to_nat gen_METHOD_ARG_NUM_CUTOFF.

Inductive source : Type :=
| SArg (i : nat)                               (* Txn.application_args[i] *)
| SMember (slot : nat) (ts : list ty) (j : nat) (* element j of the tuple of types ts decoded from
                                                   Txn.application_args[slot] *).

Inductive binding : Type :=
| BVal (s : source) (t : ty)            (* decoded as t *)
| BRef (s : source) (k : ref_kind)      (* decoded as a uint8: the index into the foreign array *)
| BTxn (back : nat) (k : txn_kind)      (* group index = Txn.group_index() - back; type asserted
                                           unless k = TxAny *).

Definition mk_binding (s : source) (t : ty) : binding :=
  match t with TRef k => BRef s k | _ => BVal s t end.

Fixpoint mapi_from {A B} (k : nat) (f : nat -> A -> B) (l : list A) : list B :=
  match l with
  | [] => []
  | x :: r => f k x :: mapi_from (S k) f r
  end.

(*  tuplify = len(app_arg_vals) > METHOD_ARG_NUM_CUTOFF
    tupled_app_args = app_arg_vals[METHOD_ARG_NUM_CUTOFF - 1 :]
    app_arg_vals = app_arg_vals[: METHOD_ARG_NUM_CUTOFF - 1] + [tuple instance]
    app_arg.decode(Txn.application_args[idx + 1]) for idx, app_arg in enumerate(app_arg_vals)
    tupled_arg[idx].store_into(arg_val) for idx, arg_val in enumerate(tupled_app_args)        *)
Definition app_bindings (apps : list ty) : list binding :=
  if (CUTOFF <? List.length apps)%nat then
    let alone := firstn (CUTOFF - 1) apps in
    let tupled := skipn (CUTOFF - 1) apps in
    mapi_from 0 (fun idx t => mk_binding (SArg (idx + 1)) t) alone
    ++ mapi_from 0 (fun idx t => mk_binding (SMember (List.length alone + 1) tupled idx) t) tupled
  else mapi_from 0 (fun idx t => mk_binding (SArg (idx + 1)) t) apps.

(*  arg_val._set_index(Txn.group_index() - Int(txn_arg_len - idx)); Assert(type_enum == ...)   *)
Definition kind_of (t : ty) : txn_kind := match t with TTxn k => k | _ => TxAny end.
Definition txn_bindings (txns : list ty) : list binding :=
  mapi_from 0 (fun idx t => BTxn (List.length txns - idx) (kind_of t)) txns.

(* object identity made explicit: walk the declared parameters, take the next binding of the
   sub-list the parameter belongs to *)
Fixpoint splice {A} (tys : list ty) (app : list A) (txn : list A) : list A :=
  match tys with
  | [] => []
  | t :: r =>
      if is_txn_ty t then
        match txn with b :: tb => b :: splice r app tb | [] => [] end
      else
        match app with b :: ab => b :: splice r ab txn | [] => [] end
  end.

Definition binding_plan (tys : list ty) : list binding :=
  splice tys (app_bindings (filter not_txn_ty tys)) (txn_bindings (filter is_txn_ty tys)).

(* the grouped types of the tuple in the last slot ([] when nothing is tupled) *)
Definition tupled_types (tys : list ty) : list ty :=
  let apps := filter not_txn_ty tys in
  if (CUTOFF <? List.length apps)%nat then skipn (CUTOFF - 1) apps else [].

(* registration-time checks of the router for a method (an exception otherwise: TealInputError from
   method_signature / wrap_handler, or algosdk's ABITypeError from method_spec, whose Method.undictify
   accepts transaction and reference type strings at the top level only):
   a transaction or reference spec may only be a top-level parameter; the result may contain neither *)
Definition routable (s : msig) : bool :=
  forallb (fun t => is_txn_ty t || is_ref_ty t || negb (contains_txn t || contains_ref t)) (s_params s)
  && match s_ret s with None => true | Some t => negb (contains_txn t || contains_ref t) end.

(* ------------------------------------------------------------------------------------------ *)
(* what a parameter is bound to when the glue has run                                           *)
(* ------------------------------------------------------------------------------------------ *)
Inductive bound : Type :=
| RBytes (bs : bytes)              (* the parameter holds the value whose ARC-4 encoding is bs *)
| RIndex (k : ref_kind) (i : N)    (* the parameter holds this index into the foreign array *)
| RTxn (gidx : nat) (x : gtx).     (* the parameter denotes group transaction gidx, which is x *)

(* Element access on an encoded tuple is C07's subject; the evaluation is parametric in it:
   [member ts j bs] = the encoding of element j of a tuple of (wire) types ts encoded as bs. *)
Section Eval.
  Variable member : list ty -> nat -> bytes -> option bytes.

  Definition read_source (args : list bytes) (s : source) : option bytes :=
    match s with
    | SArg i => nth_error args i
    | SMember slot ts j =>
        match nth_error args slot with
        | Some tb => member (map wire_ty ts) j tb
        | None => None
        end
    end.

  Definition eval_binding (args : list bytes) (group : list gtx) (gi : nat) (b : binding) : option bound :=
    match b with
    | BVal s _ => option_map RBytes (read_source args s)
    | BRef s k =>
        match read_source args s with
        | Some [c] => Some (RIndex k (b2n c))
        | _ => None
        end
    | BTxn back k =>
        (* uint64 subtraction fails on underflow *)
        if (back <=? gi)%nat then
          match nth_error group (gi - back) with
          | Some x => if txn_type_ok k x then Some (RTxn (gi - back) x) else None
          | None => None
          end
        else None
    end.

  Fixpoint eval_all (args : list bytes) (group : list gtx) (gi : nat) (bs : list binding) : option (list bound) :=
    match bs with
    | [] => Some []
    | b :: r =>
        match eval_binding args group gi b, eval_all args group gi r with
        | Some x, Some xs => Some (x :: xs)
        | _, _ => None
        end
    end.
End Eval.

(* ------------------------------------------------------------------------------------------ *)
(* a concrete element access on the ARC-4 bytes (used by the extracted binary; validated against
   the reference codec on every run).  Built from the head walker of ABI/Spec.v: a bool member is
   re-encoded from its bit, a static member is its head segment, a dynamic member runs from its
   offset to the next dynamic member's offset (or to the end).                                   *)
(* ------------------------------------------------------------------------------------------ *)
Fixpoint nth_slot_bytes (slots : list hslot) (j : nat) (bs : bytes) : option bytes :=
  match slots, j with
  | [], _ => None
  | HBit p i :: _, O => option_map (fun b : bool => [n2b (if b then 128 else 0)]) (get_bit bs p i)
  | HStat p l :: _, O => slice bs p l
  | HDynOff o :: sr, O => bsub bs o (next_dyn sr (blen bs))
  | _ :: sr, S j' => nth_slot_bytes sr j' bs
  end.

Definition member_bytes (ts : list ty) (j : nat) (bs : bytes) : option bytes :=
  match heads (map (fun x => (is_bool x, is_dynamic x, static_len x)) ts) bs 0 0 with
  | Some slots => nth_slot_bytes slots j bs
  | None => None
  end.

(* ------------------------------------------------------------------------------------------ *)
(* MODEL: storage view of the two glue flavours and the MethodReturn sequence                    *)
(* ------------------------------------------------------------------------------------------ *)
(* A cell is a scratch slot (scratch flavour: every ABI instance owns a fresh slot — numbered here
   in creation order: the argument instances, then the tuple instance, then output_temp) or a frame
   cell of the caster subroutine (frame-pointer flavour: local_types = [output]? ++ arguments ++
   [tuple]?, argument i lives in FrameVar(proto, i + index_start_from), the tuple in the last cell,
   output_temp in cell 0). *)
Inductive flavour : Type := Scratch | FramePointer.

Definition arg_cell (fl : flavour) (has_out : bool) (i : nat) : nat :=
  match fl with
  | Scratch => i
  | FramePointer => i + (if has_out then 1 else 0)
  end.
Definition tuple_cell (fl : flavour) (has_out : bool) (n : nat) : nat :=
  match fl with
  | Scratch => n
  | FramePointer => (* len(local_types) - 1 *) ((if has_out then 1 else 0) + n + 1) - 1
  end.
Definition out_cell (fl : flavour) (n : nat) : nat :=
  match fl with
  | Scratch => n + 1
  | FramePointer => 0
  end.

Inductive gstep : Type :=
| GDecode (cell : nat) (slot : nat) (t : ty)                  (* cell := decode t ApplicationArgs[slot] *)
| GDecodeTuple (cell : nat) (slot : nat) (ts : list ty)       (* cell := ApplicationArgs[slot] (a tuple instance stores its encoding) *)
| GSetTxn (cell : nat) (back : nat) (k : txn_kind)            (* cell := GroupIndex - back; assert type *)
| GDetuple (cell : nat) (tcell : nat) (ts : list ty) (j : nat) (t : ty). (* cell := element j of the tuple in tcell *)

Definition indexed {A} (l : list A) : list (nat * A) := combine (seq 0 (List.length l)) l.

Definition is_alone (b : binding) : bool :=
  match b with BVal (SArg _) _ | BRef (SArg _) _ => true | _ => false end.
Definition is_txnb (b : binding) : bool := match b with BTxn _ _ => true | _ => false end.
Definition is_member (b : binding) : bool :=
  match b with BVal (SMember _ _ _) _ | BRef (SMember _ _ _) _ => true | _ => false end.

(* the decoding instruction of parameter number [fst ib] *)
Definition step_of (cell : nat -> nat) (tc : nat) (ib : nat * binding) : gstep :=
  match snd ib with
  | BVal (SArg slot) t => GDecode (cell (fst ib)) slot t
  | BRef (SArg slot) k => GDecode (cell (fst ib)) slot (TRef k)
  | BTxn back k => GSetTxn (cell (fst ib)) back k
  | BVal (SMember _ ts j) t => GDetuple (cell (fst ib)) tc ts j t
  | BRef (SMember _ ts j) k => GDetuple (cell (fst ib)) tc ts j (TRef k)
  end.

(* the steps in the order the glue emits them: application arguments in order (the tuple instance is
   the last of them), transaction parameters, de-tupling *)
Definition decode_steps (fl : flavour) (has_out : bool) (tys : list ty) : list gstep :=
  let plan := indexed (binding_plan tys) in
  let cell := arg_cell fl has_out in
  let tc := tuple_cell fl has_out (List.length tys) in
  let tt := tupled_types tys in
  map (step_of cell tc) (filter (fun ib => is_alone (snd ib)) plan)
  ++ match tt with
     | [] => []
     | _ => [GDecodeTuple tc (List.length (firstn (CUTOFF - 1) (filter not_txn_ty tys)) + 1) tt]
     end
  ++ map (step_of cell tc) (filter (fun ib => is_txnb (snd ib)) plan)
  ++ map (step_of cell tc) (filter (fun ib => is_member (snd ib)) plan).

(* cell contents: what the instance stored there stands for *)
Inductive cellv : Type := CBound (b : bound) | CTuple (bs : bytes).

Definition cells : Type := list (nat * cellv).
Fixpoint cell_get (cs : cells) (c : nat) : option cellv :=
  match cs with
  | [] => None
  | (c', v) :: r => if Nat.eqb c c' then Some v else cell_get r c
  end.
Definition cell_set (cs : cells) (c : nat) (v : cellv) : cells := (c, v) :: cs.

Section Glue.
  Variable member : list ty -> nat -> bytes -> option bytes.

  Definition as_bound (t : ty) (bs : bytes) : option bound :=
    match t with
    | TRef k => match bs with [c] => Some (RIndex k (b2n c)) | _ => None end
    | _ => Some (RBytes bs)
    end.

  Definition exec_gstep (args : list bytes) (group : list gtx) (gi : nat) (cs : cells) (g : gstep) : option cells :=
    match g with
    | GDecode c slot t =>
        match nth_error args slot with
        | Some bs => option_map (fun b => cell_set cs c (CBound b)) (as_bound t bs)
        | None => None
        end
    | GDecodeTuple c slot ts =>
        option_map (fun bs => cell_set cs c (CTuple bs)) (nth_error args slot)
    | GSetTxn c back k =>
        option_map (fun b => cell_set cs c (CBound b)) (eval_binding member args group gi (BTxn back k))
    | GDetuple c tc ts j t =>
        match cell_get cs tc with
        | Some (CTuple bs) =>
            match member (map wire_ty ts) j bs with
            | Some mb => option_map (fun b => cell_set cs c (CBound b)) (as_bound t mb)
            | None => None
            end
        | _ => None
        end
    end.

  Fixpoint exec_gsteps (args : list bytes) (group : list gtx) (gi : nat) (cs : cells) (gs : list gstep) : option cells :=
    match gs with
    | [] => Some cs
    | g :: r =>
        match exec_gstep args group gi cs g with
        | Some cs' => exec_gsteps args group gi cs' r
        | None => None
        end
    end.

  (* the handler's arguments: the instances in declaration order, read from their cells *)
  Fixpoint read_args (cs : cells) (cellsl : list nat) : option (list bound) :=
    match cellsl with
    | [] => Some []
    | c :: r =>
        match cell_get cs c, read_args cs r with
        | Some (CBound b), Some bs => Some (b :: bs)
        | _, _ => None
        end
    end.

  (* outcome of the routed call: the ordered log and the verdict *)
  Inductive outcome : Type := Approved (logs : list bytes) | Failed.

  (* the user's method: given what its parameters are bound to, it either fails or produces logs
     and (if it has an output) the value it stored into `output` *)
  Definition handler : Type := list bound -> option (list bytes * option val).

  Definition return_prefix : bytes :=
    match bytes_of_hex gen_RETURN_HASH_PREFIX_hex with Some b => b | None => [] end.

  (* abi.MethodReturn(output_temp) = Log(Concat(Bytes(RETURN_HASH_PREFIX), output_temp.encode())) *)
  Definition method_return (t : ty) (r : val) : option (list bytes) :=
    option_map (fun e => [return_prefix ++ e]) (arc4_encode t r).

  (* Seq(decode..., handler(args).store_into(output_temp), MethodReturn(output_temp), Approve())
     or, for void, Seq(decode..., handler(args), Approve()) — the frame-pointer flavour runs the same
     sequence inside the caster subroutine and approves after it returns *)
  Definition run_glue (fl : flavour) (s : msig) (h : handler) (args : list bytes) (group : list gtx) (gi : nat) : outcome :=
    let tys := s_params s in
    let has_out := match s_ret s with Some _ => true | None => false end in
    match exec_gsteps args group gi [] (decode_steps fl has_out tys) with
    | None => Failed
    | Some cs =>
        match read_args cs (map (arg_cell fl has_out) (seq 0 (List.length tys))) with
        | None => Failed
        | Some bounds =>
            match h bounds with
            | None => Failed
            | Some (logs, res) =>
                match s_ret s with
                | None => Approved logs
                | Some t =>
                    match res with
                    | Some r =>
                        match method_return t r with
                        | Some l => Approved (logs ++ l)
                        | None => Failed
                        end
                    | None => Failed
                    end
                end
            end
        end
    end.
End Glue.

(* ------------------------------------------------------------------------------------------ *)
(* MODEL: the router's method table and the contract description                                *)
(* ------------------------------------------------------------------------------------------ *)
(* One call of Router.add_method_handler(method_call, overriding_name): the ABIReturnSubroutine
   ([r_sig]; its [s_name] is the subroutine's own name, i.e. method_call.name()) and the optional
   overriding name.  (The decorator form @router.method(name=n) creates the subroutine WITH name n and
   passes the same n: then both names coincide.) *)
Record registration : Type := mkReg {
  r_sig : msig;                    (* the subroutine: own name, parameter types, result *)
  r_doc : option string;           (* the description method_spec() derives from its docstring, if any *)
  r_override : option string;      (* add_method_handler(..., overriding_name=) *)
  r_desc : option string           (* add_method_handler(..., description=) *)
}.

(* the name the method is registered and dispatched under:
   method_signature = method_call.method_signature(overriding_name)  ->  overriding_name or self.name() *)
Definition reg_name (r : registration) : string :=
  match r_override r with Some n => n | None => s_name (r_sig r) end.
Definition registered_sig (r : registration) : msig :=
  mkSig (reg_name r) (s_params (r_sig r)) (s_ret (r_sig r)).

(* what Router.add_method_handler records for the contract:
     meth = method_call.method_spec()
     if overriding_name is not None: meth.name = overriding_name          (since /repo 330bd50) *)
Record method_spec : Type := mkSpec { ms_name : string; ms_args : list string; ms_returns : string; ms_desc : option string }.

(* ABIReturnSubroutine.method_spec(): self.name(), str(type_spec) of every argument, str(type_of()), the
   docstring's description.  Every call builds a NEW algosdk Method object. *)
Definition own_spec (s : msig) (doc : option string) : method_spec :=
  mkSpec (s_name s) (map py_str (s_params s)) (ret_str py_str (s_ret s)) doc.

(* the recorded entry — one per registration, a function of THAT registration only (no state is shared
   between two registrations, even of the same subroutine object, in the same or in another router):
   the method spec with the name replaced by the overriding name and the description by the given one *)
Definition spec_of (r : registration) : method_spec :=
  let m := own_spec (r_sig r) (r_doc r) in
  mkSpec (match r_override r with Some n => n | None => ms_name m end) (ms_args m) (ms_returns m)
         (match r_desc r with Some d => Some d | None => ms_desc m end).

(* the description a registration asks for *)
Definition reg_desc (r : registration) : option string :=
  match r_desc r with Some d => Some d | None => r_doc r end.

(* algosdk Method.get_signature(): name(args)returns *)
Definition spec_sig_str (m : method_spec) : string :=
  (ms_name m ++ "(" ++ concat_sep "," (ms_args m) ++ ")" ++ ms_returns m)%string.

(* the method signature the approval program dispatches on: MethodSignature(method_signature) *)
Definition dispatched_sig_str (r : registration) : string := pyteal_sig_str (registered_sig r).

Section Selectors.
  Variable hash : string -> bytes.             (* SHA-512/256 of the UTF-8 text *)
  Definition selector_of_str (x : string) : bytes := firstn 4 (hash x).
  (* the contract object: name + the recorded method specs, in registration order *)
  Definition contract_methods (registered : list registration) : list method_spec := map spec_of registered.
  (* the selectors the approval program compares Txn.application_args[0] with *)
  Definition dispatched_selectors (registered : list registration) : list bytes :=
    map (fun r => selector_of_str (dispatched_sig_str r)) registered.
  (* the selectors a client computes from the contract description *)
  Definition contract_selectors (registered : list registration) : list bytes :=
    map (fun m => selector_of_str (spec_sig_str m)) (contract_methods registered).
End Selectors.

(* Router.add_method_handler as a state transition.  An attempt is REJECTED (TealInputError, nothing recorded —
   neither in the method table nor in the contract) when the handler is not an ABIReturnSubroutine, when its
   MethodConfig allows no call at all, when the same signature is already registered, or when its selector
   collides with a registered one; otherwise the registration is appended. *)
Inductive attempt : Type :=
| ARegister (r : registration) (never : bool)    (* never = method_config.is_never() *)
| ANotABI.

Section Attempts.
  Variable hash : string -> bytes.
  Definition reg_selector (r : registration) : bytes := selector_of_str hash (dispatched_sig_str r).
  Definition accepts (st : list registration) (a : attempt) : option registration :=
    match a with
    | ANotABI => None
    | ARegister r never =>
        if never then None
        else if existsb (fun r' => String.eqb (dispatched_sig_str r') (dispatched_sig_str r)) st then None
        else if existsb (fun r' => bytes_eqb (reg_selector r') (reg_selector r)) st then None
        else Some r
    end.
  Definition attempt_step (st : list registration) (a : attempt) : list registration :=
    match accepts st a with Some r => st ++ [r] | None => st end.
  Definition run_attempts (st : list registration) (l : list attempt) : list registration :=
    fold_left attempt_step l st.
End Attempts.

(* ------------------------------------------------------------------------------------------ *)
(* SPEC: what "parameter bound to what the caller passed" means (used by the theorem statements) *)
(* ------------------------------------------------------------------------------------------ *)
(* a non-transaction parameter of type t for which the caller passed a:
   plain      — the parameter holds the value whose ARC-4 encoding is the reference encoding of a;
   reference  — the parameter holds an index which the AVM resolves, in the call's foreign arrays,
                to the account / asset / application the caller passed *)
Inductive app_bound_ok (sender : bytes) (app_id : N) (c : call) : ty -> carg -> bound -> Prop :=
| abo_val : forall t v bs,
    is_plain_ty t = true -> arc4_encode t v = Some bs ->
    app_bound_ok sender app_id c t (CVal v) (RBytes bs)
| abo_account : forall addr i,
    resolve_account sender (c_accounts c) i = Some addr ->
    app_bound_ok sender app_id c (TRef RAccount) (CAccount addr) (RIndex RAccount i)
| abo_asset : forall id i,
    resolve_asset (c_assets c) i = Some id ->
    app_bound_ok sender app_id c (TRef RAsset) (CAsset id) (RIndex RAsset i)
| abo_app : forall id i,
    resolve_app app_id (c_apps c) i = Some id ->
    app_bound_ok sender app_id c (TRef RApplication) (CApp id) (RIndex RApplication i).

(* all parameters, in declaration order.  [n] counts the transaction parameters seen so far: the
   n-th transaction parameter (from 0) denotes group position base + n, that position holds the
   transaction the caller passed for it, and its type is the declared one. *)
Inductive args_ok (sender : bytes) (app_id : N) (c : call) (group : list gtx) (base : nat)
  : nat -> list (ty * carg) -> list bound -> Prop :=
| ao_nil : forall n, args_ok sender app_id c group base n [] []
| ao_txn : forall n k x ps bs,
    txn_type_ok k x = true ->
    nth_error group (base + n) = Some x ->
    args_ok sender app_id c group base (S n) ps bs ->
    args_ok sender app_id c group base n ((TTxn k, CTxn x) :: ps) (RTxn (base + n) x :: bs)
| ao_app : forall n t a b ps bs,
    is_txn_ty t = false ->
    app_bound_ok sender app_id c t a b ->
    args_ok sender app_id c group base n ps bs ->
    args_ok sender app_id c group base n ((t, a) :: ps) (b :: bs).
