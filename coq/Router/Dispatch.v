(* Router/Dispatch.v — model of the dispatch logic that pyteal/ast/router.py builds (property C08).

   The model works at the level of the CONDITIONS and of the Cond/Assert/Reject skeleton of the approval and
   clear-state programs, not of TEAL: handlers are abstract (a handler id; running one means "the handler's
   code, then Approve()", which is what ASTBuilder.wrap_handler appends).  Python function names are kept.

     CallConfig.approval_condition_under_config   -> cc_cond                (router.py 61-72)
     MethodConfig.__post_init__ / is_never        -> mc_post_init_ok / mc_is_never
     MethodConfig.approval_cond                   -> approval_cond          (router.py 106-133)
     OnCompleteAction.__post_init__ / is_empty    -> oca_post_init_ok / oca_is_empty
     BareCallActions.__init__ / is_empty          -> ba_init_ok / ba_is_empty
     BareCallActions.approval_construction        -> approval_construction  (router.py 225-264)
     CondWithMethod.to_cond_node                  -> to_cond_node           (router.py 333-356)
     ASTBuilder.add_method_to_ast                 -> add_method_to_ast
     ASTBuilder.program_construction              -> program_construction   (router.py 821-829)
     Router.__init__ / add_method_handler         -> router_init / add_method_handler
     Router.method (decorator defaults)           -> decorator_config
     Router._build_program                        -> build_program          (router.py 1159-1177)

   No proofs here (Proofs/RouterDispatch.v). *)
From Coq Require Import List NArith Bool Ascii String.
From PV Require Import Base.Bytes.
Import ListNotations.

(* ------------------------------------------------------------------------------------------- *)
(* Vocabulary                                                                                  *)
(* ------------------------------------------------------------------------------------------- *)
Inductive on_complete : Type :=
  NoOp | OptIn | CloseOut | ClearState | UpdateApplication | DeleteApplication.

(* the protocol's numbering (pyteal.OnComplete) *)
Definition oc_code (o : on_complete) : N :=
  match o with
  | NoOp => 0 | OptIn => 1 | CloseOut => 2 | ClearState => 3 | UpdateApplication => 4 | DeleteApplication => 5
  end%N.

Definition oc_eqb (a b : on_complete) : bool := N.eqb (oc_code a) (oc_code b).

Inductive call_config : Type := NEVER | CALL | CREATE | ALL.

(* IntFlag values 0..3; bool(cc) is cc != 0 *)
Definition cc_code (c : call_config) : N :=
  match c with NEVER => 0 | CALL => 1 | CREATE => 2 | ALL => 3 end%N.
Definition cc_eqb (a b : call_config) : bool := N.eqb (cc_code a) (cc_code b).
Definition cc_truthy (c : call_config) : bool := negb (cc_eqb c NEVER).

(* dataclass MethodConfig: one CallConfig per OnCompletion, clear_state included *)
Record method_config : Type := mkMC {
  mc_no_op : call_config; mc_opt_in : call_config; mc_close_out : call_config;
  mc_clear_state : call_config; mc_update_application : call_config; mc_delete_application : call_config
}.

Definition handler : Type := N.

(* dataclass OnCompleteAction(action, call_config) *)
Record oc_action : Type := mkOCA { oca_action : option handler; oca_cc : call_config }.
Definition oca_never : oc_action := mkOCA None NEVER.

(* BareCallActions: one OnCompleteAction per OnCompletion, clear_state included *)
Record bare_actions : Type := mkBA {
  ba_no_op : oc_action; ba_opt_in : oc_action; ba_close_out : oc_action;
  ba_clear_state : oc_action; ba_update_application : oc_action; ba_delete_application : oc_action
}.

(* a registered method: selector (first 4 bytes of SHA-512/256 of the signature; here: data), config, handler *)
Record method : Type := mkMethod { m_sel : bytes; m_cfg : method_config; m_handler : handler }.

(* what a Router object holds when the programs are built *)
Record router_cfg : Type := mkRouter {
  r_bare : bare_actions;
  r_clear : option handler;          (* Router(..., clear_state=...) *)
  r_methods : list method            (* registration order *)
}.

(* An application call as far as dispatch can see it: Txn.application_args (NumAppArgs = its length, the first
   argument is its head), Txn.on_completion(), and whether Txn.application_id() is 0 (creation). *)
Record call : Type := mkCall { c_args : list bytes; c_oc : on_complete; c_create : bool }.

Definition mc_get (m : method_config) (o : on_complete) : call_config :=
  match o with
  | NoOp => mc_no_op m | OptIn => mc_opt_in m | CloseOut => mc_close_out m | ClearState => mc_clear_state m
  | UpdateApplication => mc_update_application m | DeleteApplication => mc_delete_application m
  end.

Definition ba_get (b : bare_actions) (o : on_complete) : oc_action :=
  match o with
  | NoOp => ba_no_op b | OptIn => ba_opt_in b | CloseOut => ba_close_out b | ClearState => ba_clear_state b
  | UpdateApplication => ba_update_application b | DeleteApplication => ba_delete_application b
  end.

(* ------------------------------------------------------------------------------------------- *)
(* The fragment of PyTeal the router's skeleton is made of                                     *)
(* ------------------------------------------------------------------------------------------- *)
Inductive cexpr : Type :=
| EOcEq (o : on_complete)         (* Txn.on_completion() == OnComplete.o *)
| EAppIdNe0                       (* Txn.application_id() != Int(0) *)
| EAppIdEq0                       (* Txn.application_id() == Int(0) *)
| EAnd (a b : cexpr)              (* And(a, b) *)
| EOr (l : list cexpr)            (* Or( *l ), l non-empty wherever the router builds one *)
| ENumArgsEq0                     (* Txn.application_args.length() == Int(0) *)
| EArg0Eq (sel : bytes).          (* Txn.application_args[0] == MethodSignature(sig) *)

Inductive prog : Type :=
| PReject                                   (* Reject() *)
| PHandler (h : handler)                    (* wrap_handler(...): the handler, then Approve() *)
| PAssert (e : cexpr) (k : prog)            (* Seq(Assert(e), k) *)
| PCond (arms : list (cexpr * prog)).       (* Cond([c1, b1], [c2, b2], ...): first true arm; err when none *)

Inductive outcome : Type := RunsHandler (h : handler) | Rejects | Fails.

(* Evaluation of a condition; None = the program fails while evaluating it (txna ApplicationArgs 0 with no
   application arguments). And/Or evaluate every operand (NaryExpr: no short cut). *)
Fixpoint eval_c (e : cexpr) (c : call) : option bool :=
  match e with
  | EOcEq o => Some (oc_eqb (c_oc c) o)
  | EAppIdNe0 => Some (negb (c_create c))
  | EAppIdEq0 => Some (c_create c)
  | EAnd a b =>
      match eval_c a c, eval_c b c with
      | Some x, Some y => Some (x && y)
      | _, _ => None
      end
  | EOr l =>
      (fix go (l : list cexpr) : option bool :=
         match l with
         | [] => Some false
         | x :: t => match eval_c x c, go t with
                     | Some a, Some b => Some (a || b)
                     | _, _ => None
                     end
         end) l
  | ENumArgsEq0 => Some (match c_args c with [] => true | _ :: _ => false end)
  | EArg0Eq s => match c_args c with [] => None | a :: _ => Some (bytes_eqb a s) end
  end.

Fixpoint run_prog (p : prog) (c : call) : outcome :=
  match p with
  | PReject => Rejects
  | PHandler h => RunsHandler h
  | PAssert e k => match eval_c e c with Some true => run_prog k c | _ => Fails end
  | PCond arms =>
      (fix go (l : list (cexpr * prog)) : outcome :=
         match l with
         | [] => Fails                                   (* Cond's err block *)
         | a :: t => match eval_c (fst a) c with
                     | None => Fails
                     | Some true => run_prog (snd a) c
                     | Some false => go t
                     end
         end) arms
  end.

(* ------------------------------------------------------------------------------------------- *)
(* CallConfig / MethodConfig                                                                   *)
(* ------------------------------------------------------------------------------------------- *)
(* `Expr | int` results: the int 0, the int 1, or an expression *)
Inductive acond : Type := AC0 | AC1 | ACE (e : cexpr).

Definition cc_cond (cc : call_config) : acond :=          (* approval_condition_under_config *)
  match cc with
  | NEVER => AC0
  | CALL => ACE EAppIdNe0
  | CREATE => ACE EAppIdEq0
  | ALL => AC1
  end.

Definition mc_post_init_ok (m : method_config) : bool := cc_eqb (mc_clear_state m) NEVER.

Definition mc_astuple (m : method_config) : list call_config :=
  [mc_no_op m; mc_opt_in m; mc_close_out m; mc_clear_state m; mc_update_application m; mc_delete_application m].

Definition mc_is_never (m : method_config) : bool := forallb (fun cc => cc_eqb cc NEVER) (mc_astuple m).

Definition config_oc_pairs (m : method_config) : list (call_config * on_complete) :=
  [(mc_no_op m, NoOp); (mc_opt_in m, OptIn); (mc_close_out m, CloseOut);
   (mc_update_application m, UpdateApplication); (mc_delete_application m, DeleteApplication)].

Definition cond_of_pair (p : call_config * on_complete) : list cexpr :=
  match cc_cond (fst p) with
  | ACE e => [EAnd (EOcEq (snd p)) e]
  | AC1 => [EOcEq (snd p)]
  | AC0 => []
  end.

Definition approval_cond (m : method_config) : acond :=
  let ps := config_oc_pairs m in
  if forallb (fun p => cc_eqb (fst p) NEVER) ps then AC0
  else if forallb (fun p => cc_eqb (fst p) ALL) ps then AC1
  else ACE (EOr (flat_map cond_of_pair ps)).

(* the condition as a boolean function of the call *)
Definition acond_holds (a : acond) (c : call) : option bool :=
  match a with AC0 => Some false | AC1 => Some true | ACE e => eval_c e c end.

(* ------------------------------------------------------------------------------------------- *)
(* OnCompleteAction / BareCallActions                                                          *)
(* ------------------------------------------------------------------------------------------- *)
Definition is_some {A} (o : option A) : bool := match o with Some _ => true | None => false end.

(* raises when bool(call_config) ^ bool(action) *)
Definition oca_post_init_ok (a : oc_action) : bool := Bool.eqb (cc_truthy (oca_cc a)) (is_some (oca_action a)).

Definition oca_is_empty (a : oc_action) : bool := negb (is_some (oca_action a)) && cc_eqb (oca_cc a) NEVER.

Definition ba_aslist (b : bare_actions) : list oc_action :=     (* asdict().values() order *)
  [ba_clear_state b; ba_close_out b; ba_delete_application b; ba_no_op b; ba_opt_in b; ba_update_application b].

Definition ba_is_empty (b : bare_actions) : bool := forallb oca_is_empty (ba_aslist b).

(* every OnCompleteAction was constructible, and clear_state is empty *)
Definition ba_init_ok (b : bare_actions) : bool :=
  forallb oca_post_init_ok (ba_aslist b) && oca_is_empty (ba_clear_state b).

Definition oc_action_pair (b : bare_actions) : list (on_complete * oc_action) :=
  [(NoOp, ba_no_op b); (OptIn, ba_opt_in b); (CloseOut, ba_close_out b);
   (UpdateApplication, ba_update_application b); (DeleteApplication, ba_delete_application b)].

(* the body of one arm of the bare-call Cond.  For an OnCompleteAction that __post_init__ would have refused
   (no action / NEVER) the Python raises; the model then builds an arm that cannot run a handler. *)
Definition bare_cond_body (a : oc_action) : prog :=
  match oca_action a with
  | None => PCond []
  | Some h =>
      match oca_cc a with
      | ALL => PHandler h
      | CALL => PAssert EAppIdNe0 (PHandler h)
      | CREATE => PAssert EAppIdEq0 (PHandler h)
      | NEVER => PCond []
      end
  end.

Definition bare_arm_of (p : on_complete * oc_action) : list (cexpr * prog) :=
  if oca_is_empty (snd p) then [] else [(EOcEq (fst p), bare_cond_body (snd p))].

Definition approval_construction (b : bare_actions) : option prog :=
  let ps := oc_action_pair b in
  if forallb (fun p => oca_is_empty (snd p)) ps then None
  else Some (PCond (flat_map bare_arm_of ps)).

(* ------------------------------------------------------------------------------------------- *)
(* Methods                                                                                     *)
(* ------------------------------------------------------------------------------------------- *)
Definition to_cond_node (sel : bytes) (cond : acond) (h : handler) : cexpr * prog :=
  (EArg0Eq sel, match cond with
                | ACE e => PAssert e (PHandler h)
                | AC1 => PHandler h
                | AC0 => PCond []          (* the Python raises TealInputError; never reached, see add_method_to_ast *)
                end).

(* methods_with_conds: (selector, condition, handler); a 0 condition is not added *)
Definition add_method_to_ast (m : method) : list (bytes * acond * handler) :=
  match approval_cond (m_cfg m) with
  | AC0 => []
  | c => [(m_sel m, c, m_handler m)]
  end.

Definition methods_with_conds (ms : list method) : list (bytes * acond * handler) := flat_map add_method_to_ast ms.

Definition program_construction (bare_calls : list (cexpr * prog)) (mwc : list (bytes * acond * handler)) : prog :=
  let arms := bare_calls ++ map (fun t => to_cond_node (fst (fst t)) (snd (fst t)) (snd t)) mwc in
  match arms with
  | [] => PReject
  | _ :: _ => PCond arms
  end.

(* Router._build_program: approval AST and clear-state AST *)
Definition bare_calls_of (b : bare_actions) : list (cexpr * prog) :=
  if negb (ba_is_empty b) then
    match approval_construction b with
    | Some p => [(ENumArgsEq0, p)]
    | None => []
    end
  else [].

Definition approval_program (r : router_cfg) : prog :=
  program_construction (bare_calls_of (r_bare r)) (methods_with_conds (r_methods r)).

(* Router.__init__: Reject() if clear_state is None else wrap_handler(False, clear_state); that expression
   is the whole clear-state program. *)
Definition clear_program (r : router_cfg) : prog :=
  match r_clear r with None => PReject | Some h => PHandler h end.

Definition dispatch (r : router_cfg) (c : call) : outcome := run_prog (approval_program r) c.
Definition dispatch_clear (r : router_cfg) (c : call) : outcome := run_prog (clear_program r) c.

(* ------------------------------------------------------------------------------------------- *)
(* Registration                                                                                *)
(* ------------------------------------------------------------------------------------------- *)
Inductive reg_error : Type :=
| ErrActionContradicts          (* OnCompleteAction.__post_init__ *)
| ErrBareClearState             (* BareCallActions.__init__ *)
| ErrMethodClearState           (* MethodConfig.__post_init__ / Router.method(clear_state=...) *)
| ErrNeverExecuted              (* add_method_handler: method_config.is_never() *)
| ErrReRegistering.             (* add_method_handler: signature or selector already registered *)

Inductive reg_result (A : Type) : Type := RegOk (x : A) | RegErr (e : reg_error).
Arguments RegOk {A} x.
Arguments RegErr {A} e.

Definition router_init (b : bare_actions) (clear : option handler) : reg_result router_cfg :=
  if negb (forallb oca_post_init_ok (ba_aslist b)) then RegErr ErrActionContradicts
  else if negb (oca_is_empty (ba_clear_state b)) then RegErr ErrBareClearState
  else RegOk (mkRouter b clear []).

(* The Python keeps a signature->selector and a selector->signature dictionary and refuses a signature or a
   selector that is already present.  The selector is a function of the signature, so the second test
   subsumes the first; the model keys methods by selector. *)
Definition selector_registered (s : bytes) (ms : list method) : bool :=
  existsb (fun m => bytes_eqb s (m_sel m)) ms.

Definition add_method_handler (r : router_cfg) (m : method) : reg_result router_cfg :=
  if negb (mc_post_init_ok (m_cfg m)) then RegErr ErrMethodClearState
  else if mc_is_never (m_cfg m) then RegErr ErrNeverExecuted
  else if selector_registered (m_sel m) (r_methods r) then RegErr ErrReRegistering
  else RegOk (mkRouter (r_bare r) (r_clear r) (r_methods r ++ [m])).

Fixpoint add_methods (r : router_cfg) (ms : list method) : reg_result router_cfg :=
  match ms with
  | [] => RegOk r
  | m :: t => match add_method_handler r m with
              | RegOk r' => add_methods r' t
              | RegErr e => RegErr e
              end
  end.

Definition register (b : bare_actions) (clear : option handler) (ms : list method) : reg_result router_cfg :=
  match router_init b clear with
  | RegOk r => add_methods r ms
  | RegErr e => RegErr e
  end.

(* Router.method decorator: no OnCompletion keyword given -> MethodConfig(no_op=CALL); otherwise the missing
   ones are NEVER (clear_state given -> error, before anything else). *)
Definition none_to_never (x : option call_config) : call_config := match x with Some c => c | None => NEVER end.

Definition decorator_config (no_op opt_in close_out clear_state update_application delete_application : option call_config)
  : reg_result method_config :=
  match clear_state with
  | Some _ => RegErr ErrMethodClearState
  | None =>
      match no_op, opt_in, close_out, update_application, delete_application with
      | None, None, None, None, None => RegOk (mkMC CALL NEVER NEVER NEVER NEVER NEVER)
      | _, _, _, _, _ =>
          RegOk (mkMC (none_to_never no_op) (none_to_never opt_in) (none_to_never close_out) NEVER
                      (none_to_never update_application) (none_to_never delete_application))
      end
  end.

(* the well-formedness of a configuration, as a predicate: exactly what `register` accepts *)
Definition method_ok (m : method) : bool := mc_post_init_ok (m_cfg m) && negb (mc_is_never (m_cfg m)).

(* selectors pairwise distinct: each one differs from all the earlier ones *)
Fixpoint distinct_from (seen : list bytes) (ms : list method) : bool :=
  match ms with
  | [] => true
  | m :: t => negb (existsb (bytes_eqb (m_sel m)) seen) && distinct_from (m_sel m :: seen) t
  end.

Definition sels_distinct (ms : list method) : bool := distinct_from [] ms.

Definition cfg_ok (r : router_cfg) : bool :=
  ba_init_ok (r_bare r) && forallb method_ok (r_methods r) && sels_distinct (r_methods r).

(* ------------------------------------------------------------------------------------------- *)
(* SPECIFICATION (from the property text, independent of the construction above)               *)
(* ------------------------------------------------------------------------------------------- *)
(* does a CallConfig allow a creation / non-creation call *)
Definition cc_allows (cc : call_config) (create : bool) : bool :=
  match cc with NEVER => false | CALL => negb create | CREATE => create | ALL => true end.

(* "for a method, the first application argument equals the method's selector and the transaction's
    OnCompletion and create/non-create status are allowed by its MethodConfig; for a bare call, there are no
    application arguments and the bare action registered for that OnCompletion allows that status" *)
Definition allowed (r : router_cfg) (c : call) : option handler :=
  match c_args c with
  | [] =>
      let a := ba_get (r_bare r) (c_oc c) in
      match oca_action a with
      | Some h => if cc_allows (oca_cc a) (c_create c) then Some h else None
      | None => None
      end
  | a0 :: _ =>
      match find (fun m => bytes_eqb a0 (m_sel m)) (r_methods r) with
      | Some m => if cc_allows (mc_get (m_cfg m) (c_oc c)) (c_create c) then Some (m_handler m) else None
      | None => None
      end
  end.

(* the same, as a relation (no "first match": any registered method / the bare action) *)
Definition allowed_rel (r : router_cfg) (c : call) (h : handler) : Prop :=
  (exists m a0 rest, In m (r_methods r) /\ c_args c = a0 :: rest /\ a0 = m_sel m /\
                     cc_allows (mc_get (m_cfg m) (c_oc c)) (c_create c) = true /\ h = m_handler m)
  \/ (c_args c = [] /\ oca_action (ba_get (r_bare r) (c_oc c)) = Some h /\
      cc_allows (oca_cc (ba_get (r_bare r) (c_oc c))) (c_create c) = true).

(* "the clear-state program runs exactly the given clear_state action (rejecting when none was given)" *)
Definition clear_allowed (r : router_cfg) : option handler := r_clear r.
