(* Proofs/OptimizeCorrect.v — the scratch-slot optimiser (pyteal/compiler/optimizer/optimizer.py,
   model: Comp/Passes.v) as far as it IS sound, and the witness where it is not (C03).

   1  what _remove_extraneous_slot_access does to the graph (pointwise characterisation; edges, ids,
      parent lists and the BFS order are untouched)
   2  TealBlock.Iterate visits every block reachable from the start (for graphs with bounded ids)
   3  what the checks of _apply_slot_to_stack / _has_load_dependencies establish
   4  counting ops; "at most one store" in count form and in position form
   5  from positions to the pairing [paired] the simulation of Proofs/OptimizeSem.v needs
   6  one removal step is a lock-step simulation "equal except the removed cells"
   7  the loops (opt_block_loop, optimize_routine) as sequences of removal steps; their soundness
   8  the theorems: optimize_routine_sound_partial (hypothesis no_orphan_store), remove_slot_access_sound,
      opt_cancel_sound
   9  optimizer_preserves_non_slot_ops
   10 decidable forms of the static hypotheses
   11-12 determinism, the refutation witness (a second store of the cancelled slot)
   13 non-vacuity: a loop with one cancellable slot
   15 [no_orphan_store] follows from the class predicate of the known finding, Compile.opt_orphans = []
   16 a static sufficient condition for the dynamic hypothesis [PL]
   17 the pipeline form of the soundness theorem *)
From Coq Require Import List Arith NArith String Bool Lia.
From PV Require Import Base.Bytes AVM.Syntax AVM.Ops AVM.Machine Src.Expr Src.Denote
  Comp.Blocks Comp.Lower Comp.Passes Comp.GraphSem Comp.SimCheck Comp.Compile
  Proofs.NormalizeSem Proofs.OptimizeSem.
Import ListNotations.


Lemma mem_id_iff x l : mem_id x l = true <-> In x l.
Proof.
  induction l as [|y t IH]; cbn [mem_id In]; [split; [discriminate|tauto]|].
  rewrite orb_true_iff, IH, Nat.eqb_eq. split; intros [H|H]; auto.
Qed.

(* ================================================================================================ *)
(* 1. What _remove_extraneous_slot_access does to the graph                                         *)
(* ================================================================================================ *)
Lemma filter_idem {A} (p : A -> bool) l : filter p (filter p l) = filter p l.
Proof.
  induction l as [|x t IH]; [reflexivity|]. cbn [filter].
  destruct (p x) eqn:E; [cbn [filter]; rewrite E, IH; reflexivity|exact IH].
Qed.

Lemma filter_block_idem l b : filter_block l (filter_block l b) = filter_block l b.
Proof. destruct b; unfold filter_block; cbn [set_ops b_ops]; rewrite filter_idem; reflexivity. Qed.

Lemma outgoing_filter_block l b : outgoing (filter_block l b) = outgoing b.
Proof. apply outgoing_set_ops. Qed.

Definition rsa_body (remove : list N) (g : graph) (b : id) : graph :=
  match g_blk g b with
  | Some bb => set_blk g b (set_ops bb (filter (keep_op remove) (b_ops bb)))
  | None => g
  end.

Lemma rsa_body_blk remove g w b :
  g_blk (rsa_body remove g w) b =
  if Nat.eqb b w then option_map (filter_block remove) (g_blk g w) else g_blk g b.
Proof.
  unfold rsa_body. destruct (g_blk g w) as [bb|] eqn:E.
  - cbn [set_blk define g_blk upd option_map]. unfold upd. destruct (Nat.eqb b w) eqn:Eb; reflexivity.
  - cbn [option_map]. destruct (Nat.eqb b w) eqn:Eb; [apply Nat.eqb_eq in Eb; subst; exact E|reflexivity].
Qed.

Lemma rsa_body_rest remove g w :
  g_next (rsa_body remove g w) = g_next g /\ g_inc (rsa_body remove g w) = g_inc g.
Proof. unfold rsa_body. destruct (g_blk g w); split; reflexivity. Qed.

Lemma rsa_fold_blk remove : forall order g b,
  g_blk (fold_left (rsa_body remove) order g) b =
  if mem_id b order then option_map (filter_block remove) (g_blk g b) else g_blk g b.
Proof.
  induction order as [|w t IH]; intros g b; [reflexivity|].
  cbn [fold_left mem_id]. rewrite IH, rsa_body_blk.
  destruct (Nat.eqb b w) eqn:Eb; cbn [orb].
  - apply Nat.eqb_eq in Eb. subst w.
    destruct (mem_id b t); [|reflexivity].
    destruct (g_blk g b) as [bb|]; cbn [option_map]; [rewrite filter_block_idem|]; reflexivity.
  - reflexivity.
Qed.

Lemma rsa_fold_rest remove : forall order g,
  g_next (fold_left (rsa_body remove) order g) = g_next g /\
  g_inc (fold_left (rsa_body remove) order g) = g_inc g.
Proof.
  induction order as [|w t IH]; intros g; [split; reflexivity|].
  cbn [fold_left]. destruct (IH (rsa_body remove g w)) as [A B].
  destruct (rsa_body_rest remove g w) as [A' B']. split; congruence.
Qed.

Lemma remove_slot_access_eq g start remove :
  remove_slot_access g start remove = fold_left (rsa_body remove) (iterate g start) g.
Proof. reflexivity. Qed.

Lemma rsa_blk g start remove b :
  g_blk (remove_slot_access g start remove) b =
  if mem_id b (iterate g start) then option_map (filter_block remove) (g_blk g b) else g_blk g b.
Proof. rewrite remove_slot_access_eq. apply rsa_fold_blk. Qed.

Lemma rsa_next g start remove : g_next (remove_slot_access g start remove) = g_next g.
Proof. rewrite remove_slot_access_eq. apply rsa_fold_rest. Qed.

Lemma rsa_inc g start remove : g_inc (remove_slot_access g start remove) = g_inc g.
Proof. rewrite remove_slot_access_eq. apply rsa_fold_rest. Qed.

Lemma rsa_out_of g start remove b : out_of (remove_slot_access g start remove) b = out_of g b.
Proof.
  unfold out_of. rewrite rsa_blk. destruct (mem_id b (iterate g start)); [|reflexivity].
  destruct (g_blk g b) as [bb|]; cbn [option_map]; [apply outgoing_filter_block|reflexivity].
Qed.

Lemma rsa_get_ops g start remove b :
  get_ops (remove_slot_access g start remove) b =
  if mem_id b (iterate g start) then filter (keep_op remove) (get_ops g b) else get_ops g b.
Proof.
  unfold get_ops. rewrite rsa_blk. destruct (mem_id b (iterate g start)); [|reflexivity].
  destruct (g_blk g b) as [bb|]; cbn [option_map]; [|reflexivity].
  unfold filter_block. apply b_ops_set_ops.
Qed.

(* the BFS looks at the graph only through [out_of] *)
Lemma bfs_ext g g' : (forall b, out_of g' b = out_of g b) ->
  forall fuel q v acc, bfs fuel g' q v acc = bfs fuel g q v acc.
Proof.
  intros H. induction fuel as [|f IH]; intros q v acc; [reflexivity|].
  cbn [bfs]. destruct q as [|w q]; [reflexivity|]. rewrite H.
  destruct (fold_left _ (out_of g w) (q, v)) as [q' v']. apply IH.
Qed.

Lemma iterate_ext g g' start :
  (forall b, out_of g' b = out_of g b) -> g_next g' = g_next g -> iterate g' start = iterate g start.
Proof. intros H1 H2. unfold iterate. rewrite H2. apply bfs_ext, H1. Qed.

Lemma rsa_iterate g start remove : iterate (remove_slot_access g start remove) start = iterate g start.
Proof. apply iterate_ext; [intros b; apply rsa_out_of|apply rsa_next]. Qed.

(* which ops go: exactly the load/store ops all of whose slot arguments are in the removed set
   (NB: vacuously true for a load/store without any slot argument — same in the Python code) *)
Lemma keep_op_false remove i :
  keep_op remove i = false <->
  (i_op i = O_store \/ i_op i = O_load) /\ (forall s, In s (instr_slots i) -> In s remove).
Proof.
  unfold keep_op, is_op, subset_N.
  assert (Es : opc_eqb (i_op i) O_store = true <-> i_op i = O_store).
  { split; [|intros ->; reflexivity]. destruct (i_op i); vm_compute; congruence. }
  assert (El : opc_eqb (i_op i) O_load = true <-> i_op i = O_load).
  { split; [|intros ->; reflexivity]. destruct (i_op i); vm_compute; congruence. }
  destruct (opc_eqb (i_op i) O_store || opc_eqb (i_op i) O_load) eqn:E.
  - rewrite negb_false_iff, forallb_forall. apply orb_true_iff in E. rewrite Es, El in E.
    split; [intros H; split; [exact E|]; intros s Hs; apply mem_N_In, H, Hs|].
    intros [_ H] s Hs. apply mem_N_In, H, Hs.
  - apply orb_false_iff in E. destruct E as [E1 E2]. split; [discriminate|].
    intros [[H|H] _]; [apply Es in H|apply El in H]; congruence.
Qed.


(* ================================================================================================ *)
(* 2. TealBlock.Iterate reaches every block: [iterate g start] contains [start] and is closed under  *)
(*    outgoing edges, for every graph whose ids are below the fresh-id counter                       *)
(* ================================================================================================ *)
Definition ids_bounded (g : graph) (start : id) : Prop :=
  start < g_next g /\ forall b x, b < g_next g -> In x (out_of g b) -> x < g_next g.

Lemma enq_spec (enq_step : list id * list id -> id -> list id * list id) :
  (forall q v n, enq_step (q, v) n = if mem_id n v then (q, v) else (q ++ [n], v ++ [n])) ->
  forall nexts q v,
  exists added,
    fold_left enq_step nexts (q, v) = (q ++ added, v ++ added) /\
    NoDup added /\
    (forall x, In x added -> In x nexts /\ ~ In x v) /\
    (forall x, In x nexts -> In x (v ++ added)).
Proof.
  intros Hstep. induction nexts as [|n t IH]; intros q v.
  - exists []. rewrite !app_nil_r. split; [reflexivity|]. split; [constructor|]. split; intros x [] .
  - cbn [fold_left]. rewrite Hstep. destruct (mem_id n v) eqn:E.
    + destruct (IH q v) as [added [H1 [H2 [H3 H4]]]]. exists added. split; [exact H1|]. split; [exact H2|].
      split.
      * intros x Hx. destruct (H3 x Hx). split; [right|]; assumption.
      * intros x [<-|Hx]; [apply in_or_app; left; apply mem_id_iff, E|apply H4, Hx].
    + destruct (IH (q ++ [n]) (v ++ [n])) as [added [H1 [H2 [H3 H4]]]].
      exists (n :: added). rewrite <- !app_assoc in H1. cbn [app] in H1. split; [exact H1|].
      assert (Hn : ~ In n v). { intros Hi. apply mem_id_iff in Hi. congruence. }
      split; [|split].
      * constructor; [|exact H2]. intros Hi. destruct (H3 n Hi) as [_ Hc]. apply Hc, in_or_app. right. left. reflexivity.
      * intros x [<-|Hx]; [split; [left; reflexivity|exact Hn]|].
        destruct (H3 x Hx) as [A B]. split; [right; exact A|]. intros Hi. apply B, in_or_app. left. exact Hi.
      * intros x [<-|Hx]; [apply in_or_app; right; left; reflexivity|].
        specialize (H4 x Hx). rewrite <- app_assoc in H4. exact H4.
Qed.

Lemma nodup_app_intro {A} (a b : list A) :
  NoDup a -> NoDup b -> (forall x, In x b -> ~ In x a) -> NoDup (a ++ b).
Proof.
  induction a as [|x a IH]; intros Ha Hb Hd; [exact Hb|].
  inversion Ha as [|? ? Hx Ha']; subst. cbn [app]. constructor.
  - intros Hi. apply in_app_or in Hi. destruct Hi as [Hi|Hi]; [contradiction|]. apply (Hd x Hi). left. reflexivity.
  - apply IH; [exact Ha'|exact Hb|]. intros y Hy Hi. apply (Hd y Hy). right. exact Hi.
Qed.

Lemma bounded_length n (l : list id) : NoDup l -> (forall x, In x l -> x < n) -> List.length l <= n.
Proof.
  intros Hn Hb. rewrite <- (seq_length n 0). apply NoDup_incl_length; [exact Hn|].
  intros x Hx. apply in_seq. specialize (Hb x Hx). lia.
Qed.

Lemma bfs_closed g n : (forall b x, b < n -> In x (out_of g b) -> x < n) ->
  forall fuel q v acc,
    v = rev acc ++ q -> NoDup v -> (forall x, In x v -> x < n) ->
    (forall p x, In p acc -> In x (out_of g p) -> In x v) ->
    n < fuel + List.length acc ->
    (forall x, In x v -> In x (bfs fuel g q v acc)) /\
    (forall p x, In p (bfs fuel g q v acc) -> In x (out_of g p) -> In x (bfs fuel g q v acc)).
Proof.
  intros Hout. induction fuel as [|f IH]; intros q v acc Hv Hnd Hb Hcl Hf.
  - exfalso. pose proof (bounded_length n v Hnd Hb) as L. rewrite Hv, app_length, rev_length in L. cbn in Hf. lia.
  - cbn [bfs]. destruct q as [|w q].
    + rewrite app_nil_r in Hv. subst v. split; [tauto|].
      intros p x Hp Hx. apply (Hcl p x); [apply in_rev, Hp|exact Hx].
    + match goal with
      | |- context [fold_left ?F (out_of g w) (q, v)] =>
          destruct (enq_spec F (fun _ _ _ => eq_refl) (out_of g w) q v) as [added [H1 [H2 [H3 H4]]]]
      end.
      rewrite H1.
      assert (X : (forall x, In x (v ++ added) -> In x (bfs f g (q ++ added) (v ++ added) (w :: acc))) /\
                  (forall p x, In p (bfs f g (q ++ added) (v ++ added) (w :: acc)) -> In x (out_of g p) ->
                               In x (bfs f g (q ++ added) (v ++ added) (w :: acc)))).
      { apply IH.
        - subst v. cbn [rev]. rewrite <- !app_assoc. reflexivity.
        - apply nodup_app_intro; [exact Hnd|exact H2|]. intros x Hx. apply (H3 x Hx).
        - intros x Hx. apply in_app_or in Hx. destruct Hx as [Hx|Hx]; [apply Hb, Hx|].
          apply (Hout w); [apply Hb; rewrite Hv; apply in_or_app; right; left; reflexivity|]. apply (H3 x Hx).
        - intros p x [<-|Hp] Hx; [apply H4, Hx|]. apply in_or_app. left. apply (Hcl p x Hp Hx).
        - cbn [List.length]. lia. }
      destruct X as [X1 X2]. split; [|exact X2].
      intros x Hx. apply X1, in_or_app. left. exact Hx.
Qed.

Theorem iterate_closed g start : ids_bounded g start ->
  In start (iterate g start) /\
  (forall p x, In p (iterate g start) -> In x (out_of g p) -> In x (iterate g start)).
Proof.
  intros [Hs Ho]. unfold iterate.
  destruct (bfs_closed g (g_next g) Ho (S (g_next g)) [start] [start] []) as [A B].
  - reflexivity.
  - constructor; [intros []|constructor].
  - intros x [<-|[]]. exact Hs.
  - intros p x [].
  - cbn. lia.
  - split; [apply A; left; reflexivity|exact B].
Qed.


(* ================================================================================================ *)
(* 3. What the checks of _apply_slot_to_stack / _has_load_dependencies establish                     *)
(* ================================================================================================ *)
Lemma is_op_store i : is_op i O_store = true <-> i_op i = O_store.
Proof. unfold is_op. split; [|intros ->; reflexivity]. destruct (i_op i); vm_compute; congruence. Qed.
Lemma is_op_load i : is_op i O_load = true <-> i_op i = O_load.
Proof. unfold is_op. split; [|intros ->; reflexivity]. destruct (i_op i); vm_compute; congruence. Qed.

Lemma existsb_false {A} (f : A -> bool) l x : existsb f l = false -> In x l -> f x = false.
Proof.
  intros H Hx. destruct (f x) eqn:E; [|reflexivity].
  assert (existsb f l = true) by (apply existsb_exists; eauto). congruence.
Qed.

Lemma combine_seq_nth {A} (l : list A) : forall a j x,
  nth_error l j = Some x -> In ((a + j)%nat, x) (combine (seq a (List.length l)) l).
Proof.
  induction l as [|y t IH]; intros a j x H; [destruct j; discriminate|].
  cbn [List.length seq combine]. destruct j as [|j]; cbn [nth_error] in H.
  - injection H as ->. left. rewrite Nat.add_0_r. reflexivity.
  - right. replace (a + S j)%nat with (S a + j)%nat by lia. apply IH, H.
Qed.

Lemma block_has_load_false g b slot skip j i :
  block_has_load g b slot skip = false -> nth_error (get_ops g b) j = Some i -> skip <> Some j ->
  is_op i O_load && mem_N slot (instr_slots i) = false.
Proof.
  unfold block_has_load. intros H Hn Hs.
  pose proof (existsb_false _ _ (j, i) H (combine_seq_nth _ 0 j i Hn)) as X. cbv beta iota in X.
  destruct skip as [p|]; [|exact X].
  destruct (Nat.eqb j p) eqn:E; [|exact X]. apply Nat.eqb_eq in E. subst. congruence.
Qed.

Lemma deps_scan_no g cur div slot pos : forall blocks,
  deps_scan g blocks cur div slot pos = DepNo ->
  forall b, In b blocks -> block_has_load g b slot (if Nat.eqb b cur then Some pos else None) = false.
Proof.
  induction blocks as [|w t IH]; intros H b [].
  - subst w. cbn [deps_scan] in H. destruct (Nat.eqb b cur).
    + destruct div; [discriminate|]. destruct (block_has_load g b slot (Some pos)); [discriminate|reflexivity].
    + destruct (block_has_load g b slot None); [discriminate|reflexivity].
  - apply IH; [|assumption]. cbn [deps_scan] in H. destruct (Nat.eqb w cur).
    + destruct div; [discriminate|]. destruct (block_has_load g w slot (Some pos)); [discriminate|exact H].
    + destruct (block_has_load g w slot None); [discriminate|exact H].
Qed.

(* DepNo: the only load that mentions the slot, in the blocks scanned, is the one at (cur, pos) *)
Lemma deps_no_other_load g cur div slot pos blocks b j i :
  deps_scan g blocks cur div slot pos = DepNo -> In b blocks ->
  nth_error (get_ops g b) j = Some i -> i_op i = O_load -> In slot (instr_slots i) ->
  b = cur /\ j = pos.
Proof.
  intros H Hb Hn Ho Hs. pose proof (deps_scan_no _ _ _ _ _ _ H b Hb) as X.
  assert (Y : is_op i O_load && mem_N slot (instr_slots i) = true).
  { apply andb_true_iff. split; [apply is_op_load, Ho|apply mem_N_In, Hs]. }
  destruct (Nat.eqb b cur) eqn:E.
  - apply Nat.eqb_eq in E. split; [exact E|].
    destruct (Nat.eq_dec j pos) as [|Hne]; [assumption|].
    rewrite (block_has_load_false _ _ _ _ j i X Hn) in Y; [discriminate|congruence].
  - rewrite (block_has_load_false _ _ _ _ j i X Hn) in Y; [discriminate|congruence].
Qed.

(* the slots _apply_slot_to_stack decides to remove *)
Definition astk_cand (g : graph) (cur : id) (s : N) (i : nat) : Prop :=
  exists st ld,
    nth_error (get_ops g cur) i = Some st /\ nth_error (get_ops g cur) (S i) = Some ld /\
    is_op st O_store = true /\ is_op ld O_load = true /\ instr_slots st = [s] /\ instr_slots ld = [s].

Lemma astk_inv g start cur skip g' :
  apply_slot_to_stack g start cur skip = Some g' ->
  g' = g \/
  exists L, g' = remove_slot_access g start L /\
    forall s, In s L -> exists i div, astk_cand g cur s i /\
      deps_scan g (iterate g start) cur div s (S i) = DepNo.
Proof.
  unfold apply_slot_to_stack.
  set (cands := flat_map _ (seq 0 (List.length (get_ops g cur) - 1))).
  intros H. destruct cands as [|c0 cs] eqn:Ec; [left; congruence|]. rewrite <- Ec in H.
  destruct (existsb _ _) in H; [discriminate|]. injection H as <-. right.
  eexists. split; [reflexivity|].
  intros s Hs. apply in_flat_map in Hs. destruct Hs as [[s' d] [Hin Hd]].
  destruct d; try contradiction. destruct Hd as [<-|[]].
  apply in_map_iff in Hin. destruct Hin as [[s'' pos] [E Hin]]. injection E as -> E.
  subst cands. apply in_flat_map in Hin. destruct Hin as [i [_ Hin]].
  destruct (nth_error (get_ops g cur) i) as [st|] eqn:E1; [|contradiction].
  destruct (nth_error (get_ops g cur) (S i)) as [ld|] eqn:E2; [|contradiction].
  destruct (is_op st O_store && negb (subset_N (instr_slots st) skip) && is_op ld O_load) eqn:E3; [|contradiction].
  destruct (instr_slots st) as [|s1 [|]] eqn:E4; try contradiction.
  destruct (instr_slots ld) as [|s2 [|]] eqn:E5; try contradiction.
  destruct (N.eqb s1 s2) eqn:E6; [|contradiction]. apply N.eqb_eq in E6. subst s2.
  destruct Hin as [Hin|[]]. injection Hin as -> <-.
  apply andb_true_iff in E3. destruct E3 as [E3 E3c]. apply andb_true_iff in E3. destruct E3 as [E3a E3b].
  exists i. eexists. split; [|exact E].
  exists st, ld. repeat split; assumption.
Qed.


(* ================================================================================================ *)
(* 4. Counting ops; "at most one store" in count form and in position form                           *)
(* ================================================================================================ *)
Definition count {A} (p : A -> bool) (l : list A) : nat := List.length (filter p l).

Lemma count_app {A} (p : A -> bool) a b : count p (a ++ b) = (count p a + count p b)%nat.
Proof. unfold count. rewrite filter_app, app_length. reflexivity. Qed.

Lemma count_filter_le {A} (p q : A -> bool) l : count p (filter q l) <= count p l.
Proof.
  unfold count. induction l as [|x t IH]; [apply le_n|]. cbn [filter].
  destruct (q x); cbn [filter]; destruct (p x); cbn [List.length]; lia.
Qed.

Lemma count_nth {A} (p : A -> bool) : forall l j x, nth_error l j = Some x -> p x = true -> 1 <= count p l.
Proof.
  unfold count. induction l as [|y t IH]; intros j x H Hp; [destruct j; discriminate|].
  cbn [filter]. destruct j as [|j]; cbn [nth_error] in H.
  - injection H as ->. rewrite Hp. cbn [List.length]. lia.
  - specialize (IH j x H Hp). destruct (p y); cbn [List.length]; lia.
Qed.

Lemma count_nth2 {A} (p : A -> bool) : forall l j1 j2 x1 x2,
  nth_error l j1 = Some x1 -> nth_error l j2 = Some x2 -> j1 <> j2 -> p x1 = true -> p x2 = true ->
  2 <= count p l.
Proof.
  induction l as [|y t IH]; intros j1 j2 x1 x2 H1 H2 Hne P1 P2; [destruct j1; discriminate|].
  change (count p (y :: t)) with (count p ([y] ++ t)). rewrite count_app.
  destruct j1 as [|j1], j2 as [|j2]; cbn [nth_error] in H1, H2; try congruence.
  - injection H1 as ->. pose proof (count_nth p t j2 x2 H2 P2). unfold count at 1. cbn [filter app]. rewrite P1. cbn [List.length]. lia.
  - injection H2 as ->. pose proof (count_nth p t j1 x1 H1 P1). unfold count at 1. cbn [filter app]. rewrite P2. cbn [List.length]. lia.
  - assert (j1 <> j2) by congruence. specialize (IH j1 j2 x1 x2 H1 H2 H P1 P2). lia.
Qed.

Lemma count_flat_map_in {A B} (p : B -> bool) (f : A -> list B) : forall l b,
  In b l -> count p (f b) <= count p (flat_map f l).
Proof.
  induction l as [|w t IH]; intros b []; cbn [flat_map]; rewrite count_app.
  - subst. lia.
  - specialize (IH b H). lia.
Qed.

Lemma count_flat_map_in2 {A B} (p : B -> bool) (f : A -> list B) : forall l b1 b2,
  In b1 l -> In b2 l -> b1 <> b2 -> count p (f b1) + count p (f b2) <= count p (flat_map f l).
Proof.
  induction l as [|w t IH]; intros b1 b2 [] [] Hne; cbn [flat_map]; rewrite count_app.
  - congruence.
  - subst w. pose proof (count_flat_map_in p f t b2 H0). lia.
  - subst w. pose proof (count_flat_map_in p f t b1 H). lia.
  - specialize (IH b1 b2 H H0 Hne). lia.
Qed.

Lemma filter_flat_map {A B} (q : B -> bool) (f : A -> list B) l :
  filter q (flat_map f l) = flat_map (fun b => filter q (f b)) l.
Proof. induction l as [|w t IH]; [reflexivity|]. cbn [flat_map]. rewrite filter_app, IH. reflexivity. Qed.

(* is [i] a store / load that mentions slot [u] (the predicate of Compile.count_slot_ops) *)
Definition store_of (u : N) (i : instr) : bool := is_op i O_store && mem_N u (instr_slots i).
Definition load_of (u : N) (i : instr) : bool := is_op i O_load && mem_N u (instr_slots i).

Definition routine_ops (g : graph) (order : list id) : list instr := flat_map (get_ops g) order.

(* position form of "at most one store of u" *)
Lemma one_store_unique g order u b1 j1 i1 b2 j2 i2 :
  count (store_of u) (routine_ops g order) <= 1 ->
  In b1 order -> In b2 order ->
  nth_error (get_ops g b1) j1 = Some i1 -> store_of u i1 = true ->
  nth_error (get_ops g b2) j2 = Some i2 -> store_of u i2 = true ->
  b1 = b2 /\ j1 = j2.
Proof.
  intros Hc Hb1 Hb2 H1 P1 H2 P2. unfold routine_ops in Hc.
  destruct (Nat.eq_dec b1 b2) as [->|Hne].
  - split; [reflexivity|]. destruct (Nat.eq_dec j1 j2) as [|Hj]; [assumption|]. exfalso.
    pose proof (count_nth2 _ _ _ _ _ _ H1 H2 Hj P1 P2).
    pose proof (count_flat_map_in (store_of u) (get_ops g) order b2 Hb2). lia.
  - exfalso. pose proof (count_nth _ _ _ _ H1 P1). pose proof (count_nth _ _ _ _ H2 P2).
    pose proof (count_flat_map_in2 (store_of u) (get_ops g) order b1 b2 Hb1 Hb2 Hne). lia.
Qed.

(* ================================================================================================ *)
(* 5. From positions to [paired]                                                                     *)
(* ================================================================================================ *)
Definition pos_paired (L : list N) (ops : list instr) : Prop :=
  forall j i, nth_error ops j = Some i -> keep_op L i = false ->
    (exists s, In s L /\ i = mkI O_store [ASlot s] /\ nth_error ops (S j) = Some (mkI O_load [ASlot s])) \/
    (exists s j', In s L /\ i = mkI O_load [ASlot s] /\ j = S j' /\
                  nth_error ops j' = Some (mkI O_store [ASlot s])).

Lemma pos_paired_paired L : forall n ops, List.length ops <= n -> pos_paired L ops -> paired L ops.
Proof.
  induction n as [|n IH]; intros ops Hl H.
  - destruct ops; [constructor|cbn in Hl; lia].
  - destruct ops as [|i t]; [constructor|]. cbn [List.length] in Hl.
    destruct (keep_op L i) eqn:Ek.
    + apply pr_keep; [exact Ek|]. apply IH; [lia|].
      intros j x Hj Hx. destruct (H (S j) x Hj Hx) as [[s [A [B D]]]|[s [j' [A [B [D E]]]]]].
      * left. exists s. repeat split; assumption.
      * right. injection D as <-. destruct j as [|j].
        { cbn [nth_error] in E. injection E as ->. rewrite (keep_op_store L s A) in Ek. discriminate. }
        exists s, j. repeat split; assumption.
    + destruct (H 0 i eq_refl Ek) as [[s [A [B D]]]|[s [j' [A [B [D E]]]]]]; [|discriminate].
      subst i. cbn [nth_error] in D. destruct t as [|ld t']; [discriminate|].
      cbn [nth_error] in D. injection D as ->.
      apply pr_pair; [exact A|]. apply IH; [cbn [List.length] in Hl; lia|].
      intros j x Hj Hx. destruct (H (S (S j)) x Hj Hx) as [[s' [A' [B' D']]]|[s' [j' [A' [B' [D' E']]]]]].
      * left. exists s'. repeat split; assumption.
      * right. injection D' as <-. destruct j as [|j].
        { cbn [nth_error] in E'. discriminate. }
        exists s', j. repeat split; assumption.
Qed.


(* ================================================================================================ *)
(* 6. One removal step                                                                               *)
(* ================================================================================================ *)
(* every load/store op of the routine carries exactly one argument, a slot object
   (what ScratchLoad/ScratchStackStore/ScratchStore emit; _apply_slot_to_stack raises TealInternalError otherwise) *)
Definition slot_ops_wf (g : graph) (order : list id) : Prop :=
  forall b i, In b order -> In i (get_ops g b) -> (i_op i = O_store \/ i_op i = O_load) ->
    exists u, i_args i = [ASlot u].

Lemma wf_store g order b i u :
  slot_ops_wf g order -> In b order -> In i (get_ops g b) -> i_op i = O_store -> In u (instr_slots i) ->
  i = mkI O_store [ASlot u].
Proof.
  intros W Hb Hi Ho Hu. destruct (W b i Hb Hi (or_introl Ho)) as [u' E].
  destruct i as [o a]. cbn [i_op i_args] in *. subst. unfold instr_slots in Hu. cbn in Hu.
  destruct Hu as [->|[]]. reflexivity.
Qed.

Lemma wf_load g order b i u :
  slot_ops_wf g order -> In b order -> In i (get_ops g b) -> i_op i = O_load -> In u (instr_slots i) ->
  i = mkI O_load [ASlot u].
Proof.
  intros W Hb Hi Ho Hu. destruct (W b i Hb Hi (or_intror Ho)) as [u' E].
  destruct i as [o a]. cbn [i_op i_args] in *. subst. unfold instr_slots in Hu. cbn in Hu.
  destruct Hu as [->|[]]. reflexivity.
Qed.

Definition astk_ok (g : graph) (order : list id) (cur : id) (L : list N) : Prop :=
  forall s, In s L -> exists i div, astk_cand g cur s i /\ deps_scan g order cur div s (S i) = DepNo.

(* the checks + "no other store" give the pairing in every block of the routine *)
Lemma step_paired g order cur L :
  slot_ops_wf g order -> In cur order -> astk_ok g order cur L ->
  (forall s, In s L -> count (store_of s) (routine_ops g order) <= 1) ->
  forall b, In b order -> paired L (get_ops g b).
Proof.
  intros W Hcur Hok Hone b Hb. apply (pos_paired_paired L (List.length (get_ops g b))); [apply le_n|].
  intros j i Hj Hk. pose proof (nth_error_In _ _ Hj) as Hi.
  apply keep_op_false in Hk. destruct Hk as [Hop Hsub].
  destruct (W b i Hb Hi Hop) as [u Ea].
  assert (Hu : In u (instr_slots i)). { unfold instr_slots. rewrite Ea. left. reflexivity. }
  pose proof (Hsub u Hu) as HuL.
  destruct (Hok u HuL) as [iu [div [[st [ld [N1 [N2 [O1 [O2 [S1 S2]]]]]]] Hdep]]].
  apply is_op_store in O1. apply is_op_load in O2.
  assert (Est : st = mkI O_store [ASlot u]).
  { apply (wf_store g order cur st u W Hcur (nth_error_In _ _ N1) O1). rewrite S1. left. reflexivity. }
  assert (Eld : ld = mkI O_load [ASlot u]).
  { apply (wf_load g order cur ld u W Hcur (nth_error_In _ _ N2) O2). rewrite S2. left. reflexivity. }
  subst st ld.
  destruct Hop as [Hop|Hop].
  - left. exists u. split; [exact HuL|].
    pose proof (wf_store _ _ _ _ _ W Hb Hi Hop Hu) as Ei. split; [exact Ei|].
    assert (P : forall x, x = mkI O_store [ASlot u] -> store_of u x = true).
    { intros x ->. unfold store_of. change (is_op (mkI O_store [ASlot u]) O_store) with true.
      change (instr_slots (mkI O_store [ASlot u])) with [u]. cbn [mem_N andb]. rewrite N.eqb_refl. reflexivity. }
    destruct (one_store_unique g order u b j i cur iu _ (Hone u HuL) Hb Hcur Hj (P _ Ei) N1 (P _ eq_refl)) as [-> ->].
    exact N2.
  - right. exists u, iu. split; [exact HuL|].
    pose proof (wf_load _ _ _ _ _ W Hb Hi Hop Hu) as Ei. split; [exact Ei|].
    destruct (deps_no_other_load _ _ _ _ _ _ _ _ _ Hdep Hb Hj Hop Hu) as [-> ->].
    split; [reflexivity|exact N1].
Qed.

(* ---- the dynamic side conditions, for a universe [Lall] of removable slots ---- *)
Definition cellsL (env : denv) (Lall : N -> Prop) (c : N) : Prop := exists s, Lall s /\ c = e_asg env s.

(* at an execution point (op, stack):
   (1) a store of a removable slot finds a value on the stack;
   (2) a scratch cell of a removable slot is read only by the direct load of a removable slot:
       not by [loads] with that run-time index, not by a load with a literal number, not by the load of
       another variable that was given the same number *)
Definition PL (env : denv) (Lall : N -> Prop) (i : instr) (stk : list value) : Prop :=
  (forall s, Lall s -> i = mkI O_store [ASlot s] -> stk <> []) /\
  (forall c, instr_reads env i stk = Some c -> cellsL env Lall c -> exists u, Lall u /\ i = mkI O_load [ASlot u]).

Definition inj_on (env : denv) (Lall : N -> Prop) : Prop :=
  forall u v, Lall u -> Lall v -> e_asg env u = e_asg env v -> u = v.

Section RsaStep.
  Variable env : denv.
  Variable Lall : N -> Prop.
  Hypothesis Hinj : inj_on env Lall.

  Variable g : graph.
  Variable start : id.
  Variable l : list N.
  Hypothesis Hb : ids_bounded g start.
  Hypothesis Hl : forall s, In s l -> Lall s.
  Hypothesis Hp : forall b, In b (iterate g start) -> paired l (get_ops g b).

  Let C (c : N) : Prop := exists s, In s l /\ c = e_asg env s.
  Let R (b : id) : Prop := In b (iterate g start).
  Let g' := remove_slot_access g start l.

  Lemma rsa_cells_in : forall s, In s l -> C (e_asg env s).
  Proof. intros s H. exists s. split; [exact H|reflexivity]. Qed.

  Lemma rsa_P_keep : forall i stk, PL env Lall i stk -> keep_op l i = true ->
    forall c, instr_reads env i stk = Some c -> ~ C c.
  Proof.
    intros i stk [_ H2] Hk c Hr [s [Hs Ec]].
    destruct (H2 c Hr) as [u [Hu Ei]]; [exists s; split; [apply Hl, Hs|exact Ec]|].
    subst i. cbn in Hr. injection Hr as Hr. rewrite <- Hr in Ec.
    pose proof (Hinj u s Hu (Hl s Hs) Ec) as ->.
    rewrite (keep_op_load l s Hs) in Hk. discriminate.
  Qed.

  Lemma rsa_P_store : forall s stk, In s l -> PL env Lall (mkI O_store [ASlot s]) stk -> stk <> [].
  Proof. intros s stk Hs [H1 _]. apply (H1 s (Hl s Hs) eq_refl). Qed.

  Lemma rsa_R_closed : forall b blk x, R b -> g_blk g b = Some blk -> In x (outgoing blk) -> R x.
  Proof.
    intros b blk x Hr E Hx. destruct (iterate_closed g start Hb) as [_ Hc].
    apply (Hc b x Hr). unfold out_of. rewrite E. exact Hx.
  Qed.

  Lemma rsa_R_paired : forall b blk, R b -> g_blk g b = Some blk -> paired l (b_ops blk).
  Proof. intros b blk Hr E. pose proof (Hp b Hr) as X. unfold get_ops in X. rewrite E in X. exact X. Qed.

  Lemma rsa_G'_def : forall b, R b -> g_blk g' b = option_map (filter_block l) (g_blk g b).
  Proof.
    intros b Hr. unfold g'. rewrite rsa_blk.
    assert (E : mem_id b (iterate g start) = true) by (apply mem_id_iff, Hr). rewrite E. reflexivity.
  Qed.

  Lemma C_sub : forall c, C c -> cellsL env Lall c.
  Proof. intros c [s [Hs E]]. exists s. split; [apply Hl, Hs|exact E]. Qed.

  Theorem rsa_step_sound c0 :
    conf_in R c0 -> safe_from (PL env Lall) env (g_blk g) c0 ->
    (forall d, star env (g_blk g) c0 d -> exists d', star env (g_blk g') c0 d' /\ conf_eqx (cellsL env Lall) d d') /\
    (forall d', star env (g_blk g') c0 d' -> exists d, star env (g_blk g) c0 d /\ conf_eqx (cellsL env Lall) d d') /\
    safe_from (PL env Lall) env (g_blk g') c0.
  Proof.
    intros Hr Hs. split; [|split].
    - intros d S.
      destruct (star_sim_fwd env l C (PL env Lall) rsa_cells_in rsa_P_keep rsa_P_store R (g_blk g) (g_blk g')
                  rsa_R_closed rsa_R_paired rsa_G'_def c0 d S c0 (conf_eqx_refl C c0) Hr Hs) as [d' [S' E]].
      exists d'. split; [exact S'|]. eapply conf_eqx_mono; [exact C_sub|exact E].
    - intros d' S'.
      destruct (star_sim_bwd env l C (PL env Lall) rsa_cells_in rsa_P_keep rsa_P_store R (g_blk g) (g_blk g')
                  rsa_R_closed rsa_R_paired rsa_G'_def c0 d' S' c0 (conf_eqx_refl C c0) Hr Hs) as [d [S [E _]]].
      exists d. split; [exact S|]. eapply conf_eqx_mono; [exact C_sub|exact E].
    - apply (safe_from_sim env l C (PL env Lall) rsa_cells_in rsa_P_keep rsa_P_store R (g_blk g) (g_blk g')
               rsa_R_closed rsa_R_paired rsa_G'_def c0 c0 (conf_eqx_refl C c0) Hr Hs).
  Qed.
End RsaStep.


(* ================================================================================================ *)
(* 7. The loops: _apply_slot_to_stack iterated per block, for every block                            *)
(* ================================================================================================ *)
Inductive rsteps (start : id) : graph -> graph -> list N -> Prop :=
| rs_refl g : rsteps start g g []
| rs_step g g' cur L Ls :
    In cur (iterate g start) -> astk_ok g (iterate g start) cur L ->
    rsteps start (remove_slot_access g start L) g' Ls -> rsteps start g g' (L ++ Ls).

Lemma rsteps_trans start g g1 g2 L1 L2 :
  rsteps start g g1 L1 -> rsteps start g1 g2 L2 -> rsteps start g g2 (L1 ++ L2).
Proof.
  induction 1 as [g|g g' cur L Ls Hc Hok S IH]; intros S2; [exact S2|].
  rewrite <- app_assoc. eapply rs_step; eauto.
Qed.

Lemma rsteps_iterate start g g' Ls : rsteps start g g' Ls -> iterate g' start = iterate g start.
Proof.
  induction 1 as [g|g g' cur L Ls Hc Hok S IH]; [reflexivity|]. rewrite IH. apply rsa_iterate.
Qed.

Lemma opt_block_loop_steps start skip cur : forall n g g',
  In cur (iterate g start) -> opt_block_loop n g start cur skip = Some g' ->
  exists Ls, rsteps start g g' Ls.
Proof.
  induction n as [|k IH]; intros g g' Hc H; cbn [opt_block_loop] in H.
  - injection H as <-. exists []. constructor.
  - destruct (apply_slot_to_stack g start cur skip) as [g1|] eqn:Ea; [|discriminate].
    destruct (astk_inv _ _ _ _ _ Ea) as [->|[L [-> HL]]].
    + destruct (instrs_eqb _ _); [injection H as <-; exists []; constructor|]. apply (IH g g' Hc H).
    + destruct (instrs_eqb _ _).
      * injection H as <-. exists (L ++ []). eapply rs_step; [exact Hc|exact HL|constructor].
      * destruct (IH _ g' (eq_ind_r (fun o => In cur o) Hc (rsa_iterate g start L)) H) as [Ls S].
        exists (L ++ Ls). eapply rs_step; eauto.
Qed.

Definition opt_fold_body (start : id) (skip : list N) (og : option graph) (b : id) : option graph :=
  match og with
  | Some g => opt_block_loop (List.length (get_ops g b)) g start b skip
  | None => None
  end.

Lemma opt_fold_none start skip : forall blocks, fold_left (opt_fold_body start skip) blocks None = None.
Proof. induction blocks as [|b t IH]; [reflexivity|exact IH]. Qed.

Lemma opt_fold_steps start skip : forall blocks g g',
  (forall b, In b blocks -> In b (iterate g start)) ->
  fold_left (opt_fold_body start skip) blocks (Some g) = Some g' ->
  exists Ls, rsteps start g g' Ls.
Proof.
  induction blocks as [|b t IH]; intros g g' Hin H; cbn [fold_left] in H.
  - injection H as <-. exists []. constructor.
  - cbn [opt_fold_body] in H.
    destruct (opt_block_loop (List.length (get_ops g b)) g start b skip) as [g1|] eqn:E;
      [|rewrite opt_fold_none in H; discriminate].
    destruct (opt_block_loop_steps start skip b _ g g1 (Hin b (or_introl eq_refl)) E) as [L1 S1].
    destruct (IH g1 g') as [L2 S2]; [|exact H|].
    + intros x Hx. rewrite (rsteps_iterate _ _ _ _ S1). apply Hin. right. exact Hx.
    + exists (L1 ++ L2). eapply rsteps_trans; eauto.
Qed.

Lemma optimize_routine_steps g start skip g' :
  optimize_routine g start skip = Some g' -> exists Ls, rsteps start g g' Ls.
Proof. intros H. apply (opt_fold_steps start skip (iterate g start) g g'); [tauto|exact H]. Qed.

(* ---- what a removal step preserves ---- *)
Lemma rsa_ids_bounded g start L : ids_bounded g start -> ids_bounded (remove_slot_access g start L) start.
Proof.
  intros [H1 H2]. split; rewrite rsa_next; [exact H1|]. intros b x Hb. rewrite rsa_out_of. apply H2, Hb.
Qed.

Lemma rsa_ops_incl g start L b i : In i (get_ops (remove_slot_access g start L) b) -> In i (get_ops g b).
Proof.
  rewrite rsa_get_ops. destruct (mem_id b (iterate g start)); [|tauto]. intros H. apply filter_In in H. tauto.
Qed.

Lemma rsa_wf g start L order : slot_ops_wf g order -> slot_ops_wf (remove_slot_access g start L) order.
Proof. intros W b i Hb Hi. apply (W b i Hb). eapply rsa_ops_incl; eauto. Qed.

Lemma flat_map_ext_in {A B} (f h : A -> list B) l : (forall a, In a l -> f a = h a) -> flat_map f l = flat_map h l.
Proof.
  induction l as [|x t IH]; intros H; [reflexivity|]. cbn [flat_map].
  rewrite (H x (or_introl eq_refl)), IH; [reflexivity|]. intros a Ha. apply H. right. exact Ha.
Qed.

Lemma rsa_routine_ops g start L :
  routine_ops (remove_slot_access g start L) (iterate g start) = filter (keep_op L) (routine_ops g (iterate g start)).
Proof.
  unfold routine_ops. rewrite filter_flat_map. apply flat_map_ext_in. intros b Hb.
  rewrite rsa_get_ops. assert (E : mem_id b (iterate g start) = true) by (apply mem_id_iff, Hb).
  rewrite E. reflexivity.
Qed.

(* ---- which slots are removed: those that had a load before and have none afterwards ---- *)
Definition has_load (g : graph) (order : list id) (u : N) : Prop :=
  exists b i, In b order /\ In i (get_ops g b) /\ load_of u i = true.

Definition removed_slot (g g' : graph) (start : id) (u : N) : Prop :=
  has_load g (iterate g start) u /\ ~ has_load g' (iterate g start) u.

Lemma rsteps_has_load_mono start order u g g' Ls :
  rsteps start g g' Ls -> has_load g' order u -> has_load g order u.
Proof.
  induction 1 as [g|g g' cur L Ls Hc Hok S IH]; intros H; [exact H|].
  destruct (IH H) as [b [i [Hb [Hi Hl]]]]. exists b, i. split; [exact Hb|]. split; [|exact Hl].
  eapply rsa_ops_incl; eauto.
Qed.

Lemma load_of_inv u i : load_of u i = true -> i_op i = O_load /\ In u (instr_slots i).
Proof. unfold load_of. intros H. apply andb_true_iff in H. destruct H as [H1 H2]. split; [apply is_op_load, H1|apply mem_N_In, H2]. Qed.

Lemma rsa_removes_loads g start L u :
  slot_ops_wf g (iterate g start) -> In u L -> ~ has_load (remove_slot_access g start L) (iterate g start) u.
Proof.
  intros W Hu [b [i [Hb [Hi Hl]]]]. destruct (load_of_inv _ _ Hl) as [Ho Hs].
  rewrite rsa_get_ops in Hi. assert (E : mem_id b (iterate g start) = true) by (apply mem_id_iff, Hb).
  rewrite E in Hi. apply filter_In in Hi. destruct Hi as [Hi Hk].
  rewrite (wf_load _ _ _ _ _ W Hb Hi Ho Hs), (keep_op_load L u Hu) in Hk. discriminate.
Qed.

Lemma rsteps_removed start g g' Ls :
  rsteps start g g' Ls -> slot_ops_wf g (iterate g start) ->
  forall u, In u Ls -> removed_slot g g' start u.
Proof.
  induction 1 as [g|g g' cur L Ls Hc Hok S IH]; intros W u Hu; [destruct Hu|].
  apply in_app_or in Hu. destruct Hu as [Hu|Hu].
  - split.
    + destruct (Hok u Hu) as [iu [div [[st [ld [N1 [N2 [O1 [O2 [S1 S2]]]]]]] Hdep]]].
      exists cur, ld. split; [exact Hc|]. split; [eapply nth_error_In; eauto|].
      unfold load_of. rewrite O2, S2. cbn [mem_N andb]. rewrite N.eqb_refl. reflexivity.
    + intros H. apply (rsa_removes_loads g start L u W Hu). eapply rsteps_has_load_mono; eauto.
  - destruct (IH (eq_ind_r (fun o => slot_ops_wf _ o) (rsa_wf g start L _ W) (rsa_iterate g start L)) u Hu) as [A B].
    rewrite rsa_iterate in A, B. split; [|exact B].
    destruct A as [b [i [Hb [Hi Hl]]]]. exists b, i. split; [exact Hb|]. split; [|exact Hl]. eapply rsa_ops_incl; eauto.
Qed.

(* ---- soundness of a sequence of removal steps ---- *)
Section Steps.
  Variable env : denv.
  Variable Lall : N -> Prop.
  Hypothesis Hinj : inj_on env Lall.
  Variable start : id.

  Lemma rsteps_sound g g' Ls : rsteps start g g' Ls ->
    ids_bounded g start -> slot_ops_wf g (iterate g start) ->
    (forall s, In s Ls -> Lall s) ->
    (forall s, In s Ls -> count (store_of s) (routine_ops g (iterate g start)) <= 1) ->
    forall c0, conf_in (fun b => In b (iterate g start)) c0 -> safe_from (PL env Lall) env (g_blk g) c0 ->
    (forall d, star env (g_blk g) c0 d -> exists d', star env (g_blk g') c0 d' /\ conf_eqx (cellsL env Lall) d d') /\
    (forall d', star env (g_blk g') c0 d' -> exists d, star env (g_blk g) c0 d /\ conf_eqx (cellsL env Lall) d d').
  Proof.
    induction 1 as [g|g g' cur L Ls Hc Hok S IH]; intros Hb W HL Hone c0 Hr Hs.
    - split; intros d Sd; exists d; (split; [exact Sd|apply conf_eqx_refl]).
    - assert (HL1 : forall s, In s L -> Lall s) by (intros s Hs'; apply HL, in_or_app; left; exact Hs').
      assert (Hp : forall b, In b (iterate g start) -> paired L (get_ops g b)).
      { apply (step_paired g (iterate g start) cur L W Hc Hok). intros s Hs'. apply Hone, in_or_app. left. exact Hs'. }
      destruct (rsa_step_sound env Lall Hinj g start L Hb HL1 Hp c0 Hr Hs) as [F1 [B1 S1]].
      destruct (IH (rsa_ids_bounded g start L Hb)) with (c0 := c0) as [F2 B2].
      + rewrite rsa_iterate. apply rsa_wf, W.
      + intros s Hs'. apply HL, in_or_app. right. exact Hs'.
      + intros s Hs'. rewrite rsa_iterate, rsa_routine_ops.
        eapply Nat.le_trans; [apply count_filter_le|]. apply Hone, in_or_app. right. exact Hs'.
      + rewrite rsa_iterate. exact Hr.
      + exact S1.
      + split.
        * intros d Sd. destruct (F1 d Sd) as [d1 [Sd1 E1]]. destruct (F2 d1 Sd1) as [d2 [Sd2 E2]].
          exists d2. split; [exact Sd2|eapply conf_eqx_trans; eauto].
        * intros d2 Sd2. destruct (B2 d2 Sd2) as [d1 [Sd1 E2]]. destruct (B1 d1 Sd1) as [d [Sd E1]].
          exists d. split; [exact Sd|eapply conf_eqx_trans; eauto].
  Qed.
End Steps.

(* ================================================================================================ *)
(* 8. The theorems                                                                                   *)
(* ================================================================================================ *)
(* apply_global_optimizations, under the hypothesis the code does not check: a slot whose load is
   cancelled has no store besides the cancelled one *)
Definition no_orphan_store (g g' : graph) (start : id) : Prop :=
  forall u, removed_slot g g' start u -> count (store_of u) (routine_ops g (iterate g start)) <= 1.

Theorem optimize_routine_sound_partial env g start skip g' :
  optimize_routine g start skip = Some g' ->
  ids_bounded g start ->
  slot_ops_wf g (iterate g start) ->
  no_orphan_store g g' start ->
  inj_on env (removed_slot g g' start) ->
  forall stk st,
    safe_from (PL env (removed_slot g g' start)) env (g_blk g) (GAt start stk st) ->
    forall c, halting c ->
      (star env (g_blk g) (GAt start stk st) c ->
         exists c', star env (g_blk g') (GAt start stk st) c' /\ conf_eqx (cellsL env (removed_slot g g' start)) c c') /\
      (star env (g_blk g') (GAt start stk st) c ->
         exists c0, star env (g_blk g) (GAt start stk st) c0 /\ conf_eqx (cellsL env (removed_slot g g' start)) c0 c).
Proof.
  intros Ho Hb W Hno Hinj stk st Hs c _.
  destruct (optimize_routine_steps _ _ _ _ Ho) as [Ls S].
  pose proof (rsteps_removed _ _ _ _ S W) as Hrem.
  destruct (rsteps_sound env _ Hinj start g g' Ls S Hb W Hrem (fun s Hs' => Hno s (Hrem s Hs'))
              (GAt start stk st)) as [F B].
  - cbn [conf_in]. apply (iterate_closed g start Hb).
  - exact Hs.
  - split; [apply F|apply B].
Qed.


(* ---- removing a set of slots whose accesses are all cancelling pairs ---- *)
Theorem remove_slot_access_sound env g start l :
  ids_bounded g start ->
  (forall b, In b (iterate g start) -> paired l (get_ops g b)) ->
  inj_on env (fun s => In s l) ->
  forall stk st,
    safe_from (PL env (fun s => In s l)) env (g_blk g) (GAt start stk st) ->
    forall c, halting c ->
      (star env (g_blk g) (GAt start stk st) c ->
         exists c', star env (g_blk (remove_slot_access g start l)) (GAt start stk st) c' /\
                    conf_eqx (cellsL env (fun s => In s l)) c c') /\
      (star env (g_blk (remove_slot_access g start l)) (GAt start stk st) c ->
         exists c0, star env (g_blk g) (GAt start stk st) c0 /\ conf_eqx (cellsL env (fun s => In s l)) c0 c).
Proof.
  intros Hb Hp Hinj stk st Hs c _.
  destruct (rsa_step_sound env (fun s => In s l) Hinj g start l Hb (fun s H => H) Hp (GAt start stk st))
    as [F [B _]].
  - cbn [conf_in]. apply (iterate_closed g start Hb).
  - exact Hs.
  - split; [apply F|apply B].
Qed.

(* ---- one slot: the cancellation itself ---- *)
Lemma paired_all_kept l ops : (forall i, In i ops -> keep_op l i = true) -> paired l ops.
Proof.
  induction ops as [|i t IH]; intros H; [constructor|].
  apply pr_keep; [apply H; left; reflexivity|]. apply IH. intros x Hx. apply H. right. exact Hx.
Qed.

Lemma paired_app l a b : paired l a -> paired l b -> paired l (a ++ b).
Proof. induction 1; intros Hb; cbn [app]; [exact Hb|apply pr_keep; auto|apply pr_pair; auto]. Qed.

Theorem opt_cancel_sound env g start s b0 pre post :
  ids_bounded g start ->
  (* (a)(b)(c): in block b0 the store of s is immediately followed by the load of s ... *)
  In b0 (iterate g start) ->
  get_ops g b0 = pre ++ mkI O_store [ASlot s] :: mkI O_load [ASlot s] :: post ->
  (* ... and (d) no other op of the routine is a load/store of (only) s *)
  (forall i, In i (pre ++ post) -> keep_op [s] i = true) ->
  (forall b i, In b (iterate g start) -> b <> b0 -> In i (get_ops g b) -> keep_op [s] i = true) ->
  forall stk st,
    (* (e): the store finds its operand; cell [e_asg env s] is read only by the load of s *)
    safe_from (PL env (eq s)) env (g_blk g) (GAt start stk st) ->
    forall c, halting c ->
      (star env (g_blk g) (GAt start stk st) c ->
         exists c', star env (g_blk (remove_slot_access g start [s])) (GAt start stk st) c' /\
                    conf_eqx (fun x => x = e_asg env s) c c') /\
      (star env (g_blk (remove_slot_access g start [s])) (GAt start stk st) c ->
         exists c0, star env (g_blk g) (GAt start stk st) c0 /\ conf_eqx (fun x => x = e_asg env s) c0 c).
Proof.
  intros Hb Hb0 Hops Hk1 Hk2 stk st Hs c _.
  assert (Hl : forall s', In s' [s] -> s = s') by (intros s' [H|[]]; exact H).
  assert (Hp : forall b, In b (iterate g start) -> paired [s] (get_ops g b)).
  { intros b Hin. destruct (Nat.eq_dec b b0) as [->|Hne].
    - rewrite Hops. apply paired_app.
      + apply paired_all_kept. intros i Hi. apply Hk1, in_or_app. left. exact Hi.
      + apply pr_pair; [left; reflexivity|]. apply paired_all_kept. intros i Hi. apply Hk1, in_or_app. right. exact Hi.
    - apply paired_all_kept. intros i Hi. apply (Hk2 b i Hin Hne Hi). }
  assert (Hinj : inj_on env (eq s)) by (intros u v <- <- _; reflexivity).
  destruct (rsa_step_sound env (eq s) Hinj g start [s] Hb Hl Hp (GAt start stk st)) as [F [B _]].
  - cbn [conf_in]. apply (iterate_closed g start Hb).
  - exact Hs.
  - assert (M : forall x, cellsL env (eq s) x -> x = e_asg env s) by (intros x [s' [<- E]]; exact E).
    split; intros S.
    + destruct (F c S) as [c' [S' E]]. exists c'. split; [exact S'|eapply conf_eqx_mono; eauto].
    + destruct (B c S) as [c0 [S0 E]]. exists c0. split; [exact S0|eapply conf_eqx_mono; eauto].
Qed.

(* ---- the same statement for any sequence of _apply_slot_to_stack steps ---- *)
Theorem rsteps_sound_partial env g start g' Ls :
  rsteps start g g' Ls ->
  ids_bounded g start ->
  slot_ops_wf g (iterate g start) ->
  no_orphan_store g g' start ->
  inj_on env (removed_slot g g' start) ->
  forall stk st,
    safe_from (PL env (removed_slot g g' start)) env (g_blk g) (GAt start stk st) ->
    forall c, halting c ->
      (star env (g_blk g) (GAt start stk st) c ->
         exists c', star env (g_blk g') (GAt start stk st) c' /\ conf_eqx (cellsL env (removed_slot g g' start)) c c') /\
      (star env (g_blk g') (GAt start stk st) c ->
         exists c0, star env (g_blk g) (GAt start stk st) c0 /\ conf_eqx (cellsL env (removed_slot g g' start)) c0 c).
Proof.
  intros S Hb W Hno Hinj stk st Hs c _.
  pose proof (rsteps_removed _ _ _ _ S W) as Hrem.
  destruct (rsteps_sound env _ Hinj start g g' Ls S Hb W Hrem (fun s Hs' => Hno s (Hrem s Hs'))
              (GAt start stk st)) as [F B].
  - cbn [conf_in]. apply (iterate_closed g start Hb).
  - exact Hs.
  - split; [apply F|apply B].
Qed.

Lemma apply_slot_to_stack_steps g start cur skip g' :
  In cur (iterate g start) -> apply_slot_to_stack g start cur skip = Some g' -> exists Ls, rsteps start g g' Ls.
Proof.
  intros Hc H. destruct (astk_inv _ _ _ _ _ H) as [->|[L [-> HL]]].
  - exists []. constructor.
  - exists (L ++ []). eapply rs_step; [exact Hc|exact HL|constructor].
Qed.

(* one call of _apply_slot_to_stack, and the per-block fixpoint loop *)
Theorem apply_slot_to_stack_sound_partial env g start cur skip g' :
  apply_slot_to_stack g start cur skip = Some g' ->
  In cur (iterate g start) ->
  ids_bounded g start ->
  slot_ops_wf g (iterate g start) ->
  no_orphan_store g g' start ->
  inj_on env (removed_slot g g' start) ->
  forall stk st,
    safe_from (PL env (removed_slot g g' start)) env (g_blk g) (GAt start stk st) ->
    forall c, halting c ->
      (star env (g_blk g) (GAt start stk st) c ->
         exists c', star env (g_blk g') (GAt start stk st) c' /\ conf_eqx (cellsL env (removed_slot g g' start)) c c') /\
      (star env (g_blk g') (GAt start stk st) c ->
         exists c0, star env (g_blk g) (GAt start stk st) c0 /\ conf_eqx (cellsL env (removed_slot g g' start)) c0 c).
Proof.
  intros H Hc. destruct (apply_slot_to_stack_steps _ _ _ _ _ Hc H) as [Ls S].
  apply (rsteps_sound_partial env g start g' Ls S).
Qed.

Theorem opt_block_loop_sound_partial env n g start cur skip g' :
  opt_block_loop n g start cur skip = Some g' ->
  In cur (iterate g start) ->
  ids_bounded g start ->
  slot_ops_wf g (iterate g start) ->
  no_orphan_store g g' start ->
  inj_on env (removed_slot g g' start) ->
  forall stk st,
    safe_from (PL env (removed_slot g g' start)) env (g_blk g) (GAt start stk st) ->
    forall c, halting c ->
      (star env (g_blk g) (GAt start stk st) c ->
         exists c', star env (g_blk g') (GAt start stk st) c' /\ conf_eqx (cellsL env (removed_slot g g' start)) c c') /\
      (star env (g_blk g') (GAt start stk st) c ->
         exists c0, star env (g_blk g) (GAt start stk st) c0 /\ conf_eqx (cellsL env (removed_slot g g' start)) c0 c).
Proof.
  intros H Hc. destruct (opt_block_loop_steps start skip cur n g g' Hc H) as [Ls S].
  apply (rsteps_sound_partial env g start g' Ls S).
Qed.

(* ================================================================================================ *)
(* 9. The optimiser touches nothing but load/store ops of the removed slots                          *)
(* ================================================================================================ *)
Definition same_shape (b b' : block) : Prop :=
  match b, b' with
  | BSimple _ n, BSimple _ n' => n' = n
  | BCond _ t f, BCond _ t' f' => t' = t /\ f' = f
  | _, _ => False
  end.

Lemma same_shape_filter l b : same_shape b (filter_block l b).
Proof. destruct b; cbn; auto. Qed.

Theorem optimizer_preserves_non_slot_ops g start l :
  let g' := remove_slot_access g start l in
  (* the graph structure: same ids, same counter, same parent lists, same successors and block kinds *)
  g_next g' = g_next g /\ g_inc g' = g_inc g /\
  (forall b, match g_blk g b, g_blk g' b with
             | Some bb, Some bb' => same_shape bb bb'
             | None, None => True
             | _, _ => False
             end) /\
  (forall b, out_of g' b = out_of g b) /\
  iterate g' start = iterate g start /\
  (* the ops: in the blocks TealBlock.Iterate visits, the sub-sequence of the ops that [keep_op] keeps, in
     order; elsewhere untouched *)
  (forall b, get_ops g' b = if mem_id b (iterate g start) then filter (keep_op l) (get_ops g b) else get_ops g b) /\
  (* what is deleted: exactly the load/store ops all of whose slot arguments are in the removed set *)
  (forall i, keep_op l i = false <->
             (i_op i = O_store \/ i_op i = O_load) /\ (forall s, In s (instr_slots i) -> In s l)).
Proof.
  cbv zeta. split; [apply rsa_next|]. split; [apply rsa_inc|]. split; [|split; [|split; [|split]]].
  - intros b. rewrite rsa_blk. destruct (mem_id b (iterate g start)); destruct (g_blk g b) as [bb|]; cbn [option_map]; auto.
    + apply same_shape_filter.
    + destruct bb; cbn; auto.
  - intros b. apply rsa_out_of.
  - apply rsa_iterate.
  - intros b. apply rsa_get_ops.
  - intros i. apply keep_op_false.
Qed.

(* for load/store ops of the usual form (one slot argument) the deleted ops are the loads/stores of removed slots *)
Corollary keep_op_false_wf l i u :
  i_args i = [ASlot u] ->
  (keep_op l i = false <-> (i = mkI O_store [ASlot u] \/ i = mkI O_load [ASlot u]) /\ In u l).
Proof.
  intros Ea. rewrite keep_op_false. unfold instr_slots. rewrite Ea. cbn [flat_map app].
  destruct i as [o a]. cbn [i_op i_args] in *. subst a. split.
  - intros [[->| ->] H]; (split; [auto|apply H; left; reflexivity]).
  - intros [[E|E] H]; injection E as ->; (split; [auto|intros s [<-|[]]; exact H]).
Qed.

(* whole optimiser: edges untouched, every block keeps a sub-sequence of its ops, only load/store ops go *)
Theorem optimize_routine_preserves_non_slot_ops g start skip g' :
  optimize_routine g start skip = Some g' ->
  g_next g' = g_next g /\ g_inc g' = g_inc g /\
  (forall b, out_of g' b = out_of g b) /\
  iterate g' start = iterate g start /\
  (forall b, exists keep : instr -> bool,
      get_ops g' b = filter keep (get_ops g b) /\
      forall i, keep i = false -> i_op i = O_store \/ i_op i = O_load).
Proof.
  intros H. destruct (optimize_routine_steps _ _ _ _ H) as [Ls S]. clear H.
  induction S as [g|g g' cur L Ls Hc Hok S IH].
  - split; [reflexivity|]. split; [reflexivity|]. split; [reflexivity|]. split; [reflexivity|].
    intros b. exists (fun _ => true). split; [|discriminate].
    induction (get_ops g b) as [|x t IHt]; [reflexivity|]. cbn [filter]. rewrite <- IHt. reflexivity.
  - destruct IH as [A [B [C [D E]]]].
    split; [rewrite A; apply rsa_next|]. split; [rewrite B; apply rsa_inc|].
    split; [intros b; rewrite C; apply rsa_out_of|]. split; [rewrite D; apply rsa_iterate|].
    intros b. destruct (E b) as [keep [E1 E2]]. rewrite rsa_get_ops in E1.
    destruct (mem_id b (iterate g start)).
    + exists (fun i => keep_op L i && keep i). split.
      * rewrite E1. clear. induction (get_ops g b) as [|x t IHt]; [reflexivity|]. cbn [filter].
        destruct (keep_op L x); cbn [filter andb]; [destruct (keep x); rewrite IHt; reflexivity|exact IHt].
      * intros i Hi. apply andb_false_iff in Hi. destruct Hi as [Hi|Hi]; [|apply E2, Hi].
        apply keep_op_false in Hi. tauto.
    + exists keep. split; assumption.
Qed.

(* ================================================================================================ *)
(* 10. Decidable forms of the static hypotheses (for examples and for the check)                     *)
(* ================================================================================================ *)
Definition ids_bounded_b (g : graph) (start : id) : bool :=
  Nat.ltb start (g_next g) &&
  forallb (fun b => forallb (fun x => Nat.ltb x (g_next g)) (out_of g b)) (seq 0 (g_next g)).

Lemma ids_bounded_b_sound g start : ids_bounded_b g start = true -> ids_bounded g start.
Proof.
  unfold ids_bounded_b. intros H. apply andb_true_iff in H. destruct H as [H1 H2].
  split; [apply Nat.ltb_lt, H1|]. intros b x Hb Hx. rewrite forallb_forall in H2.
  specialize (H2 b). rewrite forallb_forall in H2. apply Nat.ltb_lt, H2; [apply in_seq; lia|exact Hx].
Qed.

Definition slot_op_ok (i : instr) : bool :=
  match i_op i with
  | O_store | O_load => match i_args i with [ASlot _] => true | _ => false end
  | _ => true
  end.

Definition slot_ops_wf_b (g : graph) (order : list id) : bool :=
  forallb (fun b => forallb slot_op_ok (get_ops g b)) order.

Lemma slot_ops_wf_b_sound g order : slot_ops_wf_b g order = true -> slot_ops_wf g order.
Proof.
  unfold slot_ops_wf_b. intros H b i Hb Hi Ho. rewrite forallb_forall in H. specialize (H b Hb).
  rewrite forallb_forall in H. specialize (H i Hi). unfold slot_op_ok in H.
  destruct Ho as [Ho|Ho]; rewrite Ho in H; destruct (i_args i) as [|[| | |u|] [|]]; try discriminate; eauto.
Qed.

Definition loaded_slots (g : graph) (order : list id) : list N :=
  flat_map (fun i => if is_op i O_load then instr_slots i else []) (routine_ops g order).

Lemma has_load_iff g order u : has_load g order u <-> In u (loaded_slots g order).
Proof.
  unfold has_load, loaded_slots, routine_ops. split.
  - intros [b [i [Hb [Hi Hl]]]]. unfold load_of in Hl. apply andb_true_iff in Hl. destruct Hl as [H1 H2].
    apply in_flat_map. exists i. split; [apply in_flat_map; eauto|]. rewrite H1. apply mem_N_In, H2.
  - intros H. apply in_flat_map in H. destruct H as [i [Hi Hu]]. apply in_flat_map in Hi. destruct Hi as [b [Hb Hi]].
    destruct (is_op i O_load) eqn:E; [|destruct Hu]. exists b, i. split; [exact Hb|]. split; [exact Hi|].
    unfold load_of. rewrite E. apply mem_N_In, Hu.
Qed.

Definition no_orphan_b (g g' : graph) (start : id) : bool :=
  forallb (fun u => mem_N u (loaded_slots g' (iterate g start)) ||
                    Nat.leb (count (store_of u) (routine_ops g (iterate g start))) 1)
          (loaded_slots g (iterate g start)).

Lemma no_orphan_b_sound g g' start : no_orphan_b g g' start = true -> no_orphan_store g g' start.
Proof.
  unfold no_orphan_b. intros H u [H1 H2]. rewrite forallb_forall in H.
  apply has_load_iff in H1. specialize (H u H1). apply orb_true_iff in H. destruct H as [H|H].
  - exfalso. apply H2, has_load_iff, mem_N_In, H.
  - apply Nat.leb_le, H.
Qed.


(* ================================================================================================ *)
(* 11. Determinism of the graph semantics; running = reaching                                        *)
(* ================================================================================================ *)
Lemma star_det env G c d1 : star env G c d1 -> halting d1 -> forall d2, star env G c d2 -> halting d2 -> d1 = d2.
Proof.
  induction 1 as [c|c c' c'' E S IH]; intros H1 d2 S2 H2.
  - symmetry. apply (star_halting env G c d2 H1 S2).
  - inversion S2 as [|a b d E2 S2']; subst.
    + rewrite (gstep_halting env G d2 H2) in E. discriminate.
    + rewrite E in E2. injection E2 as <-. apply IH; assumption.
Qed.

Lemma grun_star env G : forall fuel c, star env G c (grun fuel env G c).
Proof.
  induction fuel as [|f IH]; intros c; cbn [grun]; [apply star_refl|].
  destruct (gstep env G c) as [c'|] eqn:E; [|apply star_refl]. eapply star_step; [exact E|apply IH].
Qed.

Definition ex_env : denv :=
  mkEnv (mkCtx true [] 0 [] [] 0%N) (fun u => u) [] [] true (fun _ => mkI O_err []).

Definition ex_st0 : mstate := init_state [] [] [].

(* ================================================================================================ *)
(* 12. The refutation: a second store of the cancelled slot                                          *)
(* ================================================================================================ *)
(* def f(): x.store(Int(1)); x.store(Int(2)); return x.load()      (x = slot object 7) *)
Definition rf_ops : list instr :=
  [mkI O_int [AInt 1]; mkI O_store [ASlot 7]; mkI O_int [AInt 2]; mkI O_store [ASlot 7];
   mkI O_load [ASlot 7]; mkI O_retsub []].

Definition rf_g : graph :=
  mkG (fun b => match b with O => Some (BSimple rf_ops None) | _ => None end) (fun _ => []) 1.

Definition rf_g' : graph :=
  match optimize_routine rf_g 0 [] with Some x => x | None => rf_g end.

(* the graph is what the model of compileSubroutine produces for that subroutine *)
Definition rf_opts : copts := mkOpts 8 true true false (fun _ => 0%N) (fun _ _ => 0%N).
Definition rf_routine : routine :=
  mkRoutine 1 "f" TUint []
    (ESeq [EOp O_store [ASlot 7] TNone [EOp O_int [AInt 1] TUint []];
           EOp O_store [ASlot 7] TNone [EOp O_int [AInt 2] TUint []];
           EReturn (Some (EOp O_load [ASlot 7] TUint []))]) None.

Example rf_g_is_the_lowering :
  match compile_one rf_opts (Some rf_routine) (decl_body rf_opts rf_routine) with
  | COk c => (cr_start c, map (fun b => (b, g_blk (cr_graph c) b)) (iterate (cr_graph c) (cr_start c)))
             = (0, map (fun b => (b, g_blk rf_g b)) (iterate rf_g 0))
  | CErr _ => False
  end.
Proof. vm_compute. reflexivity. Qed.

Example rf_optimised_ops : get_ops rf_g' 0 = [mkI O_int [AInt 1]; mkI O_int [AInt 2]; mkI O_retsub []].
Proof. vm_compute. reflexivity. Qed.

Lemma rf_opt : optimize_routine rf_g 0 [] = Some rf_g'.
Proof. unfold rf_g'. destruct (optimize_routine rf_g 0 []) eqn:E; [reflexivity|]. vm_compute in E. discriminate. Qed.

Definition rf_st1 : mstate := set_scratch (set_scratch ex_st0 7 (VI 1)) 7 (VI 2).

Lemma rf_run : star ex_env (g_blk rf_g) (GAt 0 [] ex_st0) (GRet [VI 2] rf_st1).
Proof.
  assert (E : grun 2 ex_env (g_blk rf_g) (GAt 0 [] ex_st0) = GRet [VI 2] rf_st1) by (vm_compute; reflexivity).
  rewrite <- E. apply grun_star.
Qed.

Lemma rf_run' : star ex_env (g_blk rf_g') (GAt 0 [] ex_st0) (GRet [VI 2; VI 1] ex_st0).
Proof.
  assert (E : grun 2 ex_env (g_blk rf_g') (GAt 0 [] ex_st0) = GRet [VI 2; VI 1] ex_st0) by (vm_compute; reflexivity).
  rewrite <- E. apply grun_star.
Qed.

Lemma rf_bounded : ids_bounded rf_g 0.
Proof. apply ids_bounded_b_sound. vm_compute. reflexivity. Qed.

Lemma rf_wf : slot_ops_wf rf_g (iterate rf_g 0).
Proof. apply slot_ops_wf_b_sound. vm_compute. reflexivity. Qed.

(* the hypothesis of [optimize_routine_sound_partial] that fails: slot 7 is removed and has two stores *)
Lemma rf_orphan : ~ no_orphan_store rf_g rf_g' 0.
Proof.
  intros H. specialize (H 7%N).
  assert (R : removed_slot rf_g rf_g' 0 7%N).
  { split; rewrite has_load_iff; [vm_compute; tauto|]. vm_compute. tauto. }
  specialize (H R). vm_compute in H. lia.
Qed.

Theorem optimizer_refuted :
  exists (g : graph) (start : id) (skip : list N) (g' : graph) (env : denv) (st : mstate)
         (stk1 : list value) (st1 : mstate) (stk2 : list value) (st2 : mstate),
    ids_bounded g start /\ slot_ops_wf g (iterate g start) /\
    optimize_routine g start skip = Some g' /\
    star env (g_blk g) (GAt start [] st) (GRet stk1 st1) /\
    star env (g_blk g') (GAt start [] st) (GRet stk2 st2) /\
    stk1 <> stk2 /\
    (* no exit of the optimised routine matches the original's, even if ALL scratch cells are ignored *)
    (~ exists c', star env (g_blk g') (GAt start [] st) c' /\ conf_eqx (fun _ => True) (GRet stk1 st1) c') /\
    ~ no_orphan_store g g' start.
Proof.
  exists rf_g, 0, [], rf_g', ex_env, ex_st0, [VI 2], rf_st1, [VI 2; VI 1], ex_st0.
  split; [exact rf_bounded|]. split; [exact rf_wf|]. split; [exact rf_opt|].
  split; [exact rf_run|]. split; [exact rf_run'|]. split; [discriminate|]. split; [|exact rf_orphan].
  intros [c' [S E]].
  assert (Hh : halting c') by (apply (conf_eqx_halting _ _ _ E); exact Logic.I).
  pose proof (star_det _ _ _ _ rf_run' Logic.I c' S Hh) as <-.
  cbn in E. destruct E as [E _]. discriminate E.
Qed.


(* the same body as the MAIN routine: the optimised text is `int 1; int 2; return` (DESIGN section 6); [return]
   looks only at the top of the stack, so the surplus value below it is not visible in the exit
   configuration of main — it is visible wherever the stack is handed on (retsub, above) *)
Definition rfm_g : graph :=
  mkG (fun b => match b with
                | O => Some (BSimple [mkI O_int [AInt 1]; mkI O_store [ASlot 7]; mkI O_int [AInt 2];
                                      mkI O_store [ASlot 7]; mkI O_load [ASlot 7]; mkI O_return_ []] None)
                | _ => None
                end) (fun _ => []) 1.

Example rf_main_variant :
  match optimize_routine rfm_g 0 [] with
  | Some g' =>
      get_ops g' 0 = [mkI O_int [AInt 1]; mkI O_int [AInt 2]; mkI O_return_ []] /\
      grun 2 ex_env (g_blk rfm_g) (GAt 0 [] ex_st0) = GExit (VI 2) rf_st1 /\
      grun 2 ex_env (g_blk g') (GAt 0 [] ex_st0) = GExit (VI 2) ex_st0 /\
      exec_ops ex_env [mkI O_int [AInt 1]; mkI O_int [AInt 2]] [] ex_st0 = BOk [VI 2; VI 1] ex_st0
  | None => False
  end.
Proof. vm_compute. repeat split; reflexivity. Qed.

(* ================================================================================================ *)
(* 13. Non-vacuity: a loop with one cancellable slot                                                 *)
(*     i.store(0); While(i.load() < 1).Do(Seq(t.store(Int(1)), i.store(t.load()))); Return(i.load()) *)
(*     (i = slot 5, t = slot 9)                                                                      *)
(* ================================================================================================ *)
Definition lp_g : graph :=
  mkG (fun b => match b with
                | 0 => Some (BSimple [mkI O_int [AInt 0]; mkI O_store [ASlot 5]] (Some 1))
                | 1 => Some (BCond [mkI O_load [ASlot 5]; mkI O_int [AInt 1]; mkI O_lt []] (Some 2) (Some 3))
                | 2 => Some (BSimple [mkI O_int [AInt 1]; mkI O_store [ASlot 9]; mkI O_load [ASlot 9];
                                      mkI O_store [ASlot 5]] (Some 1))
                | 3 => Some (BSimple [mkI O_load [ASlot 5]; mkI O_return_ []] None)
                | _ => None
                end) (fun _ => []) 4.

Definition lp_g' : graph := match optimize_routine lp_g 0 [] with Some x => x | None => lp_g end.

Lemma lp_opt : optimize_routine lp_g 0 [] = Some lp_g'.
Proof. unfold lp_g'. destruct (optimize_routine lp_g 0 []) eqn:E; [reflexivity|]. vm_compute in E. discriminate. Qed.

Example lp_optimised_ops :
  map (get_ops lp_g') (iterate lp_g' 0) =
  [[mkI O_int [AInt 0]; mkI O_store [ASlot 5]];
   [mkI O_load [ASlot 5]; mkI O_int [AInt 1]; mkI O_lt []];
   [mkI O_int [AInt 1]; mkI O_store [ASlot 5]];
   [mkI O_load [ASlot 5]; mkI O_return_ []]].
Proof. vm_compute. reflexivity. Qed.

Lemma lp_bounded : ids_bounded lp_g 0.
Proof. apply ids_bounded_b_sound. vm_compute. reflexivity. Qed.
Lemma lp_wf : slot_ops_wf lp_g (iterate lp_g 0).
Proof. apply slot_ops_wf_b_sound. vm_compute. reflexivity. Qed.
Lemma lp_no_orphan : no_orphan_store lp_g lp_g' 0.
Proof. apply no_orphan_b_sound. vm_compute. reflexivity. Qed.

Lemma lp_removed u : removed_slot lp_g lp_g' 0 u -> u = 9%N.
Proof.
  intros [H1 H2]. rewrite has_load_iff in H1, H2. vm_compute in H1. vm_compute in H2.
  destruct H1 as [<-|[<-|[<-|[]]]]; tauto.
Qed.

Lemma lp_inj : inj_on ex_env (removed_slot lp_g lp_g' 0).
Proof. intros u v _ _ H. exact H. Qed.

Lemma lp_safe stk st : safe_from (PL ex_env (removed_slot lp_g lp_g' 0)) ex_env (g_blk lp_g) (GAt 0 stk st).
Proof.
  intros b s a blk _ Eb.
  assert (K : forall i stk', (forall u, i <> mkI O_store [ASlot u]) -> instr_reads ex_env i stk' <> Some 9%N ->
                             PL ex_env (removed_slot lp_g lp_g' 0) i stk').
  { intros i stk' H1 H2. split; [intros u _ E; destruct (H1 u E)|].
    intros c Hr [u [Hu E]]. apply lp_removed in Hu. subst. destruct (H2 Hr). }
  assert (L9 : removed_slot lp_g lp_g' 0 9%N).
  { split; rewrite has_load_iff; vm_compute; intuition discriminate. }
  assert (Kst : forall u stk', (u = 9%N -> stk' <> []) -> PL ex_env (removed_slot lp_g lp_g' 0) (mkI O_store [ASlot u]) stk').
  { intros u stk' H. split; [|intros c Hr; discriminate Hr].
    intros u' Hu E. apply lp_removed in Hu. subst u'. injection E as ->. apply H. reflexivity. }
  assert (Kld : PL ex_env (removed_slot lp_g lp_g' 0) (mkI O_load [ASlot 9]) []
                /\ forall stk', PL ex_env (removed_slot lp_g lp_g' 0) (mkI O_load [ASlot 9]) stk').
  { split; [|intros stk']; (split; [intros u _ E; discriminate E|]); intros c _ _; exists 9%N; split; [exact L9|reflexivity|exact L9|reflexivity]. }
  destruct Kld as [_ Kld].
  Local Ltac run_op :=
    match goal with
    | |- context [do_op ?e ?o ?x ?s ?t] =>
        let r := eval vm_compute in (do_op e o x s t) in change (do_op e o x s t) with r
    end; cbv beta iota.
  Local Ltac pt K := cbn [ops_safe i_op i_args is_return is_retsub]; split;
    [apply K; [intros u E; discriminate E|cbn; discriminate]|].
  destruct b as [|[|[|[|b]]]]; cbn in Eb; try discriminate; injection Eb as <-; cbn [b_ops].
  - pt K. run_op. cbn [ops_safe i_op i_args is_return is_retsub]. split; [apply Kst; discriminate|]. run_op. exact Logic.I.
  - pt K. run_op. pt K. run_op. pt K.
    match goal with |- match ?x with _ => _ end => destruct x end; exact Logic.I.
  - pt K. run_op. cbn [ops_safe i_op i_args is_return is_retsub]. split; [apply Kst; discriminate|]. run_op.
    cbn [ops_safe i_op i_args is_return is_retsub]. split; [apply Kld|]. run_op.
    cbn [ops_safe i_op i_args is_return is_retsub]. split; [apply Kst; discriminate|]. run_op. exact Logic.I.
  - pt K. run_op. cbn [ops_safe i_op i_args is_return is_retsub]. exact Logic.I.
Qed.

(* the hypotheses of the main theorem are jointly satisfiable, and the run it speaks about exists *)
Example lp_sound stk st c : halting c ->
  (star ex_env (g_blk lp_g) (GAt 0 stk st) c ->
     exists c', star ex_env (g_blk lp_g') (GAt 0 stk st) c' /\
                conf_eqx (cellsL ex_env (removed_slot lp_g lp_g' 0)) c c') /\
  (star ex_env (g_blk lp_g') (GAt 0 stk st) c ->
     exists c0, star ex_env (g_blk lp_g) (GAt 0 stk st) c0 /\
                conf_eqx (cellsL ex_env (removed_slot lp_g lp_g' 0)) c0 c).
Proof.
  exact (optimize_routine_sound_partial ex_env lp_g 0 [] lp_g' lp_opt lp_bounded lp_wf lp_no_orphan lp_inj
           stk st (lp_safe stk st) c).
Qed.

Example lp_runs :
  grun 10 ex_env (g_blk lp_g) (GAt 0 [] ex_st0) =
    GExit (VI 1) (set_scratch (set_scratch (set_scratch ex_st0 5 (VI 0)) 9 (VI 1)) 5 (VI 1)) /\
  grun 10 ex_env (g_blk lp_g') (GAt 0 [] ex_st0) =
    GExit (VI 1) (set_scratch (set_scratch ex_st0 5 (VI 0)) 5 (VI 1)).
Proof. split; vm_compute; reflexivity. Qed.

(* [PL] only depends on the extension of the slot universe *)
Lemma PL_ext env (L L' : N -> Prop) i stk : (forall s, L s <-> L' s) -> PL env L i stk -> PL env L' i stk.
Proof.
  intros H [H1 H2]. split.
  - intros s Hs. apply H1, H, Hs.
  - intros c Hr [s [Hs E]]. destruct (H2 c Hr) as [u [Hu Ei]]; [exists s; split; [apply H, Hs|exact E]|].
    exists u. split; [apply H, Hu|exact Ei].
Qed.

Lemma ops_safe_impl (P P' : instr -> list value -> Prop) env : (forall i stk, P i stk -> P' i stk) ->
  forall ops stk st, ops_safe P env ops stk st -> ops_safe P' env ops stk st.
Proof.
  intros H. induction ops as [|i t IH]; intros stk st; cbn [ops_safe]; [tauto|].
  destruct (is_return (i_op i)); [tauto|]. destruct (is_retsub (i_op i)); [tauto|].
  intros [A B]. split; [apply H, A|].
  destruct (do_op env (i_op i) (i_args i) stk st); try exact Logic.I. apply IH, B.
Qed.

Lemma safe_from_impl (P P' : instr -> list value -> Prop) env G c :
  (forall i stk, P i stk -> P' i stk) -> safe_from P env G c -> safe_from P' env G c.
Proof. intros H Hs b stk st blk S E. eapply ops_safe_impl; [exact H|]. eapply Hs; eauto. Qed.

(* ... and so are those of the single-slot theorem (slot 9 in block 2) *)
Example lp_cancel stk st c : halting c ->
  (star ex_env (g_blk lp_g) (GAt 0 stk st) c ->
     exists c', star ex_env (g_blk (remove_slot_access lp_g 0 [9%N])) (GAt 0 stk st) c' /\
                conf_eqx (fun x => x = 9%N) c c') /\
  (star ex_env (g_blk (remove_slot_access lp_g 0 [9%N])) (GAt 0 stk st) c ->
     exists c0, star ex_env (g_blk lp_g) (GAt 0 stk st) c0 /\ conf_eqx (fun x => x = 9%N) c0 c).
Proof.
  apply (opt_cancel_sound ex_env lp_g 0 9%N 2 [mkI O_int [AInt 1]] [mkI O_store [ASlot 5]] lp_bounded).
  - vm_compute. tauto.
  - reflexivity.
  - intros i [<-|[<-|[]]]; reflexivity.
  - intros b i Hb Hne Hi. vm_compute in Hb.
    destruct Hb as [<-|[<-|[<-|[<-|[]]]]]; try congruence; vm_compute in Hi;
      repeat (destruct Hi as [<-|Hi]; [reflexivity|]); destruct Hi.
  - eapply safe_from_impl; [|apply lp_safe]. intros i stk'. apply PL_ext.
    intros s. split; [intros Hr; symmetry; apply lp_removed, Hr|]. intros <-. split; rewrite has_load_iff; vm_compute; intuition discriminate.
Qed.


(* ================================================================================================ *)
(* 15. [no_orphan_store] is the class predicate of the known finding: Compile.opt_orphans = []       *)
(* ================================================================================================ *)
Lemma count_zero {A} (p : A -> bool) l : (forall x, In x l -> p x = false) -> count p l = 0.
Proof.
  unfold count. induction l as [|x t IH]; intros H; [reflexivity|]. cbn [filter].
  rewrite (H x (or_introl eq_refl)). apply IH. intros y Hy. apply H. right. exact Hy.
Qed.

Lemma count_filter_same {A} (p q : A -> bool) l :
  (forall x, In x l -> p x = true -> q x = true) -> count p (filter q l) = count p l.
Proof.
  unfold count. induction l as [|x t IH]; intros H; [reflexivity|]. cbn [filter].
  assert (IH' := IH (fun y Hy => H y (or_intror Hy))).
  destruct (q x) eqn:Eq; cbn [filter]; destruct (p x) eqn:Ep; cbn [List.length]; try (rewrite IH'; reflexivity).
  rewrite (H x (or_introl eq_refl) Ep) in Eq. discriminate.
Qed.

Lemma count_filter_zero {A} (p q : A -> bool) l :
  (forall x, In x l -> p x = true -> q x = false) -> count p (filter q l) = 0.
Proof.
  intros H. apply count_zero. intros x Hx. apply filter_In in Hx. destruct Hx as [Hx Hq].
  destruct (p x) eqn:Ep; [|reflexivity]. rewrite (H x Hx Ep) in Hq. discriminate.
Qed.

Lemma count_pos {A} (p : A -> bool) l : 1 <= count p l <-> exists x, In x l /\ p x = true.
Proof.
  unfold count. split.
  - destruct (filter p l) as [|x t] eqn:E; [cbn; lia|]. intros _. exists x.
    apply filter_In. rewrite E. left. reflexivity.
  - intros [x [Hx Hp]]. assert (H : In x (filter p l)) by (apply filter_In; auto).
    destruct (filter p l); [destruct H|cbn; lia].
Qed.

Lemma count_le1_pos {A} (p : A -> bool) : forall l pos,
  (forall j x, nth_error l j = Some x -> j <> pos -> p x = false) -> count p l <= 1.
Proof.
  induction l as [|y t IH]; intros pos H; [cbn; lia|].
  change (count p (y :: t)) with (count p ([y] ++ t)). rewrite count_app.
  destruct pos as [|pos].
  - rewrite (count_zero p t); [unfold count; cbn [filter]; destruct (p y); cbn; lia|].
    intros x Hx. destruct (In_nth_error _ _ Hx) as [j Hj]. apply (H (S j) x Hj). discriminate.
  - rewrite (count_zero p [y]).
    + specialize (IH pos). cbn [plus]. apply IH. intros j x Hj Hne. apply (H (S j) x Hj). congruence.
    + intros x [<-|[]]. apply (H 0 y eq_refl). discriminate.
Qed.

Lemma count_flat_map_zero {B} (p : B -> bool) (f : id -> list B) : forall order,
  (forall b, In b order -> count p (f b) = 0) -> count p (flat_map f order) = 0.
Proof.
  induction order as [|w t IH]; intros H; [reflexivity|]. cbn [flat_map]. rewrite count_app.
  rewrite (H w (or_introl eq_refl)), IH; [reflexivity|]. intros b Hb. apply H. right. exact Hb.
Qed.

Lemma count_flat_map_single {B} (p : B -> bool) (f : id -> list B) (cur : id) : forall order,
  NoDup order -> (forall b, In b order -> b <> cur -> count p (f b) = 0) ->
  count p (flat_map f order) <= count p (f cur).
Proof.
  induction order as [|w t IH]; intros Hn H; [cbn; lia|].
  inversion Hn as [|? ? Hw Hn']; subst. cbn [flat_map]. rewrite count_app.
  destruct (Nat.eq_dec w cur) as [->|Hne].
  - rewrite (count_flat_map_zero p f t); [lia|].
    intros b Hb. apply H; [right; exact Hb|]. intros ->. contradiction.
  - rewrite (H w (or_introl eq_refl) Hne). cbn [plus]. apply IH; [exact Hn'|].
    intros b Hb. apply H. right. exact Hb.
Qed.

Lemma nodup_app_l {A} (a b : list A) : NoDup (a ++ b) -> NoDup a.
Proof.
  induction a as [|x a IH]; intros H; [constructor|]. cbn [app] in H. inversion H as [|? ? Hx Hn]; subst.
  constructor; [intros Hi; apply Hx, in_or_app; left; exact Hi|apply IH, Hn].
Qed.

(* TealBlock.Iterate yields every block once *)
Lemma bfs_nodup g : forall fuel q v acc, v = rev acc ++ q -> NoDup v -> NoDup (bfs fuel g q v acc).
Proof.
  induction fuel as [|f IH]; intros q v acc Hv Hn.
  - cbn [bfs]. subst v. apply nodup_app_l in Hn. exact Hn.
  - cbn [bfs]. destruct q as [|w q].
    + subst v. rewrite app_nil_r in Hn. exact Hn.
    + match goal with
      | |- context [fold_left ?F (out_of g w) (q, v)] =>
          destruct (enq_spec F (fun _ _ _ => eq_refl) (out_of g w) q v) as [added [H1 [H2 [H3 H4]]]]
      end.
      rewrite H1. apply IH.
      * subst v. cbn [rev]. rewrite <- !app_assoc. reflexivity.
      * apply nodup_app_intro; [exact Hn|exact H2|]. intros x Hx. apply (H3 x Hx).
Qed.

Lemma iterate_nodup g start : NoDup (iterate g start).
Proof. unfold iterate. apply bfs_nodup; [reflexivity|]. constructor; [intros []|constructor]. Qed.

Definition loads_n (g : graph) (order : list id) (u : N) : nat := count (load_of u) (routine_ops g order).
Definition stores_n (g : graph) (order : list id) (u : N) : nat := count (store_of u) (routine_ops g order).

Lemma has_load_count g order u : has_load g order u <-> 1 <= loads_n g order u.
Proof.
  unfold loads_n, routine_ops. rewrite count_pos. unfold has_load. split.
  - intros [b [i [Hb [Hi Hl]]]]. exists i. split; [apply in_flat_map; eauto|exact Hl].
  - intros [i [Hi Hl]]. apply in_flat_map in Hi. destruct Hi as [b [Hb Hi]]. eauto.
Qed.

(* DepNo in count form: the routine has at most one load that mentions the slot *)
Lemma deps_no_count g order cur div u pos :
  NoDup order -> In cur order -> deps_scan g order cur div u pos = DepNo -> loads_n g order u <= 1.
Proof.
  intros Hn Hc Hd. unfold loads_n, routine_ops.
  eapply Nat.le_trans; [apply (count_flat_map_single _ _ cur order Hn)|].
  - intros b Hb Hne. apply count_zero. intros x Hx. destruct (In_nth_error _ _ Hx) as [j Hj].
    pose proof (deps_scan_no _ _ _ _ _ _ Hd b Hb) as X.
    assert (E : Nat.eqb b cur = false) by (apply Nat.eqb_neq, Hne). rewrite E in X.
    apply (block_has_load_false _ _ _ _ j x X Hj). discriminate.
  - apply (count_le1_pos _ _ pos). intros j x Hj Hne.
    pose proof (deps_scan_no _ _ _ _ _ _ Hd cur Hc) as X. rewrite Nat.eqb_refl in X.
    apply (block_has_load_false _ _ _ _ j x X Hj). congruence.
Qed.

Lemma store_of_inv u i : store_of u i = true -> i_op i = O_store /\ In u (instr_slots i).
Proof. unfold store_of. intros H. apply andb_true_iff in H. destruct H as [H1 H2]. split; [apply is_op_store, H1|apply mem_N_In, H2]. Qed.

Lemma keep_op_notin L u i : ~ In u L -> (i = mkI O_store [ASlot u] \/ i = mkI O_load [ASlot u]) -> keep_op L i = true.
Proof.
  intros Hn Hi. destruct (keep_op L i) eqn:E; [reflexivity|]. apply keep_op_false in E. destruct E as [_ E].
  exfalso. apply Hn, E. destruct Hi as [-> | ->]; left; reflexivity.
Qed.

Section StepCounts.
  Variables (g : graph) (start : id) (L : list N).
  Let order := iterate g start.
  Hypothesis W : slot_ops_wf g order.

  Lemma in_routine_ops x : In x (routine_ops g order) -> exists b, In b order /\ In x (get_ops g b).
  Proof. unfold routine_ops. intros H. apply in_flat_map in H. exact H. Qed.

  Lemma rsa_counts_in u : In u L ->
    loads_n (remove_slot_access g start L) order u = 0 /\ stores_n (remove_slot_access g start L) order u = 0.
  Proof.
    intros Hu. unfold loads_n, stores_n, order. rewrite rsa_routine_ops. split; apply count_filter_zero; intros x Hx Hp;
      destruct (in_routine_ops x Hx) as [b [Hb Hi]].
    - destruct (load_of_inv _ _ Hp) as [Ho Hs]. rewrite (wf_load _ _ _ _ _ W Hb Hi Ho Hs). apply keep_op_load, Hu.
    - destruct (store_of_inv _ _ Hp) as [Ho Hs]. rewrite (wf_store _ _ _ _ _ W Hb Hi Ho Hs). apply keep_op_store, Hu.
  Qed.

  Lemma rsa_counts_notin u : ~ In u L ->
    loads_n (remove_slot_access g start L) order u = loads_n g order u /\
    stores_n (remove_slot_access g start L) order u = stores_n g order u.
  Proof.
    intros Hu. unfold loads_n, stores_n, order. rewrite rsa_routine_ops. split; apply count_filter_same; intros x Hx Hp;
      destruct (in_routine_ops x Hx) as [b [Hb Hi]].
    - destruct (load_of_inv _ _ Hp) as [Ho Hs]. apply (keep_op_notin L u x Hu). right. apply (wf_load _ _ _ _ _ W Hb Hi Ho Hs).
    - destruct (store_of_inv _ _ Hp) as [Ho Hs]. apply (keep_op_notin L u x Hu). left. apply (wf_store _ _ _ _ _ W Hb Hi Ho Hs).
  Qed.
End StepCounts.

Lemma rsteps_count_le start g g' Ls (p : instr -> bool) :
  rsteps start g g' Ls ->
  count p (routine_ops g' (iterate g start)) <= count p (routine_ops g (iterate g start)).
Proof.
  induction 1 as [g|g g' cur L Ls Hc Hok S IH]; [apply le_n|].
  rewrite rsa_iterate in IH. eapply Nat.le_trans; [exact IH|]. rewrite rsa_routine_ops. apply count_filter_le.
Qed.

Lemma rsteps_counts start g g' Ls : rsteps start g g' Ls -> slot_ops_wf g (iterate g start) -> forall u,
  (In u Ls -> loads_n g (iterate g start) u <= 1 /\
              loads_n g' (iterate g start) u = 0 /\ stores_n g' (iterate g start) u = 0) /\
  (~ In u Ls -> loads_n g' (iterate g start) u = loads_n g (iterate g start) u).
Proof.
  induction 1 as [g|g g' cur L Ls Hc Hok S IH]; intros W u.
  - split; [intros []|reflexivity].
  - assert (W1 : slot_ops_wf (remove_slot_access g start L) (iterate (remove_slot_access g start L) start)).
    { rewrite rsa_iterate. apply rsa_wf, W. }
    destruct (IH W1 u) as [IH1 IH2]. rewrite rsa_iterate in IH1, IH2.
    destruct (in_dec N.eq_dec u L) as [HuL|HuL].
    + split; [intros _|intros Hn; exfalso; apply Hn, in_or_app; left; exact HuL].
      destruct (Hok u HuL) as [iu [div [_ Hdep]]].
      split; [apply (deps_no_count _ _ _ _ _ _ (iterate_nodup g start) Hc Hdep)|].
      destruct (rsa_counts_in g start L W u HuL) as [A B].
      pose proof (rsteps_count_le _ _ _ _ (load_of u) S) as A'. pose proof (rsteps_count_le _ _ _ _ (store_of u) S) as B'.
      rewrite rsa_iterate in A', B'. unfold loads_n, stores_n in *. lia.
    + destruct (rsa_counts_notin g start L W u HuL) as [A B]. split.
      * intros Hin. apply in_app_or in Hin. destruct Hin as [Hin|Hin]; [contradiction|].
        destruct (IH1 Hin) as [X [Y Z]]. rewrite A in X. auto.
      * intros Hn. rewrite IH2; [exact A|]. intros Hin. apply Hn, in_or_app. right. exact Hin.
Qed.

(* the count inequality of Compile.opt_orphans, for one routine *)
Definition orphan_free (g g' : graph) (start : id) : Prop :=
  forall u, stores_n g (iterate g start) u - stores_n g' (iterate g start) u
            <= loads_n g (iterate g start) u - loads_n g' (iterate g start) u.

Theorem orphan_free_no_orphan_store start g g' Ls :
  rsteps start g g' Ls -> slot_ops_wf g (iterate g start) -> orphan_free g g' start -> no_orphan_store g g' start.
Proof.
  intros S W Hof u [H1 H2]. rewrite has_load_count in H1, H2.
  destruct (rsteps_counts _ _ _ _ S W u) as [A B].
  destruct (in_dec N.eq_dec u Ls) as [Hin|Hin].
  - destruct (A Hin) as [X [Y Z]]. specialize (Hof u). unfold stores_n, loads_n in *. lia.
  - exfalso. apply H2. rewrite (B Hin). exact H1.
Qed.

(* ---- the literal predicate of Comp/Compile.v ---- *)
Lemma in_insert_sorted x y l : In x (insert_sorted y l) <-> x = y \/ In x l.
Proof.
  induction l as [|z t IH]; cbn [insert_sorted In]; [intuition congruence|].
  destruct (N.eqb y z) eqn:E1.
  - apply N.eqb_eq in E1. subst z. cbn [In]. intuition congruence.
  - destruct (N.ltb y z); cbn [In]; [intuition congruence|]. rewrite IH. intuition congruence.
Qed.

Lemma in_sort_dedup x l : In x (sort_dedup l) <-> In x l.
Proof.
  unfold sort_dedup. induction l as [|y t IH]; cbn [fold_right In]; [tauto|].
  rewrite in_insert_sorted, IH. intuition congruence.
Qed.

Lemma flat_map_nil {A B} (f : A -> list B) l : flat_map f l = [] -> forall x, In x l -> f x = [].
Proof.
  induction l as [|y t IH]; intros H x []; cbn [flat_map] in H; apply app_eq_nil in H; destruct H as [H1 H2].
  - subst. exact H1.
  - apply IH; assumption.
Qed.

Lemma filter_nil {A} (p : A -> bool) l : filter p l = [] -> forall x, In x l -> p x = false.
Proof.
  intros H x Hx. destruct (p x) eqn:E; [|reflexivity].
  assert (In x (filter p l)) by (apply filter_In; auto). rewrite H in H0. destruct H0.
Qed.

Lemma count_slot_ops_load sub g start e u : count_slot_ops (mkCR sub g start e) O_load u = loads_n g (iterate g start) u.
Proof. reflexivity. Qed.
Lemma count_slot_ops_store sub g start e u : count_slot_ops (mkCR sub g start e) O_store u = stores_n g (iterate g start) u.
Proof. reflexivity. Qed.

Theorem opt_orphans_nil_no_orphan_store o p crs c g' :
  compile_rec (S (List.length (p_subs p))) o p None (p_main p) [] = COk crs ->
  In c crs ->
  optimize_routine (cr_graph c) (cr_start c) (skip_slots p crs) = Some g' ->
  slot_ops_wf (cr_graph c) (iterate (cr_graph c) (cr_start c)) ->
  opt_orphans o p = [] ->
  no_orphan_store (cr_graph c) g' (cr_start c).
Proof.
  intros Hc Hin Ho W Hnil. destruct c as [sub g start e]. cbn [cr_graph cr_start] in *.
  destruct (optimize_routine_steps _ _ _ _ Ho) as [Ls S].
  apply (orphan_free_no_orphan_store start g g' Ls S W).
  unfold opt_orphans in Hnil. rewrite Hc in Hnil.
  pose proof (flat_map_nil _ _ Hnil _ Hin) as X. cbn [cr_graph cr_start cr_sub cr_end] in X. rewrite Ho in X.
  intros u. destruct (in_dec N.eq_dec u (routine_slots (mkCR sub g start e))) as [Hu|Hu].
  - pose proof (filter_nil _ _ X u Hu) as Y. cbv beta in Y.
    rewrite !count_slot_ops_load, !count_slot_ops_store in Y. rewrite (rsteps_iterate _ _ _ _ S) in Y.
    apply Nat.ltb_ge in Y. exact Y.
  - assert (Z : stores_n g (iterate g start) u = 0).
    { apply count_zero. intros x Hx. destruct (store_of u x) eqn:E; [|reflexivity]. exfalso. apply Hu.
      destruct (store_of_inv _ _ E) as [_ Hs]. unfold routine_slots. apply in_sort_dedup. cbn [cr_graph cr_start].
      unfold routine_ops in Hx. apply in_flat_map in Hx. destruct Hx as [b [Hb Hx]].
      apply in_flat_map. exists b. split; [exact Hb|]. apply in_flat_map. exists x. split; assumption. }
    rewrite Z. lia.
Qed.


(* ================================================================================================ *)
(* 16. A static sufficient condition for the "reads" half of [PL]                                    *)
(* ================================================================================================ *)
Lemma instr_reads_cases env i stk c :
  instr_reads env i stk = Some c ->
  (exists u, i = mkI O_load [ASlot u] /\ c = e_asg env u) \/
  (i_op i = O_load /\ forall u, i_args i <> [ASlot u]) \/
  i_op i = O_loads.
Proof.
  destruct i as [o a]. unfold instr_reads. cbn [i_op i_args].
  destruct (slot_access o a) as [[[|] u]|] eqn:Es.
  - intros H. injection H as <-. left. exists u. split; [|reflexivity].
    unfold slot_access in Es. destruct a as [|x t]; [discriminate|]. destruct x; try discriminate. destruct t; [|discriminate].
    destruct (is_load o) eqn:El; [|destruct (is_store o); discriminate]. injection Es as <-.
    destruct o; try discriminate El. reflexivity.
  - discriminate.
  - destruct (args_to_imms env o a) as [im|]; [|discriminate]. intros H.
    destruct o; cbn in H; try discriminate H.
    + right. left. split; [reflexivity|]. intros u ->. cbn in Es. discriminate.
    + right. right. reflexivity.
Qed.

(* no [loads]; every [load] is the load of a variable that is removable itself or has a number no removable
   variable has; stores of removable variables find their operand *)
Theorem PL_static env (L : N -> Prop) i stk :
  i_op i <> O_loads ->
  (i_op i = O_load -> exists u, i_args i = [ASlot u] /\ (L u \/ ~ cellsL env L (e_asg env u))) ->
  (forall s, L s -> i = mkI O_store [ASlot s] -> stk <> []) ->
  PL env L i stk.
Proof.
  intros H1 H2 H3. split; [exact H3|]. intros c Hr Hc.
  destruct (instr_reads_cases env i stk c Hr) as [[u [-> ->]]|[[Ho Ha]|Ho]].
  - destruct (H2 eq_refl) as [u' [Ea [Hu|Hu]]]; injection Ea as <-; [exists u; auto|contradiction].
  - destruct (H2 Ho) as [u [Ea _]]. destruct (Ha u Ea).
  - contradiction.
Qed.

(* ================================================================================================ *)
(* 17. The pipeline form: for a routine of a program with no orphan store                           *)
(* ================================================================================================ *)
Theorem compiled_routine_optimizer_sound env o p crs c g' :
  compile_rec (S (List.length (p_subs p))) o p None (p_main p) [] = COk crs ->
  In c crs ->
  optimize_routine (cr_graph c) (cr_start c) (skip_slots p crs) = Some g' ->
  opt_orphans o p = [] ->
  ids_bounded (cr_graph c) (cr_start c) ->
  slot_ops_wf (cr_graph c) (iterate (cr_graph c) (cr_start c)) ->
  inj_on env (removed_slot (cr_graph c) g' (cr_start c)) ->
  forall stk st,
    safe_from (PL env (removed_slot (cr_graph c) g' (cr_start c))) env (g_blk (cr_graph c)) (GAt (cr_start c) stk st) ->
    forall x, halting x ->
      (star env (g_blk (cr_graph c)) (GAt (cr_start c) stk st) x ->
         exists x', star env (g_blk g') (GAt (cr_start c) stk st) x' /\
                    conf_eqx (cellsL env (removed_slot (cr_graph c) g' (cr_start c))) x x') /\
      (star env (g_blk g') (GAt (cr_start c) stk st) x ->
         exists x0, star env (g_blk (cr_graph c)) (GAt (cr_start c) stk st) x0 /\
                    conf_eqx (cellsL env (removed_slot (cr_graph c) g' (cr_start c))) x0 x).
Proof.
  intros Hc Hin Ho Hnil Hb W Hinj stk st Hs.
  apply (optimize_routine_sound_partial env _ _ _ _ Ho Hb W
           (opt_orphans_nil_no_orphan_store o p crs c g' Hc Hin Ho W Hnil) Hinj stk st Hs).
Qed.
