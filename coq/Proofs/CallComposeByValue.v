(* Proofs/CallComposeByValue.v — property C02: the BY-VALUE reading of calls.
   [denote_c] (Src/DenoteCall.v): the callee runs on a stack of its own with its parameters bound to the
   argument VALUES, the caller gets the returned value on top of what it held.
   [denote_k] (Proofs/CallComposeMain.v; what the linked code computes): the arguments are stored into the
   parameters' slots, the callee runs on the caller's stack, [EParam i] loads slot i.
   [by_value_sim]: for programs whose call graph is acyclic (rank), whose parameters are by-value, whose
   bodies reach parameter slots only through EParam and use no raw/dynamic scratch access, and whose routines
   return exactly their result ([disciplined]), every NON-FAILING run of [denote_c] (with no restoring of
   callee slots: [ce_locals = []]) is a run of [denote_k] for all larger fuels and depths: same control
   outcome, same stack on top of the untouched rest, states equal outside the parameter slots, the
   parameter slots of the current routine (and of every routine of at least its rank) unchanged. *)
From Coq Require Import List Arith NArith String Bool Lia.
From PV Require Import Base.Bytes AVM.Syntax AVM.Ops AVM.Machine Src.Expr Src.Denote Src.DenoteCall
  Comp.Blocks Comp.Lower Comp.Passes Comp.Compile Comp.WideRatio
  Proofs.LowerShape Proofs.NormalizeLowered Proofs.SlotComposeAssign
  CallX.Denote Proofs.CallComposeLink Proofs.CallComposeMain Proofs.CallComposeSpillPass
  Proofs.CallComposeBind Proofs.CallComposeFrame.
Import ListNotations.
Local Open Scope list_scope.

(* ---- outcomes ---- *)
Definition good (r : dout) : Prop := match r with DFail | DFuel | DUnsup _ => False | _ => True end.

Definition lift (r : dout) (rest : list value) (st : mstate) : dout :=
  match r with
  | DNorm s _ => DNorm (s ++ rest) st
  | DBrk s _ => DBrk (s ++ rest) st
  | DCont s _ => DCont (s ++ rest) st
  | DRet s _ => DRet (s ++ rest) st
  | DEnd s _ => DEnd (s ++ rest) st
  | DExit v _ => DExit v st
  | other => other
  end.

Definition st_of (r : dout) : option mstate :=
  match r with
  | DNorm _ st | DBrk _ st | DCont _ st | DRet _ st | DEnd _ st | DExit _ st => Some st
  | _ => None
  end.

Definition same_rest (a b : mstate) : Prop :=
  s_global a = s_global b /\ s_local a = s_local b /\ s_boxes a = s_boxes b /\
  s_itxn a = s_itxn b /\ s_last_itxn a = s_last_itxn b /\ s_trace a = s_trace b.

Lemma with_sc_same st k : same_rest st k -> k = with_sc (s_scratch k) st.
Proof. destruct st, k. unfold same_rest, with_sc. cbn. intros (-> & -> & -> & -> & -> & ->). reflexivity. Qed.

Lemma same_rest_with_sc sc st : same_rest st (with_sc sc st).
Proof. repeat split. Qed.

Section ByValue.
  Variable o : copts.
  Hypothesis Hfp : o_use_fp o = false.
  Variable cx : ctx.
  Variable look : N -> N.
  Variable msel : list (string * bytes).
  Variable subs : list routine.
  Variable rank : N -> nat.
  Variable PL : list N.                       (* the slot objects that are parameter slots *)

  Definition envC : Src.Denote.denv := Src.Denote.mkEnv cx look msel subs false main_param.
  Definition ceC : cenv := mkCEnv envC (fun _ => []).

  (* the scratch numbers of parameter slots *)
  Definition Pn (n : N) : Prop := In n (map look PL).
  (* a slot object whose number is not a parameter slot's *)
  Definition free (u : N) : bool := negb (mem_N (look u) (map look PL)).

  (* ---- the program conditions ---- *)
  Definition params_ok : Prop :=
    (forall r b s, In r subs -> In (b, s) (r_params r) -> b = false /\ In s PL) /\
    (forall r, In r subs -> NoDup (map look (map snd (r_params r)))) /\
    (forall r r' p p', In r subs -> In r' subs -> In p (r_params r) -> In p' (r_params r') ->
                       look (snd p) = look (snd p') -> rank (r_id r) = rank (r_id r')).

  Definition arg_ok (a : arg) : bool := match a with ASlot u => free u | _ => true end.

  Definition op_ok (op : opc) (imms : list arg) : bool :=
    match slot_access op imms with
    | Some (_, u) => free u
    | None => negb (scratch_op op) && forallb arg_ok imms
    end.

  Fixpoint okb (k : nat) (e : expr) {struct e} : bool :=
    match e with
    | EOp op imms _ a => op_ok op imms && forallb (okb k) a
    | ENary op _ a => op_ok op [] && forallb (okb k) a
    | ESeq es => forallb (okb k) es
    | EIf c th el => okb k c && okb k th && match el with Some x => okb k x | None => true end
    | ECond arms => forallb (fun a => okb k (fst a) && okb k (snd a)) arms
    | EWhile c b => okb k c && okb k b
    | EFor i c s b => okb k i && okb k c && okb k s && okb k b
    | EBreak | EContinue => true
    | EAssert conds _ => forallb (okb k) conds
    | EReturn None => true
    | EReturn (Some v) => okb k v
    | EExit v => okb k v
    | EMulti op imms a outs => op_ok op imms && forallb (okb k) a && forallb free outs
    | ECall g _ a => forallb (okb k) a &&
                     match find_routine subs g with Some r => Nat.ltb (rank (r_id r)) k | None => true end
    | EWide ns ds => forallb (okb k) ns && forallb (okb k) ds
    | EParam _ => true
    end.

  Definition bodies_ok : Prop := forall r, In r subs -> okb (rank (r_id r)) (body_with_return r) = true.

  (* a routine returns exactly its result *)
  Definition disciplined : Prop :=
    forall r f argv st s' st', In r subs ->
      denote_c ceC f (Some r) argv (body_with_return r) [] st = DRet s' st' ->
      match r_ret r with TNone => s' = [] | _ => exists v, s' = [v] end.

  Hypothesis HP : params_ok.
  Hypothesis HB : bodies_ok.
  Hypothesis HD : disciplined.

  (* ---- the relation between the two states ---- *)
  Definition Rel (stK stC : mstate) : Prop :=
    same_rest stC stK /\ forall n, ~ Pn n -> scratch_get (s_scratch stK) n = scratch_get (s_scratch stC) n.

  (* the parameter slots of routines of rank >= k are untouched *)
  Definition Keeps (k : nat) (st st' : mstate) : Prop :=
    forall r p, In r subs -> (k <= rank (r_id r))%nat -> In p (r_params r) ->
      scratch_get (s_scratch st') (look (snd p)) = scratch_get (s_scratch st) (look (snd p)).

  Lemma Keeps_refl k st : Keeps k st st.
  Proof. intros r p _ _ _. reflexivity. Qed.
  Lemma Keeps_trans k a b c : Keeps k a b -> Keeps k b c -> Keeps k a c.
  Proof. intros H1 H2 r p Hr Hk Hp. rewrite (H2 r p Hr Hk Hp). exact (H1 r p Hr Hk Hp). Qed.
  Lemma Keeps_mono k k' a b : (k <= k')%nat -> Keeps k a b -> Keeps k' a b.
  Proof. intros L H r p Hr Hk Hp. exact (H r p Hr ltac:(lia) Hp). Qed.

  (* the current routine's parameters hold its arguments *)
  Definition Bound (cur : option routine) (args : list value) (st : mstate) : Prop :=
    match cur with
    | None => args = []
    | Some r => List.length args = List.length (r_params r) /\
                forall i p, nth_error (r_params r) i = Some p ->
                            nth_error args i = Some (scratch_get (s_scratch st) (look (snd p)))
    end.

  Definition cur_ok (k : nat) (cur : option routine) : Prop :=
    match cur with None => True | Some r => In r subs /\ (k <= rank (r_id r))%nat end.

  Lemma Bound_keeps k cur args st st' : cur_ok k cur -> Keeps k st st' -> Bound cur args st -> Bound cur args st'.
  Proof.
    destruct cur as [r|]; [|intros _ _ H; exact H]. intros [Hr Hk] HK [Hl Hb]. split; [exact Hl|].
    intros i p Hp. rewrite (HK r p Hr Hk (nth_error_In _ _ Hp)). exact (Hb i p Hp).
  Qed.

  Definition RelO (stK : mstate) (r : dout) : Prop :=
    match st_of r with Some stC => Rel stK stC | None => True end.

  (* the simulation statement for one evaluation *)
  Definition SimR (k : nat) (rest : list value) (stK : mstate) (rC rK : dout) : Prop :=
    good rC -> exists stK', rK = lift rC rest stK' /\ RelO stK' rC /\ Keeps k stK stK'.

  (* ---- combinators ---- *)
  Lemma sim_bind k rest stK rC1 rK1 (fC fK : list value -> mstate -> dout) :
    SimR k rest stK rC1 rK1 ->
    (forall s1 stC1 stK1, rC1 = DNorm s1 stC1 -> Rel stK1 stC1 -> Keeps k stK stK1 ->
                          SimR k rest stK1 (fC s1 stC1) (fK (s1 ++ rest) stK1)) ->
    SimR k rest stK (bind rC1 fC) (bind rK1 fK).
  Proof.
    intros H1 H2 G. destruct rC1 as [s1 stC1| | | | | | | |]; cbn [bind] in G |- *;
      try (destruct (H1 G) as (stK' & -> & R & K); exists stK'; cbn [lift bind]; auto; fail);
      try destruct G.
    destruct (H1 Logic.I) as (stK1 & -> & R & K). cbn [lift bind]. cbn [RelO st_of] in R.
    destruct (H2 s1 stC1 stK1 eq_refl R K G) as (stK' & E & R' & K'). exists stK'. split; [exact E|]. split; [exact R'|].
    exact (Keeps_trans _ _ _ _ K K').
  Qed.

  Lemma sim_branch k rest stK rC1 rK1 (yC nC yK nK : list value -> mstate -> dout) :
    SimR k rest stK rC1 rK1 ->
    (forall s1 stC1 stK1, Rel stK1 stC1 -> Keeps k stK stK1 -> SimR k rest stK1 (yC s1 stC1) (yK (s1 ++ rest) stK1)) ->
    (forall s1 stC1 stK1, Rel stK1 stC1 -> Keeps k stK stK1 -> SimR k rest stK1 (nC s1 stC1) (nK (s1 ++ rest) stK1)) ->
    SimR k rest stK (branch rC1 yC nC) (branch rK1 yK nK).
  Proof.
    intros H1 Hy Hn G. destruct rC1 as [s1 stC1| | | | | | | |]; cbn [branch] in G |- *;
      try (destruct (H1 G) as (stK' & -> & R & K); exists stK'; cbn [lift branch]; auto; fail);
      try destruct G.
    destruct s1 as [|v s1]; [destruct G|].
    destruct (H1 Logic.I) as (stK1 & -> & R & K). cbn [lift branch app]. cbn [RelO st_of] in R.
    destruct (truthy v) as [[|]|]; [| |destruct G].
    - destruct (Hy s1 stC1 stK1 R K G) as (stK' & E & R' & K'). exists stK'. split; [exact E|]. split; [exact R'|].
      exact (Keeps_trans _ _ _ _ K K').
    - destruct (Hn s1 stC1 stK1 R K G) as (stK' & E & R' & K'). exists stK'. split; [exact E|]. split; [exact R'|].
      exact (Keeps_trans _ _ _ _ K K').
  Qed.

  Lemma sim_norm k rest stK stC s : Rel stK stC -> SimR k rest stK (DNorm s stC) (DNorm (s ++ rest) stK).
  Proof. intros R _. exists stK. split; [reflexivity|]. split; [exact R|apply Keeps_refl]. Qed.

  Lemma sim_bad k rest stK rC rK : ~ good rC -> SimR k rest stK rC rK.
  Proof. intros H G. destruct (H G). Qed.

  (* ---- one operation ---- *)
  Definition KeepsP (st st' : mstate) : Prop :=
    forall n, Pn n -> scratch_get (s_scratch st') n = scratch_get (s_scratch st) n.

  Lemma KeepsP_Keeps k st st' : KeepsP st st' -> Keeps k st st'.
  Proof.
    intros H r p Hr _ Hp. apply H. destruct p as [b s]. destruct HP as (H1 & _).
    destruct (H1 r b s Hr Hp) as [_ Ps]. apply in_map. exact Ps.
  Qed.

  Lemma notP_notPn u : free u = true -> ~ Pn (look u).
  Proof.
    unfold free, Pn. intros Hu Hin. apply negb_true_iff in Hu.
    assert (mem_N (look u) (map look PL) = true) by (apply mem_N_iff; exact Hin). congruence.
  Qed.

  Lemma envk_old cur orc op imms stk st :
    call_target op imms = None ->
    do_op (envk o cx look msel subs cur orc) op imms stk st = Src.Denote.do_op envC op imms stk st.
  Proof.
    intros H. rewrite (do_op_old _ _ _ stk st H). apply old_do_op_irrel; reflexivity.
  Qed.

  Lemma do_op_sim k cur orc op imms stk stC rest stK :
    op_ok op imms = true -> Rel stK stC ->
    SimR k rest stK (Src.Denote.do_op envC op imms stk stC)
                    (do_op (envk o cx look msel subs cur orc) op imms (stk ++ rest) stK).
  Proof.
    intros Ok [SR SC] G.
    destruct (call_target op imms) as [f|] eqn:CT.
    { destruct (call_target_inv _ _ _ CT) as [-> ->]. destruct G. }
    rewrite (envk_old cur orc op imms _ stK CT). unfold Src.Denote.do_op in *. unfold op_ok in Ok.
    change (Src.Denote.e_asg envC) with look in *. change (Src.Denote.e_ctx envC) with cx in *.
    destruct (slot_access op imms) as [[[|] u]|] eqn:SA.
    - (* load of a variable *)
      exists stK. cbn [lift app].
      rewrite (SC _ (notP_notPn u Ok)). split; [reflexivity|]. split; [split; assumption|apply Keeps_refl].
    - (* store to a variable *)
      destruct stk as [|v r]; [destruct G|]. cbn [app].
      exists (set_scratch stK (look u) v). cbn [lift]. split; [reflexivity|]. split.
      + split; [exact SR|]. intros n Hn. rewrite !scratch_get_set, (SC n Hn). reflexivity.
      + apply KeepsP_Keeps. intros n Hn. rewrite scratch_get_set.
        destruct (N.eqb_spec n (look u)) as [->|Ne]; [destruct (notP_notPn u Ok Hn)|reflexivity].
    - apply andb_prop in Ok. destruct Ok as [So _]. apply negb_true_iff in So.
      destruct (Src.Denote.args_to_imms envC op imms) as [im|]; [|destruct G].
      destruct (exec_op cx op im stk stC) as [s' stC'| | |] eqn:E; try destruct G.
      + destruct (exec_op_frame cx op im stk stC s' stC' So E) as [Esc Fr].
        rewrite (with_sc_same stC stK SR), (Fr (s_scratch stK) rest).
        exists (with_sc (s_scratch stK) stC'). cbn [lift]. split; [reflexivity|]. split.
        * split; [apply same_rest_with_sc|]. intros n Hn. cbn [with_sc s_scratch]. rewrite Esc. exact (SC n Hn).
        * apply KeepsP_Keeps. intros n _. reflexivity.
      + destruct (is_err op); destruct G.
  Qed.

  Lemma sim_after_body k rest stK rC1 rK1 (aC aK : list value -> mstate -> dout) :
    SimR k rest stK rC1 rK1 ->
    (forall s1 stC1 stK1, Rel stK1 stC1 -> Keeps k stK stK1 -> SimR k rest stK1 (aC s1 stC1) (aK (s1 ++ rest) stK1)) ->
    SimR k rest stK (after_body rC1 aC) (after_body rK1 aK).
  Proof.
    intros H1 Ha G. destruct rC1 as [s1 stC1|s1 stC1|s1 stC1| | | | | |]; cbn [after_body] in G |- *;
      try (destruct (H1 G) as (stK' & -> & R & K); exists stK'; cbn [lift after_body]; auto; fail);
      try destruct G.
    all: destruct (H1 Logic.I) as (stK1 & -> & R & K); cbn [lift after_body]; cbn [RelO st_of] in R;
      destruct (Ha _ _ stK1 R K G) as (stK' & E & R' & K'); exists stK'; split; [exact E|]; split; [exact R'|];
      exact (Keeps_trans _ _ _ _ K K').
  Qed.

  Lemma sim_hdr k rest stK rC1 rK1 (aC aK : list value -> mstate -> dout) :
    SimR k rest stK rC1 rK1 ->
    (forall s1 stC1 stK1, Rel stK1 stC1 -> Keeps k stK stK1 -> SimR k rest stK1 (aC s1 stC1) (aK (s1 ++ rest) stK1)) ->
    SimR k rest stK (hdr rC1 aC) (hdr rK1 aK).
  Proof.
    intros H1 Ha G. destruct rC1 as [s1 stC1|s1 stC1|s1 stC1| | | | | |]; cbn [hdr] in G |- *;
      try (destruct (H1 G) as (stK' & -> & R & K); exists stK'; cbn [lift hdr]; auto; fail);
      try destruct G.
    all: destruct (H1 Logic.I) as (stK1 & -> & R & K); cbn [lift hdr]; cbn [RelO st_of] in R;
      destruct (Ha _ _ stK1 R K G) as (stK' & E & R' & K'); exists stK'; split; [exact E|]; split; [exact R'|];
      exact (Keeps_trans _ _ _ _ K K').
  Qed.

  (* ---- the list-shaped evaluators, for a related pair of single-expression evaluators ---- *)
  Section Helpers.
    Variable k : nat.
    Variable cur : option routine.
    Variable args : list value.
    Hypothesis Hcur : cur_ok k cur.
    Variable orc : N -> list value -> mstate -> callres.
    Let envK := envk o cx look msel subs cur orc.
    Variable denC denK : expr -> list value -> mstate -> dout.

    Definition SimDen : Prop :=
      forall e, okb k e = true -> forall stk stC rest stK, Rel stK stC -> Bound cur args stK ->
        SimR k rest stK (denC e stk stC) (denK e (stk ++ rest) stK).

    Hypothesis HS : SimDen.

    Lemma sim_list es : forallb (okb k) es = true -> forall stk stC rest stK, Rel stK stC -> Bound cur args stK ->
      SimR k rest stK (den_list denC es stk stC) (den_list denK es (stk ++ rest) stK).
    Proof.
      induction es as [|e t IH]; intros Ok stk stC rest stK R B; cbn [den_list].
      - apply sim_norm. exact R.
      - cbn [forallb] in Ok. apply andb_prop in Ok. destruct Ok as [Oe Ot].
        apply sim_bind; [exact (HS e Oe stk stC rest stK R B)|].
        intros s1 stC1 stK1 _ R1 K1. exact (IH Ot s1 stC1 rest stK1 R1 (Bound_keeps k cur args _ _ Hcur K1 B)).
    Qed.

    Lemma sim_nary_rest op l : op_ok op [] = true -> forallb (okb k) l = true ->
      forall stk stC rest stK, Rel stK stC -> Bound cur args stK ->
      SimR k rest stK (Src.Denote.den_nary_rest envC denC op l stk stC) (den_nary_rest envK denK op l (stk ++ rest) stK).
    Proof.
      intros Oo. induction l as [|e t IH]; intros Ok stk stC rest stK R B; cbn [Src.Denote.den_nary_rest den_nary_rest].
      - apply sim_norm. exact R.
      - cbn [forallb] in Ok. apply andb_prop in Ok. destruct Ok as [Oe Ot].
        apply sim_bind; [exact (HS e Oe stk stC rest stK R B)|].
        intros s1 stC1 stK1 _ R1 K1.
        apply sim_bind; [exact (do_op_sim k cur orc op [] s1 stC1 rest stK1 Oo R1)|].
        intros s2 stC2 stK2 _ R2 K2.
        apply (IH Ot s2 stC2 rest stK2 R2).
        exact (Bound_keeps k cur args _ _ Hcur (Keeps_trans _ _ _ _ K1 K2) B).
    Qed.

    Lemma sim_cond arms : forallb (fun a => okb k (fst a) && okb k (snd a)) arms = true ->
      forall stk stC rest stK, Rel stK stC -> Bound cur args stK ->
      SimR k rest stK (den_cond denC arms stk stC) (den_cond denK arms (stk ++ rest) stK).
    Proof.
      induction arms as [|[c v] t IH]; intros Ok stk stC rest stK R B; cbn [den_cond].
      - apply sim_bad. intros [].
      - cbn [forallb fst snd] in Ok. apply andb_prop in Ok. destruct Ok as [Oa Ot]. apply andb_prop in Oa. destruct Oa as [Oc Ov].
        apply sim_branch; [exact (HS c Oc stk stC rest stK R B)| |].
        + intros s1 stC1 stK1 R1 K1. exact (HS v Ov s1 stC1 rest stK1 R1 (Bound_keeps k cur args _ _ Hcur K1 B)).
        + intros s1 stC1 stK1 R1 K1. exact (IH Ot s1 stC1 rest stK1 R1 (Bound_keeps k cur args _ _ Hcur K1 B)).
    Qed.

    Lemma sim_asserts conds : forallb (okb k) conds = true ->
      forall stk stC rest stK, Rel stK stC -> Bound cur args stK ->
      SimR k rest stK (den_asserts denC conds stk stC) (den_asserts denK conds (stk ++ rest) stK).
    Proof.
      induction conds as [|c t IH]; intros Ok stk stC rest stK R B; cbn [den_asserts].
      - apply sim_norm. exact R.
      - cbn [forallb] in Ok. apply andb_prop in Ok. destruct Ok as [Oc Ot].
        apply sim_branch; [exact (HS c Oc stk stC rest stK R B)| |].
        + intros s1 stC1 stK1 R1 K1. exact (IH Ot s1 stC1 rest stK1 R1 (Bound_keeps k cur args _ _ Hcur K1 B)).
        + intros s1 stC1 stK1 R1 K1. apply sim_bad. intros [].
    Qed.

    Lemma sim_stores l : forallb free l = true ->
      forall stk stC rest stK, Rel stK stC ->
      SimR k rest stK (Src.Denote.den_stores envC l stk stC) (den_stores envK l (stk ++ rest) stK).
    Proof.
      induction l as [|u t IH]; intros Ok stk stC rest stK R; cbn [Src.Denote.den_stores den_stores].
      - apply sim_norm. exact R.
      - cbn [forallb] in Ok. apply andb_prop in Ok. destruct Ok as [Ou Ot].
        apply sim_bind; [apply (do_op_sim k cur orc O_store [ASlot u] stk stC rest stK); [exact Ou|exact R]|].
        intros s1 stC1 stK1 _ R1 K1. exact (IH Ot s1 stC1 rest stK1 R1).
    Qed.

    Lemma sim_ops ops : forallb (fun i => op_ok (i_op i) (i_args i)) ops = true ->
      forall stk stC rest stK, Rel stK stC ->
      SimR k rest stK (Src.Denote.den_ops envC ops stk stC) (den_ops envK ops (stk ++ rest) stK).
    Proof.
      induction ops as [|i t IH]; intros Ok stk stC rest stK R; cbn [Src.Denote.den_ops den_ops].
      - apply sim_norm. exact R.
      - cbn [forallb] in Ok. apply andb_prop in Ok. destruct Ok as [Oi Ot].
        apply sim_bind; [exact (do_op_sim k cur orc _ _ stk stC rest stK Oi R)|].
        intros s1 stC1 stK1 _ R1 K1. exact (IH Ot s1 stC1 rest stK1 R1).
    Qed.

    Lemma mul_step_ok : forallb (fun i => op_ok (i_op i) (i_args i)) mul_step_ops = true.
    Proof. reflexivity. Qed.
    Lemma combine_ok : forallb (fun i => op_ok (i_op i) (i_args i)) combine_ops = true.
    Proof. reflexivity. Qed.

    Lemma sim_wide_rest l : forallb (okb k) l = true ->
      forall stk stC rest stK, Rel stK stC -> Bound cur args stK ->
      SimR k rest stK (Src.Denote.den_wide_rest envC denC l stk stC) (den_wide_rest envK denK l (stk ++ rest) stK).
    Proof.
      induction l as [|e t IH]; intros Ok stk stC rest stK R B; cbn [Src.Denote.den_wide_rest den_wide_rest].
      - apply sim_norm. exact R.
      - cbn [forallb] in Ok. apply andb_prop in Ok. destruct Ok as [Oe Ot].
        apply sim_bind; [exact (HS e Oe stk stC rest stK R B)|].
        intros s1 stC1 stK1 _ R1 K1.
        apply sim_bind; [exact (sim_ops mul_step_ops mul_step_ok s1 stC1 rest stK1 R1)|].
        intros s2 stC2 stK2 _ R2 K2.
        apply (IH Ot s2 stC2 rest stK2 R2).
        exact (Bound_keeps k cur args _ _ Hcur (Keeps_trans _ _ _ _ K1 K2) B).
    Qed.

    Lemma sim_factors l : forallb (okb k) l = true ->
      forall stk stC rest stK, Rel stK stC -> Bound cur args stK ->
      SimR k rest stK (Src.Denote.den_factors envC denC l stk stC) (den_factors envK denK l (stk ++ rest) stK).
    Proof.
      intros Ok stk stC rest stK R B. destruct l as [|f0 [|f1 t]]; cbn [Src.Denote.den_factors den_factors].
      - apply sim_norm. exact R.
      - cbn [forallb] in Ok. apply andb_prop in Ok. destruct Ok as [O0 _].
        apply sim_bind; [exact (sim_ops [I1 O_int 0] eq_refl stk stC rest stK R)|].
        intros s1 stC1 stK1 _ R1 K1. exact (HS f0 O0 s1 stC1 rest stK1 R1 (Bound_keeps k cur args _ _ Hcur K1 B)).
      - cbn [forallb] in Ok. apply andb_prop in Ok. destruct Ok as [O0 Ok]. apply andb_prop in Ok. destruct Ok as [O1 Ot].
        apply sim_bind; [exact (HS f0 O0 stk stC rest stK R B)|].
        intros s1 stC1 stK1 _ R1 K1.
        pose proof (Bound_keeps k cur args _ _ Hcur K1 B) as B1.
        apply sim_bind; [exact (HS f1 O1 s1 stC1 rest stK1 R1 B1)|].
        intros s2 stC2 stK2 _ R2 K2.
        pose proof (Bound_keeps k cur args _ _ Hcur K2 B1) as B2.
        apply sim_bind; [exact (sim_ops [I0 O_mulw] eq_refl s2 stC2 rest stK2 R2)|].
        intros s3 stC3 stK3 _ R3 K3.
        exact (sim_wide_rest t Ot s3 stC3 rest stK3 R3 (Bound_keeps k cur args _ _ Hcur K3 B2)).
    Qed.

    (* loops: the by-value side ends within nC iterations; the other side may be given more *)
    Lemma sim_while c body : okb k c = true -> okb k body = true ->
      forall nC nK, (nC <= nK)%nat -> forall stk stC rest stK, Rel stK stC -> Bound cur args stK ->
      SimR k rest stK (den_while denC nC c body stk stC) (den_while denK nK c body (stk ++ rest) stK).
    Proof.
      intros Oc Ob. induction nC as [|nC IH]; intros nK Hn stk stC rest stK R B; [apply sim_bad; intros []|].
      destruct nK as [|nK]; [lia|]. cbn [den_while].
      pose proof (HS c Oc stk stC rest stK R B) as H1.
      assert (Cont : forall s1 stC1 stK1, Rel stK1 stC1 -> Keeps k stK stK1 ->
                SimR k rest stK1
                  (after_body (denC body s1 stC1) (fun s2 st2 => den_while denC nC c body s2 st2))
                  (after_body (denK body (s1 ++ rest) stK1) (fun s2 st2 => den_while denK nK c body s2 st2))).
      { intros s1 stC1 stK1 R1 K1. pose proof (Bound_keeps k cur args _ _ Hcur K1 B) as B1.
        apply sim_after_body; [exact (HS body Ob s1 stC1 rest stK1 R1 B1)|].
        intros s2 stC2 stK2 R2 K2. apply IH; [lia|exact R2|exact (Bound_keeps k cur args _ _ Hcur K2 B1)]. }
      destruct (denC c stk stC) as [s1 stC1|s1 stC1|s1 stC1| | | | | |] eqn:EC.
      - (* condition evaluated *)
        intros G. destruct (H1 Logic.I) as (stK1 & EK & R1 & K1). rewrite EK. cbn [lift]. cbn [RelO st_of] in R1.
        revert G. apply (sim_branch k rest stK (DNorm s1 stC1) (DNorm (s1 ++ rest) stK1)).
        + intros _. exists stK1. auto.
        + intros s stC' stK' R' K'. exact (Cont s stC' stK' R' K').
        + intros s stC' stK' R' K'. apply sim_norm. exact R'.
      - intros G. destruct (H1 Logic.I) as (stK1 & EK & R1 & K1). rewrite EK. cbn [lift]. exists stK1. auto.
      - intros G. destruct (H1 Logic.I) as (stK1 & EK & R1 & K1). rewrite EK. cbn [lift]. exists stK1. auto.
      - intros G. destruct (H1 G) as (stK1 & EK & R1 & K1). rewrite EK. cbn [lift branch]. exists stK1. auto.
      - intros G. destruct (H1 G) as (stK1 & EK & R1 & K1). rewrite EK. cbn [lift branch]. exists stK1. auto.
      - intros G. destruct (H1 G) as (stK1 & EK & R1 & K1). rewrite EK. cbn [lift branch]. exists stK1. auto.
      - intros [].
      - intros [].
      - intros [].
    Qed.

    Lemma sim_for c stp body : okb k c = true -> okb k stp = true -> okb k body = true ->
      forall nC nK, (nC <= nK)%nat -> forall stk stC rest stK, Rel stK stC -> Bound cur args stK ->
      SimR k rest stK (den_for denC nC c stp body stk stC) (den_for denK nK c stp body (stk ++ rest) stK).
    Proof.
      intros Oc Os Ob. induction nC as [|nC IH]; intros nK Hn stk stC rest stK R B; [apply sim_bad; intros []|].
      destruct nK as [|nK]; [lia|]. cbn [den_for].
      pose proof (HS c Oc stk stC rest stK R B) as H1.
      assert (Cont : forall s1 stC1 stK1, Rel stK1 stC1 -> Keeps k stK stK1 ->
                SimR k rest stK1
                  (after_body (denC body s1 stC1)
                     (fun s2 st2 => hdr (denC stp s2 st2) (fun s3 st3 => den_for denC nC c stp body s3 st3)))
                  (after_body (denK body (s1 ++ rest) stK1)
                     (fun s2 st2 => hdr (denK stp s2 st2) (fun s3 st3 => den_for denK nK c stp body s3 st3)))).
      { intros s1 stC1 stK1 R1 K1. pose proof (Bound_keeps k cur args _ _ Hcur K1 B) as B1.
        apply sim_after_body; [exact (HS body Ob s1 stC1 rest stK1 R1 B1)|].
        intros s2 stC2 stK2 R2 K2. pose proof (Bound_keeps k cur args _ _ Hcur K2 B1) as B2.
        apply sim_hdr; [exact (HS stp Os s2 stC2 rest stK2 R2 B2)|].
        intros s3 stC3 stK3 R3 K3. apply IH; [lia|exact R3|exact (Bound_keeps k cur args _ _ Hcur K3 B2)]. }
      destruct (denC c stk stC) as [s1 stC1|s1 stC1|s1 stC1| | | | | |] eqn:EC.
      - intros G. destruct (H1 Logic.I) as (stK1 & EK & R1 & K1). rewrite EK. cbn [lift]. cbn [RelO st_of] in R1.
        revert G. apply (sim_branch k rest stK (DNorm s1 stC1) (DNorm (s1 ++ rest) stK1)).
        + intros _. exists stK1. auto.
        + intros s stC' stK' R' K'. exact (Cont s stC' stK' R' K').
        + intros s stC' stK' R' K'. apply sim_norm. exact R'.
      - intros G. destruct (H1 Logic.I) as (stK1 & EK & R1 & K1). rewrite EK. cbn [lift]. exists stK1. auto.
      - intros G. destruct (H1 Logic.I) as (stK1 & EK & R1 & K1). rewrite EK. cbn [lift]. exists stK1. auto.
      - intros G. destruct (H1 G) as (stK1 & EK & R1 & K1). rewrite EK. cbn [lift branch]. exists stK1. auto.
      - intros G. destruct (H1 G) as (stK1 & EK & R1 & K1). rewrite EK. cbn [lift branch]. exists stK1. auto.
      - intros G. destruct (H1 G) as (stK1 & EK & R1 & K1). rewrite EK. cbn [lift branch]. exists stK1. auto.
      - intros [].
      - intros [].
      - intros [].
    Qed.
  End Helpers.

  (* ---- the declaration body against the body with its implicit return ---- *)
  Lemma last_has_return l b : has_return (ESeq (l ++ [b])) = has_return b.
  Proof.
    cbn [has_return]. induction l as [|x t IH]; [reflexivity|]. cbn [app].
    destruct (t ++ [b]) as [|y u] eqn:E; [destruct t; discriminate E|]. exact IH.
  Qed.

  Lemma last_type_of l b : type_of (ESeq (l ++ [b])) = type_of b.
  Proof.
    cbn [type_of]. induction l as [|x t IH]; [reflexivity|]. cbn [app].
    destruct (t ++ [b]) as [|y u] eqn:E; [destruct t; discriminate E|]. exact IH.
  Qed.

  Lemma root_decl_eq env r m3 (argv R : list value) st :
    List.length argv = List.length (r_params r) ->
    denote env (S (S (S m3))) (root_ast (decl_body o r)) (rev argv ++ R) st =
    denote env (S (S m3)) (body_with_return r) R (bind_rev env (map snd (rev (r_params r))) (rev argv) st).
  Proof.
    intros Hl. unfold root_ast, body_with_return.
    assert (E1 : has_return (decl_body o r) = has_return (r_body r)) by (unfold decl_body; rewrite Hfp; apply last_has_return).
    assert (E2 : type_of (decl_body o r) = type_of (r_body r)) by (unfold decl_body; rewrite Hfp; apply last_type_of).
    rewrite E1, E2. destruct (has_return (r_body r)).
    - exact (decl_body_binds o env Hfp r (S m3) argv R st Hl).
    - destruct (type_of (r_body r)).
      + change (denote env (S (S (S m3))) (EReturn (Some (decl_body o r))) (rev argv ++ R) st)
          with (bind (denote env (S (S m3)) (decl_body o r) (rev argv ++ R) st)
                     (fun s1 st1 => if e_in_sub env then DRet s1 st1 else match s1 with r0 :: _ => DExit r0 st1 | [] => DFail end)).
        rewrite (decl_body_binds o env Hfp r m3 argv R st Hl). reflexivity.
      + change (denote env (S (S (S m3))) (EReturn (Some (decl_body o r))) (rev argv ++ R) st)
          with (bind (denote env (S (S m3)) (decl_body o r) (rev argv ++ R) st)
                     (fun s1 st1 => if e_in_sub env then DRet s1 st1 else match s1 with r0 :: _ => DExit r0 st1 | [] => DFail end)).
        rewrite (decl_body_binds o env Hfp r m3 argv R st Hl). reflexivity.
      + change (denote env (S (S (S m3))) (EReturn (Some (decl_body o r))) (rev argv ++ R) st)
          with (bind (denote env (S (S m3)) (decl_body o r) (rev argv ++ R) st)
                     (fun s1 st1 => if e_in_sub env then DRet s1 st1 else match s1 with r0 :: _ => DExit r0 st1 | [] => DFail end)).
        rewrite (decl_body_binds o env Hfp r m3 argv R st Hl). reflexivity.
      + change (denote env (S (S (S m3))) (ESeq [decl_body o r; EReturn None]) (rev argv ++ R) st)
          with (bind (denote env (S (S m3)) (decl_body o r) (rev argv ++ R) st)
                     (fun s1 st1 => den_list (denote env (S (S m3))) [EReturn None] s1 st1)).
        rewrite (decl_body_binds o env Hfp r m3 argv R st Hl). reflexivity.
  Qed.

  (* ---- binding the parameters ---- *)
  Lemma same_rest_bind env slots : forall vals st, same_rest st (bind_rev env slots vals st).
  Proof.
    induction slots as [|s t IH]; intros vals st; [repeat split|]. destruct vals as [|v tv]; [repeat split|].
    cbn [bind_rev]. destruct (IH tv (set_scratch st (e_asg env s) v)) as (A1 & A2 & A3 & A4 & A5 & A6).
    repeat split; [rewrite <- A1|rewrite <- A2|rewrite <- A3|rewrite <- A4|rewrite <- A5|rewrite <- A6]; reflexivity.
  Qed.

  Lemma same_rest_trans' a b c : same_rest a b -> same_rest b c -> same_rest a c.
  Proof. intros (A1 & A2 & A3 & A4 & A5 & A6) (B1 & B2 & B3 & B4 & B5 & B6). repeat split; congruence. Qed.

  Lemma params_Pn r p : In r subs -> In p (r_params r) -> Pn (look (snd p)).
  Proof.
    intros Hr Hp. destruct p as [b s]. destruct HP as (H1 & _). destruct (H1 r b s Hr Hp) as [_ Ps].
    apply in_map. exact Ps.
  Qed.

  Section BindParams.
    Variable cur0 : option routine.
    Variable orc : N -> list value -> mstate -> callres.
    Let env := envk o cx look msel subs cur0 orc.
    Variable r : routine.
    Hypothesis Hr : In r subs.
    Variable argv : list value.
    Hypothesis Hl : List.length argv = List.length (r_params r).

    Definition bound_state (st : mstate) : mstate := bind_rev env (map snd (rev (r_params r))) (rev argv) st.

    Lemma in_bound_slots n : In n (map (e_asg env) (map snd (rev (r_params r)))) -> exists p, In p (r_params r) /\ n = look (snd p).
    Proof.
      intros H. apply in_map_iff in H. destruct H as (s & <- & Hs). apply in_map_iff in Hs. destruct Hs as (p & <- & Hp).
      exists p. split; [apply in_rev; exact Hp|reflexivity].
    Qed.

    Lemma Rel_bind stK stC : Rel stK stC -> Rel (bound_state stK) stC.
    Proof.
      intros [SR SC]. split; [exact (same_rest_trans' _ _ _ SR (same_rest_bind env _ _ stK))|].
      intros n Hn. unfold bound_state. rewrite bind_rev_other; [exact (SC n Hn)|].
      intros H. destruct (in_bound_slots n H) as (p & Hp & ->). exact (Hn (params_Pn r p Hr Hp)).
    Qed.

    Lemma Keeps_bind k st : (rank (r_id r) < k)%nat -> Keeps k st (bound_state st).
    Proof.
      intros Lk r' p' Hr' Hk' Hp'. unfold bound_state. apply bind_rev_other.
      intros H. destruct (in_bound_slots _ H) as (p & Hp & E).
      destruct HP as (_ & _ & H3). pose proof (H3 r' r p' p Hr' Hr Hp' Hp E). lia.
    Qed.

    Lemma Bound_bind st : Bound (Some r) argv (bound_state st).
    Proof.
      split; [exact Hl|]. intros i p Hp.
      assert (Li : (i < List.length (r_params r))%nat) by (apply nth_error_Some; rewrite Hp; discriminate).
      destruct (nth_error argv i) as [v|] eqn:Ea; [|apply nth_error_None in Ea; lia].
      f_equal. symmetry. unfold bound_state.
      destruct HP as (_ & H2 & _).
      apply (bind_rev_nth env _ _ _ (List.length (r_params r) - 1 - i)).
      - rewrite map_rev, map_rev. apply NoDup_rev. exact (H2 r Hr).
      - rewrite map_rev. rewrite <- (map_length snd (r_params r)). rewrite nth_error_rev by (rewrite map_length; exact Li).
        rewrite nth_error_map, Hp. reflexivity.
      - rewrite <- Hl. rewrite nth_error_rev by lia. exact Ea.
    Qed.
  End BindParams.

  Lemma forallb_rev {A} (f : A -> bool) l : forallb f l = true -> forallb f (rev l) = true.
  Proof.
    intros H. rewrite forallb_forall in *. intros x Hx. apply H. apply in_rev. exact Hx.
  Qed.

  Lemma find_routine_in g r : find_routine subs g = Some r -> In r subs.
  Proof. unfold find_routine. intros H. exact (proj1 (find_some _ _ H)). Qed.

  Definition callK (n : nat) := call_k o cx look msel subs idW n.
  Definition envK (cur : option routine) (n : nat) : denv := envk o cx look msel subs cur (callK n).

  (* ---- the main induction ---- *)
  Theorem by_value_sim : forall f k cur args, cur_ok k cur ->
    forall n f', (f + 3 <= n)%nat -> (f <= f')%nat ->
    SimDen k cur args (denote_c ceC f cur args) (denote (envK cur n) f').
  Proof.
    induction f as [|f0 IH]; intros k cur args Hcur n f' Hn Hf e Ok stk stC rest stK R B.
    { apply sim_bad. intros []. }
    destruct f' as [|f0']; [lia|].
    assert (HS : SimDen k cur args (denote_c ceC f0 cur args) (denote (envK cur n) f0')).
    { apply IH; [exact Hcur|lia|lia]. }
    set (denC := denote_c ceC f0 cur args) in *. set (denK := denote (envK cur n) f0') in *.
    pose proof (Bound_keeps k cur args) as BK.
    destruct e; cbn [denote_c denote]; fold denC; fold denK; change (ce_env ceC) with envC; cbn [okb] in Ok.
    - (* EOp *)
      apply andb_prop in Ok. destruct Ok as [Oo Oa].
      apply sim_bind; [exact (sim_list k cur args Hcur denC denK HS _ Oa stk stC rest stK R B)|].
      intros s1 stC1 stK1 _ R1 K1. exact (do_op_sim k cur (callK n) o0 imms s1 stC1 rest stK1 Oo R1).
    - (* ENary *)
      apply andb_prop in Ok. destruct Ok as [Oo Oa]. destruct args0 as [|a1 ta]; [apply sim_norm; exact R|].
      cbn [forallb] in Oa. apply andb_prop in Oa. destruct Oa as [O1 Ot].
      apply sim_bind; [exact (HS a1 O1 stk stC rest stK R B)|].
      intros s1 stC1 stK1 _ R1 K1.
      exact (sim_nary_rest k cur args Hcur (callK n) denC denK HS o0 ta Oo Ot s1 stC1 rest stK1 R1 (BK _ _ Hcur K1 B)).
    - (* ESeq *)
      exact (sim_list k cur args Hcur denC denK HS _ Ok stk stC rest stK R B).
    - (* EIf *)
      apply andb_prop in Ok. destruct Ok as [Ok Oel]. apply andb_prop in Ok. destruct Ok as [Oc Ot].
      apply sim_branch; [exact (HS e1 Oc stk stC rest stK R B)| |].
      + intros s1 stC1 stK1 R1 K1. exact (HS e2 Ot s1 stC1 rest stK1 R1 (BK _ _ Hcur K1 B)).
      + intros s1 stC1 stK1 R1 K1. destruct el as [x|]; [exact (HS x Oel s1 stC1 rest stK1 R1 (BK _ _ Hcur K1 B))|].
        apply sim_norm. exact R1.
    - (* ECond *)
      exact (sim_cond k cur args Hcur denC denK HS _ Ok stk stC rest stK R B).
    - (* EWhile *)
      apply andb_prop in Ok. destruct Ok as [Oc Ob].
      exact (sim_while k cur args Hcur denC denK HS e1 e2 Oc Ob f0 f0' ltac:(lia) stk stC rest stK R B).
    - (* EFor *)
      apply andb_prop in Ok. destruct Ok as [Ok Ob]. apply andb_prop in Ok. destruct Ok as [Ok Os].
      apply andb_prop in Ok. destruct Ok as [Oi Oc].
      apply sim_hdr; [exact (HS e1 Oi stk stC rest stK R B)|].
      intros s1 stC1 stK1 R1 K1.
      exact (sim_for k cur args Hcur denC denK HS e2 e3 e4 Oc Os Ob f0 f0' ltac:(lia) s1 stC1 rest stK1 R1 (BK _ _ Hcur K1 B)).
    - (* EBreak *)
      intros _. exists stK. split; [reflexivity|]. split; [exact R|apply Keeps_refl].
    - (* EContinue *)
      intros _. exists stK. split; [reflexivity|]. split; [exact R|apply Keeps_refl].
    - (* EAssert *)
      exact (sim_asserts k cur args Hcur denC denK HS _ Ok stk stC rest stK R B).
    - (* EReturn *)
      assert (Ein : e_in_sub (envK cur n) = match cur with Some _ => true | None => false end) by (destruct cur; reflexivity).
      rewrite Ein. destruct v as [x|].
      + apply sim_bind; [exact (HS x Ok stk stC rest stK R B)|].
        intros s1 stC1 stK1 _ R1 K1. destruct cur as [rc|].
        * intros _. exists stK1. split; [reflexivity|]. split; [exact R1|apply Keeps_refl].
        * destruct s1 as [|v0 s1]; [apply sim_bad; intros []|].
          intros _. exists stK1. split; [reflexivity|]. split; [exact R1|apply Keeps_refl].
      + destruct cur as [rc|].
        * intros _. exists stK. split; [reflexivity|]. split; [exact R|apply Keeps_refl].
        * destruct stk as [|v0 s1]; [apply sim_bad; intros []|].
          intros _. exists stK. split; [reflexivity|]. split; [exact R|apply Keeps_refl].
    - (* EExit *)
      apply sim_bind; [exact (HS e Ok stk stC rest stK R B)|].
      intros s1 stC1 stK1 _ R1 K1. destruct s1 as [|v0 s1]; [apply sim_bad; intros []|].
      intros _. exists stK1. split; [reflexivity|]. split; [exact R1|apply Keeps_refl].
    - (* EMulti *)
      apply andb_prop in Ok. destruct Ok as [Ok Oo]. apply andb_prop in Ok. destruct Ok as [Op Oa].
      apply sim_bind; [exact (sim_list k cur args Hcur denC denK HS _ Oa stk stC rest stK R B)|].
      intros s1 stC1 stK1 _ R1 K1.
      apply sim_bind; [exact (do_op_sim k cur (callK n) o0 imms s1 stC1 rest stK1 Op R1)|].
      intros s2 stC2 stK2 _ R2 K2.
      exact (sim_stores k cur (callK n) (rev outs) (forallb_rev _ _ Oo) s2 stC2 rest stK2 R2).
    - (* ECall *)
      apply andb_prop in Ok. destruct Ok as [Oa Og].
      apply sim_bind; [exact (sim_list k cur args Hcur denC denK HS _ Oa stk stC rest stK R B)|].
      intros s1 stC1 stK1 _ R1 K1.
      change (Src.Denote.e_subs envC) with subs.
      destruct (find_routine subs sub) as [r|] eqn:Fr; [|apply sim_bad; intros []].
      apply Nat.ltb_lt in Og. pose proof (find_routine_in sub r Fr) as Hr.
      set (np := List.length (r_params r)) in *.
      destruct (Nat.ltb_spec (List.length s1) np) as [Ls|Ls]; [apply sim_bad; intros []|].
      set (argv := rev (firstn np s1)). set (rest1 := skipn np s1).
      assert (Hl : List.length argv = np) by (unfold argv; rewrite rev_length, firstn_length; lia).
      assert (Es1 : s1 ++ rest = rev argv ++ (rest1 ++ rest)).
      { unfold argv, rest1. rewrite rev_involutive, app_assoc, firstn_skipn. reflexivity. }
      (* the code side: the call instruction, the declaration body, the body *)
      destruct n as [|m]; [lia|]. destruct m as [|[|[|m3]]]; try lia.
      set (m := S (S (S m3))) in *.
      assert (EK : do_op (envK cur (S m)) O_callsub [ASub sub] (s1 ++ rest) stK1 =
                   of_callres (match denote (envK (Some r) m) (S (S m3)) (body_with_return r) (rest1 ++ rest)
                                             (bound_state (Some r) (callK m) r argv stK1) with
                               | DRet s' st' => CRet s' st'
                               | DExit v st' => CExit v st'
                               | DFail => CFail
                               | _ => CNone
                               end)).
      { unfold do_op. cbn [call_target envK envk e_call]. unfold callK at 1. cbn [call_k]. rewrite Fr.
        unfold idW at 1. fold (callK m). fold (envK (Some r) m).
        rewrite Es1. unfold m at 2. rewrite (root_decl_eq (envK (Some r) m) r m3 argv (rest1 ++ rest) stK1 Hl). reflexivity. }
      rewrite EK. clear EK.
      (* the induction hypothesis for the callee *)
      assert (HSr : SimDen (rank (r_id r)) (Some r) argv (denote_c ceC f0 (Some r) argv) (denote (envK (Some r) m) (S (S m3)))).
      { apply IH; [split; [exact Hr|lia]|unfold m; lia|unfold m in *; lia]. }
      pose proof (HSr (body_with_return r) (HB r Hr) [] stC1 (rest1 ++ rest)
                      (bound_state (Some r) (callK m) r argv stK1)
                      (Rel_bind (Some r) (callK m) r Hr argv stK1 stC1 R1)
                      (Bound_bind (Some r) (callK m) r Hr argv Hl stK1)) as HC.
      cbn [app] in HC.
      pose proof (Keeps_bind (Some r) (callK m) r Hr argv Hl k stK1 Og) as KB.
      change (ce_locals ceC (r_id r)) with (@nil N). cbn [restore_slots fold_left].
      destruct (denote_c ceC f0 (Some r) argv (body_with_return r) [] stC1) as [| | |s' st'|v st'| | | |] eqn:EC;
        try (apply sim_bad; intros []; fail).
      + (* the callee returned *)
        destruct (HC Logic.I) as (stK' & EKb & Rb & Kb). rewrite EKb. cbn [lift of_callres]. cbn [RelO st_of] in Rb.
        pose proof (HD r f0 argv stC1 s' st' Hr EC) as Disc.
        assert (KK : Keeps k stK1 stK').
        { exact (Keeps_trans _ _ _ _ KB (Keeps_mono _ _ _ _ (Nat.lt_le_incl _ _ Og) Kb)). }
        destruct (r_ret r).
        * destruct Disc as (v & ->). intros _. exists stK'. cbn [lift app]. split; [reflexivity|]. split; [exact Rb|exact KK].
        * destruct Disc as (v & ->). intros _. exists stK'. cbn [lift app]. split; [reflexivity|]. split; [exact Rb|exact KK].
        * destruct Disc as (v & ->). intros _. exists stK'. cbn [lift app]. split; [reflexivity|]. split; [exact Rb|exact KK].
        * subst s'. intros _. exists stK'. cbn [lift app]. split; [reflexivity|]. split; [exact Rb|exact KK].
      + (* the callee ended the program *)
        destruct (HC Logic.I) as (stK' & EKb & Rb & Kb). rewrite EKb. cbn [lift of_callres]. cbn [RelO st_of] in Rb.
        intros _. exists stK'. cbn [lift]. split; [reflexivity|]. split; [exact Rb|].
        exact (Keeps_trans _ _ _ _ KB (Keeps_mono _ _ _ _ (Nat.lt_le_incl _ _ Og) Kb)).
    - (* EWide *)
      apply andb_prop in Ok. destruct Ok as [On Od].
      apply sim_bind; [exact (sim_factors k cur args Hcur (callK n) denC denK HS ns On stk stC rest stK R B)|].
      intros s1 stC1 stK1 _ R1 K1.
      apply sim_bind; [exact (sim_factors k cur args Hcur (callK n) denC denK HS ds Od s1 stC1 rest stK1 R1 (BK _ _ Hcur K1 B))|].
      intros s2 stC2 stK2 _ R2 K2.
      exact (sim_ops k cur (callK n) combine_ops (combine_ok) s2 stC2 rest stK2 R2).
    - (* EParam *)
      destruct (nth_N args i) as [v|] eqn:En; [|apply sim_bad; intros []].
      unfold nth_N in En. destruct (N.ltb i (N.of_nat (List.length args))); [|discriminate En].
      destruct cur as [rc|].
      + destruct B as [Bl Bn].
        assert (Li : (N.to_nat i < List.length (r_params rc))%nat) by (rewrite <- Bl; apply nth_error_Some; rewrite En; discriminate).
        destruct (nth_error (r_params rc) (N.to_nat i)) as [[b slot]|] eqn:Ep; [|apply nth_error_None in Ep; lia].
        pose proof (Bn _ _ Ep) as Ev. rewrite En in Ev. injection Ev as Ev. cbn [snd] in Ev.
        intros _. exists stK. split; [|split; [exact R|apply Keeps_refl]].
        cbn [envK envk e_param]. unfold param_instr. rewrite Ep, Hfp. cbn [andb i_op i_args].
        unfold do_op. cbn [call_target slot_access is_load e_asg lift app]. rewrite Ev. reflexivity.
      + cbn [Bound] in B. subst args. destruct (N.to_nat i); discriminate En.
  Qed.
End ByValue.

(* ---- the main routine ---- *)
Lemma Rel_refl look PL st : Rel look PL st st.
Proof. split; [repeat split|]. intros n _. reflexivity. Qed.

Theorem by_value_main o (Hfp : o_use_fp o = false) cx look msel subs rank PL :
  params_ok look subs rank PL -> bodies_ok look subs rank PL -> disciplined cx look msel subs ->
  forall k e, okb look subs rank PL k e = true ->
  forall f st v stC', denote_c (ceC cx look msel subs) f None [] e [] st = DExit v stC' ->
  forall n f', (f + 3 <= n)%nat -> (f <= f')%nat ->
  exists st', denote_k o cx look msel subs idW n None f' e [] st = DExit v st' /\ Rel look PL st' stC'.
Proof.
  intros HP HB HD k e Ok f st v stC' HC n f' Hn Hf.
  pose proof (by_value_sim o Hfp cx look msel subs rank PL HP HB HD f k None [] Logic.I n f' Hn Hf e Ok [] st [] st
                (Rel_refl look PL st) eq_refl) as S.
  rewrite HC in S. destruct (S Logic.I) as (st' & E & R & _). exists st'. split; [exact E|exact R].
Qed.
