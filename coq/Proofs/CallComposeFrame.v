(* Proofs/CallComposeFrame.v — property C02: the FRAME property of the AVM operations.
   [exec_pure_frame]/[exec_pure_not]: a pure opcode that succeeds on a stack succeeds on every extension of
   that stack, with the extension untouched below the result (all opcodes, one tactic; the six opcodes that
   address the stack by depth — dig, cover, uncover, popn, dupn, bury — by hand).
   [exec_op_frame]: every operation except the four scratch opcodes (load/store/loads/stores) has the frame
   property, does not change the scratch space, and is parametric in it ([with_sc]).
   Used by Proofs/CallComposeByValue.v (a callee evaluated on its own stack vs on the caller's). *)
From Coq Require Import List Arith NArith String Bool Lia.
From PV Require Import Base.Bytes Base.U64 AVM.Syntax AVM.Ops AVM.Machine.
Import ListNotations.
Local Open Scope list_scope.

Lemma insert_at_app {A} n (x : A) l r s : insert_at n x l = Some s -> insert_at n x (l ++ r) = Some (s ++ r).
Proof.
  revert l s. induction n as [|n IH]; intros l s H; cbn [insert_at] in *.
  - injection H as <-. reflexivity.
  - destruct l as [|h t]; [discriminate H|]. cbn [app insert_at].
    destruct (insert_at n x t) as [q|] eqn:E; [|discriminate H]. injection H as <-. rewrite (IH t q E). reflexivity.
Qed.

Lemma remove_at_app {A} n (l : list A) r x s : remove_at n l = Some (x, s) -> remove_at n (l ++ r) = Some (x, s ++ r).
Proof.
  revert l s. induction n as [|n IH]; intros l s H; destruct l as [|h t]; cbn [remove_at app] in *; try discriminate H.
  - injection H as <- <-. reflexivity.
  - destruct (remove_at n t) as [[y q]|] eqn:E; [|discriminate H]. injection H as <- <-. rewrite (IH t q E). reflexivity.
Qed.

Lemma list_update_app {A} (l : list A) i x r : (i < List.length l)%nat -> list_update (l ++ r) i x = list_update l i x ++ r.
Proof.
  revert i. induction l as [|h t IH]; intros i H; cbn [List.length] in H; [lia|].
  destruct i as [|i]; cbn [app list_update]; [reflexivity|]. rewrite IH by lia. reflexivity.
Qed.

Ltac dstk stk := destruct stk as [|[?a|?a] [|[?b|?b] [|[?c|?c] [|[?d|?d] ?r]]]].

Ltac fin H :=
  repeat match type of H with
         | context [if ?c then _ else _] => destruct c eqn:?
         | context [match ?x with _ => _ end] => destruct x eqn:?
         end; try discriminate H; injection H as <-; reflexivity.

Lemma exec_pure_frame o imms stk rest s' :
  exec_pure o imms stk = POk s' -> exec_pure o imms (stk ++ rest) = POk (s' ++ rest).
Proof.
  intros H.
  destruct o; try discriminate H.
  all: try (dstk stk; cbn [exec_pure app] in *; try discriminate H; unfold oki, okb, okbool in *; fin H; fail).
  - (* dig *)
    cbn [exec_pure] in *. destruct (arg1 imms) as [n|]; [|discriminate H].
    destruct (N.leb n 255); [|discriminate H].
    destruct (nth_error stk (N.to_nat n)) as [v|] eqn:E; [|discriminate H]. injection H as <-.
    rewrite nth_error_app1 by (apply nth_error_Some; rewrite E; discriminate). rewrite E. reflexivity.
  - (* cover *)
    destruct stk as [|a r]; [discriminate H|]. cbn [exec_pure app] in *.
    destruct (arg1 imms) as [n|]; [|discriminate H]. destruct (N.leb n 255); [|discriminate H].
    destruct (insert_at (N.to_nat n) a r) as [q|] eqn:E; [|discriminate H]. injection H as <-.
    rewrite (insert_at_app _ _ _ rest _ E). reflexivity.
  - (* uncover *)
    cbn [exec_pure] in *. destruct (arg1 imms) as [n|]; [|discriminate H]. destruct (N.leb n 255); [|discriminate H].
    destruct (remove_at (N.to_nat n) stk) as [[x q]|] eqn:E; [|discriminate H]. injection H as <-.
    rewrite (remove_at_app _ _ rest _ _ E). reflexivity.
  - (* popn *)
    cbn [exec_pure] in *. destruct (arg1 imms) as [n|]; [|discriminate H].
    destruct (N.leb_spec n (N.of_nat (List.length stk))) as [L|L]; [|discriminate H]. injection H as <-.
    rewrite app_length.
    destruct (N.leb_spec n (N.of_nat (List.length stk + List.length rest))) as [L'|L']; [|lia].
    rewrite skipn_app. replace (N.to_nat n - List.length stk)%nat with 0%nat by lia. reflexivity.
  - (* dupn *)
    destruct stk as [|a r]; [discriminate H|]. cbn [exec_pure app] in *.
    destruct (arg1 imms) as [n|]; [|discriminate H]. destruct (N.leb n 255); [|discriminate H]. injection H as <-.
    rewrite <- app_assoc. reflexivity.
  - (* bury *)
    destruct stk as [|a r]; [discriminate H|]. cbn [exec_pure app] in *.
    destruct (arg1 imms) as [n|]; [|discriminate H]. destruct (N.eqb_spec n 0) as [Z|Z]; [discriminate H|].
    destruct (N.leb_spec n (N.of_nat (List.length r))) as [L|L]; [|discriminate H]. injection H as <-.
    rewrite app_length.
    destruct (N.leb_spec n (N.of_nat (List.length r + List.length rest))) as [L'|L']; [|lia].
    rewrite list_update_app by lia. reflexivity.
Qed.

Lemma exec_pure_not o imms stk rest : exec_pure o imms stk = PNot -> exec_pure o imms (stk ++ rest) = PNot.
Proof.
  intros H.
  destruct o; try reflexivity.
  all: try (dstk stk; cbn [exec_pure app] in *; try discriminate H; unfold oki, okb, okbool in *;
            repeat match type of H with
                   | context [if ?c then _ else _] => destruct c eqn:?
                   | context [match ?x with _ => _ end] => destruct x eqn:?
                   end; try discriminate H; try reflexivity; fail).
Qed.

Definition with_sc (sc : list (N * value)) (st : mstate) : mstate :=
  mkSt sc (s_global st) (s_local st) (s_boxes st) (s_itxn st) (s_last_itxn st) (s_trace st).

Definition scratch_op (o : opc) : bool :=
  match o with O_load | O_store | O_loads | O_stores => true | _ => false end.

Ltac stepH H := match type of H with
  | context [match ?x with _ => _ end] => destruct x eqn:?; try discriminate H; cbn [app] in *
  | context [if ?c then _ else _] => destruct c eqn:?; try discriminate H
  end.

Lemma exec_op_frame cx o imms stk st s' st' : scratch_op o = false ->
  exec_op cx o imms stk st = OOk s' st' ->
  s_scratch st' = s_scratch st /\
  forall sc rest, exec_op cx o imms (stk ++ rest) (with_sc sc st) = OOk (s' ++ rest) (with_sc sc st').
Proof.
  intros Ho H. unfold exec_op in *.
  destruct (exec_pure o (imms_to_args imms) stk) as [s| |] eqn:EP.
  - injection H as <- <-. split; [reflexivity|]. intros sc rest. rewrite (exec_pure_frame _ _ _ rest _ EP). reflexivity.
  - discriminate H.
  - split.
    + clear EP. destruct o; try discriminate Ho; try discriminate H;
        unfold push_field, push_afield in *; repeat stepH H; try (injection H as <- <-); reflexivity.
    + intros sc rest. rewrite (exec_pure_not _ _ _ rest EP). clear EP.
      unfold with_sc at 1. cbn [s_global s_local s_boxes s_itxn s_last_itxn s_trace s_scratch].
      destruct o; try discriminate Ho; try discriminate H;
        unfold push_field, push_afield, last_itxn, itxn_txn in *;
        cbn [s_global s_local s_boxes s_itxn s_last_itxn s_trace s_scratch] in *;
        repeat stepH H; try (injection H as <- <-); try reflexivity.
      all: cbn [with_sc s_global s_local s_boxes s_itxn s_last_itxn s_trace s_scratch];
           repeat match goal with E : ?x = _ |- context [?x] => rewrite E end; try reflexivity.
Qed.
