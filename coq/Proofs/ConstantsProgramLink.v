(* Proofs/ConstantsProgramLink.v — C12, whole-program part 2: from component lists to programs.
   [cstmts_of sigma msel code]: the statements the assembler reads from a component list, op by op through
   ConstantsSpec.parsed_of (token level, placeholders instantiated by sigma, everything after a "//"
   argument is comment); a comment op is a comment line (no statement).
   [clink sigma msel ver code] = AVM.Parse.build_prog on these statements (the assembler's own label
   resolution; [ver] = the version in force before the first statement, 1 for a bare text).
   Facts: what build_prog does to two statement lists related instruction-wise, the second preceded by k
   block instructions: codes related position-wise, every label target moved by k, same version;
   the statements of createConstantBlocks' output are so related to the statements of its input. *)
From Coq Require Import List Arith NArith Ascii String Bool Lia.
From PV Require Import Base.Bytes Base.U64 Base.Sexp AVM.Syntax AVM.Ops AVM.Machine AVM.Parse
  Comp.Constants Comp.ConstantsSpec Proofs.ConstantsProof Proofs.ConstantsSim Proofs.ConstantsProgramMach.
Import ListNotations.
Local Open Scope string_scope.

Definition comment_op (o : opc) : bool := match o with O_comment => true | _ => false end.

(* ---------------------------------------------------------------- the assembler keeps the opcode *)
Lemma parse_stmt_instr_op msel hd args p :
  parse_stmt msel (hd :: args) = Some (Some (SInstr p)) -> parse_opc hd = Some (p_op p).
Proof.
  unfold parse_stmt.
  destruct (String.eqb hd "#pragma").
  { destruct args as [|k [|v [|? ?]]]; try discriminate.
    destruct (String.eqb k "version"); [destruct (N_of_dec v); discriminate|].
    destruct (String.eqb k "typetrack"); discriminate. }
  destruct (ends_with_colon hd); [destruct args; discriminate|].
  destruct (parse_opc hd) as [o|]; [|discriminate].
  intros H. f_equal.
  destruct o; cbv beta iota zeta in H; try (injection H as <-; reflexivity).
  all: repeat match type of H with context [match ?x with _ => _ end] => destruct x; try discriminate H end.
  all: injection H as <-; reflexivity.
Qed.

Lemma opc_reads_back o : comment_op o = false -> parse_opc (opc_name o) = Some o.
Proof. destruct o; intros H; try discriminate H; vm_compute; reflexivity. Qed.

Lemma parse_opc_comment : parse_opc "//" = Some O_comment \/ parse_opc "//" = None.
Proof. vm_compute. auto. Qed.

Section Link.
Variable sigma : string -> string.
Variable msel : list (string * bytes).

Lemma parsed_of_opc i p : parsed_of sigma msel i = Some p -> parse_opc (opc_name (i_op i)) = Some (p_op p).
Proof.
  unfold parsed_of. destruct (arg_tokens sigma (i_args i)) as [ts|]; [|discriminate].
  destruct (parse_stmt msel (opc_name (i_op i) :: ts)) as [[[q|l|v]|]|] eqn:E; try discriminate.
  intros H. injection H as <-. exact (parse_stmt_instr_op _ _ _ _ E).
Qed.

Lemma parsed_of_op i p : parsed_of sigma msel i = Some p -> comment_op (i_op i) = false -> p_op p = i_op i.
Proof.
  intros H C. apply parsed_of_opc in H. rewrite (opc_reads_back _ C) in H. now injection H.
Qed.

Lemma parsed_of_comment i p : parsed_of sigma msel i = Some p -> comment_op (i_op i) = true -> p_op p = O_comment.
Proof.
  intros H C. apply parsed_of_opc in H. destruct (i_op i); try discriminate C.
  change (opc_name O_comment) with "//" in H.
  destruct parse_opc_comment as [E|E]; rewrite E in H; [now injection H|discriminate H].
Qed.

(* ---------------------------------------------------------------- statements of a component list *)
Definition cstmt_of (c : comp) : option (list stmt) :=
  match c with
  | COp i =>
      if comment_op (i_op i) then Some []
      else option_map (fun p => [SInstr p]) (parsed_of sigma msel i)
  | CLabel l _ => Some [SLabel l]
  | CPragma v => Some [SPragma v]
  end.

Fixpoint cstmts_of (code : list comp) : option (list stmt) :=
  match code with
  | [] => Some []
  | c :: t => match cstmt_of c, cstmts_of t with Some x, Some r => Some (x ++ r)%list | _, _ => None end
  end.

Definition clink (ver : N) (code : list comp) : option program :=
  match cstmts_of code with
  | Some ss => build_prog ss 0 ver [] []
  | None => None
  end.

Lemma cstmts_of_app a : forall b ss, cstmts_of (a ++ b) = Some ss ->
  exists sa sb, cstmts_of a = Some sa /\ cstmts_of b = Some sb /\ ss = (sa ++ sb)%list.
Proof.
  induction a as [|c t IH]; intros b ss H.
  - exists [], ss. repeat split. exact H.
  - cbn [app cstmts_of] in H |- *.
    destruct (cstmt_of c) as [x|]; [|discriminate H].
    destruct (cstmts_of (t ++ b)) as [r|] eqn:E; [|discriminate H]. injection H as <-.
    destruct (IH b r E) as (sa & sb & -> & Hb & ->).
    exists (x ++ sa)%list, sb. repeat split; [exact Hb|now rewrite app_assoc].
Qed.

Lemma cstmts_of_app_some a b sa sb : cstmts_of a = Some sa -> cstmts_of b = Some sb ->
  cstmts_of (a ++ b) = Some (sa ++ sb)%list.
Proof.
  revert sa. induction a as [|c t IH]; intros sa Ha Hb.
  - injection Ha as <-. exact Hb.
  - cbn [app cstmts_of] in Ha |- *.
    destruct (cstmt_of c) as [x|]; [|discriminate Ha].
    destruct (cstmts_of t) as [r|]; [|discriminate Ha]. injection Ha as <-.
    rewrite (IH r eq_refl Hb). now rewrite app_assoc.
Qed.
End Link.

(* ---------------------------------------------------------------- build_prog on related statements *)
Definition shift_labels (n : nat) (l : list (string * nat)) : list (string * nat) :=
  map (fun lp => (fst lp, snd lp + n)) l.

Lemma alookup_shift n l : forall labels,
  alookup String.eqb l (shift_labels n labels) = option_map (fun t => t + n) (alookup String.eqb l labels).
Proof.
  induction labels as [|[l' p] t IH]; [reflexivity|].
  cbn [shift_labels map alookup fst snd]. destruct (String.eqb l l'); [reflexivity|exact IH].
Qed.

(* k instructions in front of a statement list *)
Lemma build_prefix : forall (l : list pinstr) ss pc ver acc labels,
  build_prog (map SInstr l ++ ss) pc ver acc labels = build_prog ss (pc + List.length l) ver (rev l ++ acc) labels.
Proof.
  induction l as [|p t IH]; intros ss pc ver acc labels.
  - cbn. now rewrite Nat.add_0_r.
  - cbn [map app build_prog List.length rev]. rewrite IH. rewrite <- app_assoc. cbn [app].
    f_equal. lia.
Qed.

Inductive srel (ib : list N) (bb : list bytes) : stmt -> stmt -> Prop :=
| sr_instr p p' : irel ib bb p p' -> srel ib bb (SInstr p) (SInstr p')
| sr_label l : srel ib bb (SLabel l) (SLabel l)
| sr_pragma v : srel ib bb (SPragma v) (SPragma v).

Lemma build_rel ib bb ss ss' : Forall2 (srel ib bb) ss ss' ->
  forall pc ver acc labels n acc' P P',
    build_prog ss pc ver acc labels = Some P ->
    build_prog ss' (pc + n) ver acc' (shift_labels n labels) = Some P' ->
    exists c c', pr_code P = (rev acc ++ c)%list /\ pr_code P' = (rev acc' ++ c')%list /\
                 Forall2 (irel ib bb) c c' /\
                 pr_labels P' = shift_labels n (pr_labels P) /\ pr_version P' = pr_version P.
Proof.
  induction 1 as [|s s' ss ss' Hs _ IH]; intros pc ver acc labels n acc' P P' B B'.
  - cbn [build_prog] in B, B'. injection B as <-. injection B' as <-. cbn [pr_code pr_labels pr_version].
    exists [], []. rewrite !app_nil_r. repeat split. constructor.
  - destruct Hs as [p p' Hp|l|v]; cbn [build_prog] in B, B'.
    + change (S (pc + n)) with (S pc + n) in B'.
      destruct (IH _ _ _ _ _ _ _ _ B B') as (c & c' & C & C' & F & L & V).
      exists (p :: c), (p' :: c'). cbn [rev] in C, C'. rewrite <- app_assoc in C, C'.
      repeat split; try assumption. constructor; assumption.
    + rewrite alookup_shift in B'.
      destruct (alookup String.eqb l labels) as [x|]; [discriminate B|]. cbn [option_map] in B'.
      change ((l, pc + n) :: shift_labels n labels) with (shift_labels n ((l, pc) :: labels)) in B'.
      exact (IH _ _ _ _ _ _ _ _ B B').
    + exact (IH _ _ _ _ _ _ _ _ B B').
Qed.

(* the second list links whenever the first does *)
Lemma build_rel_total ib bb ss ss' : Forall2 (srel ib bb) ss ss' ->
  forall pc ver acc labels n acc' P,
    build_prog ss pc ver acc labels = Some P ->
    exists P', build_prog ss' (pc + n) ver acc' (shift_labels n labels) = Some P'.
Proof.
  induction 1 as [|s s' ss ss' Hs _ IH]; intros pc ver acc labels n acc' P B.
  - cbn [build_prog]. eexists. reflexivity.
  - destruct Hs as [p p' Hp|l|v]; cbn [build_prog] in B |- *.
    + change (S (pc + n)) with (S pc + n). exact (IH _ _ _ _ _ _ _ B).
    + rewrite alookup_shift.
      destruct (alookup String.eqb l labels) as [x|]; [discriminate B|]. cbn [option_map].
      change ((l, pc + n) :: shift_labels n labels) with (shift_labels n ((l, pc) :: labels)).
      exact (IH _ _ _ _ _ _ _ B).
    + exact (IH _ _ _ _ _ _ _ B).
Qed.

(* ---------------------------------------------------------------- hypotheses as booleans *)
(* the pseudo-op program contains no constant-block opcode of its own *)
Definition no_block_site (c : comp) : bool :=
  match c with COp i => negb (is_block_op (i_op i)) | _ => true end.
Definition no_block_ops (ops : list comp) : bool := forallb no_block_site ops.

(* every long-form index fits the one-byte immediate of intc / bytec *)
Definition index_encodable_site (c : comp) : bool :=
  match c with
  | COp i => match long_index i with Some k => (k <=? 255)%N | None => true end
  | _ => true
  end.
Definition indexes_encodable (out : list comp) : bool := forallb index_encodable_site out.

(* it is the negation of the refuted statement's witness condition *)
Lemma encodable_excludes_refuted out i k :
  In (COp i) out -> long_index i = Some k -> (255 < k)%N -> indexes_encodable out = false.
Proof.
  intros Hin Hk Hlt. destruct (indexes_encodable out) eqn:E; [|reflexivity].
  unfold indexes_encodable in E. rewrite forallb_forall in E. specialize (E _ Hin).
  cbn [index_encodable_site] in E. rewrite Hk in E. apply N.leb_le in E. lia.
Qed.

(* ---------------------------------------------------------------- sites to statements *)
Section Sites.
Variable sigma : string -> string.
Variable msel : list (string * bytes).

Lemma const_not_comment i : is_const_instr i = true -> comment_op (i_op i) = false.
Proof. unfold is_const_instr. destruct (i_op i); intros H; try discriminate H; reflexivity. Qed.

Lemma load_value_comment ib bb p : p_op p = O_comment -> load_value ib bb p = None.
Proof. destruct p as [o im]. cbn [p_op]. intros ->. reflexivity. Qed.

Lemma site_stmts ib bb c c' :
  site_ok sigma msel ib bb c c' -> well_formed_site sigma msel c -> no_block_site c = true ->
  forall x, cstmt_of sigma msel c = Some x ->
  exists x', cstmt_of sigma msel c' = Some x' /\ Forall2 (srel ib bb) x x'.
Proof.
  intros Hs Hw Hnb x Hx.
  destruct c as [i|l cm|pv]; cbn [site_ok] in Hs.
  2:{ subst c'. cbn [cstmt_of] in Hx |- *. injection Hx as <-. eexists. split; [reflexivity|]. repeat constructor. }
  2:{ subst c'. cbn [cstmt_of] in Hx |- *. injection Hx as <-. eexists. split; [reflexivity|]. repeat constructor. }
  destruct (is_const_instr i) eqn:Hci.
  - destruct Hs as (i' & p' & -> & Hp' & Hfit & Hl).
    cbn [well_formed_site] in Hw. specialize (Hw Hci).
    destruct (denote sigma msel i) as [v|] eqn:Hd; [|congruence].
    destruct (denote_parsed sigma msel i v Hci Hd) as (p0 & Hp0 & Hfit0 & Hl0).
    cbn [cstmt_of] in Hx |- *. rewrite (const_not_comment i Hci), Hp0 in Hx. injection Hx as <-.
    specialize (Hl v eq_refl).
    destruct (comment_op (i_op i')) eqn:Hc'.
    { rewrite (load_value_comment _ _ _ (parsed_of_comment sigma msel i' p' Hp' Hc')) in Hl. discriminate Hl. }
    rewrite Hp'. eexists. split; [reflexivity|]. constructor; [|constructor]. constructor.
    right. exists v. repeat split; assumption.
  - subst c'. exists x. split; [exact Hx|]. cbn [cstmt_of] in Hx.
    destruct (comment_op (i_op i)) eqn:Hc; [injection Hx as <-; constructor|].
    destruct (parsed_of sigma msel i) as [p|] eqn:Hp; [|discriminate Hx]. injection Hx as <-.
    constructor; [|constructor]. constructor. left. split; [reflexivity|].
    rewrite (parsed_of_op sigma msel i p Hp Hc). cbn [no_block_site] in Hnb. now apply negb_true_iff in Hnb.
Qed.

Lemma cstmts_rel ib bb ops body :
  Forall2 (site_ok sigma msel ib bb) ops body -> input_ok sigma msel ops -> no_block_ops ops = true ->
  forall ss, cstmts_of sigma msel ops = Some ss ->
  exists sb, cstmts_of sigma msel body = Some sb /\ Forall2 (srel ib bb) ss sb.
Proof.
  induction 1 as [|c c' ops body Hs _ IH]; intros Hok Hnb ss Hss.
  - cbn [cstmts_of] in Hss |- *. injection Hss as <-. exists []. split; [reflexivity|constructor].
  - unfold input_ok in Hok. inversion Hok as [|? ? (Hw & _ & _) Hok']; subst.
    cbn [no_block_ops forallb] in Hnb. apply andb_true_iff in Hnb as [Hnb1 Hnb2].
    cbn [cstmts_of] in Hss |- *.
    destruct (cstmt_of sigma msel c) as [x|] eqn:Ex; [|discriminate Hss].
    destruct (cstmts_of sigma msel ops) as [r|] eqn:Er; [|discriminate Hss]. injection Hss as <-.
    destruct (site_stmts ib bb c c' Hs Hw Hnb1 x Ex) as (x' & Ex' & Fx).
    destruct (IH Hok' Hnb2 r eq_refl) as (sb & Eb & Fb).
    rewrite Ex', Eb. eexists. split; [reflexivity|]. apply Forall2_app; assumption.
Qed.

(* the emitted block lines *)
Lemma pro_stmts pro :
  Forall (fun c => exists i, c = COp i /\ (i_op i = O_intcblock \/ i_op i = O_bytecblock)) pro ->
  forall ib0 bb0 r, blocks_after sigma msel pro ib0 bb0 = Some r ->
  exists l, cstmts_of sigma msel pro = Some (map SInstr l) /\ blocks_of l ib0 bb0 = Some r /\
            List.length l = List.length pro.
Proof.
  induction 1 as [|c pro (i & -> & Ho) _ IH]; intros ib0 bb0 r Hb.
  - exists []. cbn in Hb |- *. repeat split. exact Hb.
  - cbn [blocks_after] in Hb.
    destruct (parsed_of sigma msel i) as [p|] eqn:Hp; [|discriminate Hb].
    assert (Hc : comment_op (i_op i) = false) by (destruct Ho as [-> | ->]; reflexivity).
    cbn [cstmts_of cstmt_of]. rewrite Hc, Hp. cbn [option_map].
    destruct (p_op p) eqn:Eo; try discriminate Hb.
    + destruct (imm_ints (p_imms p)) as [ns|] eqn:Ei; [|discriminate Hb].
      destruct (IH _ _ _ Hb) as (l & -> & Hl & Hlen).
      exists (p :: l). cbn [map app blocks_of List.length]. rewrite Eo, Ei, Hlen. repeat split. exact Hl.
    + destruct (imm_bytes (p_imms p)) as [bs|] eqn:Ei; [|discriminate Hb].
      destruct (IH _ _ _ Hb) as (l & -> & Hl & Hlen).
      exists (p :: l). cbn [map app blocks_of List.length]. rewrite Eo, Ei, Hlen. repeat split. exact Hl.
Qed.
End Sites.
