(* Proofs/WideRatioGeneral.v — C16 for ARBITRARY factor expressions (part 2).
   [denote env fuel (EWide ns ds)] (Src/Denote.v) evaluates the factor expressions left to right,
   interleaved with WideRatio's glue ops.  Here:
     * [wide_ratio_general]      if every factor evaluates (on every stack below) to one uint64 value,
                                 the outcome is the exact quotient of the values, or failure;
     * [wide_ratio_never_wraps]  for uint64-valued factors, ANY normal outcome is the exact quotient
                                 of values the factors evaluated to (state threaded in order);
     * [wide_ratio_abrupt_origin] any outcome other than normal / failure is the outcome of a factor;
     * [wide_ratio_abrupt_num/_den] a factor that does not terminate normally decides the outcome.
   The proofs are simulations: with factor values [vs], the evaluator's stack is the one
   [run_pure] computes for the constant factors [map const_code vs] (Proofs/WideRatioProof.v). *)
From Coq Require Import List NArith Lia Bool.
From PV Require Import Base.Bytes Base.U64 AVM.Syntax AVM.Ops AVM.Machine Src.Expr Src.Denote
  Comp.WideRatio Proofs.WideRatioProof Proofs.WideRatioGeneralOps.
Import ListNotations.
Local Open Scope N_scope.

Definition notnorm (r : dout) : Prop := match r with DNorm _ _ => False | _ => True end.

Lemma bind_notnorm r f : notnorm r -> bind r f = r.
Proof. destruct r; cbn [notnorm bind]; intros H; try reflexivity; contradiction. Qed.

Definition rest_code (vs : list N) : list instr :=
  flat_map (fun f => f ++ mul_step_ops) (map const_code vs).

Lemma rest_code_cons v vs : rest_code (v :: vs) = const_code v ++ mul_step_ops ++ rest_code vs.
Proof. unfold rest_code. cbn [map flat_map]. rewrite <- app_assoc. reflexivity. Qed.

Lemma rest_code_app a b : rest_code (a ++ b) = rest_code a ++ rest_code b.
Proof. unfold rest_code. rewrite map_app, flat_map_app. reflexivity. Qed.

Section Factors.
  Variable env : denv.
  Variable den : expr -> list value -> mstate -> dout.

  (* the factors [es], evaluated in order from state [st], each push exactly one uint64 value whatever
     the stack below is (the running product sits there), giving [vs] and the final state *)
  Inductive evalF : list expr -> mstate -> list N -> mstate -> Prop :=
  | evalF_nil st : evalF [] st [] st
  | evalF_cons e es st v st1 vs st2 :
      v < U64 ->
      (forall s, den e s st = DNorm (VI v :: s) st1) ->
      evalF es st1 vs st2 ->
      evalF (e :: es) st (v :: vs) st2.

  (* a uint64-valued expression: whenever it terminates normally it has pushed one uint64 *)
  Definition uintv (e : expr) : Prop :=
    forall s st s' st', den e s st = DNorm s' st' -> exists v, v < U64 /\ s' = VI v :: s.

  (* the factors [es] DID evaluate, in order from [st], to [vs] (each on some stack extending [base]) *)
  Inductive ranF (base : list value) : list expr -> mstate -> list N -> mstate -> Prop :=
  | ranF_nil st : ranF base [] st [] st
  | ranF_cons e es st v st1 vs st2 :
      v < U64 ->
      (exists acc, den e (acc ++ base) st = DNorm (VI v :: acc ++ base) st1) ->
      ranF base es st1 vs st2 ->
      ranF base (e :: es) st (v :: vs) st2.

  Lemma evalF_bound es st vs st' : evalF es st vs st' -> Forall (fun c => c < U64) vs.
  Proof. induction 1 as [|e es st v st1 vs st2 Hv _ _ IH]; constructor; assumption. Qed.

  Lemma ranF_bound base es st vs st' : ranF base es st vs st' -> Forall (fun c => c < U64) vs.
  Proof. induction 1 as [|e es st v st1 vs st2 Hv _ _ IH]; constructor; assumption. Qed.

  Lemma evalF_length es st vs st' : evalF es st vs st' -> length vs = length es.
  Proof. induction 1 as [|e es st v st1 vs st2 _ _ _ IH]; cbn [length]; congruence. Qed.

  Lemma ranF_length base es st vs st' : ranF base es st vs st' -> length vs = length es.
  Proof. induction 1 as [|e es st v st1 vs st2 _ _ _ IH]; cbn [length]; congruence. Qed.

  Lemma evalF_ranF base es st vs st' : evalF es st vs st' -> ranF base es st vs st'.
  Proof.
    induction 1 as [st|e es st v st1 vs st2 Hv He _ IH]; [constructor|].
    apply (ranF_cons base e es st v st1 vs st2 Hv); [|exact IH].
    exists []. apply He.
  Qed.

  Lemma ranF_weaken p base es st vs st' : ranF (p ++ base) es st vs st' -> ranF base es st vs st'.
  Proof.
    induction 1 as [st|e es st v st1 vs st2 Hv (acc & He) _ IH]; [constructor|].
    apply (ranF_cons base e es st v st1 vs st2 Hv); [|exact IH].
    exists (acc ++ p). rewrite <- !app_assoc. exact He.
  Qed.

  Lemma evalF_app a : forall b st va st1 vb st2,
    evalF a st va st1 -> evalF b st1 vb st2 -> evalF (a ++ b) st (va ++ vb) st2.
  Proof.
    intros b st va st1 vb st2 Ha. revert vb st2.
    induction Ha as [|e es st v st1 vs st1' Hv He _ IH]; intros vb st2 Hb; cbn [app]; [exact Hb|].
    econstructor; eauto.
  Qed.

  (* ---------------- forward simulation ---------------- *)
  Lemma wide_rest_sim es st vs st' : evalF es st vs st' ->
    forall s, den_wide_rest env den es s st = lift (run_pure (rest_code vs) s) st'.
  Proof.
    induction 1 as [st|e es st v st1 vs st2 Hv He _ IH]; intros s.
    - reflexivity.
    - cbn [den_wide_rest]. rewrite He. cbn [bind]. rewrite den_mul_step.
      rewrite rest_code_cons, run_const_app by exact Hv. rewrite run_pure_app.
      destruct (run_pure mul_step_ops (VI v :: s)) as [s2|]; cbn [lift bind]; [apply IH|reflexivity].
  Qed.

  Lemma factors_sim es st vs st' : es <> [] -> evalF es st vs st' ->
    forall s, den_factors env den es s st = lift (run_pure (multiply_factors (map const_code vs)) s) st'.
  Proof.
    intros Hne H s.
    destruct H as [st|e0 es st v0 st1 vs st2 Hv0 He0 H1]; [congruence|].
    destruct H1 as [st1|e1 es st1 v1 st2 vs st3 Hv1 He1 H2].
    - (* single factor: int 0 below it *)
      cbn [den_factors map multiply_factors]. rewrite den_int0. cbn [bind]. rewrite He0.
      change (I1 O_int 0 :: const_code v0) with (const_code 0 ++ const_code v0).
      rewrite run_const_app by reflexivity. rewrite run_const by exact Hv0. reflexivity.
    - cbn [den_factors map multiply_factors]. rewrite He0. cbn [bind]. rewrite He1. cbn [bind].
      rewrite den_mulw.
      rewrite run_const_app by exact Hv0. rewrite run_const_app by exact Hv1.
      rewrite run_pure_app.
      destruct (run_pure [I0 O_mulw] (VI v1 :: VI v0 :: s)) as [s3|]; cbn [lift bind]; [|reflexivity].
      apply (wide_rest_sim _ _ _ _ H2).
  Qed.

  (* ---------------- shape of the stack under the multiply step ---------------- *)
  Lemma mul_step_shape c x y base s2 :
    run_pure mul_step_ops (c :: x :: y :: base) = Some s2 -> exists x' y', s2 = x' :: y' :: base.
  Proof.
    unfold mul_step_ops, I0, I1.
    destruct c as [c|c], x as [x|x], y as [y|y]; stepc; try discriminate;
      repeat (match goal with |- context [if ?b then _ else _] => destruct b end; stepc; try discriminate).
    all: intros E; inversion E; eauto.
  Qed.

  Lemma mulw_shape a b base s2 :
    run_pure [I0 O_mulw] (a :: b :: base) = Some s2 -> exists x' y', s2 = x' :: y' :: base.
  Proof.
    unfold I0. destruct a as [a|a], b as [b|b]; cbn [run_pure i_op i_args exec_pure]; try discriminate.
    intros E; inversion E; eauto.
  Qed.

  (* ---------------- inversion: a normal outcome comes from factor values ---------------- *)
  Lemma wide_rest_inv es : Forall uintv es ->
    forall base x y st s' st', den_wide_rest env den es (x :: y :: base) st = DNorm s' st' ->
      exists vs, ranF base es st vs st' /\ run_pure (rest_code vs) (x :: y :: base) = Some s'.
  Proof.
    induction 1 as [|e es Ue _ IH]; intros base x y st s' st' H.
    - cbn [den_wide_rest] in H. inversion H; subst. exists []. split; [constructor|reflexivity].
    - cbn [den_wide_rest] in H.
      destruct (den e (x :: y :: base) st) as [s1 st1| | | | | | | |] eqn:E; try discriminate H.
      cbn [bind] in H. destruct (Ue _ _ _ _ E) as (v & Hv & ->).
      rewrite den_mul_step in H.
      destruct (run_pure mul_step_ops (VI v :: x :: y :: base)) as [s2|] eqn:E2; [|discriminate H].
      cbn [lift bind] in H.
      destruct (mul_step_shape _ _ _ _ _ E2) as (x' & y' & ->).
      destruct (IH _ _ _ _ _ _ H) as (vs & R & Run).
      exists (v :: vs). split.
      + apply (ranF_cons base e es st v st1 vs st' Hv); [|exact R]. exists [x; y]. exact E.
      + rewrite rest_code_cons, run_const_app by exact Hv. rewrite run_pure_app, E2. exact Run.
  Qed.

  Lemma factors_inv es : es <> [] -> Forall uintv es ->
    forall base st s' st', den_factors env den es base st = DNorm s' st' ->
      exists vs, ranF base es st vs st' /\
                 run_pure (multiply_factors (map const_code vs)) base = Some s'.
  Proof.
    intros Hne U base st s' st' H.
    destruct U as [|e0 es U0 U]; [congruence|]. destruct U as [|e1 es U1 U].
    - cbn [den_factors] in H. rewrite den_int0 in H. cbn [bind] in H.
      destruct (U0 _ _ _ _ H) as (v & Hv & ->).
      exists [v]. split.
      + apply (ranF_cons base e0 [] st v st' [] st' Hv); [|constructor]. exists [VI 0]. exact H.
      + cbn [map multiply_factors].
        change (I1 O_int 0 :: const_code v) with (const_code 0 ++ const_code v).
        rewrite run_const_app by reflexivity. apply run_const; exact Hv.
    - cbn [den_factors] in H.
      destruct (den e0 base st) as [s1 st1| | | | | | | |] eqn:E0; try discriminate H.
      cbn [bind] in H. destruct (U0 _ _ _ _ E0) as (v0 & Hv0 & ->).
      destruct (den e1 (VI v0 :: base) st1) as [s2 st2| | | | | | | |] eqn:E1; try discriminate H.
      cbn [bind] in H. destruct (U1 _ _ _ _ E1) as (v1 & Hv1 & ->).
      rewrite den_mulw in H.
      destruct (run_pure [I0 O_mulw] (VI v1 :: VI v0 :: base)) as [s3|] eqn:E3; [|discriminate H].
      cbn [lift bind] in H.
      destruct (mulw_shape _ _ _ _ E3) as (x' & y' & ->).
      destruct (wide_rest_inv es U _ _ _ _ _ _ H) as (vs & R & Run).
      exists (v0 :: v1 :: vs). split.
      + apply (ranF_cons base e0 (e1 :: es) st v0 st1 (v1 :: vs) st' Hv0); [exists []; exact E0|].
        apply (ranF_cons base e1 es st1 v1 st2 vs st' Hv1); [exists [VI v0]; exact E1|exact R].
      + cbn [map multiply_factors].
        rewrite run_const_app by exact Hv0. rewrite run_const_app by exact Hv1.
        rewrite run_pure_app, E3. exact Run.
  Qed.

  (* ---------------- where an abrupt outcome comes from ---------------- *)
  Definition from_factor (es : list expr) (r : dout) : Prop :=
    exists e s st, In e es /\ den e s st = r.

  Lemma from_factor_incl es es' r : incl es es' -> from_factor es r -> from_factor es' r.
  Proof. intros I (e & s & st & Hin & E). exists e, s, st. split; [apply I; exact Hin|exact E]. Qed.

  Lemma wide_rest_origin es : forall s st r,
    den_wide_rest env den es s st = r -> notnorm r -> r <> DFail -> from_factor es r.
  Proof.
    induction es as [|e es IH]; intros s st r H N F.
    - cbn [den_wide_rest] in H. subst r. contradiction.
    - cbn [den_wide_rest] in H.
      destruct (den e s st) as [s1 st1| | | | | | | |] eqn:E;
        try (cbn [bind] in H; subst r; exists e, s, st; split; [left; reflexivity|exact E]).
      cbn [bind] in H. rewrite den_mul_step in H.
      destruct (run_pure mul_step_ops s1) as [s2|]; cbn [lift bind] in H; [|congruence].
      eapply from_factor_incl; [|exact (IH _ _ _ H N F)]. apply incl_tl, incl_refl.
  Qed.

  Lemma factors_origin es s st r :
    den_factors env den es s st = r -> notnorm r -> r <> DFail -> from_factor es r.
  Proof.
    intros H N F. destruct es as [|e0 [|e1 es]].
    - cbn [den_factors] in H. subst r. contradiction.
    - cbn [den_factors] in H. rewrite den_int0 in H. cbn [bind] in H.
      exists e0, (VI 0 :: s), st. split; [left; reflexivity|exact H].
    - cbn [den_factors] in H.
      destruct (den e0 s st) as [s1 st1| | | | | | | |] eqn:E0;
        try (cbn [bind] in H; subst r; exists e0, s, st; split; [left; reflexivity|exact E0]).
      cbn [bind] in H.
      destruct (den e1 s1 st1) as [s2 st2| | | | | | | |] eqn:E1;
        try (cbn [bind] in H; subst r; exists e1, s1, st1; split; [right; left; reflexivity|exact E1]).
      cbn [bind] in H. rewrite den_mulw in H.
      destruct (run_pure [I0 O_mulw] s2) as [s3|]; cbn [lift bind] in H; [|congruence].
      eapply from_factor_incl; [|exact (wide_rest_origin _ _ _ _ H N F)].
      apply incl_tl, incl_tl, incl_refl.
  Qed.

  (* ---------------- a factor that does not terminate normally ---------------- *)
  Lemma wide_rest_app a : forall b s st,
    den_wide_rest env den (a ++ b) s st =
    bind (den_wide_rest env den a s st) (fun s1 st1 => den_wide_rest env den b s1 st1).
  Proof.
    induction a as [|e a IH]; intros b s st; cbn [app den_wide_rest bind]; [reflexivity|].
    destruct (den e s st) as [s1 st1| | | | | | | |]; cbn [bind]; try reflexivity.
    destruct (den_ops env mul_step_ops s1 st1) as [s2 st2| | | | | | | |]; cbn [bind]; try reflexivity.
    apply IH.
  Qed.

  Lemma rest_run_ok vs hi lo base : hi < U64 -> lo < U64 -> Forall (fun c => c < U64) vs ->
    match run_pure (rest_code vs) (VI lo :: VI hi :: base) with
    | Some s => running_ok (hi * U64 + lo) vs = true /\ exists x y, s = x :: y :: base
    | None => running_ok (hi * U64 + lo) vs = false
    end.
  Proof.
    intros Hh Hl Hall. unfold rest_code. rewrite rest_ops_spec by assumption.
    pose proof (steps_spec vs hi lo Hh Hl) as S.
    destruct (steps hi lo vs) as [[h l]|]; [|exact S].
    destruct S as (R & _). split; [exact R|eauto].
  Qed.

  (* the running products of the values seen so far decide between "the factor's outcome" and failure *)
  Lemma factors_abrupt pre e post st vals st1 (r : list value -> dout) :
    evalF pre st vals st1 ->
    (forall s, den e s st1 = r s) -> (forall s, notnorm (r s)) ->
    forall base, exists acc,
      den_factors env den (pre ++ e :: post) base st =
      if running_ok 1 vals then r (acc ++ base) else DFail.
  Proof.
    intros Hpre He Hn base.
    destruct Hpre as [st|e0 es st v0 st1' vs0 st2 Hv0 He0 H1].
    - (* the first factor *)
      cbn [app running_ok]. destruct post as [|p post'].
      + exists [VI 0]. cbn [den_factors]. rewrite den_int0. cbn [bind]. apply He.
      + exists []. cbn [den_factors]. rewrite He. apply bind_notnorm, Hn.
    - destruct H1 as [st1'|e1 es st1' v1 st2 vs st3 Hv1 He1 H2].
      + (* the second factor *)
        exists [VI v0]. cbn [app den_factors]. rewrite He0. cbn [bind]. rewrite He.
        rewrite bind_notnorm by apply Hn.
        cbn [running_ok]. rewrite N.mul_1_l.
        assert (A : v0 <? U128 = true) by (apply N.ltb_lt; rewrite U128_eq; pose proof U64_pos; nia).
        rewrite A. reflexivity.
      + (* a later factor *)
        cbn [app den_factors]. rewrite He0. cbn [bind]. rewrite He1. cbn [bind].
        rewrite den_mulw. unfold I0. cbn [run_pure i_op i_args exec_pure lift bind].
        rewrite wide_rest_app. rewrite (wide_rest_sim _ _ _ _ H2).
        pose proof U64_pos as Up.
        assert (Bh : hi64 (v0 * v1) < U64).
        { unfold hi64. apply N.div_lt_upper_bound; [lia|]. nia. }
        assert (Bl : lo64 (v0 * v1) < U64) by (unfold lo64; apply N.mod_lt; lia).
        assert (Eab : hi64 (v0 * v1) * U64 + lo64 (v0 * v1) = v0 * v1).
        { unfold hi64, lo64. pose proof (N.div_mod (v0 * v1) U64 ltac:(lia)). lia. }
        pose proof (rest_run_ok vs _ _ base Bh Bl (evalF_bound _ _ _ _ H2)) as S.
        rewrite Eab in S.
        assert (A1 : v0 <? U128 = true) by (apply N.ltb_lt; rewrite U128_eq; nia).
        assert (A2 : v0 * v1 <? U128 = true) by (apply N.ltb_lt; rewrite U128_eq; nia).
        cbn [running_ok]. rewrite !N.mul_1_l, A1, A2. cbn [andb].
        destruct (run_pure (rest_code vs) (VI (lo64 (v0 * v1)) :: VI (hi64 (v0 * v1)) :: base)) as [s|].
        * destruct S as (R & x & y & ->). rewrite R. exists [x; y].
          cbn [lift bind den_wide_rest]. rewrite He. apply bind_notnorm, Hn.
        * rewrite S. exists []. reflexivity.
  Qed.
End Factors.

(* ================= the statements about [denote] ================= *)

Definition eval_factors (env : denv) (fuel : nat) := evalF (denote env fuel).
Definition ran_factors (env : denv) (fuel : nat) := ranF (denote env fuel).
Definition uint_valued (env : denv) (e : expr) : Prop := forall fuel, uintv (denote env fuel) e.

Lemma denote_wide env f ns ds stk st :
  denote env (S f) (EWide ns ds) stk st =
  bind (den_factors env (denote env f) ns stk st) (fun s1 st1 =>
  bind (den_factors env (denote env f) ds s1 st1) (fun s2 st2 => den_ops env combine_ops s2 st2)).
Proof. reflexivity. Qed.

Theorem wide_ratio_general env f ns ds nvals dvals stk st stm st' :
  ns <> [] -> ds <> [] ->
  eval_factors env f ns st nvals stm ->
  eval_factors env f ds stm dvals st' ->
  denote env (S f) (EWide ns ds) stk st =
  match wide_ratio_spec nvals dvals with
  | Some q => DNorm (VI q :: stk) st'
  | None => DFail
  end.
Proof.
  intros Hn Hd En Ed. rewrite denote_wide.
  rewrite (factors_sim env _ ns st nvals stm Hn En).
  assert (Ln : nvals <> []).
  { intros ->. apply evalF_length in En. destruct ns; [congruence|discriminate En]. }
  assert (Ld : dvals <> []).
  { intros ->. apply evalF_length in Ed. destruct ds; [congruence|discriminate Ed]. }
  pose proof (wide_ratio_exact nvals dvals stk Ln Ld (evalF_bound _ _ _ _ _ En) (evalF_bound _ _ _ _ _ Ed)) as X.
  unfold wide_ratio_ops in X. rewrite run_pure_app in X.
  destruct (run_pure (multiply_factors (map const_code nvals)) stk) as [s1|]; cbn [lift bind].
  - rewrite (factors_sim env _ ds stm dvals st' Hd Ed). rewrite run_pure_app in X.
    destruct (run_pure (multiply_factors (map const_code dvals)) s1) as [s2|]; cbn [lift bind].
    + rewrite den_combine, X. destruct (wide_ratio_spec nvals dvals); reflexivity.
    + destruct (wide_ratio_spec nvals dvals); [discriminate X|reflexivity].
  - destruct (wide_ratio_spec nvals dvals); [discriminate X|reflexivity].
Qed.

Theorem wide_ratio_never_wraps env fuel ns ds stk st s' st' :
  ns <> [] -> ds <> [] ->
  Forall (uint_valued env) ns -> Forall (uint_valued env) ds ->
  denote env fuel (EWide ns ds) stk st = DNorm s' st' ->
  exists f nvals dvals stm,
    fuel = S f /\
    ran_factors env f stk ns st nvals stm /\
    ran_factors env f stk ds stm dvals st' /\
    running_ok 1 nvals = true /\ running_ok 1 dvals = true /\
    prod dvals <> 0 /\ prod nvals / prod dvals < U64 /\
    s' = VI (prod nvals / prod dvals) :: stk.
Proof.
  intros Hn Hd Un Ud H. destruct fuel as [|f]; [discriminate H|].
  rewrite denote_wide in H.
  assert (Un' : Forall (uintv (denote env f)) ns) by (eapply Forall_impl; [|exact Un]; intros a Ha; apply Ha).
  assert (Ud' : Forall (uintv (denote env f)) ds) by (eapply Forall_impl; [|exact Ud]; intros a Ha; apply Ha).
  destruct (den_factors env (denote env f) ns stk st) as [s1 st1| | | | | | | |] eqn:E1; try discriminate H.
  cbn [bind] in H.
  destruct (den_factors env (denote env f) ds s1 st1) as [s2 st2| | | | | | | |] eqn:E2; try discriminate H.
  cbn [bind] in H. rewrite den_combine in H.
  destruct (run_pure combine_ops s2) as [s3|] eqn:E3; [|discriminate H].
  cbn [lift] in H. inversion H; subst s3 st2; clear H.
  destruct (factors_inv env _ ns Hn Un' _ _ _ _ E1) as (nvals & Rn & Xn).
  destruct (factors_inv env _ ds Hd Ud' _ _ _ _ E2) as (dvals & Rd & Xd).
  assert (Ln : nvals <> []).
  { intros ->. apply ranF_length in Rn. destruct ns; [congruence|discriminate Rn]. }
  assert (Ld : dvals <> []).
  { intros ->. apply ranF_length in Rd. destruct ds; [congruence|discriminate Rd]. }
  pose proof (wide_ratio_exact nvals dvals stk Ln Ld (ranF_bound _ _ _ _ _ _ Rn) (ranF_bound _ _ _ _ _ _ Rd)) as X.
  unfold wide_ratio_ops in X. rewrite run_pure_app, Xn, run_pure_app, Xd, E3 in X.
  destruct (wide_ratio_spec nvals dvals) as [q|] eqn:Sp; [|discriminate X].
  inversion X; subst s'; clear X.
  destruct (wide_ratio_spec_meaning _ _ _ Sp) as (R1 & R2 & Nz & Eq & Lt).
  exists f, nvals, dvals, st1. subst q.
  repeat split; try assumption.
  (* the denominators ran on stacks extending the numerator's result, which extends stk *)
  pose proof (multiply_factors_spec nvals stk Ln (ranF_bound _ _ _ _ _ _ Rn)) as M.
  rewrite Xn, R1 in M. inversion M; subst s1.
  apply (ranF_weaken (denote env f) [VI (lo64 (prod nvals)); VI (hi64 (prod nvals))] stk). exact Rd.
Qed.

(* any outcome of a WideRatio other than "normal" and "failure" is the outcome of one of its factors:
   the glue never exits, returns, breaks or leaves the modelled fragment *)
Theorem wide_ratio_abrupt_origin env f ns ds stk st r :
  denote env (S f) (EWide ns ds) stk st = r -> notnorm r -> r <> DFail ->
  exists e s st1, In e (ns ++ ds) /\ denote env f e s st1 = r.
Proof.
  intros H N F. rewrite denote_wide in H.
  destruct (den_factors env (denote env f) ns stk st) as [s1 st1| | | | | | | |] eqn:E1.
  2-9: cbn [bind] in H; subst r;
       destruct (factors_origin env _ ns stk st _ E1 N F) as (ex & sx & stx & Hin & E);
       exists ex, sx, stx; split; [apply in_or_app; left; exact Hin|exact E].
  cbn [bind] in H.
  destruct (den_factors env (denote env f) ds s1 st1) as [s2 st2| | | | | | | |] eqn:E2.
  2-9: cbn [bind] in H; subst r;
       destruct (factors_origin env _ ds s1 st1 _ E2 N F) as (ex & sx & stx & Hin & E);
       exists ex, sx, stx; split; [apply in_or_app; right; exact Hin|exact E].
  cbn [bind] in H. rewrite den_combine in H.
  destruct (run_pure combine_ops s2); cbn [lift] in H; subst r; [contradiction|congruence].
Qed.

(* a numerator factor that does not terminate normally *)
Theorem wide_ratio_abrupt_num env f pre e post ds stk st vals st1 (r : list value -> dout) :
  eval_factors env f pre st vals st1 ->
  (forall s, denote env f e s st1 = r s) -> (forall s, notnorm (r s)) ->
  exists acc,
    denote env (S f) (EWide (pre ++ e :: post) ds) stk st =
    if running_ok 1 vals then r (acc ++ stk) else DFail.
Proof.
  intros Hpre He Hn. rewrite denote_wide.
  destruct (factors_abrupt env _ pre e post st vals st1 r Hpre He Hn stk) as (acc & E).
  exists acc. rewrite E. destruct (running_ok 1 vals); [apply bind_notnorm, Hn|reflexivity].
Qed.

(* a denominator factor that does not terminate normally (all numerator factors evaluated) *)
Theorem wide_ratio_abrupt_den env f ns pre e post stk st nvals stm vals st1 (r : list value -> dout) :
  ns <> [] ->
  eval_factors env f ns st nvals stm ->
  eval_factors env f pre stm vals st1 ->
  (forall s, denote env f e s st1 = r s) -> (forall s, notnorm (r s)) ->
  exists acc,
    denote env (S f) (EWide ns (pre ++ e :: post)) stk st =
    if running_ok 1 nvals && running_ok 1 vals then r (acc ++ stk) else DFail.
Proof.
  intros Hne En Hpre He Hn. rewrite denote_wide.
  rewrite (factors_sim env _ ns st nvals stm Hne En).
  assert (Ln : nvals <> []).
  { intros ->. apply evalF_length in En. destruct ns; [congruence|discriminate En]. }
  rewrite (multiply_factors_spec nvals stk Ln (evalF_bound _ _ _ _ _ En)).
  destruct (running_ok 1 nvals); cbn [lift bind andb]; [|exists []; reflexivity].
  destruct (factors_abrupt env _ pre e post stm vals st1 r Hpre He Hn
              (VI (lo64 (prod nvals)) :: VI (hi64 (prod nvals)) :: stk)) as (acc & E).
  exists (acc ++ [VI (lo64 (prod nvals)); VI (hi64 (prod nvals))]).
  rewrite E. rewrite <- app_assoc. cbn [app].
  destruct (running_ok 1 vals); [apply bind_notnorm, Hn|reflexivity].
Qed.

(* ---------------- the hypotheses spelled out ---------------- *)
Lemma eval_factors_nil_iff env fuel st vs st' :
  eval_factors env fuel [] st vs st' <-> vs = [] /\ st' = st.
Proof.
  split.
  - intros H. inversion H; subst. split; reflexivity.
  - intros [-> ->]. constructor.
Qed.

Lemma eval_factors_cons_iff env fuel e es st vs st' :
  eval_factors env fuel (e :: es) st vs st' <->
  exists v st1 vs', vs = v :: vs' /\ v < U64 /\
    (forall s, denote env fuel e s st = DNorm (VI v :: s) st1) /\
    eval_factors env fuel es st1 vs' st'.
Proof.
  split.
  - intros H. inversion H as [|e' es' st0 v st1 vs' st2 Hv He Hr]; subst.
    exists v, st1, vs'. repeat split; assumption.
  - intros (v & st1 & vs' & -> & Hv & He & Hr). exact (evalF_cons _ e es st v st1 vs' st' Hv He Hr).
Qed.

Lemma ran_factors_nil_iff env fuel base st vs st' :
  ran_factors env fuel base [] st vs st' <-> vs = [] /\ st' = st.
Proof.
  split.
  - intros H. inversion H; subst. split; reflexivity.
  - intros [-> ->]. constructor.
Qed.

Lemma ran_factors_cons_iff env fuel base e es st vs st' :
  ran_factors env fuel base (e :: es) st vs st' <->
  exists v st1 vs', vs = v :: vs' /\ v < U64 /\
    (exists acc, denote env fuel e (acc ++ base) st = DNorm (VI v :: acc ++ base) st1) /\
    ran_factors env fuel base es st1 vs' st'.
Proof.
  split.
  - intros H. inversion H as [|e' es' st0 v st1 vs' st2 Hv He Hr]; subst.
    exists v, st1, vs'. repeat split; assumption.
  - intros (v & st1 & vs' & -> & Hv & He & Hr). exact (ranF_cons _ base e es st v st1 vs' st' Hv He Hr).
Qed.

(* evaluation is deterministic: factors that evaluate on every stack ran with exactly those values *)
Lemma eval_ran_agree env fuel base es : forall st vs st' vs2 st2,
  eval_factors env fuel es st vs st' -> ran_factors env fuel base es st vs2 st2 -> vs2 = vs /\ st2 = st'.
Proof.
  induction es as [|e es IH]; intros st vs st' vs2 st2 H1 H2.
  - inversion H1; subst. inversion H2; subst. split; reflexivity.
  - inversion H1 as [|e' es' st0 v st1 vs' st3 Hv He Hr]; subst.
    inversion H2 as [|e' es' st0 v2 st1' vs2' st3' Hv2 (acc & He2) Hr2]; subst.
    rewrite He in He2. inversion He2; subst.
    destruct (IH _ _ _ _ _ Hr Hr2) as [-> ->]. split; reflexivity.
Qed.
