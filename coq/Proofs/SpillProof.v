(* Proofs/SpillProof.v — C02: the code [spillLocalSlotsDuringRecursion] puts around a re-entrant
   [callsub] (model [Comp.Compile.spill_one]) preserves the caller's frame: the operands already on the
   stack, the caller's local slots, and the callee's results — for every number of slots, every number
   of arguments, every stack below, every scratch content and every callee (which may rewrite all
   slots) — exactly when the callee leaves as many results as the flag [r] (second parameter of
   [spill_one]) the restore code was built for says.
   History: up to /repo commit 258948a the compiler took that flag from the CALLING subroutine's
   return_type (model parameter name [caller_returns]); the fix takes it from the CALLED subroutine
   (model: [spill] now passes [callee_returns]).  [spill_frame_same_type] is the theorem the fix makes
   applicable to every call; the [spill_frame_refuted_*] theorems show what the old choice did under
   mutual recursion between a none and a uint64 subroutine (flag and callee disagree). *)
From Coq Require Import String.
From Coq Require Import Arith NArith Bool Lia List.
From PV Require Import Base.Bytes AVM.Syntax AVM.Ops Src.Expr Comp.Passes Comp.Compile Comp.SpillSem.
Import ListNotations.

(* ------------------------------------------------------------------------------------------ *)
(* list lemmas: insert_at / remove_at / nth_error at the end of a prefix                        *)
(* ------------------------------------------------------------------------------------------ *)
Lemma insert_at_app {A} (P : list A) (x : A) (R : list A) :
  insert_at (length P) x (P ++ R) = Some (P ++ x :: R).
Proof.
  induction P as [|p P IH]; cbn [length app insert_at]; [reflexivity|].
  rewrite IH. reflexivity.
Qed.

Lemma remove_at_app {A} (P : list A) (x : A) (R : list A) :
  remove_at (length P) (P ++ x :: R) = Some (x, P ++ R).
Proof.
  induction P as [|p P IH]; cbn [length app remove_at]; [reflexivity|].
  rewrite IH. reflexivity.
Qed.

Lemma nth_error_app_mid {A} (P : list A) (x : A) (R : list A) :
  nth_error (P ++ x :: R) (length P) = Some x.
Proof. induction P as [|p P IH]; cbn [length app nth_error]; auto. Qed.

Lemma flat_map_single {A B} (f : A -> B) (l : list A) :
  flat_map (fun x => [f x]) l = map f l.
Proof. induction l as [|x l IH]; cbn [flat_map map app]; [reflexivity|]. rewrite IH. reflexivity. Qed.

Lemma flat_map_const {B} (c : list B) (n : nat) : forall i : nat,
  flat_map (fun _ : nat => c) (seq i n) = concat (repeat c n).
Proof.
  induction n as [|n IH]; intros i; cbn [seq flat_map repeat concat]; [reflexivity|].
  rewrite IH. reflexivity.
Qed.

Lemma concat_repeat_single {B} (c : B) (n : nat) : concat (repeat [c] n) = repeat c n.
Proof. induction n as [|n IH]; cbn [repeat concat app]; [reflexivity|]. rewrite IH. reflexivity. Qed.

Lemma mem_N_In (n : N) (l : list N) : mem_N n l = true <-> In n l.
Proof.
  induction l as [|y l IH]; cbn [mem_N In]; [split; [discriminate|tauto]|].
  rewrite orb_true_iff, IH, N.eqb_eq. split; intros [H|H]; auto.
Qed.

Lemma mem_N_rev (n : N) (l : list N) : mem_N n (rev l) = mem_N n l.
Proof.
  apply eq_true_iff_eq. rewrite !mem_N_In. rewrite <- in_rev. tauto.
Qed.

(* ------------------------------------------------------------------------------------------ *)
(* single steps                                                                                 *)
(* ------------------------------------------------------------------------------------------ *)
Section Steps.
Variable callee : callee_t.
Variable na : nat.

Lemma srun_cons c t stk m stk' m' :
  sstep callee na c stk m = Some (stk', m') ->
  srun callee na (c :: t) stk m = srun callee na t stk' m'.
Proof. intros H. cbn [srun]. rewrite H. reflexivity. Qed.

Lemma sstep_load n stk m : (n < 256)%N ->
  sstep callee na (OpI O_load n) stk m = Some (m n :: stk, m).
Proof. intros H. apply N.ltb_lt in H. cbn. rewrite H. reflexivity. Qed.

Lemma sstep_store n v stk m : (n < 256)%N ->
  sstep callee na (OpI O_store n) (v :: stk) m = Some (stk, supd m n v).
Proof. intros H. apply N.ltb_lt in H. cbn. rewrite H. reflexivity. Qed.

Lemma sstep_swap x y stk m :
  sstep callee na (Op0 O_swap) (x :: y :: stk) m = Some (y :: x :: stk, m).
Proof. reflexivity. Qed.

Lemma sstep_pop x stk m : sstep callee na (Op0 O_pop) (x :: stk) m = Some (stk, m).
Proof. reflexivity. Qed.

Lemma byte_imm d : (d <= 255)%nat -> N.leb (N.of_nat d) 255 = true.
Proof. intros H. apply N.leb_le. lia. Qed.

Lemma sstep_cover d x stk s m : (d <= 255)%nat -> insert_at d x stk = Some s ->
  sstep callee na (OpI O_cover (N.of_nat d)) (x :: stk) m = Some (s, m).
Proof.
  intros Hd Hi. cbn -[N.leb N.of_nat N.to_nat]. rewrite (byte_imm d Hd), Nat2N.id, Hi. reflexivity.
Qed.

Lemma sstep_uncover d x stk s m : (d <= 255)%nat -> remove_at d stk = Some (x, s) ->
  sstep callee na (OpI O_uncover (N.of_nat d)) stk m = Some (x :: s, m).
Proof.
  intros Hd Hi. cbn -[N.leb N.of_nat N.to_nat]. rewrite (byte_imm d Hd), Nat2N.id, Hi. reflexivity.
Qed.

Lemma sstep_dig d x stk m : (d <= 255)%nat -> nth_error stk d = Some x ->
  sstep callee na (OpI O_dig (N.of_nat d)) stk m = Some (x :: stk, m).
Proof.
  intros Hd Hi. cbn -[N.leb N.of_nat N.to_nat]. rewrite (byte_imm d Hd), Nat2N.id, Hi. reflexivity.
Qed.

Lemma sstep_callsub cargs args X m : length args = na ->
  sstep callee na (COp (mkI O_callsub cargs)) (rev args ++ X) m =
  Some (rev (fst (callee args m)) ++ X, snd (callee args m)).
Proof.
  intros Hl. cbn [sstep i_op].
  assert (Hr : length (rev args) = na) by (rewrite rev_length; exact Hl).
  replace (Nat.leb na (length (rev args ++ X))) with true
    by (symmetry; apply Nat.leb_le; rewrite app_length; lia).
  assert (Hf : firstn na (rev args ++ X) = rev args).
  { rewrite <- Hr. rewrite firstn_app, Nat.sub_diag, firstn_all, firstn_O, app_nil_r. reflexivity. }
  assert (Hs : skipn na (rev args ++ X) = X).
  { rewrite <- Hr. rewrite skipn_app, Nat.sub_diag, skipn_all. reflexivity. }
  rewrite Hf, Hs, rev_involutive.
  destruct (callee args m) as [res m']. reflexivity.
Qed.

End Steps.

(* ------------------------------------------------------------------------------------------ *)
(* the phases                                                                                   *)
(* ------------------------------------------------------------------------------------------ *)
Definition slot_ok (s : N) : Prop := (s < 256)%N.

(* the instruction that pulls one argument above the spilled slots (AVM >= 5, uncover path) *)
Definition unc_ins (d : nat) : list comp :=
  if Nat.eqb d 1 then [Op0 O_swap] else [OpI O_uncover (N.of_nat d)].

(* restoring: store, one after the other, [m s] into every [s] of [rs] *)
Definition restore (m : scratch) (rs : list N) (m1 : scratch) : scratch :=
  fold_left (fun acc s => supd acc s (m s)) rs m1.

Lemma restore_spec m rs : forall m1 n,
  restore m rs m1 n = if mem_N n rs then m n else m1 n.
Proof.
  induction rs as [|s rs IH]; intros m1 n; [reflexivity|].
  unfold restore in *. cbn [fold_left mem_N]. rewrite IH. unfold supd.
  destruct (N.eqb_spec n s) as [->|Hne]; cbn [orb]; destruct (mem_N _ rs); reflexivity.
Qed.

Section Phases.
Variable callee : callee_t.
Variable na : nat.

(* spill phase, no cover: [load s1; ...; load sk] pushes the slot values, last slot on top *)
Lemma run_loads m slots : Forall slot_ok slots -> forall stk,
  srun callee na (map (OpI O_load) slots) stk m = Some (rev (map m slots) ++ stk, m).
Proof.
  induction 1 as [|s t Hs _ IH]; intros stk; [reflexivity|].
  cbn [map]. rewrite (srun_cons _ _ _ _ _ _ _ _ (sstep_load callee na s stk m Hs)).
  rewrite IH. cbn [rev]. rewrite <- app_assoc. reflexivity.
Qed.

(* spill phase with cover (fewer slots than arguments): every loaded value is sunk below the
   arguments [A] *)
Lemma run_load_covers m slots (A : list value) : Forall slot_ok slots -> (length A <= 255)%nat ->
  forall X,
  srun callee na (flat_map (fun s => [OpI O_load s; OpI O_cover (N.of_nat (length A))]) slots) (A ++ X) m
  = Some (A ++ rev (map m slots) ++ X, m).
Proof.
  intros Hs HA. induction Hs as [|s t Hs _ IH]; intros X; [reflexivity|].
  cbn [flat_map app].
  rewrite (srun_cons _ _ _ _ _ _ _ _ (sstep_load callee na s (A ++ X) m Hs)).
  rewrite (srun_cons _ _ _ _ _ _ _ _
             (sstep_cover callee na (length A) (m s) (A ++ X) _ m HA (insert_at_app A (m s) X))).
  rewrite IH. cbn [map rev]. rewrite <- app_assoc. reflexivity.
Qed.

(* one [uncover d] (or [swap] when d = 1) brings the element below a prefix of length d to the top *)
Lemma srun_unc_ins d (P : list value) x R m rest : length P = d -> (d <= 255)%nat ->
  srun callee na (unc_ins d ++ rest) (P ++ x :: R) m = srun callee na rest (x :: P ++ R) m.
Proof.
  intros HP Hd. unfold unc_ins. destruct (Nat.eqb_spec d 1) as [E|E].
  - subst d. destruct P as [|p [|q P]]; try discriminate. reflexivity.
  - cbn [app]. subst d.
    rewrite (srun_cons _ _ _ _ _ _ _ _
               (sstep_uncover callee na (length P) x (P ++ x :: R) _ m Hd (remove_at_app P x R))).
    reflexivity.
Qed.

(* argument phase, uncover path: the arguments (below the spilled values [M]) are pulled to the top
   one by one, first argument first *)
Lemma run_uncovers m d (M R : list value) : (d <= 255)%nat -> forall todo done,
  (length done + length M + length todo - 1 = d)%nat ->
  srun callee na (concat (repeat (unc_ins d) (length todo))) (rev done ++ M ++ rev todo ++ R) m
  = Some (rev todo ++ rev done ++ M ++ R, m).
Proof.
  intros Hd. induction todo as [|x todo IH]; intros done Hlen; [reflexivity|].
  cbn [length repeat concat rev].
  replace (rev done ++ M ++ (rev todo ++ [x]) ++ R)
    with ((rev done ++ M ++ rev todo) ++ x :: R)
    by (rewrite <- !app_assoc; reflexivity).
  rewrite srun_unc_ins; [|rewrite !app_length, !rev_length; cbn [length] in Hlen; lia|exact Hd].
  specialize (IH (done ++ [x])).
  rewrite rev_app_distr in IH. cbn [rev app] in IH.
  rewrite <- !app_assoc. cbn [app].
  rewrite IH; [|rewrite app_length; cbn [length] in *; lia].
  repeat rewrite <- app_assoc. reflexivity.
Qed.

(* argument phase, AVM 4: [dig d] copies the arguments to the top, first argument first; the
   originals stay where they were *)
Lemma run_digs m d (M : list value) : (d <= 255)%nat -> forall todo done R,
  (length done + length M + length todo - 1 = d)%nat ->
  srun callee na (repeat (OpI O_dig (N.of_nat d)) (length todo)) (rev done ++ M ++ rev todo ++ R) m
  = Some (rev todo ++ rev done ++ M ++ rev todo ++ R, m).
Proof.
  intros Hd. induction todo as [|x todo IH]; intros done R Hlen; [reflexivity|].
  cbn [length repeat rev].
  assert (Hn : nth_error (rev done ++ M ++ (rev todo ++ [x]) ++ R) d = Some x).
  { replace (rev done ++ M ++ (rev todo ++ [x]) ++ R)
      with ((rev done ++ M ++ rev todo) ++ x :: R)
      by (rewrite <- !app_assoc; reflexivity).
    replace d with (length (rev done ++ M ++ rev todo))
      by (rewrite !app_length, !rev_length; cbn [length] in Hlen; lia).
    apply nth_error_app_mid. }
  rewrite (srun_cons _ _ _ _ _ _ _ _ (sstep_dig callee na d x _ m Hd Hn)).
  specialize (IH (done ++ [x]) (x :: R)).
  rewrite rev_app_distr in IH. cbn [rev app] in IH.
  replace (x :: rev done ++ M ++ (rev todo ++ [x]) ++ R)
    with (x :: rev done ++ M ++ rev todo ++ x :: R)
    by (rewrite <- !app_assoc; reflexivity).
  rewrite IH; [|rewrite app_length; cbn [length] in *; lia].
  repeat rewrite <- app_assoc. reflexivity.
Qed.

(* restore phase: [store] for every slot of [rs], the value for the first slot of [rs] on top *)
Lemma run_stores m rs : Forall slot_ok rs -> forall X m1,
  srun callee na (map (OpI O_store) rs) (map m rs ++ X) m1 = Some (X, restore m rs m1).
Proof.
  induction 1 as [|s t Hs _ IH]; intros X m1; [reflexivity|].
  cbn [map app]. rewrite (srun_cons _ _ _ _ _ _ _ _ (sstep_store callee na s (m s) _ m1 Hs)).
  rewrite IH. reflexivity.
Qed.

(* cleanup phase, AVM 4: the dug-up argument copies are popped ... *)
Lemma run_pops m (A : list value) : forall X,
  srun callee na (concat (repeat [Op0 O_pop] (length A))) (A ++ X) m = Some (X, m).
Proof.
  induction A as [|x A IH]; intros X; [reflexivity|].
  cbn [length repeat concat app]. rewrite (srun_cons _ _ _ _ _ _ _ _ (sstep_pop callee na x _ m)).
  apply IH.
Qed.

(* ... below the return value when there is one *)
Lemma run_swap_pops m v (A : list value) : forall X,
  srun callee na (concat (repeat [Op0 O_swap; Op0 O_pop] (length A))) (v :: A ++ X) m = Some (v :: X, m).
Proof.
  induction A as [|x A IH]; intros X; [reflexivity|].
  cbn [length repeat concat app].
  rewrite (srun_cons _ _ _ _ _ _ _ _ (sstep_swap callee na v x _ m)).
  rewrite (srun_cons _ _ _ _ _ _ _ _ (sstep_pop callee na x _ m)).
  apply IH.
Qed.

End Phases.

(* ------------------------------------------------------------------------------------------ *)
(* the shape of [spill_one]: before ++ call ++ after, with the three code paths made explicit   *)
(* ------------------------------------------------------------------------------------------ *)
Definition before_code (version : N) (slots : list N) (a : nat) : list comp :=
  let d := (length slots + a - 1)%nat in
  if N.leb 5 version then
    if Nat.ltb (length slots) a
    then flat_map (fun s => [OpI O_load s; OpI O_cover (N.of_nat a)]) slots
    else map (OpI O_load) slots ++ concat (repeat (unc_ins d) a)
  else map (OpI O_load) slots ++ repeat (OpI O_dig (N.of_nat d)) a.

Definition after_code (version : N) (r : bool) (slots : list N) (a : nat) : list comp :=
  let k := length slots in
  let v5 := N.leb 5 version in
  (if r then
     if Nat.eqb k 1 then [Op0 O_swap]
     else if v5 then [OpI O_cover (N.of_nat k)] else [OpI O_store (hd 0%N slots)]
   else [])
  ++ (if r && negb (Nat.eqb k 1) && negb v5
      then match slots with
           | s1 :: t => map (OpI O_store) (rev t) ++ [OpI O_load s1; Op0 O_swap; OpI O_store s1]
           | [] => []
           end
      else map (OpI O_store) (rev slots))
  ++ (if v5 then [] else concat (repeat ((if r then [Op0 O_swap] else []) ++ [Op0 O_pop]) a)).

Lemma flat_map_ext_in {A B} (f g : A -> list B) (l : list A) :
  (forall x, In x l -> f x = g x) -> flat_map f l = flat_map g l.
Proof.
  induction l as [|x l IH]; intros H; [reflexivity|].
  cbn [flat_map]. rewrite (H x (or_introl eq_refl)), IH; [reflexivity|].
  intros y Hy. apply H. right. exact Hy.
Qed.

Lemma spill_one_shape version r slots a stmt : NoDup slots ->
  spill_one version r slots a stmt = before_code version slots a ++ stmt :: after_code version r slots a.
Proof.
  intros Hnd. unfold spill_one, before_code, after_code.
  set (k := length slots). set (d := (k + a - 1)%nat).
  assert (Hbefore :
    flat_map (fun s => OpI O_load s ::
                (if N.leb 5 version && Nat.ltb k a then [OpI O_cover (N.of_nat a)] else [])) slots
    ++ flat_map (fun _ : nat =>
         (if N.leb 5 version && negb (Nat.ltb k a)
          then (if Nat.eqb d 1 then [Op0 O_swap] else [OpI O_uncover (N.of_nat d)]) else [])
         ++ (if negb (N.leb 5 version) then [OpI O_dig (N.of_nat d)] else [])) (seq 0 a)
    = (if N.leb 5 version then
         if Nat.ltb k a
         then flat_map (fun s => [OpI O_load s; OpI O_cover (N.of_nat a)]) slots
         else map (OpI O_load) slots ++ concat (repeat (unc_ins d) a)
       else map (OpI O_load) slots ++ repeat (OpI O_dig (N.of_nat d)) a)).
  { destruct (N.leb 5 version); [destruct (Nat.ltb k a)|]; cbn [andb negb].
    - rewrite flat_map_const. cbn [app].
      replace (concat (repeat (@nil comp) a)) with (@nil comp)
        by (clear; induction a as [|a IH]; cbn [repeat concat app]; auto).
      rewrite app_nil_r. reflexivity.
    - rewrite flat_map_single, flat_map_const, app_nil_r. reflexivity.
    - rewrite flat_map_single, flat_map_const. cbn [app]. rewrite concat_repeat_single. reflexivity. }
  assert (Hafter2 :
    flat_map (fun s =>
       (if r && negb (Nat.eqb k 1) && negb (N.leb 5 version) && N.eqb s (hd 0%N slots)
        then [OpI O_load s; Op0 O_swap] else []) ++ [OpI O_store s]) (rev slots)
    = (if r && negb (Nat.eqb k 1) && negb (N.leb 5 version)
       then match slots with
            | s1 :: t => map (OpI O_store) (rev t) ++ [OpI O_load s1; Op0 O_swap; OpI O_store s1]
            | [] => []
            end
       else map (OpI O_store) (rev slots))).
  { destruct (r && negb (Nat.eqb k 1) && negb (N.leb 5 version)); cbn [andb].
    - destruct slots as [|s1 t]; [reflexivity|].
      cbn [rev hd]. rewrite flat_map_app. cbn [flat_map]. rewrite N.eqb_refl, app_nil_r. cbn [app].
      f_equal. rewrite <- flat_map_single. apply flat_map_ext_in.
      intros x Hx. apply in_rev in Hx. inversion Hnd as [|? ? Hni _]; subst.
      destruct (N.eqb_spec x s1) as [->|_]; [contradiction|reflexivity].
    - cbn [app]. apply flat_map_single. }
  assert (Hafter3 :
    (if negb (N.leb 5 version)
     then flat_map (fun _ : nat => (if r then [Op0 O_swap] else []) ++ [Op0 O_pop]) (seq 0 a) else [])
    = (if N.leb 5 version then []
       else concat (repeat ((if r then [Op0 O_swap] else []) ++ [Op0 O_pop]) a))).
  { destruct (N.leb 5 version); cbn [negb]; [reflexivity|]. apply flat_map_const. }
  rewrite Hafter2, Hafter3, <- Hbefore. rewrite <- !app_assoc. reflexivity.
Qed.

(* ------------------------------------------------------------------------------------------ *)
(* before the call: arguments on top, spilled slot values below, the caller's operands below    *)
(* ------------------------------------------------------------------------------------------ *)
Section Frame.
Variable callee : callee_t.
Variable na : nat.

Lemma before_ok version slots (args S : list value) m :
  Forall slot_ok slots ->
  (length slots + length args - 1 <= 255)%nat ->
  srun callee na (before_code version slots (length args)) (rev args ++ S) m
  = Some (rev args ++ rev (map m slots) ++ (if N.leb 5 version then S else rev args ++ S), m).
Proof.
  intros Hs Hd. unfold before_code.
  destruct (N.leb 5 version); [destruct (Nat.ltb_spec (length slots) (length args)) as [Hlt|Hge]|].
  - (* cover path *)
    destruct slots as [|s0 t]; [reflexivity|].
    rewrite <- (rev_length args).
    apply run_load_covers; [exact Hs|]. rewrite rev_length. cbn [length] in Hd. lia.
  - (* uncover path *)
    rewrite srun_app, run_loads by exact Hs.
    pose proof (run_uncovers callee na m (length slots + length args - 1) (rev (map m slots)) S Hd args [])
      as H.
    cbn [rev app length] in H. rewrite H; [reflexivity|].
    rewrite rev_length, map_length. lia.
  - (* dig path *)
    rewrite srun_app, run_loads by exact Hs.
    pose proof (run_digs callee na m (length slots + length args - 1) (rev (map m slots)) Hd args [] S)
      as H.
    cbn [rev app length] in H. rewrite H; [reflexivity|].
    rewrite rev_length, map_length. lia.
Qed.

(* ------------------------------------------------------------------------------------------ *)
(* after the call                                                                               *)
(* ------------------------------------------------------------------------------------------ *)
Lemma after_ok version (r : bool) slots (args S res : list value) (m m1 : scratch) :
  slots <> [] -> NoDup slots -> Forall slot_ok slots -> (length slots <= 255)%nat ->
  length res = (if r then 1 else 0)%nat ->
  exists m2,
    srun callee na (after_code version r slots (length args))
         (rev res ++ rev (map m slots) ++ (if N.leb 5 version then S else rev args ++ S)) m1
    = Some (rev res ++ S, m2)
    /\ forall n, m2 n = if mem_N n slots then m n else m1 n.
Proof.
  intros Hne Hnd Hs Hk Hres. unfold after_code.
  assert (Hsr : Forall slot_ok (rev slots)).
  { apply Forall_forall. intros x Hx. apply in_rev in Hx. revert x Hx. apply Forall_forall. exact Hs. }
  destruct r.
  - (* r = true: one result on top *)
    destruct res as [|v [|? ?]]; try discriminate. cbn [rev app andb].
    destruct (Nat.eqb_spec (length slots) 1) as [E1|E1]; cbn [negb andb].
    + (* one slot: swap *)
      destruct slots as [|s1 [|? ?]]; try discriminate. cbn [map rev app].
      inversion Hs as [|? ? Hs1 _]; subst.
      rewrite (srun_cons _ _ _ _ _ _ _ _ (sstep_swap callee na v (m s1) _ m1)).
      rewrite (srun_cons _ _ _ _ _ _ _ _ (sstep_store callee na s1 (m s1) _ m1 Hs1)).
      exists (supd m1 s1 (m s1)). split.
      * destruct (N.leb 5 version); [reflexivity|]. rewrite <- (rev_length args). apply run_swap_pops.
      * intros n. unfold supd. cbn [mem_N]. destruct (N.eqb_spec n s1) as [->|_]; reflexivity.
    + destruct (N.leb 5 version); cbn [negb].
      * (* cover (number of slots) *)
        exists (restore m (rev slots) m1). split; [|intros n; rewrite restore_spec, mem_N_rev; reflexivity].
        cbn [app].
        assert (Hi : insert_at (length slots) v (rev (map m slots) ++ S)
                     = Some (rev (map m slots) ++ v :: S)).
        { rewrite <- (map_length m slots), <- (rev_length (map m slots)). apply insert_at_app. }
        rewrite (srun_cons _ _ _ _ _ _ _ _ (sstep_cover callee na (length slots) v _ _ m1 Hk Hi)).
        rewrite app_nil_r, <- map_rev. apply run_stores. exact Hsr.
      * (* AVM 4: the return value hides in the first slot *)
        destruct slots as [|s1 t]; [contradiction|]. cbn [hd app].
        inversion Hs as [|? ? Hs1 Hst]; subst. inversion Hnd as [|? ? Hni Hndt]; subst.
        rewrite (srun_cons _ _ _ _ _ _ _ _ (sstep_store callee na s1 v _ m1 Hs1)).
        rewrite srun_app. cbn [map rev]. rewrite <- app_assoc, <- map_rev.
        rewrite srun_app.
        rewrite run_stores
          by (apply Forall_forall; intros x Hx; apply in_rev in Hx; revert x Hx; apply Forall_forall; exact Hst).
        cbn [app].
        set (m2 := restore m (rev t) (supd m1 s1 v)).
        assert (Hm2 : m2 s1 = v).
        { unfold m2. rewrite restore_spec, mem_N_rev.
          destruct (mem_N s1 t) eqn:Em; [apply mem_N_In in Em; contradiction|].
          unfold supd. rewrite N.eqb_refl. reflexivity. }
        rewrite (srun_cons _ _ _ _ _ _ _ _ (sstep_load callee na s1 _ m2 Hs1)), Hm2.
        rewrite (srun_cons _ _ _ _ _ _ _ _ (sstep_swap callee na v (m s1) _ m2)).
        rewrite (srun_cons _ _ _ _ _ _ _ _ (sstep_store callee na s1 (m s1) _ m2 Hs1)).
        exists (supd m2 s1 (m s1)). split.
        -- rewrite <- (rev_length args). apply run_swap_pops.
        -- intros n. unfold supd, m2. rewrite restore_spec, mem_N_rev. cbn [mem_N].
           destruct (N.eqb_spec n s1) as [->|Hn]; cbn [orb]; [reflexivity|].
           destruct (mem_N n t); [reflexivity|].
           apply N.eqb_neq in Hn. unfold supd. rewrite Hn. reflexivity.
  - (* r = false: no result *)
    destruct res as [|? ?]; try discriminate. cbn [rev app andb].
    exists (restore m (rev slots) m1). split; [|intros n; rewrite restore_spec, mem_N_rev; reflexivity].
    rewrite srun_app, <- map_rev, run_stores by exact Hsr.
    destruct (N.leb 5 version); [reflexivity|].
    cbn [app]. rewrite <- (rev_length args). apply run_pops.
Qed.

End Frame.

(* ------------------------------------------------------------------------------------------ *)
(* the frame theorem                                                                            *)
(* ------------------------------------------------------------------------------------------ *)
Definition call_stmt (cargs : list arg) : comp := COp (mkI O_callsub cargs).

(* Hypotheses, and why:
   - [slots <> []], [NoDup slots]: Python's [slots = sorted(set)], and a routine without local slots is
     skipped ([len(slots) == 0 -> continue]; model: [spill], case [_, [] => fr]).  For [slots = []]
     see [spill_frame_no_slots].
   - [slot_ok]: slot numbers are < 256 ([load]/[store] fail otherwise, as on the machine).
   - [length slots + numArgs - 1 <= 255], [length slots <= 255]: [stackDistance], [numArgs] and
     [len(slots)] are emitted as uint8 immediates of uncover/dig/cover ([exec_pure] fails above 255;
     the real assembler rejects such TEAL).
   - the callee leaves exactly as many results as the flag [r] says.  [spill] passes the CALLED
     subroutine's "returns a value" as [r] (since the fix 258948a in /repo; before, the CALLING
     subroutine's), so after the fix this hypothesis holds for every call the compiler wraps. *)
Theorem spill_frame_same_type_mem :
  forall (version : N) (r : bool) (slots : list N) (numArgs : nat) (cargs : list arg)
         (callee : callee_t) (args S : list value) (m : scratch),
    slots <> [] -> NoDup slots -> Forall slot_ok slots ->
    length args = numArgs ->
    (length slots + numArgs - 1 <= 255)%nat -> (length slots <= 255)%nat ->
    length (fst (callee args m)) = (if r then 1 else 0)%nat ->
    exists m'',
      srun callee numArgs (spill_one version r slots numArgs (call_stmt cargs)) (rev args ++ S) m
      = Some (rev (fst (callee args m)) ++ S, m'')
      /\ forall n, m'' n = if mem_N n slots then m n else snd (callee args m) n.
Proof.
  intros version r slots numArgs cargs callee args S m Hne Hnd Hs Hl Hd Hk Hres.
  subst numArgs.
  rewrite spill_one_shape by exact Hnd.
  rewrite srun_app, before_ok by assumption.
  unfold call_stmt.
  rewrite (srun_cons _ _ _ _ _ _ _ _
             (sstep_callsub callee (length args) cargs args _ m eq_refl)).
  apply after_ok; assumption.
Qed.

Theorem spill_frame_same_type :
  forall (version : N) (r : bool) (slots : list N) (numArgs : nat) (cargs : list arg)
         (callee : callee_t) (args S : list value) (m : scratch),
    slots <> [] -> NoDup slots -> Forall slot_ok slots ->
    length args = numArgs ->
    (length slots + numArgs - 1 <= 255)%nat -> (length slots <= 255)%nat ->
    length (fst (callee args m)) = (if r then 1 else 0)%nat ->
    exists m'',
      srun callee numArgs (spill_one version r slots numArgs (call_stmt cargs)) (rev args ++ S) m
      = Some (rev (fst (callee args m)) ++ S, m'')
      /\ (forall n, In n slots -> m'' n = m n)
      /\ (forall n, ~ In n slots -> m'' n = snd (callee args m) n).
Proof.
  intros version r slots numArgs cargs callee args S m Hne Hnd Hs Hl Hd Hk Hres.
  destruct (spill_frame_same_type_mem version r slots numArgs cargs callee args S m
              Hne Hnd Hs Hl Hd Hk Hres) as [m'' [Hrun Hm]].
  exists m''. split; [exact Hrun|]. split; intros n Hn; rewrite Hm.
  - apply mem_N_In in Hn. rewrite Hn. reflexivity.
  - destruct (mem_N n slots) eqn:E; [apply mem_N_In in E; contradiction|reflexivity].
Qed.

(* A routine without local slots is left alone by [spill] (Python: [continue]): the call alone
   already has the frame property, for ANY number of results. *)
Theorem spill_frame_no_slots :
  forall (numArgs : nat) (cargs : list arg) (callee : callee_t) (args S : list value) (m : scratch),
    length args = numArgs ->
    srun callee numArgs [call_stmt cargs] (rev args ++ S) m
    = Some (rev (fst (callee args m)) ++ S, snd (callee args m)).
Proof.
  intros numArgs cargs callee args S m Hl. unfold call_stmt.
  rewrite (srun_cons _ _ _ _ _ _ _ _ (sstep_callsub callee numArgs cargs args S m Hl)).
  reflexivity.
Qed.

(* ------------------------------------------------------------------------------------------ *)
(* the defect (fixed in /repo by 258948a): the restore code was chosen from the CALLER's return  *)
(* type, i.e. [r] was the caller's flag.  When the callee's                                     *)
(* result count differs (mutual recursion none <-> uint64) the frame is destroyed.              *)
(* ------------------------------------------------------------------------------------------ *)
Definition m0 : scratch := fun n => VI (n + 10).
Definition callee_one : callee_t := fun _ m => ([VI 99], m).     (* returns one value *)
Definition callee_none : callee_t := fun _ m => ([], m).         (* returns nothing *)

(* flag r = false (old compiler: caller of type none), callee returns a value *)
Theorem spill_frame_refuted_callee_returns :
  forall version, version = 4%N \/ version = 6%N ->
  exists stk m'',
    srun callee_one 1 (spill_one version false [3;4]%N 1 (call_stmt [ASub 1%N])) (rev [VI 7] ++ [VI 1000]) m0
    = Some (stk, m'')
    /\ length (fst (callee_one [VI 7] m0)) = 1%nat
    /\ stk <> rev (fst (callee_one [VI 7] m0)) ++ [VI 1000]
    /\ m'' 3%N <> m0 3%N /\ m'' 4%N <> m0 4%N.
Proof.
  intros version [->| ->].
  - eexists. eexists. split; [reflexivity|]. cbv. repeat split; intro H; discriminate H.
  - eexists. eexists. split; [reflexivity|]. cbv. repeat split; intro H; discriminate H.
Qed.

(* flag r = true (old compiler: caller of type uint64), callee returns nothing *)
Theorem spill_frame_refuted_callee_none :
  forall version, version = 4%N \/ version = 6%N ->
  exists stk m'',
    srun callee_none 1 (spill_one version true [3;4]%N 1 (call_stmt [ASub 1%N])) (rev [VI 7] ++ [VI 1000]) m0
    = Some (stk, m'')
    /\ length (fst (callee_none [VI 7] m0)) = 0%nat
    /\ stk <> rev (fst (callee_none [VI 7] m0)) ++ [VI 1000]
    /\ m'' 3%N <> m0 3%N /\ m'' 4%N <> m0 4%N.
Proof.
  intros version [->| ->].
  - eexists. eexists. split; [reflexivity|]. cbv. repeat split; intro H; discriminate H.
  - eexists. eexists. split; [reflexivity|]. cbv. repeat split; intro H; discriminate H.
Qed.

(* ------------------------------------------------------------------------------------------ *)
(* non-vacuity: the hypotheses are satisfiable on every code path; concrete runs                *)
(* ------------------------------------------------------------------------------------------ *)
(* a callee that sums nothing, returns one value and WIPES every slot *)
Definition callee_wipe1 : callee_t := fun args _ => ([VI (N.of_nat (length args) + 40)], fun _ => VI 0).
Definition callee_wipe0 : callee_t := fun _ _ => ([], fun _ => VI 0).

Definition observe (slots : list N) (o : option (list value * scratch)) : option (list value * list value) :=
  match o with Some (s, m) => Some (s, map m slots) | None => None end.

(* AVM 4, three slots, two arguments, return value hidden in slot 3: instance of the theorem *)
Example spill_frame_same_type_nonvacuous :
  exists m'',
    srun callee_wipe1 2 (spill_one 4 true [3;4;7]%N 2 (call_stmt [ASub 1%N])) (rev [VI 1; VI 2] ++ [VI 1000]) m0
    = Some (rev (fst (callee_wipe1 [VI 1; VI 2] m0)) ++ [VI 1000], m'')
    /\ (forall n, In n [3;4;7]%N -> m'' n = m0 n)
    /\ (forall n, ~ In n [3;4;7]%N -> m'' n = snd (callee_wipe1 [VI 1; VI 2] m0) n).
Proof.
  apply spill_frame_same_type; try reflexivity; try (cbn; lia).
  - discriminate.
  - repeat constructor; cbn; intuition discriminate.
  - repeat constructor.
Qed.

(* AVM 4, dig path *)
Example ex_dig_ret :
  observe [3;4;7;8]%N
    (srun callee_wipe1 2 (spill_one 4 true [3;4;7]%N 2 (call_stmt [ASub 1%N])) [VI 2; VI 1; VI 1000] m0)
  = Some ([VI 42; VI 1000], [VI 13; VI 14; VI 17; VI 0]).
Proof. vm_compute. reflexivity. Qed.
Example ex_dig_none :
  observe [3;4;7;8]%N
    (srun callee_wipe0 2 (spill_one 4 false [3;4;7]%N 2 (call_stmt [ASub 1%N])) [VI 2; VI 1; VI 1000] m0)
  = Some ([VI 1000], [VI 13; VI 14; VI 17; VI 0]).
Proof. vm_compute. reflexivity. Qed.
(* AVM >= 5, fewer slots than arguments: load; cover numArgs *)
Example ex_cover :
  observe [3;8]%N
    (srun callee_wipe1 3 (spill_one 6 true [3]%N 3 (call_stmt [ASub 1%N])) [VI 3; VI 2; VI 1; VI 1000] m0)
  = Some ([VI 43; VI 1000], [VI 13; VI 0]).
Proof. vm_compute. reflexivity. Qed.
(* AVM >= 5, uncover path, and the swap special case (one slot, one argument) *)
Example ex_uncover :
  observe [3;4;7;8]%N
    (srun callee_wipe1 2 (spill_one 8 true [3;4;7]%N 2 (call_stmt [ASub 1%N])) [VI 2; VI 1; VI 1000] m0)
  = Some ([VI 42; VI 1000], [VI 13; VI 14; VI 17; VI 0]).
Proof. vm_compute. reflexivity. Qed.
Example ex_swap :
  observe [3;8]%N
    (srun callee_wipe1 1 (spill_one 5 true [3]%N 1 (call_stmt [ASub 1%N])) [VI 1; VI 1000] m0)
  = Some ([VI 41; VI 1000], [VI 13; VI 0])
  /\ spill_one 5 true [3]%N 1 (call_stmt [ASub 1%N])
     = [OpI O_load 3; Op0 O_swap; call_stmt [ASub 1%N]; Op0 O_swap; OpI O_store 3].
Proof. split; vm_compute; reflexivity. Qed.

(* ------------------------------------------------------------------------------------------ *)
(* [spill] hands [spill_one] the CALLED subroutine's flag (the fix 258948a): mutual recursion   *)
(* f : none (id 1) <-> g : uint64 (id 2).  The call of g inside f is wrapped for a result, the  *)
(* call of f inside g is wrapped for none — so [spill_frame_same_type] applies to both.         *)
(* ------------------------------------------------------------------------------------------ *)
Definition ex_f : Src.Expr.routine := Src.Expr.mkRoutine 1 "f"%string Src.Expr.TNone [(false, 3%N)] (Src.Expr.ESeq []) None.
Definition ex_g : Src.Expr.routine := Src.Expr.mkRoutine 2 "g"%string Src.Expr.TUint [(false, 5%N)] (Src.Expr.ESeq []) None.
Definition ex_prog : Src.Expr.prog := Src.Expr.mkProgram (Src.Expr.ESeq []) [ex_f; ex_g] [].

Example spill_uses_callee_flag :
  spill 6 ex_prog
        [mkFR None [call_stmt [ASub 1%N]];
         mkFR (Some ex_f) [call_stmt [ASub 2%N]];
         mkFR (Some ex_g) [call_stmt [ASub 1%N]]]
        [(None, []); (Some 1%N, [3; 4]%N); (Some 2%N, [5]%N)]
  = COk [mkFR None [call_stmt [ASub 1%N]];
         mkFR (Some ex_f) (spill_one 6 true [3; 4]%N 1 (call_stmt [ASub 2%N]));
         mkFR (Some ex_g) (spill_one 6 false [5]%N 1 (call_stmt [ASub 1%N]))].
Proof. vm_compute. reflexivity. Qed.
