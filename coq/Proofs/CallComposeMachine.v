(* Proofs/CallComposeMachine.v — property C02: the two rules Comp/LinkedSem.v adds to the linear semantics
   are the rules of the reference machine [AVM/Machine.v step] for frames without [proto]:
     callsub l : the frame (pc+1, no proto) is pushed, control goes to the label;
     retsub    : the innermost frame (no proto) is popped, control goes to its return address,
                 the operand stack and the state are untouched; with an empty call stack the program fails.
   A call stack [fr : list nat] of Comp/LinkedSem.v stands for [frames_of fr].  (Positions: the machine
   counts instructions, the component list also counts labels; the translation is the one of the assembler
   stage, Proofs/StageELink.v, and is not repeated here.) *)
From Coq Require Import List Arith NArith String Bool Lia.
From PV Require Import Base.Bytes AVM.Syntax AVM.Ops AVM.Machine.
Import ListNotations.

Definition frames_of (fr : list nat) : list frame := map (fun r => mkFrame r None) fr.

Lemma stack_ok m : (height m <= STACK_MAX)%nat -> (STACK_MAX <? height m)%nat = false.
Proof. intros H. apply Nat.ltb_ge. exact H. Qed.

Theorem machine_callsub cx p m l t fr :
  nth_error (pr_code p) (m_pc m) = Some (mkP O_callsub [IName l]) ->
  label_pc p l = Some t -> (height m <= STACK_MAX)%nat -> m_calls m = frames_of fr ->
  step cx p m = Running (mkM t (m_stack m) (frames_of (S (m_pc m) :: fr)) true (m_intc m) (m_bytec m) (m_st m)).
Proof.
  intros Hi Hl Hh Hc. unfold step. rewrite Hi, (stack_ok m Hh). cbn [p_op p_imms].
  change (exec_op cx O_callsub [IName l] (m_stack m) (m_st m)) with ONot. cbn iota. rewrite Hl, Hc. reflexivity.
Qed.

Theorem machine_retsub cx p m imms ret fr :
  nth_error (pr_code p) (m_pc m) = Some (mkP O_retsub imms) ->
  (height m <= STACK_MAX)%nat -> m_calls m = frames_of (ret :: fr) ->
  step cx p m = Running (mkM ret (m_stack m) (frames_of fr) false (m_intc m) (m_bytec m) (m_st m)).
Proof.
  intros Hi Hh Hc. unfold step. rewrite Hi, (stack_ok m Hh). cbn [p_op p_imms].
  change (exec_op cx O_retsub imms (m_stack m) (m_st m)) with ONot. cbn iota. rewrite Hc. reflexivity.
Qed.

Theorem machine_retsub_empty cx p m imms :
  nth_error (pr_code p) (m_pc m) = Some (mkP O_retsub imms) ->
  (height m <= STACK_MAX)%nat -> m_calls m = frames_of [] ->
  step cx p m = Done VFail m.
Proof.
  intros Hi Hh Hc. unfold step. rewrite Hi, (stack_ok m Hh). cbn [p_op p_imms].
  change (exec_op cx O_retsub imms (m_stack m) (m_st m)) with ONot. cbn iota. rewrite Hc. reflexivity.
Qed.
