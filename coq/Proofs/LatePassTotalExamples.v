(* Proofs/LatePassTotalExamples.v — non-vacuity of the late-pass totality theorems (a routine with nested
   loops, Break and Continue, a Cond and an Assert goes from the checks to a running instruction list)
   and necessity of the one side condition (a Cond without arms). *)
From Coq Require Import List Arith NArith String Bool Lia.
From PV Require Import Base.Bytes AVM.Syntax AVM.Machine Src.Expr Src.Denote
  Comp.Blocks Comp.Lower Comp.Passes Comp.GraphSem Comp.LinearSem Comp.SimCheck Comp.Compile
  Proofs.LowerFrame Proofs.LowerLemmas Proofs.LowerCorrect Proofs.LowerShape
  Proofs.NormalizeLowered Proofs.FlattenCorrect Proofs.SortCorrect
  Proofs.EndToEndExits Proofs.EndToEndGlue Proofs.EndToEnd Proofs.EndToEndExamples
  Proofs.LatePassTotalReach Proofs.LatePassTotalNorm Proofs.LatePassTotal.
Import ListNotations.

Definition y_ld (s : N) : expr := EOp O_load [ASlot s] TUint [].
Definition y_st (s : N) (e : expr) : expr := EOp O_store [ASlot s] TNone [e].
Definition y_bin (o : opc) (a b : expr) : expr := EOp o [] TUint [a; b].
Definition y_inc (s : N) : expr := y_st s (ENary O_add TUint [y_ld s; x_int 1]).

(* n := 0
   while n < 10:
     for (i := 0; i < 5; i := i + 1):
       if i == 3: break
       if i == 1: continue
       n := n + 1
     if n > 7: break  else: continue
   assert n < 100
   cond [n == 8 -> return 1] [1 -> return 0] *)
Definition late_ast : expr :=
  ESeq [ y_st 0 (x_int 0);
         EWhile (y_bin O_lt (y_ld 0) (x_int 10))
           (ESeq [ EFor (y_st 1 (x_int 0)) (y_bin O_lt (y_ld 1) (x_int 5)) (y_inc 1)
                     (ESeq [ EIf (y_bin O_eq (y_ld 1) (x_int 3)) EBreak None;
                             EIf (y_bin O_eq (y_ld 1) (x_int 1)) EContinue None;
                             y_inc 0 ]);
                   EIf (y_bin O_gt (y_ld 0) (x_int 7)) EBreak (Some EContinue) ]);
         EAssert [y_bin O_lt (y_ld 0) (x_int 100)] None;
         ECond [ (y_bin O_eq (y_ld 0) (x_int 8), EReturn (Some (x_int 1)));
                 (x_int 1, EReturn (Some (x_int 0))) ] ].

Definition late_final : mstate :=
  match denote ex_env1 400 (root_ast late_ast) [] ex_st with DExit _ st => st | _ => ex_st end.

(* the hypotheses of [routine_checked_end_to_end] hold, its conclusion is obtained FROM THE THEOREM (the
   existence of cr / order / code is not computed), and the run it promises is the computed one *)
Example late_passes_example :
  check_expr opts0 None false (root_ast late_ast) = None /\
  has_bad_continue false (root_ast late_ast) = false /\
  head_loop (root_ast late_ast) = false /\
  nec (root_ast late_ast) = true /\
  denote ex_env1 400 (root_ast late_ast) [] ex_st = DExit (VI 1) late_final /\
  exists cr order code,
    compile_one opts0 None late_ast = COk cr /\
    sort_blocks (cr_graph cr) (cr_start cr) (cr_end cr) = Some order /\
    flatten_blocks (cr_graph cr) order = Some code /\
    lstar ex_env1 code (LAt 0 [] ex_st) (LExit (VI 1) late_final).
Proof.
  assert (Ck : check_expr opts0 None false (root_ast late_ast) = None) by (vm_compute; reflexivity).
  assert (Hb : has_bad_continue false (root_ast late_ast) = false) by (vm_compute; reflexivity).
  assert (HL : head_loop (root_ast late_ast) = false) by reflexivity.
  assert (Hn : nec (root_ast late_ast) = true) by (vm_compute; reflexivity).
  assert (Dn : denote ex_env1 400 (root_ast late_ast) [] ex_st = DExit (VI 1) late_final) by (vm_compute; reflexivity).
  repeat (split; [assumption|]).
  destruct (routine_checked_end_to_end opts0 None late_ast eq_refl Ck Hb HL Hn) as (cr & order & code & E & HS & HF & _ & T).
  exists cr, order, code. repeat (split; [assumption|]).
  assert (Hc : consistent ex_env1 (routine_ctx opts0 None)) by (apply consistent_main; reflexivity).
  apply (T ex_env1 Hc 400 [] ex_st). rewrite Dn. reflexivity.
Qed.

(* the same routine, computed: of the 60 blocks of the lowering 15 are reachable after NormalizeBlocks,
   the end block (id 0) is last in the order, the code has 58 components and the linear machine runs it
   to the same result *)
Example late_passes_computed :
  let cr := cr_of opts0 late_ast in
  compile_one opts0 None late_ast = COk cr /\
  sort_blocks (cr_graph cr) (cr_start cr) (cr_end cr) = Some (order_of cr) /\
  flatten_blocks (cr_graph cr) (order_of cr) = Some (code_of cr) /\
  List.length (order_of cr) = 15 /\ last (order_of cr) 1 = cr_end cr /\ List.length (code_of cr) = 58 /\
  lrun 2000 ex_env1 (code_of cr) (LAt 0 [] ex_st) = LExit (VI 1) late_final.
Proof. vm_compute. repeat split; reflexivity. Qed.

(* ---- the side condition is necessary ----
   Cond() — no arms.  PyTeal's constructor raises TealInputError ("Cond requires at least one
   [condition, value]"), so no such expression reaches the compiler; the model's [check_expr] follows
   __teal__, which would lower it to a bare err block next to an unconnected end block.  compile_one
   accepts (both tree validations pass), and sortBlocks does not find the end block: in the model the
   outcome is TealInternalError("End block not present"), not a crash. *)
Example sort_needs_cond_arms :
  let cr := cr_of opts0 (ECond []) in
  compile_one opts0 None (ECond []) = COk cr /\
  nec (root_ast (ECond [])) = false /\
  sort_blocks (cr_graph cr) (cr_start cr) (cr_end cr) = None.
Proof. vm_compute. repeat split; reflexivity. Qed.

Example sort_needs_cond_arms_seq :
  let e := ESeq [ECond []; EReturn (Some (x_int 1))] in
  let cr := cr_of opts0 e in
  compile_one opts0 None e = COk cr /\
  sort_blocks (cr_graph cr) (cr_start cr) (cr_end cr) = None.
Proof. vm_compute. repeat split; reflexivity. Qed.

(* flattenBlocks, on the other hand, has no such exception: whatever list sortBlocks could have returned
   is flattened; here on the blocks reachable from the start *)
Example flatten_without_arms :
  let cr := cr_of opts0 (ECond []) in
  exists code, flatten_blocks (cr_graph cr) [cr_start cr] = Some code.
Proof. vm_compute. eexists. reflexivity. Qed.
