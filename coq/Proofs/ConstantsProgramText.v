(* Proofs/ConstantsProgramText.v — C12, whole-program part 4: the two TEXTS.
   The lines PyTeal prints for the pseudo-op program (`#pragma version v` + ops) and for the program with
   assembled constants (`#pragma version v` + createConstantBlocks ops), joined by line feeds and read by the
   assembler model (AVM.Parse.parse_program: line splitting, tokeniser, comments, literal readers, label
   resolution) are the programs [clink] builds from the component lists — so the whole-program theorem holds
   for the texts.  Scope: ops in C01's class [printable] (Proofs/StageEText.v), every byte literal spelled as
   ONE assembler token ([single_tok]; every Bytes(...) form PyTeal prints is), placeholder-free (a printable
   constant site is never a TMPL_ name: the text has to assemble as printed).
   Ingredients: C01's per-component round trip [comp_lines] for everything the two texts share; the token-level
   reading [parsed_of] agrees with C01's [stmt_of] on printable ops; new: lines of the form
   `op word* // anything` (the loads with their `// literal` echo) and the block lines. *)
From Coq Require Import List Arith NArith Ascii String Bool Lia.
From PV Require Import Base.Bytes Base.U64 Base.Sexp AVM.Syntax AVM.Ops AVM.Machine AVM.Parse
  Comp.Assemble Comp.Constants Comp.ConstantsSpec Comp.ConstantsLit
  Proofs.LitLineProof Proofs.LitIntProof Proofs.C18Text Proofs.StageELink Proofs.StageEText
  Proofs.ConstantsLitProof Proofs.ConstantsProof Proofs.ConstantsSim
  Proofs.ConstantsProgramMach Proofs.ConstantsProgramLink Proofs.ConstantsProgram.
Import ListNotations.
Local Open Scope string_scope.
Local Open Scope list_scope.

(* ---------------------------------------------------------------- placeholders *)
Lemma tmpl_split s : is_tmpl_name s = true -> exists r, s = ("TMPL_" ++ r)%string.
Proof.
  unfold is_tmpl_name. intros H.
  destruct s as [|c1 [|c2 [|c3 [|c4 [|c5 r]]]]]; cbn [String.prefix] in H;
    repeat match type of H with (if ?x then _ else _) = true => destruct x; [|discriminate H] end;
    try discriminate H.
  subst. exists r. reflexivity.
Qed.

Lemma tmpl_not_int s : is_tmpl_name s = true -> parse_int_arg s = None.
Proof. intros H. destruct (tmpl_split s H) as [r ->]. reflexivity. Qed.

Lemma tmpl_not_bytes s : is_tmpl_name s = true -> parse_bytes_arg [s] = None.
Proof. intros H. destruct (tmpl_split s H) as [r ->]. reflexivity. Qed.

Lemma id_subst s : subst_tok id_sigma s = s.
Proof. unfold subst_tok, id_sigma. destruct (is_tmpl_name s); reflexivity. Qed.

(* ---------------------------------------------------------------- words *)
Lemma word_not_comment w : word w = true -> String.eqb w "//" = false.
Proof.
  intros H. destruct (String.eqb w "//") eqn:E; [|reflexivity].
  apply String.eqb_eq in E. subst w. discriminate H.
Qed.

Lemma comment_op_is o : comment_op o = is_comment o.
Proof. reflexivity. Qed.

(* ---------------------------------------------------------------- C01's reading = the token-level reading *)
(* a byte literal is ONE token of the assembler's tokeniser *)
Definition single_tok_instr (i : instr) : bool :=
  match kind_of (i_op i), i_args i with
  | KByte, [AStr s] => strs_eqb (tokens_of_line s) [s]
  | _, _ => true
  end.
Definition single_tok_comp (c : comp) : bool := match c with COp i => single_tok_instr i | _ => true end.
Definition single_tok (code : list comp) : bool := forallb single_tok_comp code.

Lemma arg_tokens_one s : String.eqb s "//" = false -> arg_tokens id_sigma [AStr s] = Some [s].
Proof. intros H. cbn [arg_tokens is_comment_arg arg_token]. now rewrite H, id_subst. Qed.

Lemma gen_arg_tokens : forall args, forallb gen_arg args = true -> arg_tokens id_sigma args = assemble_args args.
Proof.
  induction args as [|a t IH]; intros H; [reflexivity|].
  cbn [forallb] in H. apply andb_true_iff in H as [Ha Ht]. specialize (IH Ht).
  destruct a as [n|s|l|u|sb]; try discriminate Ha.
  - cbn [arg_tokens is_comment_arg arg_token assemble_args assemble_arg]. now rewrite IH.
  - cbn [gen_arg] in Ha. apply andb_true_iff in Ha as [Hw _].
    cbn [arg_tokens is_comment_arg arg_token assemble_args assemble_arg].
    now rewrite (word_not_comment s Hw), id_subst, IH.
Qed.

Lemma parsed_mk msel i ts o im :
  arg_tokens id_sigma (i_args i) = Some ts -> parse_stmt msel (opc_name (i_op i) :: ts) = mkS o im ->
  parsed_of id_sigma msel i = Some (mkP o im).
Proof. intros A Pr. unfold parsed_of. rewrite A, Pr. reflexivity. Qed.

Lemma agree_instr msel i :
  printable_instr msel i = true -> single_tok_instr i = true -> is_comment (i_op i) = false ->
  exists im, imms_of_args msel (i_op i) (i_args i) = Some im /\
             parsed_of id_sigma msel i = Some (mkP (i_op i) im).
Proof.
  destruct i as [o args]. unfold printable_instr, single_tok_instr. cbn [i_op i_args].
  destruct (kind_of o) eqn:K; intros H S C.
  - destruct o; try discriminate K. discriminate C.
  - (* int *)
    destruct args as [|[n|s|l|u|sb] [|a2 r]]; try discriminate H.
    + apply N.ltb_lt in H. exists [IInt n]. split; [reflexivity|].
      apply (parsed_mk msel _ [N_to_dec n]); [reflexivity|]. cbn [i_op].
      rewrite (parse_int msel o _ K), (parse_int_arg_dec n H). reflexivity.
    + apply andb_true_iff in H as [Hw Hp]. destruct (parse_int_arg s) as [n|] eqn:Pn; [|discriminate Hp].
      exists [IInt n]. split; [cbn [imms_of_args]; rewrite (imm_int_str msel o s K), Pn; reflexivity|].
      apply (parsed_mk msel _ [s]); [apply arg_tokens_one, word_not_comment, Hw|]. cbn [i_op].
      rewrite (parse_int msel o _ K), Pn. reflexivity.
  - (* byte *)
    destruct args as [|[n|s|l|u|sb] [|a2 r]]; try discriminate H.
    apply andb_true_iff in H as [Hn Hp]. apply strs_eqb_eq in S. rewrite S in Hp.
    destruct (parse_bytes_arg [s]) as [[b rest]|] eqn:Pb; [|discriminate Hp].
    destruct rest; [|discriminate Hp].
    assert (Hc : String.eqb s "//" = false).
    { destruct (String.eqb s "//") eqn:E; [|reflexivity]. apply String.eqb_eq in E. subst s. discriminate S. }
    exists [IBytes b]. split; [cbn [imms_of_args]; rewrite (imm_byte_str msel o s K), S, Pb; reflexivity|].
    apply (parsed_mk msel _ [s]); [apply arg_tokens_one, Hc|]. cbn [i_op].
    rewrite (parse_byte msel o _ K), Pb. reflexivity.
  - (* addr *)
    destruct args as [|[n|s|l|u|sb] [|a2 r]]; try discriminate H.
    apply andb_true_iff in H as [H Hd]. apply andb_true_iff in H as [Hw Hl].
    destruct (decode_base32 s) as [b|] eqn:Db; [|discriminate Hd].
    exists [IBytes (firstn 32 b)]. split; [cbn [imms_of_args]; rewrite (imm_addr_str msel o s K), Db; reflexivity|].
    apply (parsed_mk msel _ [s]); [apply arg_tokens_one, word_not_comment, Hw|]. cbn [i_op].
    rewrite (parse_addr msel o _ K), Hl, Db. reflexivity.
  - (* method *)
    destruct args as [|[n|s|l|u|sb] [|a2 r]]; try discriminate H.
    apply andb_true_iff in H as [H Hp]. apply andb_true_iff in H as [Hn Ht]. apply strs_eqb_eq in Ht.
    destruct (parse_string_literal s) as [sig|] eqn:Ps; [|discriminate Hp].
    destruct (alookup String.eqb (string_of_bytes sig) msel) as [sel|] eqn:Al; [|discriminate Hp].
    assert (Hc : String.eqb s "//" = false).
    { destruct (String.eqb s "//") eqn:E; [|reflexivity]. apply String.eqb_eq in E. subst s. discriminate Ht. }
    exists [IBytes sel]. split; [cbn [imms_of_args]; rewrite (imm_method_str msel o s K), Ps, Al; reflexivity|].
    apply (parsed_mk msel _ [s]); [apply arg_tokens_one, Hc|]. cbn [i_op].
    rewrite (parse_method msel o _ K), Ps, Al. reflexivity.
  - (* branch *)
    destruct args as [|[n|s|l|u|sb] [|a2 r]]; try discriminate H.
    + exists [IName s]. split; [cbn [imms_of_args]; rewrite (imm_branch_str msel o s K); reflexivity|].
      apply (parsed_mk msel _ [s]); [apply arg_tokens_one, word_not_comment, H|]. cbn [i_op].
      apply (parse_branch msel o _ K).
    + exists [IName l]. split; [reflexivity|].
      apply (parsed_mk msel _ [l]); [reflexivity|]. cbn [i_op]. apply (parse_branch msel o _ K).
  - discriminate H.
  - (* generic *)
    destruct (gen_args_ok msel o K args H) as (parts & A & Wp & I).
    exists (map generic_imm parts). split; [exact I|].
    apply (parsed_mk msel _ parts); [cbn [i_args]; now rewrite (gen_arg_tokens args H)|]. cbn [i_op].
    apply (parse_gen msel o _ K).
Qed.

(* hence the two statement functions agree on printable single-token components *)
Lemma agree_comp msel c : printable_comp msel c = true -> single_tok_comp c = true ->
  cstmt_of id_sigma msel c = stmt_of msel c.
Proof.
  destruct c as [i|l cm|v]; cbn [printable_comp single_tok_comp cstmt_of stmt_of]; intros H S; try reflexivity.
  rewrite comment_op_is. destruct (is_comment (i_op i)) eqn:C; [reflexivity|].
  destruct (agree_instr msel i H S C) as (im & I & Pr). now rewrite I, Pr.
Qed.

(* ---------------------------------------------------------------- lines  `op word* [// anything]` *)
Definition wordy_arg (a : arg) : bool := match a with AInt _ => true | AStr s => word s | _ => false end.
Definition nonl_str (s : string) : Prop := no_nl (list_ascii_of_string s).
Definition nonl_arg (a : arg) : Prop := match a with AInt _ => True | AStr s => nonl_str s | _ => False end.

Lemma concat_sep_no_nl : forall l, Forall nonl_str l -> nonl_str (concat_sep " " l).
Proof.
  induction l as [|x t IH]; intros H; [constructor|].
  inversion H as [|? ? Hx Ht]; subst. specialize (IH Ht).
  destruct t as [|y t']; [exact Hx|].
  change (concat_sep " " (x :: y :: t')) with (x ++ " " ++ concat_sep " " (y :: t'))%string.
  unfold nonl_str. rewrite !los_app. apply no_nl_app; [exact Hx|]. apply no_nl_app; [apply no_nl_space|exact IH].
Qed.

Lemma assemble_args_app : forall a b,
  assemble_args (a ++ b) =
  match assemble_args a, assemble_args b with Some x, Some y => Some (x ++ y) | _, _ => None end.
Proof.
  induction a as [|x t IH]; intros b.
  - cbn [app assemble_args]. destruct (assemble_args b); reflexivity.
  - cbn [app assemble_args]. rewrite IH.
    destruct (assemble_arg x); destruct (assemble_args t); destruct (assemble_args b); reflexivity.
Qed.

Lemma assemble_nonl : forall args, Forall nonl_arg args ->
  exists parts, assemble_args args = Some parts /\ Forall nonl_str parts.
Proof.
  induction args as [|a t IH]; intros H; [exists []; split; [reflexivity|constructor]|].
  inversion H as [|? ? Ha Ht]; subst. destruct (IH Ht) as (parts & A & N).
  destruct a as [n|s|l|u|sb]; try contradiction; cbn [assemble_args assemble_arg]; rewrite A.
  - exists (N_to_dec n :: parts). split; [reflexivity|]. constructor; [apply word_no_nl, dec_word|exact N].
  - exists (s :: parts). split; [reflexivity|]. constructor; [exact Ha|exact N].
Qed.

Lemma wordy_tokens : forall pre, forallb wordy_arg pre = true ->
  exists ws, assemble_args pre = Some ws /\ forallb word ws = true /\
    arg_tokens id_sigma pre = Some ws /\
    forall orig, arg_tokens id_sigma (pre ++ AStr "//" :: orig) = Some ws.
Proof.
  induction pre as [|a t IH]; intros H.
  - exists []. repeat split.
  - cbn [forallb] in H. apply andb_true_iff in H as [Ha Ht]. destruct (IH Ht) as (ws & A & W & T & T').
    destruct a as [n|s|l|u|sb]; try discriminate Ha.
    + exists (N_to_dec n :: ws). cbn [assemble_args assemble_arg forallb app arg_tokens is_comment_arg arg_token].
      rewrite A, W, T, dec_word. repeat split. intros orig. now rewrite T'.
    + cbn [wordy_arg] in Ha.
      exists (s :: ws). cbn [assemble_args assemble_arg forallb app arg_tokens is_comment_arg arg_token].
      rewrite A, W, T, Ha, (word_not_comment s Ha), id_subst. repeat split. intros orig. now rewrite T'.
Qed.

Lemma tokens_tail : forall ws, forallb word ws = true ->
  forall parts, tokens_of_line (concat_sep " " (ws ++ "//" :: parts)) = ws.
Proof.
  induction ws as [|w t IH]; intros H parts.
  - cbn [app]. destruct parts as [|y r]; [reflexivity|].
    change (concat_sep " " ("//" :: y :: r)) with ("//" ++ (" " ++ concat_sep " " (y :: r)))%string.
    apply tokens_comment_line.
  - cbn [forallb] in H. apply andb_true_iff in H as [Hw Ht].
    cbn [app]. destruct (t ++ "//" :: parts) as [|y r] eqn:E; [destruct t; discriminate E|].
    change (concat_sep " " (w :: y :: r)) with (w ++ " " ++ concat_sep " " (y :: r))%string.
    rewrite tokens_cons by exact Hw. rewrite <- E, IH by exact Ht. reflexivity.
Qed.

Lemma wordy_line msel o pre tail :
  comment_op o = false -> forallb wordy_arg pre = true ->
  (tail = [] \/ exists orig, tail = AStr "//" :: orig /\ Forall nonl_arg orig) ->
  exists line, assemble_instr (mkI o (pre ++ tail)) = Some line /\ nonl_str line /\
    forall ss, cstmt_of id_sigma msel (COp (mkI o (pre ++ tail))) = Some ss -> line_stmts msel line = Some ss.
Proof.
  intros C Hpre Htail.
  destruct (wordy_tokens pre Hpre) as (ws & A & W & T & T').
  pose proof (opc_name_word o C) as Wn.
  assert (W1 : forallb word (opc_name o :: ws) = true) by (cbn [forallb]; now rewrite Wn, W).
  assert (Fin : forall line ts, tokens_of_line line = opc_name o :: ws ->
            arg_tokens id_sigma (pre ++ tail) = Some ws ->
            forall ss, cstmt_of id_sigma msel (COp (mkI o (pre ++ tail))) = Some ss -> ts = ws ->
            line_stmts msel line = Some ss).
  { intros line ts Tk At ss Hs _. cbn [cstmt_of i_op] in Hs. rewrite C in Hs.
    unfold parsed_of in Hs. cbn [i_op i_args] in Hs. rewrite At in Hs.
    destruct (parse_stmt msel (opc_name o :: ws)) as [[[p|l|v]|]|] eqn:Pr; try discriminate Hs.
    injection Hs as <-.
    exact (line_one msel line (opc_name o :: ws) (Some (SInstr p)) Tk (words_no_semi _ W1) Pr). }
  unfold assemble_instr. cbn [i_op i_args].
  destruct Htail as [->|(orig & -> & Ho)].
  - rewrite app_nil_r in *. rewrite A. eexists. split; [reflexivity|]. split.
    + apply (words_no_nl _ W1).
    + intros ss Hs. apply (Fin _ ws); try assumption; [|reflexivity].
      apply tokens_words; [discriminate|exact W1].
  - destruct (assemble_nonl orig Ho) as (parts & Ao & No).
    rewrite assemble_args_app, A. cbn [assemble_args assemble_arg]. rewrite Ao.
    eexists. split; [reflexivity|]. split.
    + apply concat_sep_no_nl. constructor; [apply word_no_nl, Wn|]. apply Forall_app. split.
      * apply Forall_forall. intros w Hin. rewrite forallb_forall in W. apply word_no_nl, W, Hin.
      * constructor; [|exact No]. repeat constructor; intros E; discriminate E.
    + intros ss Hs. apply (Fin _ ws); try assumption; [|apply T'|reflexivity].
      change (opc_name o :: ws ++ "//" :: parts) with ((opc_name o :: ws) ++ "//" :: parts).
      apply tokens_tail. exact W1.
Qed.

(* ---------------------------------------------------------------- components whose printed lines read back *)
Definition reads_back (msel : list (string * bytes)) (c : comp) : Prop :=
  exists item ls, assemble_comp c = Some item /\ ls <> [] /\ item = join_nl ls /\ all_no_nl ls /\
    forall ss, cstmt_of id_sigma msel c = Some ss -> lines_stmts msel ls = Some ss.

(* C01's class (with one-token byte literals) *)
Lemma reads_back_printable msel c : printable_comp msel c = true -> single_tok_comp c = true -> reads_back msel c.
Proof.
  intros H S. destruct (comp_lines msel c H) as (item & ls & A & NE & I & N & ss0 & S0 & P0).
  exists item, ls. repeat (split; [assumption|]).
  intros ss Hs. rewrite (agree_comp msel c H S), S0 in Hs. injection Hs as <-. exact P0.
Qed.

Lemma reads_back_wordy msel o pre tail :
  comment_op o = false -> forallb wordy_arg pre = true ->
  (tail = [] \/ exists orig, tail = AStr "//" :: orig /\ Forall nonl_arg orig) ->
  reads_back msel (COp (mkI o (pre ++ tail))).
Proof.
  intros C Hp Ht. destruct (wordy_line msel o pre tail C Hp Ht) as (line & A & N & R).
  exists line, [line]. cbn [assemble_comp]. split; [exact A|]. split; [discriminate|]. split; [reflexivity|].
  split; [constructor; [exact N|constructor]|]. intros ss Hs. rewrite lines_stmts_one. exact (R ss Hs).
Qed.

Lemma reads_back_all msel : forall code, Forall (reads_back msel) code ->
  exists items lss,
    assemble_all code = Some items /\ items = map join_nl lss /\
    Forall (fun ls => ls <> []) lss /\ all_no_nl (List.concat lss) /\
    List.length items = List.length code /\
    forall ss, cstmts_of id_sigma msel code = Some ss -> lines_stmts msel (List.concat lss) = Some ss.
Proof.
  induction 1 as [|c t (item & ls & Ac & NEc & Ic & Nc & Rc) _ (items & lss & A & I & NE & N & L & R)].
  - exists [], []. repeat split; try constructor. intros ss Hs. injection Hs as <-. reflexivity.
  - exists (item :: items), (ls :: lss). cbn [assemble_all]. rewrite Ac, A.
    split; [reflexivity|]. split; [cbn [map]; now rewrite Ic, I|]. split; [constructor; assumption|].
    split; [cbn [List.concat]; apply Forall_app; split; assumption|].
    split; [cbn [List.length]; now rewrite L|].
    intros ss Hs. cbn [cstmts_of] in Hs.
    destruct (cstmt_of id_sigma msel c) as [x|] eqn:Ex; [|discriminate Hs].
    destruct (cstmts_of id_sigma msel t) as [r|] eqn:Er; [|discriminate Hs]. injection Hs as <-.
    cbn [List.concat]. rewrite lines_stmts_app, (Rc x eq_refl), (R r eq_refl). reflexivity.
Qed.

Lemma text_reads msel code lines : code <> [] -> Forall (reads_back msel) code ->
  assemble_all code = Some lines ->
  forall ss, cstmts_of id_sigma msel code = Some ss -> statements_of_text msel (program_text lines) = Some ss.
Proof.
  intros Hne H A ss Hs. destruct (reads_back_all msel code H) as (items & lss & A' & I & NE & N & L & R).
  rewrite A in A'. injection A' as <-.
  unfold statements_of_text, program_text. rewrite I, join_nl_concat by exact NE.
  rewrite split_lines_join; [exact (R ss Hs)| |exact N].
  intros E. destruct lss as [|ls rest]; [subst lines; destruct code; [congruence|discriminate L]|].
  inversion NE as [|? ? Hls _]; subst. cbn [List.concat] in E. destruct ls; [congruence|discriminate E].
Qed.

Lemma reads_back_assembles msel code : Forall (reads_back msel) code -> exists lines, assemble_all code = Some lines.
Proof. intros H. destruct (reads_back_all msel code H) as (items & ? & A & _). exists items. exact A. Qed.

(* the program the assembler builds from the text `#pragma version v` + code *)
Lemma text_program msel v code lines ss :
  Forall (reads_back msel) code -> assemble_all (CPragma v :: code) = Some lines ->
  cstmts_of id_sigma msel code = Some ss ->
  parse_program msel (program_text lines) = clink id_sigma msel v code.
Proof.
  intros H A Hs.
  assert (Hp : reads_back msel (CPragma v)) by (apply reads_back_printable; reflexivity).
  assert (S1 : cstmts_of id_sigma msel (CPragma v :: code) = Some (SPragma v :: ss)).
  { cbn [cstmts_of cstmt_of]. rewrite Hs. reflexivity. }
  unfold parse_program. rewrite (text_reads msel (CPragma v :: code) lines ltac:(discriminate) (Forall_cons _ Hp H) A _ S1).
  unfold clink. rewrite Hs. reflexivity.
Qed.

(* ---------------------------------------------------------------- the spelling of block entries and pushes *)
Lemma wc_hexdigit n : (n < 16)%N -> wc (hexdigit n) = true.
Proof.
  intros H. destruct (small_cases16 n H) as [E|[E|[E|[E|[E|[E|[E|[E|[E|[E|[E|[E|[E|[E|[E|E]]]]]]]]]]]]]]];
    subst n; reflexivity.
Qed.

Lemma wc_hex_of_bytes b : forallb wc (hex_of_bytes b) = true.
Proof.
  induction b as [|c t IH]; [reflexivity|]. cbn [hex_of_bytes forallb].
  pose proof (N_ascii_bounded c) as Hc.
  rewrite !wc_hexdigit, IH; [reflexivity| |].
  - apply N.mod_lt. discriminate.
  - apply N.div_lt_upper_bound; [discriminate|]. change (16 * 16)%N with 256%N. exact Hc.
Qed.

Lemma hex_word b : word (hex_spelling b) = true.
Proof.
  unfold word, hex_spelling, bytes_to_hex.
  assert (W : wordl (list_ascii_of_string ("0x" ++ string_of_list_ascii (hex_of_bytes b))) = true).
  { apply wc_wordl. cbn [append list_ascii_of_string forallb]. rewrite los_sol, wc_hex_of_bytes. reflexivity. }
  rewrite W. reflexivity.
Qed.

Definition plain_key (k : ckey) : bool := match k with KTmpl _ => false | _ => true end.

Lemma key_arg_wordy k : plain_key k = true ->
  wordy_arg (int_key_arg k) = true /\ wordy_arg (bytes_key_arg k) = true.
Proof.
  destruct k as [n|b|s]; intros H; try discriminate H; cbn [int_key_arg bytes_key_arg wordy_arg];
    (split; [try reflexivity|try reflexivity]); apply (hex_word b).
Qed.

Lemma key_args_wordy bytes_like ks : Forall (fun k => plain_key k = true) ks ->
  forallb wordy_arg (map (if bytes_like : bool then bytes_key_arg else int_key_arg) ks) = true.
Proof.
  induction 1 as [|k t Hk _ IH]; [reflexivity|]. cbn [map forallb]. rewrite IH.
  destruct (key_arg_wordy k Hk) as [A B]. destruct bytes_like; [now rewrite B|now rewrite A].
Qed.

(* ---------------------------------------------------------------- shape of createConstantBlocks' output *)
Section Shape.
Variable addr_hash : bytes -> bytes.
Variable sig_hash : string -> bytes.
Variable msel : list (string * bytes).

Lemma rewrite_comp_shape iks fb sb c c' :
  rewrite_comp addr_hash sig_hash iks fb sb c = Some c' ->
  match c with
  | COp i =>
      if is_const_instr i then
        exists k o' pre, extract_key addr_hash sig_hash i = Some k /\
          c' = COp (mkI o' (pre ++ cmt (i_args i))) /\ comment_op o' = false /\
          (pre = [] \/ (exists n, pre = [AInt n]) \/ pre = [int_key_arg k] \/ pre = [bytes_key_arg k])
      else c' = c
  | _ => c' = c
  end.
Proof.
  destruct c as [i|l cm|pv]; cbn [rewrite_comp]; intros H; [|now injection H..].
  unfold is_const_instr. destruct (const_kind (i_op i)).
  - destruct (extract_key addr_hash sig_hash i) as [k|]; [|discriminate H].
    destruct (index_of k iks) as [idx|]; injection H as <-.
    + destruct idx as [|[|[|[|idx]]]]; cbn [load_op]; eexists k, _, _; (split; [reflexivity|]).
      1-4: split; [change (cmt (i_args i)) with ([] ++ cmt (i_args i)) at 1; reflexivity|]; split; [reflexivity|]; now left.
      split; [change (AInt (N.of_nat (S (S (S (S idx))))) :: cmt (i_args i)) with ([AInt (N.of_nat (S (S (S (S idx)))))] ++ cmt (i_args i)); reflexivity|].
      split; [reflexivity|]. right; left. eexists; reflexivity.
    + eexists k, _, [int_key_arg k]. split; [reflexivity|]. split; [reflexivity|]. split; [reflexivity|]. right; right; now left.
  - destruct (extract_key addr_hash sig_hash i) as [k|]; [|discriminate H].
    destruct (freq_of k fb =? 1)%nat.
    + injection H as <-. eexists k, _, [bytes_key_arg k]. split; [reflexivity|]. split; [reflexivity|]. split; [reflexivity|]. right; right; now right.
    + destruct (index_of k (map fst sb)) as [idx|]; [|discriminate H]. injection H as <-.
      destruct idx as [|[|[|[|idx]]]]; cbn [load_op]; eexists k, _, _; (split; [reflexivity|]).
      1-4: split; [change (cmt (i_args i)) with ([] ++ cmt (i_args i)) at 1; reflexivity|]; split; [reflexivity|]; now left.
      split; [change (AInt (N.of_nat (S (S (S (S idx))))) :: cmt (i_args i)) with ([AInt (N.of_nat (S (S (S (S idx)))))] ++ cmt (i_args i)); reflexivity|].
      split; [reflexivity|]. right; left. eexists; reflexivity.
  - now injection H.
Qed.

Lemma ccb_shape ops out : create_constant_blocks addr_hash sig_hash ops = Some out ->
  exists iks bks fb sb body,
    out = block_prologue iks bks ++ body /\
    Forall2 (fun c c' => rewrite_comp addr_hash sig_hash iks fb sb c = Some c') ops body /\
    (forall k, In k iks -> has_site addr_hash sig_hash ops CKInt k) /\
    (forall k, In k bks -> has_site addr_hash sig_hash ops CKBytes k).
Proof.
  unfold create_constant_blocks, make_plan. intros H.
  destruct (count_consts addr_hash sig_hash ops [] []) as [[fi fb]|] eqn:Hcount; [|discriminate H].
  cbn [pl_int_block pl_fb pl_sorted_bytes pl_byte_block] in H.
  destruct (rewrite_all addr_hash sig_hash (int_block_from 0 (sort_desc fi)) fb (sort_desc fb) ops) as [body|] eqn:Hrw;
    [|discriminate H].
  injection H as <-.
  destruct (count_consts_inv addr_hash sig_hash ops _ _ _ _ Hcount) as (_ & _ & Ki & Kb).
  exists (int_block_from 0 (sort_desc fi)), (byte_block_of (sort_desc fb)), fb, (sort_desc fb), body.
  split; [reflexivity|]. split; [|split].
  - eapply rewrite_all_forall2; [exact Hrw|]. intros c c' _ Hc. exact Hc.
  - intros k Hk. apply int_block_from_incl in Hk. unfold keys in Hk. apply in_map_iff in Hk.
    destruct Hk as ([k' n] & <- & Hin). apply (proj1 (sort_desc_in _ _)) in Hin.
    assert (Hk' : In k' (keys fi)) by (change k' with (fst (k', n)); now apply in_map).
    destruct (Ki k' Hk') as [[]|Hs]. exact Hs.
  - intros k Hk. unfold byte_block_of in Hk. apply in_map_iff in Hk.
    destruct Hk as ([k' n] & <- & Hin). apply filter_In in Hin. destruct Hin as [Hin _].
    apply (proj1 (sort_desc_in _ _)) in Hin.
    assert (Hk' : In k' (keys fb)) by (change k' with (fst (k', n)); now apply in_map).
    destruct (Kb k' Hk') as [[]|Hs]. exact Hs.
Qed.

(* a printable constant site is never a placeholder, and its arguments are free of line feeds *)
Lemma printable_site msel' i k :
  printable_instr msel' i = true -> single_tok_instr i = true -> no_addr_template_site (COp i) ->
  is_const_instr i = true -> extract_key addr_hash sig_hash i = Some k ->
  plain_key k = true /\ Forall nonl_arg (i_args i).
Proof.
  destruct i as [o args]. unfold printable_instr, single_tok_instr, is_const_instr, extract_key.
  cbn [i_op i_args no_addr_template_site]. intros H S Na C X.
  destruct o; try discriminate C; cbn [kind_of] in H, S.
  - (* int *)
    destruct args as [|[n|s|l|u|sb] [|a2 r]]; try discriminate H.
    + cbn [extract_int] in X. injection X as <-. split; [reflexivity|]. repeat constructor.
    + apply andb_true_iff in H as [Hw Hp]. cbn [extract_int] in X.
      destruct (is_tmpl_name s) eqn:T; [rewrite (tmpl_not_int s T) in Hp; discriminate Hp|].
      destruct (assoc_str s int_enum_values) as [n|]; [|discriminate X]. injection X as <-.
      split; [reflexivity|]. constructor; [apply word_no_nl, Hw|constructor].
  - (* byte *)
    destruct args as [|[n|s|l|u|sb] [|a2 r]]; try discriminate H.
    apply andb_true_iff in H as [Hn Hp]. apply strs_eqb_eq in S. rewrite S in Hp.
    destruct (is_tmpl_name s) eqn:T; [rewrite (tmpl_not_bytes s T) in Hp; discriminate Hp|].
    destruct (extract_bytes_kind s k X T) as [b ->].
    split; [reflexivity|]. constructor; [apply no_nlb_spec, Hn|constructor].
  - (* addr *)
    destruct args as [|[n|s|l|u|sb] [|a2 r]]; try discriminate H.
    apply andb_true_iff in H as [H Hd]. apply andb_true_iff in H as [Hw Hl].
    cbn [extract_addr] in X. rewrite Na in X.
    destruct s as [|c s']; [discriminate Hl|].
    destruct (decode_address addr_hash (list_ascii_of_string (String c s'))) as [key|]; [|discriminate X].
    injection X as <-. split; [reflexivity|]. constructor; [apply word_no_nl, Hw|constructor].
  - (* method *)
    destruct args as [|[n|s|l|u|sb] [|a2 r]]; try discriminate H.
    apply andb_true_iff in H as [H Hp]. apply andb_true_iff in H as [Hn Ht].
    cbn [extract_method] in X.
    destruct (list_ascii_of_string s) as [|q l']; [discriminate X|].
    destruct (Ascii.eqb q """" && last_is """" (q :: l')); [|discriminate X]. injection X as <-.
    split; [reflexivity|]. constructor; [apply no_nlb_spec, Hn|constructor].
Qed.
End Shape.

(* ---------------------------------------------------------------- the theorem for the texts *)
Lemma forall2_right {A B} (R : A -> B -> Prop) (Q : B -> Prop) l1 l2 :
  Forall2 R l1 l2 -> (forall a b, In a l1 -> R a b -> Q b) -> Forall Q l2.
Proof.
  induction 1 as [|a b l1 l2 Hab _ IH]; intros H; constructor.
  - apply (H a b); [now left|exact Hab].
  - apply IH. intros a' b' Hin. apply H. now right.
Qed.

Lemma agree_list msel : forall code, printable msel code = true -> single_tok code = true ->
  cstmts_of id_sigma msel code = stmts_of msel code.
Proof.
  induction code as [|c t IH]; intros H S; [reflexivity|].
  unfold printable in H. unfold single_tok in S. cbn [forallb] in H, S.
  apply andb_true_iff in H as [Hc Ht]. apply andb_true_iff in S as [Sc St].
  cbn [cstmts_of stmts_of]. rewrite (agree_comp msel c Hc Sc), (IH Ht St). reflexivity.
Qed.

Lemma printable_reads_back msel code : printable msel code = true -> single_tok code = true ->
  Forall (reads_back msel) code.
Proof.
  intros H S. unfold printable in H. unfold single_tok in S. rewrite forallb_forall in H, S.
  apply Forall_forall. intros c Hin. apply reads_back_printable; [apply H|apply S]; exact Hin.
Qed.

Section TextTheorem.
Variable addr_hash : bytes -> bytes.
Variable sig_hash : string -> bytes.
Variable msel : list (string * bytes).
Hypothesis Hmsel : msel_consistent sig_hash msel.

(* every line of the output reads back *)
Lemma out_reads_back ops out :
  create_constant_blocks addr_hash sig_hash ops = Some out ->
  printable msel ops = true -> single_tok ops = true -> input_ok id_sigma msel ops ->
  Forall (reads_back msel) out.
Proof.
  intros Hc Hp Hs Hok.
  destruct (ccb_shape addr_hash sig_hash ops out Hc) as (iks & bks & fb & sb & body & -> & Hrw & Hik & Hbk).
  pose proof Hp as Hp'. pose proof Hs as Hs'. unfold printable in Hp'. unfold single_tok in Hs'.
  rewrite forallb_forall in Hp', Hs'. unfold input_ok in Hok. rewrite Forall_forall in Hok.
  assert (Site : forall i k, In (COp i) ops -> is_const_instr i = true ->
                   extract_key addr_hash sig_hash i = Some k -> plain_key k = true /\ Forall nonl_arg (i_args i)).
  { intros i k Hin Hci Hx. destruct (Hok _ Hin) as (_ & Hna & _).
    exact (printable_site addr_hash sig_hash msel i k (Hp' _ Hin) (Hs' _ Hin) Hna Hci Hx). }
  assert (Pk : forall kd k, kd <> CKNone -> has_site addr_hash sig_hash ops kd k -> plain_key k = true).
  { intros kd k Hkd (i & Hin & Hk & Hx). apply (Site i k Hin); [|exact Hx].
    unfold is_const_instr. rewrite Hk. destruct kd; congruence. }
  apply Forall_app. split.
  - assert (Pi : Forall (fun k => plain_key k = true) iks).
    { apply Forall_forall. intros k Hk. apply (Pk CKInt); [discriminate|apply Hik, Hk]. }
    assert (Pb : Forall (fun k => plain_key k = true) bks).
    { apply Forall_forall. intros k Hk. apply (Pk CKBytes); [discriminate|apply Hbk, Hk]. }
    assert (Ri : reads_back msel (COp (mkI O_intcblock (map int_key_arg iks)))).
    { rewrite <- (app_nil_r (map int_key_arg iks)).
      apply reads_back_wordy; [reflexivity|exact (key_args_wordy false iks Pi)|now left]. }
    assert (Rb : reads_back msel (COp (mkI O_bytecblock (map bytes_key_arg bks)))).
    { rewrite <- (app_nil_r (map bytes_key_arg bks)).
      apply reads_back_wordy; [reflexivity|exact (key_args_wordy true bks Pb)|now left]. }
    unfold block_prologue. destruct iks; destruct bks; cbn [app]; repeat constructor; assumption.
  - apply (forall2_right _ _ _ _ Hrw). intros c c' Hin Hr.
    pose proof (rewrite_comp_shape addr_hash sig_hash iks fb sb c c' Hr) as Sh.
    destruct c as [i|l cm|pv]; try (subst c'; apply reads_back_printable; [apply Hp'|apply Hs']; exact Hin).
    destruct (is_const_instr i) eqn:Hci; [|subst c'; apply reads_back_printable; [apply Hp'|apply Hs']; exact Hin].
    destruct Sh as (k & o' & pre & Hx & -> & Co & Hpre).
    destruct (Site i k Hin Hci Hx) as [Hk Hnl]. destruct (key_arg_wordy k Hk) as [Wi Wb].
    apply reads_back_wordy; [exact Co| |right; exists (i_args i); split; [reflexivity|exact Hnl]].
    destruct Hpre as [->|[[n ->]|[->| ->]]]; cbn [forallb]; try reflexivity; [now rewrite Wi|now rewrite Wb].
Qed.

Theorem constants_text_equiv v ops out lines P :
  create_constant_blocks addr_hash sig_hash ops = Some out ->
  printable msel ops = true -> single_tok ops = true ->
  input_ok id_sigma msel ops -> no_block_ops ops = true -> indexes_encodable out = true ->
  assemble_all (CPragma v :: ops) = Some lines ->
  parse_program msel (program_text lines) = Some P ->
  exists lines' P',
    assemble_all (CPragma v :: out) = Some lines' /\
    parse_program msel (program_text lines') = Some P' /\
    exists pro body ib bb,
      out = pro ++ body /\
      blocks_after id_sigma msel pro [] [] = Some (ib, bb) /\
      Forall2 (site_ok id_sigma msel ib bb) ops body /\
      pr_version P' = pr_version P /\
      (forall cx st k,
         run (k + List.length pro) cx P' (init_mach st) =
         run k cx P' (mkM (List.length pro) [] [] false ib bb st)) /\
      (forall st, lockrel (List.length pro) ib bb (init_mach st) (mkM (List.length pro) [] [] false ib bb st)) /\
      (forall cx m m', lockrel (List.length pro) ib bb m m' ->
         match step cx P m, step cx P' m' with
         | Running a, Running a' => lockrel (List.length pro) ib bb a a'
         | Done v a, Done v' a' => v' = v /\ lockrel (List.length pro) ib bb a a'
         | _, _ => False
         end) /\
      (forall cx st k,
         run_sim (List.length pro) ib bb (run k cx P (init_mach st)) (run (k + List.length pro) cx P' (init_mach st))).
Proof.
  intros Hc Hp Hs Hok Hnb Hie A HP.
  (* the pseudo-op text *)
  pose proof (printable_reads_back msel ops Hp Hs) as RB0.
  destruct (lines_roundtrip msel ops Hp) as (_ & _ & ss0 & _ & _ & _ & _ & _ & S0 & _).
  rewrite <- (agree_list msel ops Hp Hs) in S0.
  rewrite (text_program msel v ops lines ss0 RB0 A S0) in HP.
  (* the text with assembled constants *)
  destruct (constants_link_total addr_hash sig_hash id_sigma msel Hmsel ops out v P Hc Hok Hnb HP) as [P' HP'].
  pose proof (out_reads_back ops out Hc Hp Hs Hok) as RB1.
  assert (RBp : reads_back msel (CPragma v)) by (apply reads_back_printable; reflexivity).
  destruct (reads_back_assembles msel (CPragma v :: out) (Forall_cons _ RBp RB1)) as [lines' A'].
  assert (S1 : exists ss1, cstmts_of id_sigma msel out = Some ss1).
  { unfold clink in HP'. destruct (cstmts_of id_sigma msel out) as [ss1|]; [eexists; reflexivity|discriminate HP']. }
  destruct S1 as [ss1 S1].
  exists lines', P'. split; [exact A'|]. split; [rewrite (text_program msel v out lines' ss1 RB1 A' S1); exact HP'|].
  exact (constants_program_equiv addr_hash sig_hash id_sigma msel Hmsel ops out v P P' Hc Hok Hnb Hie HP HP').
Qed.
End TextTheorem.
