(* Proofs/ABILayoutProof.v — the ARC-4 spec of ABI/Spec.v factors through the layout normal form:
   dynamic-ness, static length, well-typedness and the encoding of a value depend on [canon t] only. *)
From Coq Require Import List NArith Ascii String Bool Lia.
From PV Require Import Base.Bytes ABI.Types ABI.Spec ABI.Layout.
Import ListNotations.

Lemma is_bool_canon : forall t, lis_bool (canon t) = is_bool t.
Proof. destruct t; reflexivity. Qed.

Lemma existsb_map_ext : forall {A B} (f : A -> bool) (g : B -> bool) (h : A -> B) l,
    Forall (fun x => g (h x) = f x) l -> existsb g (map h l) = existsb f l.
Proof.
  intros A B f g h l H; induction H as [|x r Hx _ IH]; simpl; [reflexivity|]. rewrite Hx, IH; reflexivity.
Qed.

Theorem is_dynamic_canon : forall t, layout_dyn (canon t) = is_dynamic t.
Proof.
  induction t as [| | n | | | e n IH | e IH | nm ts IH | n | | k | k] using ty_ind'; simpl;
    try reflexivity; try exact IH.
  apply existsb_map_ext; exact IH.
Qed.

Theorem static_len_canon : forall t, layout_slen (canon t) = static_len t.
Proof.
  induction t as [| | n | | | e n IH | e IH | nm ts IH | n | | k | k] using ty_ind'; simpl;
    try reflexivity.
  - rewrite is_bool_canon, IH; reflexivity.
  - rewrite map_map. f_equal.
    induction IH as [|x r Hx _ IHr]; simpl; [reflexivity|].
    rewrite is_bool_canon, Hx, IHr; reflexivity.
  - (* StaticBytes n : n * (8 / 8) *)
    change (8 / 8)%N with 1%N. apply N.mul_1_r.
Qed.

(* ---- extensionality of the combinators ---- *)
Lemma forallb_ext_all : forall {A} (f g : A -> bool) l, (forall x, f x = g x) -> forallb f l = forallb g l.
Proof. intros A f g l H; induction l as [|x r IH]; simpl; [reflexivity|]. rewrite H, IH; reflexivity. Qed.

Lemma static_array_ok_ext : forall f g n v, (forall x, f x = g x) -> static_array_ok f n v = static_array_ok g n v.
Proof. intros f g n v H; unfold static_array_ok. destruct (elems_of v); [|reflexivity]. rewrite (forallb_ext_all f g l H); reflexivity. Qed.

Lemma dyn_array_ok_ext : forall f g v, (forall x, f x = g x) -> dyn_array_ok f v = dyn_array_ok g v.
Proof. intros f g v H; unfold dyn_array_ok. destruct (elems_of v); [|reflexivity]. rewrite (forallb_ext_all f g l H); reflexivity. Qed.

Lemma tuple_ok_canon : forall (F : ty -> val -> bool) (G : layout -> val -> bool) ts v,
    Forall (fun t => forall x, G (canon t) x = F t x) ts ->
    tuple_ok (map G (map canon ts)) v = tuple_ok (map F ts) v.
Proof.
  intros F G ts v H; unfold tuple_ok. destruct v as [b|n|bs|vs]; try reflexivity.
  revert vs; induction H as [|t r Ht _ IH]; intros [|x vr]; simpl; try reflexivity.
  rewrite Ht, IH; reflexivity.
Qed.

Theorem has_type_canon : forall t v, layout_has_type (canon t) v = val_has_type t v.
Proof.
  induction t as [| | n | | | e n IH | e IH | nm ts IH | n | | k | k] using ty_ind'; intro v; simpl;
    try reflexivity.
  - apply static_array_ok_ext; exact IH.
  - apply dyn_array_ok_ext; exact IH.
  - apply tuple_ok_canon; exact IH.
Qed.

Lemma enc_elem_ext : forall eb ed f g v, (forall x, f x = g x) -> enc_elem eb ed f v = enc_elem eb ed g v.
Proof. intros eb ed f g v H; unfold enc_elem. destruct eb; [reflexivity|]. rewrite H; reflexivity. Qed.

Lemma enc_all_ext : forall f g vs, (forall x, f x = g x) -> enc_all f vs = enc_all g vs.
Proof. intros f g vs H; induction vs as [|v r IH]; simpl; [reflexivity|]. rewrite H, IH; reflexivity. Qed.

Lemma static_array_enc_ext : forall eb ed f g n v,
    (forall x, f x = g x) -> static_array_enc eb ed f n v = static_array_enc eb ed g n v.
Proof.
  intros eb ed f g n v H; unfold static_array_enc. destruct (elems_of v) as [vs|]; [|reflexivity]. simpl.
  rewrite (enc_all_ext (enc_elem eb ed f) (enc_elem eb ed g) vs (fun x => enc_elem_ext eb ed f g x H)). reflexivity.
Qed.

Lemma dyn_array_enc_ext : forall eb ed f g v,
    (forall x, f x = g x) -> dyn_array_enc eb ed f v = dyn_array_enc eb ed g v.
Proof.
  intros eb ed f g v H; unfold dyn_array_enc. destruct (elems_of v) as [vs|]; [|reflexivity]. simpl.
  rewrite (enc_all_ext (enc_elem eb ed f) (enc_elem eb ed g) vs (fun x => enc_elem_ext eb ed f g x H)). reflexivity.
Qed.

Lemma enc_seq_canon : forall (F : ty -> val -> option bytes) (G : layout -> val -> option bytes) ts vs,
    Forall (fun t => forall x, G (canon t) x = F t x) ts ->
    enc_seq (map (fun l => enc_elem (lis_bool l) (layout_dyn l) (G l)) (map canon ts)) vs =
    enc_seq (map (fun t => enc_elem (is_bool t) (is_dynamic t) (F t)) ts) vs.
Proof.
  intros F G ts vs H; revert vs; induction H as [|t r Ht _ IH]; intros [|x vr]; simpl; try reflexivity.
  rewrite is_bool_canon, is_dynamic_canon, IH.
  rewrite (enc_elem_ext (is_bool t) (is_dynamic t) (G (canon t)) (F t) x Ht). reflexivity.
Qed.

(* the encoding depends on the layout only *)
Theorem encode_canon : forall t v, layout_encode (canon t) v = arc4_encode t v.
Proof.
  induction t as [| | n | | | e n IH | e IH | nm ts IH | n | | k | k] using ty_ind'; intro v; simpl;
    try reflexivity.
  - rewrite is_bool_canon, is_dynamic_canon. apply static_array_enc_ext; exact IH.
  - rewrite is_bool_canon, is_dynamic_canon. apply dyn_array_enc_ext; exact IH.
  - unfold tuple_enc. destruct v as [b|n|bs|vs]; try reflexivity.
    rewrite (enc_seq_canon arc4_encode layout_encode ts vs IH). reflexivity.
Qed.

(* ---- consequences: two types with the same layout are indistinguishable on the wire ---- *)
Theorem same_layout_same_descr : forall a b, canon a = canon b ->
    is_dynamic a = is_dynamic b /\ static_len a = static_len b.
Proof.
  intros a b H. rewrite <- !is_dynamic_canon, <- !static_len_canon, H. split; reflexivity.
Qed.

Theorem same_layout_same_values : forall a b, canon a = canon b ->
    forall v, val_has_type a v = val_has_type b v.
Proof. intros a b H v. rewrite <- !has_type_canon, H. reflexivity. Qed.

Theorem same_layout_same_encoding : forall a b, canon a = canon b ->
    forall v, arc4_encode a v = arc4_encode b v.
Proof. intros a b H v. rewrite <- !encode_canon, H. reflexivity. Qed.

(* ---- layout_eqb decides equality ---- *)
Lemma layout_eqb_refl : forall l, layout_eqb l l = true.
Proof.
  induction l as [| n | e n IH | e IH | ls IH | | k] using layout_ind'; simpl; try reflexivity.
  - apply N.eqb_refl.
  - rewrite IH, N.eqb_refl; reflexivity.
  - exact IH.
  - induction IH as [|x r Hx _ IHr]; [reflexivity|]. rewrite Hx; exact IHr.
  - destruct k; reflexivity.
Qed.

Lemma layout_eqb_sound : forall a b, layout_eqb a b = true -> a = b.
Proof.
  induction a as [| n | e n IH | e IH | ls IH | | k] using layout_ind'; intros b H; destruct b; simpl in H;
    try discriminate; try reflexivity.
  - apply N.eqb_eq in H; congruence.
  - apply andb_true_iff in H as [H1 H2]. apply IH in H1. apply N.eqb_eq in H2. congruence.
  - apply IH in H; congruence.
  - f_equal. revert elems H. induction IH as [|x r Hx _ IHr]; intros [|y r2] H; try discriminate; try reflexivity.
    apply andb_true_iff in H as [Ha Hb]. apply Hx in Ha. apply IHr in Hb. congruence.
  - destruct k, k0; simpl in H; congruence.
Qed.

Theorem layout_eqb_eq : forall a b, layout_eqb a b = true <-> a = b.
Proof. intros a b; split; [apply layout_eqb_sound | intros ->; apply layout_eqb_refl]. Qed.
