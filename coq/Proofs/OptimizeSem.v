(* Proofs/OptimizeSem.v — semantic core of the scratch-slot optimiser (C03).
   WIP part 1: states equal up to a set of scratch cells; every op outside load/store/loads/stores
   is parametric in the scratch space. *)
From Coq Require Import List Arith NArith String Bool Lia.
From PV Require Import Base.Bytes AVM.Syntax AVM.Ops AVM.Machine Src.Expr Src.Denote
  Comp.Blocks Comp.Lower Comp.Passes Comp.GraphSem Comp.SimCheck Proofs.NormalizeSem.
Import ListNotations.

(* ---- the scratch space as a parameter of the state ---- *)
Definition with_scratch (st : mstate) (sc : list (N * value)) : mstate :=
  mkSt sc (s_global st) (s_local st) (s_boxes st) (s_itxn st) (s_last_itxn st) (s_trace st).

Definition scratch_opc (o : opc) : bool :=
  match o with O_load | O_store | O_loads | O_stores => true | _ => false end.

Lemma exec_op_frame cx o im stk st sc :
  scratch_opc o = false ->
  match exec_op cx o im stk st with
  | OOk s st' => s_scratch st' = s_scratch st /\ exec_op cx o im stk (with_scratch st sc) = OOk s (with_scratch st' sc)
  | OFail => exec_op cx o im stk (with_scratch st sc) = OFail
  | ONot => exec_op cx o im stk (with_scratch st sc) = ONot
  | OUnsup => exec_op cx o im stk (with_scratch st sc) = OUnsup
  end.
Proof.
  intros Hs. unfold exec_op.
  destruct (exec_pure o (imms_to_args im) stk) as [s| |]; [split; reflexivity|reflexivity|].
  destruct st as [sc0 gl lo bx it li tr].
  Local Ltac frame_cbn :=
    cbn [with_scratch s_scratch s_global s_local s_boxes s_itxn s_last_itxn s_trace
         set_scratch set_global set_local set_boxes add_event set_itxn submit_itxn
         push_field push_afield last_itxn itxn_txn];
    unfold push_field, push_afield, last_itxn, itxn_txn;
    cbn [with_scratch s_scratch s_global s_local s_boxes s_itxn s_last_itxn s_trace].
  destruct o; try discriminate Hs; clear Hs; cbv beta iota; frame_cbn;
    repeat (match goal with
            | |- context [match ?x with _ => _ end] => is_var x; destruct x
            | |- context [match ?x with _ => _ end] =>
                lazymatch x with
                | context [match _ with _ => _ end] => fail
                | _ => destruct x
                end
            (* a boolean test whose only inner matches sit under binders (the log budget of O_log) *)
            | |- context [if ?c then _ else _] =>
                lazymatch type of c with bool => destruct c end
            end; frame_cbn);
    try reflexivity; try (split; reflexivity).
Qed.

(* ---- scratch cells ---- *)
Lemma alookup_aremove i j (l : list (N * value)) :
  alookup N.eqb j (aremove N.eqb i l) = if N.eqb j i then None else alookup N.eqb j l.
Proof.
  induction l as [|[k v] t IH]; cbn [aremove alookup].
  - destruct (N.eqb j i); reflexivity.
  - destruct (N.eqb i k) eqn:E1.
    + apply N.eqb_eq in E1. subst k. rewrite IH. destruct (N.eqb j i) eqn:E2; reflexivity.
    + cbn [alookup]. destruct (N.eqb j k) eqn:E2.
      * apply N.eqb_eq in E2. subst k. rewrite N.eqb_sym in E1. rewrite E1. reflexivity.
      * exact IH.
Qed.

Lemma scratch_get_aset sc i v j :
  scratch_get (aset N.eqb i v sc) j = if N.eqb j i then v else scratch_get sc j.
Proof.
  unfold scratch_get, aset. cbn [alookup]. destruct (N.eqb j i) eqn:E; [reflexivity|].
  rewrite alookup_aremove, E. reflexivity.
Qed.

(* two scratch spaces agree outside the set of cells C *)
Definition cells_agree (C : N -> Prop) (a b : list (N * value)) : Prop :=
  forall i, ~ C i -> scratch_get a i = scratch_get b i.

(* states equal except for the scratch cells in C *)
Definition st_eqx (C : N -> Prop) (st1 st2 : mstate) : Prop :=
  cells_agree C (s_scratch st1) (s_scratch st2) /\ st2 = with_scratch st1 (s_scratch st2).

Lemma with_scratch_self st : with_scratch st (s_scratch st) = st.
Proof. destruct st; reflexivity. Qed.

Lemma st_eqx_intro C st sc : cells_agree C (s_scratch st) sc -> st_eqx C st (with_scratch st sc).
Proof. intros H. split; [exact H|reflexivity]. Qed.

Lemma st_eqx_elim C st1 st2 :
  st_eqx C st1 st2 -> exists sc, st2 = with_scratch st1 sc /\ cells_agree C (s_scratch st1) sc.
Proof. intros [H1 H2]. exists (s_scratch st2). split; assumption. Qed.

Lemma st_eqx_refl C st : st_eqx C st st.
Proof. split; [intros i _; reflexivity|symmetry; apply with_scratch_self]. Qed.

Lemma st_eqx_mono (C C' : N -> Prop) st1 st2 :
  (forall i, C i -> C' i) -> st_eqx C st1 st2 -> st_eqx C' st1 st2.
Proof. intros Hi [H1 H2]. split; [|exact H2]. intros i Hn. apply H1. intros Hc. apply Hn, Hi, Hc. Qed.

Lemma st_eqx_trans (C1 C2 : N -> Prop) a b c :
  st_eqx C1 a b -> st_eqx C2 b c -> st_eqx (fun i => C1 i \/ C2 i) a c.
Proof.
  intros [H1 H2] [H3 H4]. split.
  - intros i Hn. rewrite H1, H3; [reflexivity| |]; intros Hc; apply Hn; [right|left]; exact Hc.
  - rewrite H4. rewrite H2. reflexivity.
Qed.

Lemma st_eqx_sym C a b : st_eqx C a b -> st_eqx C b a.
Proof.
  intros [H1 H2]. split.
  - intros i Hn. symmetry. apply H1, Hn.
  - rewrite H2. cbn. destruct a; reflexivity.
Qed.

Lemma st_eqx_set_both C st1 st2 i v :
  st_eqx C st1 st2 -> st_eqx C (set_scratch st1 i v) (set_scratch st2 i v).
Proof.
  intros H. destruct (st_eqx_elim _ _ _ H) as [sc [-> Hc]].
  change (set_scratch (with_scratch st1 sc) i v)
    with (with_scratch (set_scratch st1 i v) (aset N.eqb i v sc)).
  apply st_eqx_intro. cbn [set_scratch s_scratch].
  intros j Hn. rewrite !scratch_get_aset. destruct (N.eqb j i); [reflexivity|]. apply Hc, Hn.
Qed.

Lemma st_eqx_set_left (C : N -> Prop) st1 st2 c v :
  C c -> st_eqx C st1 st2 -> st_eqx C (set_scratch st1 c v) st2.
Proof.
  intros Hin H. destruct (st_eqx_elim _ _ _ H) as [sc [-> Hc]].
  change (with_scratch st1 sc) with (with_scratch (set_scratch st1 c v) sc).
  apply st_eqx_intro. cbn [set_scratch s_scratch].
  intros j Hn. rewrite scratch_get_aset.
  destruct (N.eqb j c) eqn:E; [apply N.eqb_eq in E; subst j; contradiction|]. apply Hc, Hn.
Qed.

Lemma st_eqx_get C st1 st2 i : st_eqx C st1 st2 -> ~ C i ->
  scratch_get (s_scratch st1) i = scratch_get (s_scratch st2) i.
Proof. intros [H _] Hn. apply H, Hn. Qed.

(* ---- which cell an operation READS (writes never break agreement outside C) ---- *)
Definition op_reads (o : opc) (im : list imm) (stk : list value) : option N :=
  match o, im, stk with
  | O_load, [IInt i], _ => Some i
  | O_loads, _, VI i :: _ => Some i
  | _, _, _ => None
  end.

Definition ores_eqx (C : N -> Prop) (r1 r2 : ores) : Prop :=
  match r1, r2 with
  | OOk s1 a, OOk s2 b => s1 = s2 /\ st_eqx C a b
  | OFail, OFail | ONot, ONot | OUnsup, OUnsup => True
  | _, _ => False
  end.

Lemma exec_op_eqx cx C o im stk st1 st2 :
  st_eqx C st1 st2 ->
  (forall c, op_reads o im stk = Some c -> ~ C c) ->
  ores_eqx C (exec_op cx o im stk st1) (exec_op cx o im stk st2).
Proof.
  intros H Hs. destruct (scratch_opc o) eqn:Eo.
  - destruct o; try discriminate Eo; clear Eo; unfold exec_op.
    + (* load *)
      change (exec_pure O_load (imms_to_args im) stk) with PNot. cbv beta iota.
      destruct im as [|[i|b|n] [|x t]]; try exact Logic.I.
      destruct (N.ltb i 256); [|exact Logic.I].
      split; [|exact H]. f_equal. apply (st_eqx_get _ _ _ _ H). apply Hs. reflexivity.
    + (* store *)
      change (exec_pure O_store (imms_to_args im) stk) with PNot. cbv beta iota.
      destruct im as [|[i|b|n] [|x t]]; destruct stk as [|v r]; try exact Logic.I.
      destruct (N.ltb i 256); [|exact Logic.I].
      split; [reflexivity|]. apply st_eqx_set_both, H.
    + (* loads *)
      change (exec_pure O_loads (imms_to_args im) stk) with PNot. cbv beta iota.
      destruct stk as [|[i|b] r]; try exact Logic.I.
      destruct (N.ltb i 256); [|exact Logic.I].
      split; [|exact H]. f_equal. apply (st_eqx_get _ _ _ _ H). apply Hs. reflexivity.
    + (* stores *)
      change (exec_pure O_stores (imms_to_args im) stk) with PNot. cbv beta iota.
      destruct stk as [|v [|[i|b] r]]; try exact Logic.I.
      destruct (N.ltb i 256); [|exact Logic.I].
      split; [reflexivity|]. apply st_eqx_set_both, H.
  - destruct (st_eqx_elim _ _ _ H) as [sc [-> Hc]].
    pose proof (exec_op_frame cx o im stk st1 sc Eo) as F.
    destruct (exec_op cx o im stk st1) as [s a| | |].
    + destruct F as [F1 F2]. rewrite F2. split; [reflexivity|].
      apply st_eqx_intro. rewrite F1. exact Hc.
    + rewrite F. exact Logic.I.
    + rewrite F. exact Logic.I.
    + rewrite F. exact Logic.I.
Qed.

(* ---- one operation of the graph semantics ---- *)
Definition instr_reads (env : denv) (i : instr) (stk : list value) : option N :=
  match slot_access (i_op i) (i_args i) with
  | Some (true, u) => Some (e_asg env u)
  | Some (false, _) => None
  | None =>
      match args_to_imms env (i_op i) (i_args i) with
      | Some im => op_reads (i_op i) im stk
      | None => None
      end
  end.

Definition dout_eqx (C : N -> Prop) (r1 r2 : dout) : Prop :=
  match r1, r2 with
  | DNorm s1 a, DNorm s2 b => s1 = s2 /\ st_eqx C a b
  | DFail, DFail => True
  | DUnsup o1, DUnsup o2 => o1 = o2
  | _, _ => False
  end.

Lemma do_op_eqx env C i stk st1 st2 :
  st_eqx C st1 st2 ->
  (forall c, instr_reads env i stk = Some c -> ~ C c) ->
  dout_eqx C (do_op env (i_op i) (i_args i) stk st1) (do_op env (i_op i) (i_args i) stk st2).
Proof.
  intros H Hs. unfold do_op. unfold instr_reads in Hs.
  destruct (slot_access (i_op i) (i_args i)) as [[[|] u]|].
  - split; [|exact H]. f_equal. apply (st_eqx_get _ _ _ _ H). apply Hs. reflexivity.
  - destruct stk as [|v r]; [exact Logic.I|]. split; [reflexivity|]. apply st_eqx_set_both, H.
  - destruct (args_to_imms env (i_op i) (i_args i)) as [im|]; [|reflexivity].
    pose proof (exec_op_eqx (e_ctx env) C (i_op i) im stk st1 st2 H Hs) as E.
    destruct (exec_op (e_ctx env) (i_op i) im stk st1) as [s a| | |];
      destruct (exec_op (e_ctx env) (i_op i) im stk st2) as [s' a'| | |]; try contradiction.
    + exact E.
    + exact Logic.I.
    + destruct (is_err (i_op i)); [exact Logic.I|reflexivity].
    + reflexivity.
Qed.

(* ---- one block ---- *)
Lemma mem_N_In x l : mem_N x l = true <-> In x l.
Proof.
  induction l as [|y t IH]; cbn [mem_N In]; [split; [discriminate|tauto]|].
  rewrite orb_true_iff, IH, N.eqb_eq. split; intros [H|H]; auto.
Qed.

Lemma keep_op_store l s : In s l -> keep_op l (mkI O_store [ASlot s]) = false.
Proof.
  intros H. apply mem_N_In in H. unfold keep_op.
  change (is_op (mkI O_store [ASlot s]) O_store) with true. cbn [orb].
  change (instr_slots (mkI O_store [ASlot s])) with [s]. cbn [subset_N forallb]. rewrite H. reflexivity.
Qed.

Lemma keep_op_load l s : In s l -> keep_op l (mkI O_load [ASlot s]) = false.
Proof.
  intros H. apply mem_N_In in H. unfold keep_op.
  change (is_op (mkI O_load [ASlot s]) O_load) with true. rewrite orb_true_r.
  change (instr_slots (mkI O_load [ASlot s])) with [s]. cbn [subset_N forallb]. rewrite H. reflexivity.
Qed.

(* every op that [keep_op l] deletes is half of an adjacent store/load pair of one slot of l *)
Inductive paired (l : list N) : list instr -> Prop :=
| pr_nil : paired l []
| pr_keep i t : keep_op l i = true -> paired l t -> paired l (i :: t)
| pr_pair s t : In s l -> paired l t ->
    paired l (mkI O_store [ASlot s] :: mkI O_load [ASlot s] :: t).

Definition bres_eqx (C : N -> Prop) (r1 r2 : bres) : Prop :=
  match r1, r2 with
  | BOk s1 a, BOk s2 b => s1 = s2 /\ st_eqx C a b
  | BExit v1 a, BExit v2 b => v1 = v2 /\ st_eqx C a b
  | BRet s1 a, BRet s2 b => s1 = s2 /\ st_eqx C a b
  | BFail, BFail => True
  | BUnsup o1, BUnsup o2 => o1 = o2
  | _, _ => False
  end.

(* [P] holds at every (op, stack) point the execution of [ops] goes through *)
Fixpoint ops_safe (P : instr -> list value -> Prop) (env : denv) (ops : list instr)
         (stk : list value) (st : mstate) : Prop :=
  match ops with
  | [] => True
  | i :: t =>
      if is_return (i_op i) then True
      else if is_retsub (i_op i) then True
      else P i stk /\
           match do_op env (i_op i) (i_args i) stk st with
           | DNorm s' st' => ops_safe P env t s' st'
           | _ => True
           end
  end.

Section Step.
  Variable env : denv.
  Variable l : list N.
  Variable C : N -> Prop.
  Variable P : instr -> list value -> Prop.
  Hypothesis cells_in : forall s, In s l -> C (e_asg env s).
  Hypothesis P_keep : forall i stk, P i stk -> keep_op l i = true ->
    forall c, instr_reads env i stk = Some c -> ~ C c.
  Hypothesis P_store : forall s stk, In s l -> P (mkI O_store [ASlot s]) stk -> stk <> [].

  Lemma exec_ops_sim ops : paired l ops -> forall stk st1 st2,
    st_eqx C st1 st2 -> ops_safe P env ops stk st1 ->
    bres_eqx C (exec_ops env ops stk st1) (exec_ops env (filter (keep_op l) ops) stk st2) /\
    ops_safe P env (filter (keep_op l) ops) stk st2.
  Proof.
    induction 1 as [|i t Hk Hp IH|s t Hs Hp IH]; intros stk st1 st2 He Hsafe.
    - cbn. split; [split; [reflexivity|exact He]|exact Logic.I].
    - cbn [filter]. rewrite Hk. cbn [exec_ops ops_safe] in *.
      destruct (is_return (i_op i)).
      { split; [|exact Logic.I]. destruct stk as [|v r]; [exact Logic.I|]. split; [reflexivity|exact He]. }
      destruct (is_retsub (i_op i)).
      { split; [|exact Logic.I]. split; [reflexivity|exact He]. }
      destruct Hsafe as [HP Hrest].
      pose proof (do_op_eqx env C i stk st1 st2 He (P_keep i stk HP Hk)) as E.
      destruct (do_op env (i_op i) (i_args i) stk st1) as [s1 a| | | | | | | |];
        destruct (do_op env (i_op i) (i_args i) stk st2) as [s2 b| | | | | | | |]; try contradiction.
      + destruct E as [<- E]. destruct (IH s1 a b E Hrest) as [I1 I2]. split; [exact I1|]. split; [exact HP|exact I2].
      + split; [exact Logic.I|]. split; [exact HP|exact Logic.I].
      + cbn in E. subst. split; [reflexivity|]. split; [exact HP|exact Logic.I].
    - cbn [filter]. rewrite (keep_op_store l s Hs), (keep_op_load l s Hs).
      cbn [exec_ops ops_safe i_op i_args is_return is_retsub] in Hsafe |- *.
      destruct Hsafe as [HP Hrest].
      pose proof (P_store s stk Hs HP) as Hne.
      destruct stk as [|v r]; [contradiction|].
      change (do_op env O_store [ASlot s] (v :: r) st1) with (DNorm r (set_scratch st1 (e_asg env s) v)) in *.
      cbv beta iota in Hrest. destruct Hrest as [_ Hrest].
      change (do_op env O_load [ASlot s] r (set_scratch st1 (e_asg env s) v))
        with (DNorm (scratch_get (s_scratch (set_scratch st1 (e_asg env s) v)) (e_asg env s) :: r)
                    (set_scratch st1 (e_asg env s) v)) in *.
      cbv beta iota in Hrest |- *.
      cbn [set_scratch s_scratch] in Hrest |- *. rewrite scratch_get_aset, N.eqb_refl in Hrest |- *.
      apply IH; [|exact Hrest].
      apply (st_eqx_set_left C st1 st2 (e_asg env s) v (cells_in s Hs) He).
  Qed.
End Step.

(* ---- the graph ---- *)
Definition filter_block (l : list N) (b : block) : block := set_ops b (filter (keep_op l) (b_ops b)).

Definition conf_eqx (C : N -> Prop) (c1 c2 : gconf) : Prop :=
  match c1, c2 with
  | GAt b1 s1 a, GAt b2 s2 b => b1 = b2 /\ s1 = s2 /\ st_eqx C a b
  | GEnd s1 a, GEnd s2 b => s1 = s2 /\ st_eqx C a b
  | GExit v1 a, GExit v2 b => v1 = v2 /\ st_eqx C a b
  | GRet s1 a, GRet s2 b => s1 = s2 /\ st_eqx C a b
  | GFail, GFail => True
  | GUnsup o1, GUnsup o2 => o1 = o2
  | _, _ => False
  end.

Lemma conf_eqx_halting C c1 c2 : conf_eqx C c1 c2 -> (halting c1 <-> halting c2).
Proof. destruct c1, c2; cbn; tauto. Qed.

Definition conf_in (R : id -> Prop) (c : gconf) : Prop :=
  match c with GAt b _ _ => R b | _ => True end.

(* every block-execution that starts in a configuration reachable from [c] is [P]-safe *)
Definition safe_from (P : instr -> list value -> Prop) (env : denv) (G : bgraph) (c : gconf) : Prop :=
  forall b stk st blk, star env G c (GAt b stk st) -> G b = Some blk -> ops_safe P env (b_ops blk) stk st.

Lemma safe_from_step P env G c c' : gstep env G c = Some c' -> safe_from P env G c -> safe_from P env G c'.
Proof. intros E H b stk st blk S. apply H. eapply star_step; eauto. Qed.

Section GraphStep.
  Variable env : denv.
  Variable l : list N.
  Variable C : N -> Prop.
  Variable P : instr -> list value -> Prop.
  Hypothesis cells_in : forall s, In s l -> C (e_asg env s).
  Hypothesis P_keep : forall i stk, P i stk -> keep_op l i = true ->
    forall c, instr_reads env i stk = Some c -> ~ C c.
  Hypothesis P_store : forall s stk, In s l -> P (mkI O_store [ASlot s]) stk -> stk <> [].

  Variable R : id -> Prop.
  Variables G G' : bgraph.
  Hypothesis R_closed : forall b blk x, R b -> G b = Some blk -> In x (outgoing blk) -> R x.
  Hypothesis R_paired : forall b blk, R b -> G b = Some blk -> paired l (b_ops blk).
  Hypothesis G'_def : forall b, R b -> G' b = option_map (filter_block l) (G b).

  Lemma bstep_sim blk stk st1 st2 :
    paired l (b_ops blk) -> st_eqx C st1 st2 -> ops_safe P env (b_ops blk) stk st1 ->
    conf_eqx C (bstep env blk stk st1) (bstep env (filter_block l blk) stk st2).
  Proof.
    intros Hp He Hs.
    destruct (exec_ops_sim env l C P cells_in P_keep P_store _ Hp stk st1 st2 He Hs) as [E _].
    destruct blk as [ops n|ops t f]; cbn [filter_block set_ops b_ops bstep] in *.
    - destruct (exec_ops env ops stk st1) as [s1 a|v1 a|s1 a| |o1];
        destruct (exec_ops env (filter (keep_op l) ops) stk st2) as [s2 b|v2 b|s2 b| |o2]; try contradiction;
        try exact E.
      destruct E as [<- E]. destruct n as [x|]; cbn [cont_conf conf_eqx]; auto.
    - destruct (exec_ops env ops stk st1) as [s1 a|v1 a|s1 a| |o1];
        destruct (exec_ops env (filter (keep_op l) ops) stk st2) as [s2 b|v2 b|s2 b| |o2]; try contradiction;
        try exact E.
      destruct E as [<- E]. destruct s1 as [|v s1]; [exact Logic.I|].
      destruct (truthy v) as [[|]|]; [destruct t as [x|]|destruct f as [x|]|]; cbn [conf_eqx]; auto.
  Qed.

  Lemma gstep_sim c1 c2 :
    conf_eqx C c1 c2 -> conf_in R c1 -> safe_from P env G c1 ->
    match gstep env G c1, gstep env G' c2 with
    | Some d1, Some d2 => conf_eqx C d1 d2 /\ conf_in R d1
    | None, None => True
    | _, _ => False
    end.
  Proof.
    intros He Hr Hs.
    destruct c1 as [b stk st1|s a|v a|s a| |o]; destruct c2 as [b2 stk2 st2|s2 a2|v2 a2|s2 a2| |o2];
      try contradiction; try exact Logic.I.
    destruct He as [<- [<- He]]. cbn [conf_in] in Hr.
    rewrite !gstep_bstep, (G'_def b Hr).
    destruct (G b) as [blk|] eqn:Eb; cbn [option_map]; [|exact Logic.I].
    split.
    - apply bstep_sim; [eapply R_paired; eauto|exact He|].
      eapply Hs; [apply star_refl|exact Eb].
    - destruct (bstep env blk stk st1) as [x s' a'| | | | |] eqn:Es; cbn [conf_in]; try exact Logic.I.
      eapply R_closed; [exact Hr|exact Eb|]. eapply bstep_target. exact Es.
  Qed.

  Lemma star_sim_fwd c1 d1 : star env G c1 d1 -> forall c2,
    conf_eqx C c1 c2 -> conf_in R c1 -> safe_from P env G c1 ->
    exists d2, star env G' c2 d2 /\ conf_eqx C d1 d2.
  Proof.
    induction 1 as [c|c c' c'' E S IH]; intros c2 He Hr Hs.
    - exists c2. split; [apply star_refl|exact He].
    - pose proof (gstep_sim c c2 He Hr Hs) as X. rewrite E in X.
      destruct (gstep env G' c2) as [d2|] eqn:E2; [|contradiction].
      destruct X as [X1 X2].
      destruct (IH d2 X1 X2 (safe_from_step _ _ _ _ _ E Hs)) as [d3 [S3 E3]].
      exists d3. split; [eapply star_step; eauto|exact E3].
  Qed.

  Lemma star_sim_bwd c2 d2 : star env G' c2 d2 -> forall c1,
    conf_eqx C c1 c2 -> conf_in R c1 -> safe_from P env G c1 ->
    exists d1, star env G c1 d1 /\ conf_eqx C d1 d2 /\ conf_in R d1.
  Proof.
    induction 1 as [c|c c' c'' E S IH]; intros c1 He Hr Hs.
    - exists c1. split; [apply star_refl|]. split; assumption.
    - pose proof (gstep_sim c1 c He Hr Hs) as X. rewrite E in X.
      destruct (gstep env G c1) as [d1|] eqn:E1; [|contradiction].
      destruct X as [X1 X2].
      destruct (IH d1 X1 X2 (safe_from_step _ _ _ _ _ E1 Hs)) as [d3 [S3 E3]].
      exists d3. split; [eapply star_step; eauto|exact E3].
  Qed.

  Lemma safe_from_sim c1 c2 :
    conf_eqx C c1 c2 -> conf_in R c1 -> safe_from P env G c1 -> safe_from P env G' c2.
  Proof.
    intros He Hr Hs b stk st2 blk' S Eb'.
    destruct (star_sim_bwd _ _ S c1 He Hr Hs) as [d1 [S1 [E1 R1]]].
    destruct d1 as [b1 stk1 st1|s a|v a|s a| |o]; try contradiction.
    destruct E1 as [-> [-> E1]]. cbn [conf_in] in R1.
    rewrite (G'_def b R1) in Eb'.
    destruct (G b) as [blk|] eqn:Eb; [|discriminate]. cbn in Eb'. injection Eb' as <-.
    unfold filter_block. rewrite b_ops_set_ops.
    apply (exec_ops_sim env l C P cells_in P_keep P_store _ (R_paired b blk R1 Eb) stk st1 st2 E1).
    eapply Hs; eauto.
  Qed.
End GraphStep.

(* ---- algebra of the configuration relation ---- *)
Lemma conf_eqx_refl C c : conf_eqx C c c.
Proof.
  destruct c; cbn [conf_eqx]; try exact Logic.I; try reflexivity;
    try (split; [reflexivity|apply st_eqx_refl]).
  split; [reflexivity|]. split; [reflexivity|apply st_eqx_refl].
Qed.

Lemma conf_eqx_mono (C C' : N -> Prop) c1 c2 :
  (forall i, C i -> C' i) -> conf_eqx C c1 c2 -> conf_eqx C' c1 c2.
Proof.
  intros Hi. destruct c1, c2; cbn; try tauto.
  - intros [H1 [H2 H3]]. split; [assumption|]. split; [assumption|]. eapply st_eqx_mono; eauto.
  - intros [H1 H2]. split; [assumption|eapply st_eqx_mono; eauto].
  - intros [H1 H2]. split; [assumption|eapply st_eqx_mono; eauto].
  - intros [H1 H2]. split; [assumption|eapply st_eqx_mono; eauto].
Qed.

Lemma conf_eqx_trans (C : N -> Prop) c1 c2 c3 :
  conf_eqx C c1 c2 -> conf_eqx C c2 c3 -> conf_eqx C c1 c3.
Proof.
  assert (T : forall a b c, st_eqx C a b -> st_eqx C b c -> st_eqx C a c).
  { intros a b c H1 H2. eapply st_eqx_mono; [|eapply st_eqx_trans; eauto]. cbv beta. tauto. }
  destruct c1, c2, c3; cbn; try tauto.
  - intros [-> [-> H1]] [-> [-> H2]]. split; [reflexivity|]. split; [reflexivity|eauto].
  - intros [-> H1] [-> H2]. split; [reflexivity|eauto].
  - intros [-> H1] [-> H2]. split; [reflexivity|eauto].
  - intros [-> H1] [-> H2]. split; [reflexivity|eauto].
  - congruence.
Qed.

(* ---- the relation only looks at the graph through its blocks ---- *)
Lemma gstep_ext env (G G' : bgraph) c : (forall b, G b = G' b) -> gstep env G c = gstep env G' c.
Proof. intros H. destruct c; cbn [gstep]; try reflexivity. rewrite H. reflexivity. Qed.

Lemma star_ext env (G G' : bgraph) c d : (forall b, G b = G' b) -> star env G c d -> star env G' c d.
Proof.
  intros H. induction 1 as [c|c c' c'' E S IH]; [apply star_refl|].
  eapply star_step; [|exact IH]. rewrite <- (gstep_ext env G G' c H). exact E.
Qed.

(* ---- a decidable form of [paired] ---- *)
Definition is_store_of (i : instr) : option N :=
  match i_op i, i_args i with O_store, [ASlot s] => Some s | _, _ => None end.
Definition is_load_of (i : instr) : option N :=
  match i_op i, i_args i with O_load, [ASlot s] => Some s | _, _ => None end.

Fixpoint paired_b (fuel : nat) (l : list N) (ops : list instr) : bool :=
  match fuel with
  | O => false
  | S f =>
      match ops with
      | [] => true
      | i :: t =>
          if keep_op l i then paired_b f l t
          else match is_store_of i, t with
               | Some s, j :: t' =>
                   match is_load_of j with
                   | Some s' => N.eqb s s' && mem_N s l && paired_b f l t'
                   | None => false
                   end
               | _, _ => false
               end
      end
  end.

Lemma is_store_of_eq i s : is_store_of i = Some s -> i = mkI O_store [ASlot s].
Proof.
  destruct i as [o a]. unfold is_store_of. cbn [i_op i_args].
  destruct o; try discriminate. destruct a as [|[| | |u|] [|]]; try discriminate. congruence.
Qed.
Lemma is_load_of_eq i s : is_load_of i = Some s -> i = mkI O_load [ASlot s].
Proof.
  destruct i as [o a]. unfold is_load_of. cbn [i_op i_args].
  destruct o; try discriminate. destruct a as [|[| | |u|] [|]]; try discriminate. congruence.
Qed.

Lemma paired_b_sound l : forall fuel ops, paired_b fuel l ops = true -> paired l ops.
Proof.
  induction fuel as [|f IH]; intros ops H; [discriminate|]. cbn [paired_b] in H.
  destruct ops as [|i t]; [constructor|].
  destruct (keep_op l i) eqn:Ek; [apply pr_keep; auto|].
  destruct (is_store_of i) as [s|] eqn:Es; [|discriminate].
  destruct t as [|j t']; [discriminate|].
  destruct (is_load_of j) as [s'|] eqn:El; [|discriminate].
  apply andb_true_iff in H. destruct H as [H H3]. apply andb_true_iff in H. destruct H as [H1 H2].
  apply N.eqb_eq in H1. subst s'. apply mem_N_In in H2.
  rewrite (is_store_of_eq _ _ Es), (is_load_of_eq _ _ El). apply pr_pair; auto.
Qed.

