(* Proofs/OptimizeSem.v — semantic core of the scratch-slot optimiser (C03).
   WIP part 1: states equal up to a set of scratch cells; every op outside load/store/loads/stores
   is parametric in the scratch space. *)
From Coq Require Import List Arith NArith String Bool Lia.
From PV Require Import Base.Bytes AVM.Syntax AVM.Ops AVM.Machine Src.Expr Src.Denote
  Comp.Blocks Comp.Lower Comp.Passes Comp.GraphSem Comp.SimCheck Proofs.NormalizeSem.
Import ListNotations.

(* ---- the scratch space as a parameter of the state ---- *)
Definition with_scratch (st : mstate) (sc : list (N * value)) : mstate :=
  mkSt sc (s_global st) (s_local st) (s_boxes st) (s_itxn st) (s_last_itxn st) (s_trace st).

Definition scratch_opc (o : opc) : bool :=
  match o with O_load | O_store | O_loads | O_stores => true | _ => false end.

Lemma exec_op_frame cx o im stk st sc :
  scratch_opc o = false ->
  match exec_op cx o im stk st with
  | OOk s st' => s_scratch st' = s_scratch st /\ exec_op cx o im stk (with_scratch st sc) = OOk s (with_scratch st' sc)
  | OFail => exec_op cx o im stk (with_scratch st sc) = OFail
  | ONot => exec_op cx o im stk (with_scratch st sc) = ONot
  | OUnsup => exec_op cx o im stk (with_scratch st sc) = OUnsup
  end.
Proof.
  intros Hs. unfold exec_op.
  destruct (exec_pure o (imms_to_args im) stk) as [s| |]; [split; reflexivity|reflexivity|].
  destruct st as [sc0 gl lo bx it li tr].
  Local Ltac frame_cbn :=
    cbn [with_scratch s_scratch s_global s_local s_boxes s_itxn s_last_itxn s_trace
         set_scratch set_global set_local set_boxes add_event set_itxn submit_itxn
         push_field push_afield last_itxn itxn_txn];
    unfold push_field, push_afield, last_itxn, itxn_txn;
    cbn [with_scratch s_scratch s_global s_local s_boxes s_itxn s_last_itxn s_trace].
  destruct o; try discriminate Hs; clear Hs; cbv beta iota; frame_cbn;
    repeat (match goal with
            | |- context [match ?x with _ => _ end] => is_var x; destruct x
            | |- context [match ?x with _ => _ end] =>
                lazymatch x with
                | context [match _ with _ => _ end] => fail
                | _ => destruct x
                end
            end; frame_cbn);
    try reflexivity; try (split; reflexivity).
Qed.
