(* Proofs/SlotsCells.v — C10: with an injective, in-range numbering every variable is its own
   scratch cell on the AVM of AVM/Machine.v: a load returns the value last stored to the SAME
   variable, whatever is stored to other variables in between, through load/store and through
   loads/stores (DynamicScratchVar) alike. *)
From Coq Require Import List NArith Bool Lia.
From PV Require Import Base.Bytes AVM.Syntax AVM.Ops AVM.Machine Gen.SlotConfig Comp.Slots Proofs.SlotsProof.
Import ListNotations.
Local Open Scope N_scope.

(* one access to a variable of type V *)
Inductive action (V : Type) : Type :=
| Store (x : V) (v : value)        (* v is on the stack;  store <number of x> *)
| Load (x : V)                     (* load <number of x> *)
| StoreDyn (x : V) (v : value)     (* int <number of x> (ScratchIndex) below v on the stack;  stores *)
| LoadDyn (x : V).                 (* int <number of x> on the stack;  loads *)
Arguments Store {V}. Arguments Load {V}. Arguments StoreDyn {V}. Arguments LoadDyn {V}.

Definition var_of {V} (act : action V) : V :=
  match act with Store x _ | Load x | StoreDyn x _ | LoadDyn x => x end.

(* the machine: each action is executed by AVM/Machine.exec_op with the variable's slot number *)
Definition exec_action {V} (cx : ctx) (num : V -> N) (act : action V) (stk : list value) (st : mstate) : ores :=
  match act with
  | Store x v => exec_op cx O_store [IInt (num x)] (v :: stk) st
  | Load x => exec_op cx O_load [IInt (num x)] stk st
  | StoreDyn x v => exec_op cx O_stores [] (v :: VI (num x) :: stk) st
  | LoadDyn x => exec_op cx O_loads [] (VI (num x) :: stk) st
  end.

Fixpoint exec_actions {V} (cx : ctx) (num : V -> N) (acts : list (action V)) (stk : list value) (st : mstate) : ores :=
  match acts with
  | [] => OOk stk st
  | act :: t =>
      match exec_action cx num act stk st with
      | OOk stk' st' => exec_actions cx num t stk' st'
      | r => r
      end
  end.

(* the specification: variables are independent cells *)
Definition upd {V} (dec : forall x y : V, {x = y} + {x <> y}) (e : V -> value) (x : V) (v : value) : V -> value :=
  fun y => if dec y x then v else e y.

Fixpoint spec_run {V} (dec : forall x y : V, {x = y} + {x <> y}) (acts : list (action V))
         (e : V -> value) (out : list value) : (V -> value) * list value :=
  match acts with
  | [] => (e, out)
  | Store x v :: t => spec_run dec t (upd dec e x v) out
  | StoreDyn x v :: t => spec_run dec t (upd dec e x v) out
  | Load x :: t => spec_run dec t e (e x :: out)
  | LoadDyn x :: t => spec_run dec t e (e x :: out)
  end.

(* ---- scratch space facts ---- *)
Lemma alookup_aremove_neq (i j : N) (s : list (N * value)) : j <> i ->
  alookup N.eqb j (aremove N.eqb i s) = alookup N.eqb j s.
Proof.
  intros Hne. induction s as [|[k v] s IH]; cbn [aremove alookup]; auto.
  destruct (N.eqb_spec i k) as [->|Hik].
  - rewrite IH. destruct (N.eqb_spec j k); [contradiction|reflexivity].
  - cbn [alookup]. rewrite IH. reflexivity.
Qed.

Lemma scratch_get_set st i v j :
  scratch_get (s_scratch (set_scratch st i v)) j = if j =? i then v else scratch_get (s_scratch st) j.
Proof.
  unfold set_scratch, scratch_get, aset. cbn [s_scratch alookup].
  destruct (N.eqb_spec j i) as [->|Hne]; auto. rewrite alookup_aremove_neq; auto.
Qed.

Lemma set_scratch_other st i v :
  s_global (set_scratch st i v) = s_global st /\ s_local (set_scratch st i v) = s_local st /\
  s_boxes (set_scratch st i v) = s_boxes st /\ s_trace (set_scratch st i v) = s_trace st.
Proof. unfold set_scratch. cbn. auto. Qed.

Lemma exec_store cx i v stk st : i < 256 -> exec_op cx O_store [IInt i] (v :: stk) st = OOk stk (set_scratch st i v).
Proof. intros H. unfold exec_op. cbn [exec_pure imms_to_args]. apply N.ltb_lt in H. rewrite H. reflexivity. Qed.
Lemma exec_load cx i stk st : i < 256 -> exec_op cx O_load [IInt i] stk st = OOk (scratch_get (s_scratch st) i :: stk) st.
Proof. intros H. unfold exec_op. cbn [exec_pure imms_to_args]. apply N.ltb_lt in H. rewrite H. reflexivity. Qed.
Lemma exec_stores cx i v stk st : i < 256 -> exec_op cx O_stores [] (v :: VI i :: stk) st = OOk stk (set_scratch st i v).
Proof. intros H. unfold exec_op. cbn [exec_pure imms_to_args]. apply N.ltb_lt in H. rewrite H. reflexivity. Qed.
Lemma exec_loads cx i stk st : i < 256 -> exec_op cx O_loads [] (VI i :: stk) st = OOk (scratch_get (s_scratch st) i :: stk) st.
Proof. intros H. unfold exec_op. cbn [exec_pure imms_to_args]. apply N.ltb_lt in H. rewrite H. reflexivity. Qed.

(* ---- the theorem ---- *)
Lemma cells_independent_lemma : forall (V : Type) (dec : forall x y : V, {x = y} + {x <> y})
    (num : V -> N) (vars : list V) (cx : ctx) (acts : list (action V)) (stk : list value) (st : mstate) (e : V -> value),
  (forall x, In x vars -> num x < 256) ->
  (forall x y, In x vars -> In y vars -> num x = num y -> x = y) ->
  Forall (fun act => In (var_of act) vars) acts ->
  (forall x, In x vars -> scratch_get (s_scratch st) (num x) = e x) ->
  exists st',
    exec_actions cx num acts stk st = OOk (snd (spec_run dec acts e stk)) st' /\
    (forall x, In x vars -> scratch_get (s_scratch st') (num x) = fst (spec_run dec acts e stk) x) /\
    s_trace st' = s_trace st /\ s_global st' = s_global st /\ s_local st' = s_local st /\ s_boxes st' = s_boxes st.
Proof.
  intros V dec num vars cx acts. induction acts as [|act acts IH]; intros stk st e Hrange Hinj Hacts Hagree.
  - exists st. cbn. repeat split; auto.
  - inversion Hacts as [|? ? Hin Hrest]; subst.
    assert (Hstore : forall x v, In x vars ->
              forall y, In y vars -> scratch_get (s_scratch (set_scratch st (num x) v)) (num y) = upd dec e x v y).
    { intros x v Hx y Hy. rewrite scratch_get_set. unfold upd.
      destruct (dec y x) as [->|Hne].
      - rewrite N.eqb_refl. reflexivity.
      - destruct (N.eqb_spec (num y) (num x)) as [Heq|_]; [exfalso; apply Hne; apply Hinj; auto | apply Hagree; auto]. }
    destruct act as [x v|x|x v|x]; cbn [var_of] in Hin; cbn [exec_actions exec_action spec_run].
    + rewrite exec_store by (apply Hrange; exact Hin).
      destruct (IH stk (set_scratch st (num x) v) (upd dec e x v) Hrange Hinj Hrest (Hstore x v Hin)) as [st' [H1 [H2 H3]]].
      exists st'. split; [exact H1|]. split; [exact H2|]. cbn [set_scratch s_trace s_global s_local s_boxes] in H3. exact H3.
    + rewrite exec_load by (apply Hrange; exact Hin). rewrite (Hagree x Hin).
      destruct (IH (e x :: stk) st e Hrange Hinj Hrest Hagree) as [st' [H1 [H2 H3]]].
      exists st'. auto.
    + rewrite exec_stores by (apply Hrange; exact Hin).
      destruct (IH stk (set_scratch st (num x) v) (upd dec e x v) Hrange Hinj Hrest (Hstore x v Hin)) as [st' [H1 [H2 H3]]].
      exists st'. split; [exact H1|]. split; [exact H2|]. cbn [set_scratch s_trace s_global s_local s_boxes] in H3. exact H3.
    + rewrite exec_loads by (apply Hrange; exact Hin). rewrite (Hagree x Hin).
      destruct (IH (e x :: stk) st e Hrange Hinj Hrest Hagree) as [st' [H1 [H2 H3]]].
      exists st'. auto.
Qed.

(* instantiated with the numbering the compiler model produces *)
Lemma cells_independent_assigned_lemma : forall inp order v asg, set_order inp order -> requested_ids_valid inp ->
  assign_in_order order inp v = Ok asg ->
  forall (cx : ctx) (acts : list (action slot)) (stk : list value) (st : mstate) (e : slot -> value),
  Forall (fun act => referenced inp (var_of act)) acts ->
  (forall s, referenced inp s -> scratch_get (s_scratch st) (number_of (r_map asg) s) = e s) ->
  exists st',
    exec_actions cx (number_of (r_map asg)) acts stk st = OOk (snd (spec_run slot_eq_dec acts e stk)) st' /\
    (forall s, referenced inp s -> scratch_get (s_scratch st') (number_of (r_map asg) s) = fst (spec_run slot_eq_dec acts e stk) s) /\
    s_trace st' = s_trace st.
Proof.
  intros inp order v asg Hord Hvalid H cx acts stk st e Hacts Hagree.
  pose proof (assign_total_lemma _ _ _ _ Hord H) as Htot.
  assert (Hnum : forall s, referenced inp s -> lookup (r_map asg) s = Some (number_of (r_map asg) s)).
  { intros s Hs. destruct (proj1 (Htot s) Hs) as [n Hn]. unfold number_of. rewrite Hn. reflexivity. }
  destruct (cells_independent_lemma slot slot_eq_dec (number_of (r_map asg)) (all_slots inp) cx acts stk st e) as [st' [H1 [H2 [H3 _]]]].
  - intros s Hs. apply all_slots_spec in Hs. pose proof (assign_in_range_lemma _ _ _ _ Hord Hvalid H s _ (Hnum s Hs)).
    pose proof num_slots_fits_avm. lia.
  - intros s1 s2 H1 H2 Heq. apply all_slots_spec in H1, H2.
    apply (assign_injective_lemma _ _ _ _ Hord H s1 s2 (number_of (r_map asg) s1)); [apply Hnum; auto|].
    rewrite Heq. apply Hnum; auto.
  - eapply Forall_impl; [|exact Hacts]. intros act Hact. apply all_slots_spec. exact Hact.
  - intros s Hs. apply Hagree. apply all_slots_spec. exact Hs.
  - exists st'. split; [exact H1|]. split; [|exact H3]. intros s Hs. apply H2. apply all_slots_spec. exact Hs.
Qed.
