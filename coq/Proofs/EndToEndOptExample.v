(* Proofs/EndToEndOptExample.v — the hypotheses of [routine_end_to_end_optimized_partial] are satisfiable
   (on the example routine of Proofs/EndToEndExamples.v the optimiser finds no removable slot, so the
   behavioural side conditions hold vacuously and the conclusion is the unoptimised one). *)
From Coq Require Import List Arith NArith String Bool Lia.
From PV Require Import Base.Bytes AVM.Syntax AVM.Machine Src.Expr Src.Denote
  Comp.Blocks Comp.Lower Comp.Passes Comp.GraphSem Comp.LinearSem Comp.SimCheck Comp.Compile
  Proofs.LowerCorrect Proofs.LowerShape Proofs.NormalizeLowered Proofs.FlattenCorrect Proofs.SortCorrect
  Proofs.OptimizeSem Proofs.OptimizeCorrect
  Proofs.EndToEndGlue Proofs.EndToEnd Proofs.EndToEndExamples Proofs.EndToEndOpt.
Import ListNotations.

Definition exo_cr : croutine := cr_of opts0 ex_ast.
Definition exo_g : graph :=
  match optimize_routine (cr_graph exo_cr) (cr_start exo_cr) [] with Some x => x | None => cr_graph exo_cr end.
Definition exo_order : list id :=
  match sort_blocks exo_g (cr_start exo_cr) (cr_end exo_cr) with Some l => l | None => [] end.
Definition exo_code : list comp :=
  match flatten_blocks exo_g exo_order with Some c => c | None => [] end.

Example optimized_end_to_end_example :
  optimize_routine (cr_graph exo_cr) (cr_start exo_cr) [] = Some exo_g /\
  exists st', lstar ex_env1 exo_code (LAt 0 [] ex_st) (LExit (VI 1) st') /\
              lrun 200 ex_env1 exo_code (LAt 0 [] ex_st) = LExit (VI 1) st'.
Proof.
  assert (E : compile_one opts0 None ex_ast = COk exo_cr) by (vm_compute; reflexivity).
  assert (HO : optimize_routine (cr_graph exo_cr) (cr_start exo_cr) [] = Some exo_g).
  { unfold exo_g. destruct (optimize_routine (cr_graph exo_cr) (cr_start exo_cr) []) eqn:Q; [reflexivity|].
    vm_compute in Q. discriminate Q. }
  split; [exact HO|].
  assert (HS : sort_blocks exo_g (cr_start exo_cr) (cr_end exo_cr) = Some exo_order) by (vm_compute; reflexivity).
  assert (HF : flatten_blocks exo_g exo_order = Some exo_code) by (vm_compute; reflexivity).
  assert (Hb : ids_bounded (cr_graph exo_cr) (cr_start exo_cr)) by (apply ids_bounded_b_sound; vm_compute; reflexivity).
  assert (Hw : slot_ops_wf (cr_graph exo_cr) (iterate (cr_graph exo_cr) (cr_start exo_cr)))
    by (apply slot_ops_wf_b_sound; vm_compute; reflexivity).
  assert (Hno : no_orphan_store (cr_graph exo_cr) exo_g (cr_start exo_cr))
    by (apply no_orphan_b_sound; vm_compute; reflexivity).
  assert (NR : forall u, ~ removed_slot (cr_graph exo_cr) exo_g (cr_start exo_cr) u).
  { apply no_removed_of_loaded. vm_compute. intros x H. exact H. }
  assert (Hc : consistent ex_env1 (routine_ctx opts0 None)) by (apply consistent_main; reflexivity).
  destruct (routine_end_to_end_optimized_partial opts0 None ex_ast exo_cr [] exo_g exo_order exo_code
              eq_refl E eq_refl HO HS HF Hb Hw Hno) as [_ T].
  assert (Dn : ghalt_of (denote ex_env1 100 (root_ast ex_ast) [] ex_st) = Some (GExit (VI 1) ex_final))
    by (vm_compute; reflexivity).
  destruct (T ex_env1 Hc (inj_on_none _ _ NR) 100 [] ex_st _ Dn (safe_from_none _ _ _ _ NR)) as (gh' & Q & R & _).
  destruct gh' as [| |v st'| | |]; cbn [conf_eqx] in Q; try contradiction. destruct Q as [Qv _]. subst v.
  exists st'. split; [exact R|].
  destruct (lstar_lrun _ _ _ _ R eq_refl) as (n & Hn).
  pose proof (lrun_lstar ex_env1 exo_code 200 (LAt 0 [] ex_st)) as R2.
  assert (F2 : lfinal (lrun 200 ex_env1 exo_code (LAt 0 [] ex_st)) = true) by (vm_compute; reflexivity).
  exact (lstar_final_unique _ _ _ _ _ R2 F2 R eq_refl).
Qed.
