(* Proofs/ConstantsProgramLiterals.v — C12 text theorem, the hypothesis [single_tok]: every spelling the
   Bytes(...) constructors of C13 (Lit/BaseN.v: utf-8 string with escapes, raw bytes as 0x.., base32(..),
   base64(..), base16) print is ONE token of the assembler's tokeniser. *)
From Coq Require Import List Arith NArith Ascii String Bool Lia.
From PV Require Import Base.Bytes Base.Sexp AVM.Syntax AVM.Machine AVM.Parse Lit.BaseN
  Proofs.LitEscapeProof Proofs.LitBaseNProof Proofs.LitLineProof Proofs.LitFinalProof
  Proofs.StageEText Proofs.StageELiterals Proofs.ConstantsProgramText.
Import ListNotations.
Local Open Scope string_scope.

Lemma single_from_line s : tokens_of_line ("byte " ++ s) = ["byte"; s] -> tokens_of_line s = [s].
Proof.
  intros H. change ("byte " ++ s) with ("byte" ++ " " ++ s) in H.
  rewrite (tokens_cons "byte" s byte_word) in H. now injection H.
Qed.

Theorem bytes_literal_single_tok a s :
  bytes_payload a = Some s -> single_tok_instr (mkI O_byte [AStr s]) = true.
Proof.
  intros P.
  assert (T : tokens_of_line s = [s]).
  { apply single_from_line. destruct a as [u|b|base v]; cbn [bytes_payload] in P.
    - apply Some_inj in P. subst s. exact (escape_tokens u).
    - apply Some_inj in P. subst s.
      apply (tokens_hex (string_of_list_ascii (hex_lower b))).
      rewrite list_ascii_of_string_of_list_ascii. apply hex_lower_is_hex.
    - destruct (String.eqb base "base32").
      { destruct (valid_base32 v) eqn:V; [|discriminate P]. apply Some_inj in P. subst s.
        apply (tokens_base32 v). exact (valid32_chars _ V). }
      destruct (String.eqb base "base64").
      { destruct (valid_base64 v) eqn:V; [|discriminate P]. apply Some_inj in P. subst s.
        apply (tokens_base64 v). exact (valid64_chars _ V). }
      destruct (String.eqb base "base16"); [|discriminate P].
      destruct (valid_base16 (strip0x v)) eqn:V; [|discriminate P]. apply Some_inj in P. subst s.
      apply (tokens_hex (strip0x v)). exact (valid16_chars _ V). }
  unfold single_tok_instr. cbn [i_op i_args kind_of]. rewrite T. cbn [strs_eqb]. now rewrite String.eqb_refl.
Qed.
